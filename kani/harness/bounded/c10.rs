//! C10 bounded: airfoil analysis on sections with a KNOWN medial axis -- evaluated on the REAL code.
//! NOT a proof: every clause below is decided only on the enumerated family (testing-grade evidence, labelled bounded).
//!
//! FAMILY (closed sections).  (E) envelope sections: the envelope of the circles of radius r(s) centred on a camber curve
//! c(s), s in [0, L] (arc length), closed by the arcs of the two end circles; the medial axis is exactly c with radius law
//! r, the leading / trailing edge points are c(0) - r(0) t(0) and c(L) + r(L) t(L).  Camber: straight or a circular arc
//! (total turning angle 0.3 / 0.6 rad, convex side = +n); L = 10; radius laws: constant, linear taper, a NACA-like C1
//! bump with its maximum at 30 % of the camber and different end radii.  (H) half-ellipse pairs: two half ellipses
//! (semi-axes a1 / a2, common b) joined at the maximum thickness -- straight medial axis between the centres of curvature
//! of the two tips with r(x)^2 = b^2 (1 - x^2 / (a^2 - b^2)), edges of continuously varying curvature (the curvature-based
//! locators need these).  Outlines are sampled with n_side points per face and n_cap points per end arc (sagitta of the end arcs below the analysis tolerance), scaled by 0.1 / 1
//! / 10, posed by rigid motions, given in both windings and with rotated start vertices.  OPEN sections: an envelope
//! section with the trailing or the leading end cut away.
//! CONFIGURATIONS.  CamberOrient: DirectionFwd (towards the leading edge), TMaxFwd (only laws with a forward maximum);
//! EdgeLocate: the table `applicable()` (which locator on which law; pinned on the unchanged tree: "the analysis accepts
//! the section" is itself a clause); FaceOrient: UpperDir(+n), UpperDir(-n), Detect (arc camber only: a straight camber
//! has no convex side).  Analysis tolerance 1e-4 L, curve tolerance 1e-6 L.
//! ORACLES are computed here by brute force (distance to the outline edge by edge, closest point of the analytic camber
//! curve), independently of the parry queries the code under test uses.  Tolerances: the clauses the statement ties to
//! "the analysis tolerance" use exactly it; the discretisation tolerances were MEASURED on the unchanged tree
//! (VERIF_C10_MEASURE=1 prints the worst value per clause) and fixed at >= 5x the worst value seen (constants K_*).
//! WAVE 5 (parameter-space audit, notes/w5_audit_C10.md): sections H - K of `run()` add the shape classes (thin nose / thick
//! tail with the maximum just ahead of mid camber BY LENGTH, strong camber > 90 degrees, stubby sections), every direction
//! DirectionFwd may be given, oblique / tiny UpperDir vectors, the pairings of analysis and curve tolerance, explicit locator
//! parameters, open sections x every applicable locator x every pose class, magnitudes (2e5 from the origin, scale 1000,
//! 1e-8 motions), ties (start vertex on a tip, chord on an axis) and the ways a closed outline can be handed over.
//! REPORTED DEFECTS of engeom this check exposes (clause names "[defect ...]", see `defect()`): OpenEdge ignores the front
//! flag; ConstRadiusEdge appends a station whose contact points are swapped against its spanning ray; the seed station of
//! the camber search is listed twice; Circle2::from_3_points' ABSOLUTE collinearity threshold (|det| < 1e-6) makes the
//! curvature series / arc detection blind on small or finely sampled edges (TraceToMaxCurvature returns a wrong edge on a
//! chord-1 section, ConstRadiusEdge on 80-point end arcs).  Repairs for the first four: notes/c10_fix.diff.
use super::{thorough, Report};
use crate::airfoil::helpers::{find_tmax_circle, reverse_inscribed_circles, OrientedCircles};
use crate::airfoil::{
    extract_camber_line, AfGage, AirfoilGeometry, CamberOrient, ConstRadiusEdge, ConvergeTangentEdge, DirectionFwd, EdgeGeometry, EdgeLocate,
    FaceOrient, FitRadiusEdge, InscribedCircle, IntersectEdge, OpenEdge, OpenIntersectGap, RansacRadiusEdge, TMaxFwd, TraceToMaxCurvature,
};
use crate::geom2::{Curve2, Iso2, Line2, Point2, Vector2};
use std::sync::mpsc;
use std::time::Duration;

fn p2(x: f64, y: f64) -> Point2 { Point2::new(x, y) }
fn v2(x: f64, y: f64) -> Vector2 { Vector2::new(x, y) }
fn d2(a: &Point2, b: &Point2) -> f64 { ((a.x - b.x).powi(2) + (a.y - b.y).powi(2)).sqrt() }
fn cross(a: &Vector2, b: &Vector2) -> f64 { a.x * b.y - a.y * b.x }
fn rot_quarter(a: &Vector2) -> Vector2 { v2(-a.y, a.x) }

// ------------------------------------------------------------------------------------------------ tolerances
// all in units of the analysis tolerance (1e-4 L); measured worst value on the unchanged tree in brackets
/// station centre off the known camber curve / radius off the law, stations found by the inscribed-circle search [0.08 / 0.15]
const K_LAW: f64 = 1.0;
/// edge point off the true tip c(0) - r(0) t(0): the outline is a polygon (the tip is rounded off by the sagitta of the
/// end arc) and the locators extend the camber line STRAIGHT from the last searched station, about 1.25 end radii before
/// the tip (lateral error ~ camber curvature x r_end^2); allowed = K_EDGE * (tol + sagitta + 0.25 kappa r_end^2) [1.11]
const K_EDGE: f64 = 6.0;
/// the same with ConvergeTangentEdge (accepts a lateral error of 1 % of the last radius by design) [3.5]
const K_EDGE_CONVERGE: f64 = 20.0;
/// recovered maximum thickness radius [0.14]; get_thickness_max against 2 max r uses twice this [0.27 against 2]
const K_TMAX_R: f64 = 1.0;
/// gauge thickness at a camber position against the brute-force thickness along the true camber normal [0.25]
const K_GAUGE: f64 = 2.0;
/// invariance of the results under pose / winding / start vertex [0.094]
const K_INV: f64 = 0.5;
/// the same with ConvergeTangentEdge, which picks the edge among 1000 sampled candidates [5.03]
const K_INV_CONVERGE: f64 = 25.0;

// ------------------------------------------------------------------------------------------------ measuring aid
// VERIF_C10_MEASURE=1 prints the largest value seen per clause to stderr (how the tolerances were chosen).
struct Meter { on: bool, max: Vec<(String, f64, String)> }
impl Meter {
    fn new() -> Self { Meter { on: std::env::var("VERIF_C10_MEASURE").is_ok(), max: vec![] } }
    fn see<F: FnOnce() -> String>(&mut self, what: &str, e: f64, input: F) {
        if !self.on { return; }
        if let Some(m) = self.max.iter_mut().find(|m| m.0 == what) {
            if e > m.1 || e.is_nan() { m.1 = e; m.2 = input(); }
        } else { self.max.push((what.to_string(), e, input())); }
    }
    fn dump(&self) { if self.on { for m in &self.max { eprintln!("C10-MEASURE {:.3e}  {}  @ {}", m.1, m.0, m.2); } } }
}

// ------------------------------------------------------------------------------------------------ the family
#[derive(Clone, Copy, Debug, PartialEq)]
enum Cam { Straight, Arc(f64) }
#[derive(Clone, Copy, Debug, PartialEq)]
enum Law { Const(f64), Taper(f64, f64), Bump { le: f64, te: f64, amp: f64, at: f64 }, Ellipses { a1: f64, a2: f64, b: f64 } }
#[derive(Clone, Copy, Debug, PartialEq)]
struct Sec { cam: Cam, len: f64, law: Law, n_side: usize, n_cap: usize, scale: f64, ktol: f64, kcurve: f64 }

fn ell_f(a: f64, b: f64) -> f64 { (a * a - b * b) / a }

impl Sec {
    fn env(cam: Cam, law: Law) -> Sec { Sec { cam, len: 10.0, law, n_side: 160, n_cap: 40, scale: 1.0, ktol: 1e-4, kcurve: 1e-6 } }
    fn ell(a1: f64, a2: f64, b: f64) -> Sec { Sec { cam: Cam::Straight, len: ell_f(a1, b) + ell_f(a2, b), law: Law::Ellipses { a1, a2, b }, n_side: 120, n_cap: 0, scale: 1.0, ktol: 1e-4, kcurve: 1e-6 } }
    /// camber point, unit tangent, unit normal (tangent turned +90 degrees) at arc length s (canonical frame, unscaled)
    fn cam_at(&self, s: f64) -> (Point2, Vector2, Vector2) {
        match self.cam {
            Cam::Straight => (p2(s, 0.0), v2(1.0, 0.0), v2(0.0, 1.0)),
            Cam::Arc(theta) => {
                let rr = self.len / theta;
                let phi = -0.5 * theta + s / rr;
                (p2(rr * phi.sin(), rr * phi.cos() - rr * (0.5 * theta).cos()), v2(phi.cos(), -phi.sin()), v2(phi.sin(), phi.cos()))
            }
        }
    }
    /// radius law and its derivative with respect to arc length
    fn rad(&self, s: f64) -> (f64, f64) {
        let u = s / self.len;
        match self.law {
            Law::Const(r) => (r, 0.0),
            Law::Taper(a, b) => (a + (b - a) * u, (b - a) / self.len),
            Law::Bump { le, te, amp, at } => {
                let w = if u < at { at } else { 1.0 - at };
                let z = (u - at) / w;
                (le + (te - le) * u + amp * (1.0 - z * z), ((te - le) + amp * (-2.0 * z / w)) / self.len)
            }
            Law::Ellipses { a1, a2, b } => {
                let x = s - ell_f(a1, b);
                let a = if x < 0.0 { a1 } else { a2 };
                let m = a * a - b * b;
                let q = (1.0 - x * x / m).max(0.0).sqrt();
                (b * q, if q > 0.0 { -b * x / (m * q) } else { 0.0 })
            }
        }
    }
    /// (s, r) of the maximum radius (scan step 5e-5 L)
    fn rmax(&self) -> (f64, f64) { self.rmax_in(0.0, self.len) }
    /// the same over the part [s0, s1] of the camber
    fn rmax_in(&self, s0: f64, s1: f64) -> (f64, f64) {
        let mut best = (s0, self.rad(s0).0);
        let n = 20000;
        for k in 0..=n { let s = s0 + (s1 - s0) * k as f64 / n as f64; let r = self.rad(s).0; if r > best.1 { best = (s, r); } }
        best
    }
    fn envelope(&self, s: f64, side: f64) -> Point2 {
        let (c, t, n) = self.cam_at(s);
        let (r, dr) = self.rad(s);
        let w = (1.0 - dr * dr).sqrt();
        c + t * (-r * dr) + n * (side * r * w)
    }
    /// outline in the canonical frame (unscaled), counter-clockwise; `open`: Some((leading, f)) leaves out the part of
    /// the section before (leading) / beyond (trailing) the fraction f of the camber
    fn outline(&self, open: Option<(bool, f64)>) -> Vec<Point2> {
        let l = self.len;
        let mut pts = Vec::new();
        let ns = self.n_side;
        if let Law::Ellipses { a1, a2, b } = self.law {
            // start just below the leading tip, lower front, lower rear, trailing tip, upper rear, upper front
            let f1 = ell_f(a1, b);
            let hp = std::f64::consts::FRAC_PI_2;
            for k in 0..ns { let t = hp * k as f64 / ns as f64; pts.push(p2(f1 - a1 * t.cos(), -b * t.sin())); }
            for k in 0..ns { let t = hp * k as f64 / ns as f64; pts.push(p2(f1 + a2 * t.sin(), -b * t.cos())); }
            for k in 0..ns { let t = hp * k as f64 / ns as f64; pts.push(p2(f1 + a2 * t.cos(), b * t.sin())); }
            for k in 0..ns { let t = hp * k as f64 / ns as f64; pts.push(p2(f1 - a1 * t.sin(), b * t.cos())); }
            return pts;
        }
        let (smin, smax) = match open { None => (0.0, l), Some((true, f)) => (f * l, l), Some((false, f)) => (0.0, f * l) };
        let face = |side: f64, up: bool, pts: &mut Vec<Point2>| {
            let it: Vec<usize> = if up { (0..=ns).collect() } else { (0..=ns).rev().collect() };
            for k in it { let s = l * k as f64 / ns as f64; if s >= smin - 1e-12 && s <= smax + 1e-12 { pts.push(self.envelope(s, side)); } }
        };
        let cap = |s: f64, pts: &mut Vec<Point2>| {
            let (c, t, n) = self.cam_at(s);
            let (r, dr) = self.rad(s);
            let w = (1.0 - dr * dr).sqrt();
            // trailing cap: from the lower contact through +t to the upper contact; leading cap: upper through -t to lower
            let (a0, a1) = if s > 0.0 { let a0 = (-w).atan2(-dr); (a0, -a0) } else { let b0 = w.atan2(-dr); (b0, 2.0 * std::f64::consts::PI - b0) };
            for j in 1..=self.n_cap { let a = a0 + (a1 - a0) * j as f64 / (self.n_cap + 1) as f64; pts.push(c + t * (r * a.cos()) + n * (r * a.sin())); }
        };
        match open {
            None => { face(-1.0, true, &mut pts); cap(l, &mut pts); face(1.0, false, &mut pts); cap(0.0, &mut pts); }
            Some((false, _)) => { face(1.0, false, &mut pts); cap(0.0, &mut pts); face(-1.0, true, &mut pts); }
            Some((true, _)) => { face(-1.0, true, &mut pts); cap(l, &mut pts); face(1.0, false, &mut pts); }
        }
        pts
    }
    /// closest point of the analytic camber curve: (arc length s clamped to [0, L], distance), canonical UNSCALED frame
    fn camber_closest(&self, q: &Point2) -> (f64, f64) {
        match self.cam {
            Cam::Straight => { let s = q.x.clamp(0.0, self.len); (s, d2(q, &p2(s, 0.0))) }
            Cam::Arc(theta) => {
                let rr = self.len / theta;
                let o = p2(0.0, -rr * (0.5 * theta).cos());
                let phi = (q.x - o.x).atan2(q.y - o.y);
                let s = ((phi + 0.5 * theta) * rr).clamp(0.0, self.len);
                (s, d2(q, &self.cam_at(s).0))
            }
        }
    }
    /// position of the maximum radius as a fraction of the part of the camber the station search covers (it stops about
    /// 1.25 end radii before each tip)
    fn tmax_fraction(&self) -> f64 {
        let (s0, s1) = (1.25 * self.rad(0.0).0, self.len - 1.25 * self.rad(self.len).0);
        (self.rmax_in(s0, s1).0 - s0) / (s1 - s0)
    }
    fn le_point(&self) -> Point2 { let (c, t, _) = self.cam_at(0.0); c - t * self.rad(0.0).0 }
    fn te_point(&self) -> Point2 { let (c, t, _) = self.cam_at(self.len); c + t * self.rad(self.len).0 }
    fn core_tol(&self) -> f64 { self.ktol * self.len * self.scale }
    fn curve_tol(&self) -> f64 { self.kcurve * self.len * self.scale }
    fn has_fwd_max(&self) -> bool { match self.law { Law::Bump { .. } => self.tmax_fraction() < 0.47, Law::Ellipses { a1, a2, .. } => a1 < 0.8 * a2, Law::Taper(a, b) => a > b, _ => false } }
}

/// how the outline is handed to the analysis: rigid pose, winding, start vertex
#[derive(Clone, Copy, Debug, PartialEq)]
struct Pose { angle: f64, tx: f64, ty: f64, reversed: bool, rot: usize,
    /// how a CLOSED outline is handed over: 0 = open point list + force_closed (the usual way); 1 = first point repeated at the
    /// end, force_closed = false (closed because the ends coincide); 2 = first point repeated 0.4 curve tolerances away
    /// (closed within tolerance); 3 = as 0 with every 7th vertex listed twice and every 31st three times (duplicates)
    closure: u8 }
const ID: Pose = Pose { angle: 0.0, tx: 0.0, ty: 0.0, reversed: false, rot: 0, closure: 0 };
impl Pose {
    fn iso(&self) -> Iso2 { Iso2::new(v2(self.tx, self.ty), self.angle) }
    fn apply(&self, pts: &[Point2], closed: bool, scale: f64) -> Vec<Point2> {
        let iso = self.iso();
        let mut v: Vec<Point2> = pts.iter().map(|q| iso * p2(q.x * scale, q.y * scale)).collect();
        if closed && self.rot > 0 { let k = self.rot % v.len(); v.rotate_left(k); }
        if self.reversed { v.reverse(); }
        v
    }
}

#[derive(Clone, Copy, Debug, PartialEq)]
enum Orient {
    /// DirectionFwd along -t(0) (the tangent at the leading end), the chord c(0) - c(L), -t(L)... every one of them has the
    /// leading end of the camber further along it than the trailing end; DirTiny: -t(0) scaled by 1e-6; DirBig: chord x 1e6
    Dir, DirChord, DirEnd, DirTiny, DirBig, TMax }
#[derive(Clone, Copy, Debug, PartialEq)]
enum Edge { Intersect, Trace, Fit, ConstR, Converge, Ransac, Open, OpenGap,
    /// the same locators with their optional parameters given explicitly / differently: TraceToMaxCurvature(Some(0.02)),
    /// FitRadiusEdge(Some(0.5 tol)), ConvergeTangentEdge(Some(0.02 r_end)),
    /// RansacRadiusEdge(0.05 tol, 200), OpenIntersectGap(12)
    TraceWide, FitTight, ConvergeWide, RansacFew, OpenGapFew }
impl Edge {
    fn base(self) -> Edge { match self { Edge::TraceWide => Edge::Trace, Edge::FitTight => Edge::Fit, Edge::ConvergeWide => Edge::Converge, Edge::RansacFew => Edge::Ransac, Edge::OpenGapFew => Edge::OpenGap, e => e } }
}
#[derive(Clone, Copy, Debug, PartialEq)]
enum Face { Up, Down, Detect,
    /// UpperDir with a direction 55 degrees off the camber normal towards the trailing edge, length 7 (not a unit vector)
    UpOblique,
    /// UpperDir(-n) scaled by 1e-3
    DownTiny }
#[derive(Clone, Copy, Debug, PartialEq)]
struct Cfg { orient: Orient, le: Edge, te: Edge, face: Face }

/// the direction handed to DirectionFwd (canonical frame)
fn fwd_direction(sec: &Sec, o: Orient) -> Vector2 {
    let (c0, t0, _) = sec.cam_at(0.0);
    let (c1, t1, _) = sec.cam_at(sec.len);
    match o { Orient::DirChord => (c0 - c1).normalize(), Orient::DirEnd => -t1, Orient::DirTiny => -t0 * 1e-6, Orient::DirBig => (c0 - c1) * 1e6, _ => -t0 }
}
fn make_edge(e: Edge, sec: &Sec) -> Box<dyn EdgeLocate> {
    let tol = sec.core_tol();
    match e {
        Edge::Intersect => IntersectEdge::make(),
        Edge::Trace => TraceToMaxCurvature::make(None),
        Edge::Fit => FitRadiusEdge::make(None),
        // "only useful on nominal sections where the edge is a constant radius within a very tight tolerance": the cap
        // vertices lie on the end circle up to rounding
        Edge::ConstR => ConstRadiusEdge::make(Some(1e-2 * tol)),
        Edge::Converge => ConvergeTangentEdge::make(None),
        Edge::Ransac => RansacRadiusEdge::make(1e-2 * tol, 500),
        Edge::Open => OpenEdge::make(),
        Edge::OpenGap => OpenIntersectGap::make(50),
        Edge::TraceWide => TraceToMaxCurvature::make(Some(0.02)),
        Edge::FitTight => FitRadiusEdge::make(Some(0.5 * tol)),
        Edge::ConvergeWide => ConvergeTangentEdge::make(Some(0.02 * sec.rad(0.0).0.min(sec.rad(sec.len).0) * sec.scale)),
        Edge::RansacFew => RansacRadiusEdge::make(5e-2 * tol, 200),
        Edge::OpenGapFew => OpenIntersectGap::make(12),
    }
}

/// locators applicable to the closed sections of a law (pinned on the unchanged tree; see the module comment)
fn applicable(sec: &Sec) -> Vec<Edge> {
    match sec.law {
        // circular end arcs, end circle smaller than the last searched station
        // (an end arc of radius < 0.1 sampled with 40 points falls below Circle2::from_3_points' ABSOLUTE collinearity threshold:
        // ConstRadiusEdge finds no arc there -- the known finding "arc detection below the absolute collinearity threshold")
        Law::Bump { le, te, .. } if le.min(te) * sec.scale < 0.1 => vec![Edge::Intersect, Edge::Fit, Edge::Ransac],
        Law::Bump { .. } => vec![Edge::Intersect, Edge::Fit, Edge::ConstR, Edge::Ransac],
        // circular end arcs as large as / larger than the neighbouring stations: the fitted / RANSAC circle is rejected by the code
        Law::Const(_) | Law::Taper(..) => vec![Edge::Intersect, Edge::ConstR],
        // curvature varies continuously and peaks at the tips
        Law::Ellipses { .. } => vec![Edge::Intersect, Edge::Trace, Edge::Converge],
    }
}

/// what one analysis returned, reduced to plain data in the CANONICAL UNSCALED frame (so it can cross a thread boundary
/// and be compared between poses)
#[derive(Clone, Debug)]
struct St { c: Point2, r: f64, pos: Point2, neg: Point2, cam_dir: Vector2, ray_o: Point2, ray_d: Vector2 }
#[derive(Clone, Debug)]
struct Out {
    stations: Vec<St>,
    le: Option<(Point2, u8)>,
    te: Option<(Point2, u8)>,
    camber: Vec<Point2>,
    upper: Option<Vec<Point2>>,
    lower: Option<Vec<Point2>>,
    tmax_c: Point2,
    tmax_r: f64,
    thk_max: Option<(Point2, Point2)>,                  // (lower, upper) of get_thickness_max
    gauges: Vec<(f64, Result<(Point2, Point2), String>)>,  // OnCamber(f * camber length) -> (lower, upper)
    rgauges: Vec<(f64, Result<(Point2, Point2), String>)>, // Radius(f * L)
    camber_len: f64,
    section_len: f64,
}
enum Run { Ok(Out), Err(String), Panic(String), Timeout }

fn geom_tag(g: &EdgeGeometry) -> u8 { match g { EdgeGeometry::Closed => 0, EdgeGeometry::Open => 1, EdgeGeometry::Arc(_) => 2 } }

fn to_st(s: &InscribedCircle, back: &dyn Fn(&Point2) -> Point2, backv: &dyn Fn(&Vector2) -> Vector2, k: f64) -> St {
    St { c: back(&s.center()), r: s.radius() * k, pos: back(&s.contact_pos), neg: back(&s.contact_neg), cam_dir: backv(&s.camber_point().normal.into_inner()),
         ray_o: back(&s.spanning_ray.origin()), ray_d: backv(&s.spanning_ray.dir()) * k }
}

fn build_section(sec: &Sec, pose: &Pose, open: Option<(bool, f64)>) -> Result<Curve2, String> {
    let mut pts = pose.apply(&sec.outline(open), open.is_none(), sec.scale);
    let mut force = open.is_none();
    if open.is_none() {
        match pose.closure {
            1 => { let f = pts[0]; pts.push(f); force = false; }
            2 => { let f = pts[0]; let d = (pts[1] - pts[0]).normalize(); pts.push(f + rot_quarter(&d) * (0.4 * sec.curve_tol())); force = false; }
            3 => { let mut q = Vec::with_capacity(pts.len() * 2); for (i, v) in pts.iter().enumerate() { q.push(*v); if i % 7 == 3 { q.push(*v); } if i % 31 == 5 { q.push(*v); q.push(*v); } } pts = q; }
            _ => {}
        }
    }
    Curve2::from_points(&pts, sec.curve_tol(), force).map_err(|e| format!("section: {e}"))
}

/// run `f` on its own thread with a watchdog; a panic or an over-long run is reported, not propagated
fn guarded<T: Send + 'static, F: FnOnce() -> Result<T, String> + Send + 'static>(f: F, timeout_s: u64) -> Result<Result<T, String>, Run> {
    let (tx, rx) = mpsc::channel();
    std::thread::Builder::new().stack_size(16 << 20).spawn(move || {
        let res = std::panic::catch_unwind(std::panic::AssertUnwindSafe(f));
        let _ = tx.send(res.map_err(|p| p.downcast_ref::<String>().cloned().or(p.downcast_ref::<&str>().map(|s| s.to_string())).unwrap_or_default()));
    }).expect("spawn");
    match rx.recv_timeout(Duration::from_secs(timeout_s)) { Ok(Ok(r)) => Ok(r), Ok(Err(p)) => Err(Run::Panic(p)), Err(_) => Err(Run::Timeout) }
}

/// runs that did not return within the watchdog so far: after two of them no further analysis is started (each one keeps
/// a core busy and costs the full watchdog time), the remaining cases are reported as not terminating as well
static TIMEOUTS: std::sync::atomic::AtomicUsize = std::sync::atomic::AtomicUsize::new(0);

fn analyse(sec: Sec, pose: Pose, cfg: Cfg, open: Option<(bool, f64)>) -> Run {
    if TIMEOUTS.load(std::sync::atomic::Ordering::SeqCst) >= 2 { return Run::Timeout; }
    let r = guarded(move || -> Result<Out, String> {
        let section = build_section(&sec, &pose, open)?;
        let iso = pose.iso();
        let inv = iso.inverse();
        let k = 1.0 / sec.scale;
        let back = |q: &Point2| { let w = inv * q; p2(w.x * k, w.y * k) };
        let backv = |q: &Vector2| { inv * q };
        let orient: Box<dyn CamberOrient> = match cfg.orient { Orient::TMax => TMaxFwd::make(), o => DirectionFwd::make(iso * fwd_direction(&sec, o)) };
        let (_, tm, up0) = sec.cam_at(0.5 * sec.len);
        let up = iso * up0;
        let face = match cfg.face {
            Face::Up => FaceOrient::UpperDir(up), Face::Down => FaceOrient::UpperDir(-up), Face::Detect => FaceOrient::Detect,
            Face::UpOblique => FaceOrient::UpperDir(iso * (up0 * (7.0 * 0.573576436) + tm * (7.0 * 0.819152044))), Face::DownTiny => FaceOrient::UpperDir(-up * 1e-3),
        };
        let g = AirfoilGeometry::try_analyze(&section, sec.core_tol(), orient, make_edge(cfg.le, &sec), make_edge(cfg.te, &sec), face).map_err(|e| format!("{e}"))?;
        let stations = g.stations.iter().map(|s| to_st(s, &back, &backv, k)).collect();
        let tm = g.find_tmax();
        let pair = |d: crate::metrology::Distance2| (back(&d.a), back(&d.b));
        let thk_max = g.get_thickness_max().ok().map(pair);
        let cl = g.camber.length();
        let mut gauges = vec![];
        for f in [0.1, 0.2, 0.3, 0.5, 0.8, 0.9, -0.25] { gauges.push((f, g.get_thickness(AfGage::OnCamber(f * cl)).map(pair).map_err(|e| format!("{e}")))); }
        let mut rgauges = vec![];
        for f in [0.25, -0.25] { rgauges.push((f, g.get_thickness(AfGage::Radius(f * sec.len * sec.scale)).map(pair).map_err(|e| format!("{e}")))); }
        Ok(Out {
            stations,
            le: g.leading_edge.as_ref().map(|e| (back(&e.point), geom_tag(&e.geometry))),
            te: g.trailing_edge.as_ref().map(|e| (back(&e.point), geom_tag(&e.geometry))),
            camber: g.camber.points().iter().map(back).collect(),
            upper: g.upper.as_ref().map(|c| c.points().iter().map(back).collect()),
            lower: g.lower.as_ref().map(|c| c.points().iter().map(back).collect()),
            tmax_c: back(&tm.center()), tmax_r: tm.radius() * k, thk_max, gauges, rgauges, camber_len: cl * k, section_len: section.length() * k,
        })
    }, 20);
    if let Err(Run::Timeout) = r { TIMEOUTS.fetch_add(1, std::sync::atomic::Ordering::SeqCst); }
    match r { Ok(Ok(o)) => Run::Ok(o), Ok(Err(e)) => Run::Err(e), Err(x) => x }
}

// ------------------------------------------------------------------------------------------------ brute-force oracles
fn poly_dist(pts: &[Point2], q: &Point2) -> f64 {
    let mut best = f64::INFINITY;
    for i in 0..pts.len() - 1 {
        let (a, b) = (pts[i], pts[i + 1]);
        let ab = b - a;
        let l2 = ab.dot(&ab);
        let t = if l2 > 0.0 { ((q - a).dot(&ab) / l2).clamp(0.0, 1.0) } else { 0.0 };
        best = best.min(d2(q, &(a + ab * t)));
    }
    best
}
fn poly_len(pts: &[Point2]) -> f64 { (0..pts.len() - 1).map(|i| d2(&pts[i], &pts[i + 1])).sum() }
fn poly_at(pts: &[Point2], f: f64) -> Point2 {
    let want = poly_len(pts) * f;
    let mut acc = 0.0;
    for i in 0..pts.len() - 1 { let d = d2(&pts[i], &pts[i + 1]); if acc + d >= want && d > 0.0 { return pts[i] + (pts[i + 1] - pts[i]) * ((want - acc) / d); } acc += d; }
    pts[pts.len() - 1]
}
/// intersections of the line through o along u with the polyline: signed parameters along u
fn poly_line_hits(pts: &[Point2], o: &Point2, u: &Vector2) -> Vec<f64> {
    let mut out = vec![];
    for i in 0..pts.len() - 1 {
        let (a, b) = (pts[i], pts[i + 1]);
        let e = b - a;
        let den = cross(u, &e);
        if den.abs() < 1e-300 { continue; }
        let w = a - o;
        let t = cross(&w, &e) / den;
        let s = cross(&w, u) / den;
        if (0.0..=1.0).contains(&s) { out.push(t); }
    }
    out
}
/// largest sagitta of the outline against the true (smooth) boundary, estimated from consecutive triples of vertices
fn sagitta(outline: &[Point2]) -> f64 {
    let mut worst: f64 = 0.0;
    for i in 1..outline.len() - 1 {
        let (a, b, c) = (outline[i - 1], outline[i], outline[i + 1]);
        let ac = c - a;
        let l = ac.norm();
        if l > 0.0 { worst = worst.max((cross(&ac, &(b - a)) / l).abs()); }
    }
    worst
}

struct Ctx { r: Report, m: Meter, known: String }

// Clauses that FAILED on the tree as found because of a defect of engeom this check exposed (names start with "[defect ...]").
// Four of them were repaired in /repo (fix: commits, see /verif/known_findings.json "fixed"): their clauses are ordinary
// clauses now and report the violation again if it returns. The remaining one ("arc detection below the absolute
// collinearity threshold") is listed as a known finding and printed as KNOWN-FINDING by the driver.
fn defect<F: FnOnce() -> String>(cx: &mut Ctx, cond: bool, what: &str, input: F) {
    cx.r.check(cond, what, input);
}
const F_CONSTR: &str = "[defect ConstRadiusEdge forged station] contact_pos of the station ConstRadiusEdge appends is the contact in the positive direction of its spanning ray (camber direction towards the trailing edge)";
const F_OPEN: &str = "[defect OpenEdge ignores front] OpenEdge at the LEADING end reports the centre of the first (leading-most) station";
const F_DUP: &str = "no station is repeated, except the seed station, which the extraction lists twice (at most one coincident consecutive pair)";
const F_ARCS: &str = "[defect arc detection below the absolute collinearity threshold] ConstRadiusEdge on a finely sampled section (320 points per face, 80 per end arc) satisfies every clause";
const F_CURV: &str = "[defect curvature below the absolute collinearity threshold] TraceToMaxCurvature on a section of chord 1 (scale 0.1) puts the edge points at the ends of the camber curve";

fn desc_of(sec: &Sec, pose: &Pose, cfg: &Cfg, open: Option<(bool, f64)>) -> String { format!("{:?} {:?} {:?} open={:?}", sec, pose, cfg, open) }

fn canonical_outline(sec: &Sec, open: Option<(bool, f64)>) -> Vec<Point2> {
    let mut outline = sec.outline(open);
    if open.is_none() { let f = outline[0]; outline.push(f); }
    outline
}

/// Every clause of the statement on one analysis result (canonical unscaled frame).
fn check_out(cx: &mut Ctx, sec: &Sec, pose: &Pose, cfg: &Cfg, open: Option<(bool, f64)>, o: &Out) {
    let desc = || desc_of(sec, pose, cfg, open);
    let outline = canonical_outline(sec, open);
    let tol = sec.ktol * sec.len; // the analysis tolerance in the unscaled frame
    // the discretisation tolerances were measured with the analysis tolerance 1e-4 L; a finer analysis tolerance does not make
    // the polygonal outline a better approximation of the smooth envelope
    let dtol = sec.ktol.max(1e-4) * sec.len;
    let sag = sagitta(&outline);
    let n = o.stations.len();
    cx.r.check(n >= 2, "the analysis returns at least two stations", desc);
    if n < 2 { return; }
    let (smin, smax) = match open { None => (0.0, sec.len), Some((true, f)) => (f * sec.len, sec.len), Some((false, f)) => (0.0, f * sec.len) };
    // ---- every station is an inscribed circle
    let (mut e_insc, mut e_con_on, mut e_con_r, mut e_cam, mut e_law, mut e_ext): (f64, f64, f64, f64, f64, f64) = (0.0, 0.0, 0.0, 0.0, 0.0, 0.0);
    let (mut opp, mut dirs, mut raypos, mut forged_ok) = (true, true, true, true);
    let mut ss = Vec::with_capacity(n);
    for (si, s) in o.stations.iter().enumerate() {
        // the station ConstRadiusEdge appends at its end of the camber line
        let forged = (si == 0 && cfg.le.base() == Edge::ConstR) || (si == n - 1 && cfg.te.base() == Edge::ConstR);
        let (sa, dc) = sec.camber_closest(&s.c);
        ss.push(sa);
        // open sections: a station within two radii of the cut has no boundary on one side and is not judged
        if open.is_some() && (sa > smax - 2.0 * sec.rad(smax).0 && smax < sec.len || sa < smin + 2.0 * sec.rad(smin).0 && smin > 0.0) { continue; }
        e_insc = e_insc.max((poly_dist(&outline, &s.c) - s.r).abs());
        e_con_on = e_con_on.max(poly_dist(&outline, &s.pos)).max(poly_dist(&outline, &s.neg));
        e_con_r = e_con_r.max((d2(&s.pos, &s.c) - s.r).abs()).max((d2(&s.neg, &s.c) - s.r).abs());
        let t = sec.cam_at(sa).1;
        let inside = sa > 0.0 && sa < sec.len;
        if inside {
            e_cam = e_cam.max(dc);
            e_law = e_law.max((s.r - sec.rad(sa).0).abs());
            let (a, b) = (cross(&t, &(s.pos - s.c)), cross(&t, &(s.neg - s.c)));
            if !(a * b < 0.0) { opp = false; }
            // contact_pos is the contact "in the positive direction of the spanning ray"; the camber direction derived from
            // the contacts points towards the trailing edge (increasing index)
            let ok = s.cam_dir.dot(&t) > 0.0 && (s.pos - s.neg).dot(&s.ray_d) > 0.0;
            if forged { if !ok { forged_ok = false; } } else {
                if !(s.cam_dir.dot(&t) > 0.0) { dirs = false; }
                if !((s.pos - s.neg).dot(&s.ray_d) > 0.0) { raypos = false; }
            }
        } else {
            // beyond the end of the medial axis (only the curvature-tracing locators put stations there): the centre lies on
            // the tangent extension of the camber towards the tip
            let (c0, t0, _) = sec.cam_at(sa);
            e_ext = e_ext.max(cross(&t0, &(s.c - c0)).abs());
        }
    }
    cx.m.see("|dist(centre, section) - radius| / tol", e_insc / tol, desc);
    cx.m.see("contact point off the section / tol", e_con_on / tol, desc);
    cx.m.see("|dist(contact, centre) - radius| / tol", e_con_r / tol, desc);
    cx.m.see("centre off the known camber / tol", e_cam / dtol, desc);
    cx.m.see("radius off the law / tol", e_law / dtol, desc);
    cx.m.see("centre beyond the medial axis off the tangent extension / tol", e_ext / dtol, desc);
    cx.r.check(e_insc <= tol, "every station is an inscribed circle: the distance from its centre to the section equals its radius within the analysis tolerance", || format!("{} worst {:e} tol {:e}", desc(), e_insc, tol));
    cx.r.check(e_con_on <= tol, "both contact points of every station lie on the section (within the analysis tolerance)", || format!("{} worst {:e}", desc(), e_con_on));
    cx.r.check(e_con_r <= tol, "both contact points of every station are one radius from the centre within the analysis tolerance", || format!("{} worst {:e} tol {:e}", desc(), e_con_r, tol));
    cx.r.check(opp, "the contact points of every station lie on opposite sides of the camber direction", desc);
    cx.r.check(dirs, "the camber direction of every station (from its contact points) points from the leading to the trailing edge", desc);
    cx.r.check(raypos, "contact_pos of every station is the contact in the positive direction of its spanning ray", desc);
    if cfg.le.base() == Edge::ConstR || cfg.te.base() == Edge::ConstR { defect(cx, forged_ok, F_CONSTR, desc); }
    cx.r.check(e_cam <= K_LAW * dtol, "station centres lie on the known camber curve within the discretisation tolerance", || format!("{} worst {:e}", desc(), e_cam));
    cx.r.check(e_law <= K_LAW * dtol, "station radii follow the known radius law within the discretisation tolerance", || format!("{} worst {:e}", desc(), e_law));
    cx.r.check(e_ext <= K_LAW * dtol, "stations beyond the end of the medial axis lie on the tangent extension of the camber", || format!("{} worst {:e}", desc(), e_ext));
    // ---- monotone from leading to trailing edge
    let (mut back, mut mingap) = (0.0f64, f64::INFINITY);
    for i in 0..n - 1 {
        // compare positions along the camber extended by its end tangents (stations beyond the ends included)
        let ext = |j: usize| { let (c0, t0, _) = sec.cam_at(ss[j]); ss[j] + (o.stations[j].c - c0).dot(&t0) };
        back = back.max(ext(i) - ext(i + 1)); mingap = mingap.min(ext(i + 1) - ext(i));
    }
    cx.m.see("largest backward step between consecutive stations / tol", back / dtol, desc);
    cx.m.see("-(smallest forward step between consecutive stations) / tol", -mingap / dtol, desc);
    cx.r.check(back <= 0.1 * dtol, "stations advance monotonically from the leading to the trailing edge", || format!("{} backward step {:e}", desc(), back));
    // the seed station is listed twice by extract_camber_line (both halves start with the circle of the same spanning ray):
    // a ZERO step, which "advance monotonically" permits -- observed, not a violation. More than that one repeat is not.
    let repeats = (0..n - 1).filter(|&i| d2(&o.stations[i].c, &o.stations[i + 1].c) <= 1e-6 * sec.len).count();
    cx.r.check(repeats <= 1, F_DUP, || format!("{} {} coincident consecutive pairs, smallest forward step {:e}", desc(), repeats, mingap));
    cx.r.check(ss[0] < 0.5 * sec.len && ss[n - 1] > ss[0], "the first station is the one nearest the leading edge", || format!("{} s[0]={} s[last]={}", desc(), ss[0], ss[n - 1]));
    // ---- edge points on the section at the ends of the camber curve
    let closed_le = open.map(|(l, _)| !l).unwrap_or(true);
    let closed_te = open.map(|(l, _)| l).unwrap_or(true);
    let kappa = if let Cam::Arc(th) = sec.cam { th / sec.len } else { 0.0 };
    for (name, e, want, is_closed, st_end, r_end) in [("leading", &o.le, sec.le_point(), closed_le, &o.stations[0], sec.rad(0.0).0), ("trailing", &o.te, sec.te_point(), closed_te, &o.stations[n - 1], sec.rad(sec.len).0)] {
        let edge_unit = dtol + sag + 0.25 * kappa * r_end * r_end;
        let edge_tol = (if (name == "leading" && cfg.le.base() == Edge::Converge) || (name == "trailing" && cfg.te.base() == Edge::Converge) { K_EDGE_CONVERGE } else { K_EDGE }) * edge_unit;
        match e {
            None => cx.r.check(false, "both edges are located on an accepted section", || format!("{} {} edge missing", desc(), name)),
            Some((q, tag)) => {
                if is_closed {
                    let on = poly_dist(&outline, q);
                    let off = d2(q, &want);
                    cx.m.see("edge point off the section / tol", on / tol, desc);
                    cx.m.see(&format!("edge point off the true tip / (tol + sagitta + 0.25 kappa r^2) [{:?}]", if name == "leading" { cfg.le } else { cfg.te }), off / edge_unit, desc);
                    cx.r.check(on <= tol, "the edge points lie on the section", || format!("{} {} edge {:?} off by {:e}", desc(), name, q, on));
                    cx.r.check(off <= edge_tol, "the edge points lie at the ends of the camber curve (tips c(0) - r t, c(L) + r t)", || format!("{} {} edge {:?} want {:?} off by {:e} allowed {:e}", desc(), name, q, want, off, edge_tol));
                    cx.r.check(*tag != 1, "a closed edge is not reported as open", desc);
                } else {
                    // open end: the edge point is where the camber line leaves the data; OpenEdge reports the centre of the
                    // station at that end, OpenIntersectGap a point on the segment closing the gap
                    cx.r.check(*tag == 1, "an open edge is reported as open", desc);
                    if (name == "leading" && cfg.le == Edge::Open) || (name == "trailing" && cfg.te == Edge::Open) {
                        let off = d2(q, &st_end.c);
                        let inp = || format!("{} edge {:?} station centre {:?}", desc(), q, st_end.c);
                        if name == "leading" { defect(cx, off <= 1e-9 * sec.len, F_OPEN, inp); } else { cx.r.check(off <= 1e-9 * sec.len, "OpenEdge at the trailing end reports the centre of the last (trailing-most) station", inp); }
                    } else {
                        let (sa, dc) = sec.camber_closest(q);
                        cx.m.see("OpenIntersectGap edge point off the known camber / tol", dc / dtol, desc);
                        // the gap is closed by the segment between the two cut points of the faces: c(s) - r r' t at the cut
                        let sc = if name == "leading" { smin } else { smax };
                        let want_s = sc - sec.rad(sc).0 * sec.rad(sc).1;
                        cx.m.see("OpenIntersectGap edge point off the gap position / tol", (sa - want_s).abs() / dtol, desc);
                        // [measured worst 0.22 / 1.4e-4 analysis tolerances]
                        cx.r.check(dc <= 1.0 * dtol && (sa - want_s).abs() <= 1.0 * dtol, "OpenIntersectGap edge point lies on the known camber at the cut", || format!("{} edge {:?} s={} off {:e}", desc(), q, sa, dc));
                    }
                }
            }
        }
    }
    // the camber curve runs from the leading edge point through the station centres to the trailing edge point
    if let (Some((l, _)), Some((t, _))) = (&o.le, &o.te) {
        let (c0, c1) = (o.camber[0], o.camber[o.camber.len() - 1]);
        cx.r.check(d2(&c0, l) <= 1e-9 * sec.len && d2(&c1, t) <= 1e-9 * sec.len, "the camber curve starts at the leading edge point and ends at the trailing edge point", desc);
        let worst = o.stations.iter().map(|s| poly_dist(&o.camber, &s.c)).fold(0.0, f64::max);
        cx.r.check(worst <= 2e-6 * sec.len, "the camber curve passes through every station centre", || format!("{} worst {:e}", desc(), worst));
    }
    // ---- upper / lower partition the perimeter between the edge points, upper on the requested / detected side
    match (&o.upper, &o.lower) {
        (Some(u), Some(l)) => {
            let total = poly_len(u) + poly_len(l);
            cx.m.see("|len(upper) + len(lower) - perimeter| / curve tol", (total - o.section_len).abs() / (1e-6 * sec.len), desc);
            cx.r.check((total - o.section_len).abs() <= 4.0 * sec.kcurve.max(1e-6) * sec.len, "upper and lower surfaces partition the section perimeter (lengths add up)", || format!("{} {} + {} vs {}", desc(), poly_len(u), poly_len(l), o.section_len));
            let off = u.iter().chain(l.iter()).map(|q| poly_dist(&outline, q)).fold(0.0, f64::max);
            // (closure 2 hands the closing vertex over 0.4 curve tolerances off the first one)
            cx.r.check(off <= 1e-9 * sec.len + if pose.closure == 2 { 0.4 * sec.kcurve * sec.len } else { 0.0 }, "every vertex of the upper and lower surfaces lies on the section", || format!("{} worst {:e}", desc(), off));
            if open.is_none() {
                if let (Some((le, _)), Some((te, _))) = (&o.le, &o.te) {
                    // both pieces run between the two edge points
                    let ends = |c: &Vec<Point2>| { let (a, b) = (c[0], c[c.len() - 1]); (d2(&a, le).min(d2(&a, te)), d2(&b, le).min(d2(&b, te)), d2(&a, &b)) };
                    let (ua, ub, ul) = ends(u); let (la, lb, ll) = ends(l);
                    let w = ua.max(ub).max(la).max(lb);
                    cx.m.see("surface end point off the edge points / tol", w / tol, desc);
                    cx.r.check(w <= tol && ul > 0.5 * sec.len && ll > 0.5 * sec.len, "upper and lower surfaces run between the two edge points", || format!("{} worst {:e}", desc(), w));
                }
            }
            // side: the middle of the upper surface is on the requested side of the known camber
            let want = match cfg.face { Face::Up | Face::Detect | Face::UpOblique => 1.0, Face::Down | Face::DownTiny => -1.0 };
            let side = |c: &Vec<Point2>| { let q = poly_at(c, 0.5); let (sa, _) = sec.camber_closest(&q); let (c0, _, nn) = sec.cam_at(sa); (q - c0).dot(&nn) };
            cx.r.check(side(u) * want > 0.0 && side(l) * want < 0.0, "the upper surface is on the requested / detected side, the lower surface on the other", || format!("{} upper offset {} lower offset {} wanted sign {}", desc(), side(u), side(l), want));
            // ---- maximum thickness and gauges
            if let Some((lo, up)) = &o.thk_max {
                let (sa, _) = sec.camber_closest(&o.tmax_c);
                let (c0, _, nn) = sec.cam_at(sa);
                cx.r.check((up - c0).dot(&nn) * want > 0.0 && (lo - c0).dot(&nn) * want < 0.0, "get_thickness_max runs from the lower to the upper surface", || format!("{} lower {:?} upper {:?}", desc(), lo, up));
                let (_, rm) = sec.rmax_in(ss[0], ss[n - 1]);
                // laws with their maximum at an end: the thickest station is the end station, which the forging locators build
                // from the end points of the detected arc (a chord, not a diameter)
                let interior = matches!(sec.law, Law::Bump { .. } | Law::Ellipses { .. });
                if interior { cx.m.see("|thickness_max - 2 r_max| / tol", (d2(lo, up) - 2.0 * rm).abs() / dtol, desc); }
                cx.r.check(!interior || (d2(lo, up) - 2.0 * rm).abs() <= 2.0 * K_TMAX_R * dtol, "the maximum thickness is recovered (get_thickness_max == 2 max r)", || format!("{} got {} want {}", desc(), d2(lo, up), 2.0 * rm));
            } else { cx.r.check(false, "get_thickness_max succeeds when both surfaces are known", desc); }
            if open.is_none() {
                for (f, g) in o.gauges.iter() {
                    match g {
                        Err(e) => cx.r.check(false, "get_thickness(OnCamber) succeeds inside the camber line", || format!("{} f={} {}", desc(), f, e)),
                        Ok((lo, up)) => {
                            // oracle: the camber curve of the analysis starts at the tip, r(0) before c(0); thickness along the
                            // normal of the TRUE camber at that position
                            let x = if *f < 0.0 { o.camber_len + f * o.camber_len } else { f * o.camber_len };
                            // (a gauge position inside an end cap -- stubby sections -- has no oracle here)
                            if x < 1.05 * sec.rad(0.0).0 || x > o.camber_len - 1.05 * sec.rad(sec.len).0 { continue; }
                            let s = (x - sec.rad(0.0).0).clamp(0.0, sec.len);
                            let (c0, _, nn) = sec.cam_at(s);
                            let hits = poly_line_hits(&outline, &c0, &nn);
                            let tp = hits.iter().cloned().filter(|t| *t > 0.0).fold(f64::INFINITY, f64::min);
                            let tn = hits.iter().cloned().filter(|t| *t < 0.0).fold(f64::NEG_INFINITY, f64::max);
                            let e = (d2(lo, up) - (tp - tn)).abs();
                            cx.m.see("|gauge thickness on camber - oracle| / tol", e / dtol, desc);
                            cx.r.check(e <= K_GAUGE * dtol, "gauge thickness at a camber position is recovered", || format!("{} f={} got {} want {}", desc(), f, d2(lo, up), tp - tn));
                            cx.r.check(poly_dist(&outline, lo) <= tol && poly_dist(&outline, up) <= tol && (up - c0).dot(&nn) * want > 0.0 && (lo - c0).dot(&nn) * want < 0.0,
                                "gauge end points lie on the section, the upper one on the upper surface", || format!("{} f={} lower {:?} upper {:?}", desc(), f, lo, up));
                        }
                    }
                }
                for (f, g) in o.rgauges.iter() {
                    match g {
                        Err(e) => cx.r.check(false, "get_thickness(Radius) succeeds for a radius inside the section", || format!("{} f={} {}", desc(), f, e)),
                        Ok((lo, up)) => {
                            let centre = if *f < 0.0 { o.te.unwrap().0 } else { o.le.unwrap().0 };
                            let rr = f.abs() * sec.len;
                            let e = (d2(lo, &centre) - rr).abs().max((d2(up, &centre) - rr).abs());
                            cx.m.see("radius gauge end point off the gauge circle / tol", e / tol, desc);
                            let (sa, _) = sec.camber_closest(&poly_at(&[*lo, *up], 0.5));
                            let (c0, _, nn) = sec.cam_at(sa);
                            cx.r.check(e <= tol && poly_dist(&outline, lo) <= tol && poly_dist(&outline, up) <= tol && (up - c0).dot(&nn) * want > 0.0 && (lo - c0).dot(&nn) * want < 0.0,
                                "radius gauge end points lie on the section at the gauge radius from the edge point, upper on the upper surface", || format!("{} f={} lower {:?} upper {:?} off {:e}", desc(), f, lo, up, e));
                        }
                    }
                }
            }
        }
        _ => cx.r.check(false, "both surfaces are produced when both edges are located", desc),
    }
    // ---- maximum thickness station
    if open.is_none() {
        let (sm, rm) = sec.rmax_in(ss[0], ss[n - 1]);
        cx.m.see("|tmax radius - max r| / tol", (o.tmax_r - rm).abs() / dtol, desc);
        cx.r.check((o.tmax_r - rm).abs() <= K_TMAX_R * dtol, "the maximum thickness station has the maximum radius of the law over the part of the camber the stations cover", || format!("{} got {} want {}", desc(), o.tmax_r, rm));
        if let Law::Bump { .. } | Law::Ellipses { .. } = sec.law {
            let (sa, _) = sec.camber_closest(&o.tmax_c);
            cx.m.see("|tmax position - true position| / L", (sa - sm).abs() / sec.len, desc);
            // the radius law is flat at its maximum: stations are up to 0.25 r apart, the position is recovered to that spacing
            cx.r.check((sa - sm).abs() <= 0.3 * rm, "the position of maximum thickness is recovered to the station spacing", || format!("{} got s={} want s={}", desc(), sa, sm));
        }
        let worst = o.stations.iter().map(|s| s.r).fold(0.0, f64::max);
        cx.r.check(o.tmax_r == worst, "find_tmax returns a station of maximal radius", desc);
    }
}

/// invariance: the same section analysed in another pose / winding / start vertex (both already in the canonical frame)
fn check_same(cx: &mut Ctx, sec: &Sec, pose: &Pose, cfg: &Cfg, open: Option<(bool, f64)>, a: &Out, b: &Out) {
    let desc = || format!("{} vs the identity pose", desc_of(sec, pose, cfg, open));
    let tol = sec.ktol.max(1e-4) * sec.len;
    let mut e: f64 = 0.0;
    if let (Some(x), Some(y)) = (&a.le, &b.le) { e = e.max(d2(&x.0, &y.0)); }
    if let (Some(x), Some(y)) = (&a.te, &b.te) { e = e.max(d2(&x.0, &y.0)); }
    cx.m.see(&format!("invariance [{:?}]: edge points / tol", cfg.le), e / tol, desc);
    let e2 = (a.tmax_r - b.tmax_r).abs().max((a.camber_len - b.camber_len).abs());
    cx.m.see(&format!("invariance [{:?}]: tmax radius, camber length / tol", cfg.le), e2 / tol, desc);
    let e3 = b.stations.iter().map(|s| poly_dist(&a.camber, &s.c)).fold(0.0, f64::max);
    cx.m.see(&format!("invariance [{:?}]: station centres off the other camber curve / tol", cfg.le), e3 / tol, desc);
    let mut e4: f64 = 0.0;
    if let (Some(u), Some(v)) = (&a.upper, &b.upper) { e4 = e4.max((poly_len(u) - poly_len(v)).abs()); }
    if let (Some(u), Some(v)) = (&a.lower, &b.lower) { e4 = e4.max((poly_len(u) - poly_len(v)).abs()); }
    cx.m.see(&format!("invariance [{:?}]: surface lengths / tol", cfg.le), e4 / tol, desc);
    let mut e5: f64 = 0.0;
    for (x, y) in a.gauges.iter().zip(b.gauges.iter()).chain(a.rgauges.iter().zip(b.rgauges.iter())) {
        match (&x.1, &y.1) { (Ok(p), Ok(q)) => e5 = e5.max((d2(&p.0, &p.1) - d2(&q.0, &q.1)).abs()), (Err(_), Err(_)) => {}, _ => e5 = f64::INFINITY }
    }
    cx.m.see(&format!("invariance [{:?}]: gauge thicknesses / tol", cfg.le), e5 / tol, desc);
    let worst = e.max(e2).max(e3).max(e4).max(e5);
    let kinv = if cfg.le.base() == Edge::Converge || cfg.te.base() == Edge::Converge { K_INV_CONVERGE } else { K_INV };
    cx.r.check(worst <= kinv * tol, "results are unchanged (up to tolerance) by rigidly moving the section, reversing its vertex order or rotating its start vertex",
        || format!("{} edge {:e} tmax/camber {:e} centres {:e} surfaces {:e} gauges {:e} allowed {:e}", desc(), e, e2, e3, e4, e5, kinv * tol));
    cx.r.check(a.upper.is_some() == b.upper.is_some() && a.le.map(|x| x.1) == b.le.map(|x| x.1) && a.te.map(|x| x.1) == b.te.map(|x| x.1), "the same edges / surfaces are found in every pose", desc);
}

fn run_case(cx: &mut Ctx, sec: &Sec, pose: &Pose, cfg: &Cfg, open: Option<(bool, f64)>) -> Option<Out> {
    cx.r.case();
    let desc = || desc_of(sec, pose, cfg, open);
    match analyse(*sec, *pose, *cfg, open) {
        Run::Ok(o) => { check_out(cx, sec, pose, cfg, open, &o); Some(o) }
        Run::Err(e) => { cx.r.check(false, "the analysis accepts the sections of the family with the applicable configurations", || format!("{} -> Err {}", desc(), e)); None }
        Run::Panic(p) => { cx.r.check(false, "the analysis does not panic", || format!("{} -> panic {}", desc(), p)); None }
        Run::Timeout => { cx.r.check(false, "the analysis terminates (watchdog 20 s; a run takes about 10 ms)", desc); None }
    }
}

/// a case that fails on the tree as found because of a reported defect: all its clauses folded into ONE defect clause
fn run_case_folded(cx: &mut Ctx, sec: &Sec, pose: &Pose, cfg: &Cfg, name: &str) {
    cx.r.case();
    let mut tmp = Ctx { r: Report::new(""), m: Meter { on: false, max: vec![] }, known: cx.known.clone() };
    let ok = match analyse(*sec, *pose, *cfg, None) {
        Run::Ok(o) => { check_out(&mut tmp, sec, pose, cfg, None, &o); tmp.r.failures.is_empty() }
        Run::Err(_) => true, // a section the analysis does not accept is outside the statement
        _ => false,
    };
    let first = tmp.r.failures.first().cloned().unwrap_or_default();
    defect(cx, ok, name, || format!("{} first failing clause: {}", desc_of(sec, pose, cfg, None), first));
}

// ------------------------------------------------------------------------------------------------ container / helper algebra
/// OrientedCircles, reverse_inscribed_circles, InscribedCircle::reversed, find_tmax_circle, the two CamberOrient
/// implementations and every EdgeLocate implementation called DIRECTLY (front / back), on the stations of a real analysis.
fn check_helpers(cx: &mut Ctx, sec: Sec, pose: Pose) {
    cx.r.case();
    if TIMEOUTS.load(std::sync::atomic::Ordering::SeqCst) >= 2 { cx.r.check(false, "the airfoil helpers terminate (watchdog 60 s)", || format!("{:?} {:?} (not started: earlier runs did not terminate)", sec, pose)); return; }
    let res = guarded(move || -> Result<Vec<(bool, &'static str, String)>, String> {
        let mut out: Vec<(bool, &'static str, String)> = vec![];
        let section = build_section(&sec, &pose, None)?;
        let hull = section.make_hull().ok_or("hull")?;
        let raw = extract_camber_line(&section, &hull, Some(sec.core_tol())).map_err(|e| format!("{e}"))?;
        let iso = pose.iso();
        let fwd = iso * (-sec.cam_at(0.0).1);
        let d = format!("{:?} {:?}", sec, pose);
        let same = |a: &InscribedCircle, b: &InscribedCircle| a.center() == b.center() && a.radius() == b.radius() && a.contact_pos == b.contact_pos && a.contact_neg == b.contact_neg
            && a.spanning_ray.origin() == b.spanning_ray.origin() && a.spanning_ray.dir() == b.spanning_ray.dir();
        let is_rev = |a: &InscribedCircle, b: &InscribedCircle| a.center() == b.center() && a.radius() == b.radius() && a.contact_pos == b.contact_neg && a.contact_neg == b.contact_pos
            && d2(&a.spanning_ray.origin(), &(b.spanning_ray.origin() + b.spanning_ray.dir())) <= 1e-12 * sec.len * sec.scale && (a.spanning_ray.dir() + b.spanning_ray.dir()).norm() <= 1e-12 * sec.len * sec.scale;
        let n = raw.len();
        // raw camber line: consecutive stations are spatial neighbours, all spanning rays point to the same side
        let consistent = (0..n - 1).all(|i| raw[i].spanning_ray.dir().dot(&raw[i + 1].spanning_ray.dir()) > 0.0);
        out.push((consistent, "extract_camber_line: all spanning rays of the assembled camber line point to the same side", d.clone()));
        let fwd_ok = (0..n - 1).all(|i| (raw[i + 1].center() - raw[i].center()).dot(&raw[i].camber_point().normal) >= -1e-9 * sec.len * sec.scale);
        out.push((fwd_ok, "extract_camber_line: every station's camber direction points to the next station", d.clone()));
        // reversal
        let mut rv = raw.clone();
        reverse_inscribed_circles(&mut rv);
        out.push((rv.len() == n && (0..n).all(|i| is_rev(&rv[i], &raw[n - 1 - i])), "reverse_inscribed_circles reverses the order and swaps the contact points / spanning ray of every station, keeping centre and radius", d.clone()));
        let mut rv2 = rv.clone();
        reverse_inscribed_circles(&mut rv2);
        out.push(((0..n).all(|i| same(&rv2[i], &raw[i]) || (rv2[i].center() == raw[i].center() && rv2[i].contact_pos == raw[i].contact_pos && (rv2[i].spanning_ray.origin() - raw[i].spanning_ray.origin()).norm() <= 1e-12 * sec.len * sec.scale)), "reversing twice restores the stations", d.clone()));
        out.push((is_rev(&raw[3].reversed(), &raw[3]), "InscribedCircle::reversed swaps the contact points and reverses the spanning ray, keeping centre and radius", d.clone()));
        // find_tmax_circle: first maximum
        let best = raw.iter().map(|s| s.radius()).fold(0.0, f64::max);
        let first = raw.iter().position(|s| s.radius() == best).unwrap();
        let got = find_tmax_circle(&raw).map(|c| raw.iter().position(|s| std::ptr::eq(s, c)).unwrap());
        out.push((got == Some(first), "find_tmax_circle returns the first station of maximal radius", format!("{} got {:?} want {}", d, got, first)));
        out.push((find_tmax_circle(&[]).is_none(), "find_tmax_circle of no stations is None", d.clone()));
        // orientation: DirectionFwd puts the end that is further in the given direction first, whichever order comes in
        for (name, input) in [("as extracted", raw.clone()), ("reversed", rv.clone())] {
            let or = DirectionFwd::new(fwd).orient_camber_line(&section, input.clone()).map_err(|e| format!("{e}"))?;
            let ok_order = fwd.dot(&or[0].center().coords) > fwd.dot(&or[n - 1].center().coords);
            let unchanged = (0..n).all(|i| same(&or[i], &input[i]));
            let flipped = (0..n).all(|i| is_rev(&or[i], &input[n - 1 - i]));
            out.push((or.len() == n && ok_order && (unchanged || flipped), "DirectionFwd returns the stations unchanged or exactly reversed, the end further along the direction first", format!("{} input {}", d, name)));
            if sec.has_fwd_max() {
                let ot = TMaxFwd::new().orient_camber_line(&section, input.clone()).map_err(|e| format!("{e}"))?;
                let unchanged = (0..n).all(|i| same(&ot[i], &input[i]));
                let flipped = (0..n).all(|i| is_rev(&ot[i], &input[n - 1 - i]));
                let ok_order = fwd.dot(&ot[0].center().coords) > fwd.dot(&ot[n - 1].center().coords);
                out.push((ot.len() == n && ok_order && (unchanged || flipped), "TMaxFwd returns the stations unchanged or exactly reversed, the end nearer the maximum thickness first", format!("{} input {}", d, name)));
            }
        }
        let oriented = DirectionFwd::new(fwd).orient_camber_line(&section, raw.clone()).map_err(|e| format!("{e}"))?;
        // OrientedCircles: the working end is the FIRST station when the flag is set (front), the LAST otherwise
        for flag in [false, true] {
            let oc = OrientedCircles::new(oriented.clone(), flag);
            let want = if flag { &oriented[0] } else { &oriented[n - 1] };
            let second = if flag { &oriented[1] } else { &oriented[n - 2] };
            out.push((oc.last().map(|c| same(c, want)).unwrap_or(false), "OrientedCircles::last is the first station with the front flag, the last station without", format!("{} flag {}", d, flag)));
            let sp = oc.end_sp().map_err(|e| format!("{e}"))?;
            let dirv = (want.center() - second.center()).normalize();
            out.push((sp.point == want.center() && (sp.normal.into_inner() - dirv).norm() <= 1e-12, "OrientedCircles::end_sp sits on the working-end centre and points away from its neighbour", format!("{} flag {}", d, flag)));
            let dist = 3.0 * want.radius();
            let ec = oc.get_end_curve(dist).map_err(|e| format!("{e}"))?;
            let pts = ec.points();
            // the curve lists working-end centres in order TOWARDS the working end: a run of consecutive stations
            let m = pts.len();
            let run_ok = (0..m).all(|j| { let idx = if flag { m - 1 - j } else { n - m + j }; d2(&pts[j], &oriented[idx].center()) <= 1e-12 * sec.len * sec.scale });
            let len_ok = ec.length() >= dist || m == n;
            let minimal = m < 3 || { let shorter: f64 = (1..m - 1).map(|j| d2(&pts[j], &pts[j + 1])).sum(); shorter < dist };
            out.push((run_ok && len_ok && minimal, "OrientedCircles::get_end_curve is the run of station centres ending at the working end, just long enough to cover the requested distance", format!("{} flag {} m={} len {} want {}", d, flag, m, ec.length(), dist)));
            let ip = oc.intersect_from_end(&section).map_err(|e| format!("{e}"))?;
            let beyond = (ip - want.center()).dot(&sp.normal) > 0.0 && section.dist_to_point(&ip) <= 1e-9 * sec.len * sec.scale;
            out.push((beyond, "OrientedCircles::intersect_from_end is a point of the section beyond the working end", format!("{} flag {}", d, flag)));
            // push: at the working end, reversed when its spanning ray opposes the neighbour's
            for flip in [false, true] {
                let mut oc2 = OrientedCircles::new(oriented[1..n - 1].to_vec(), flag);
                let newc = if flip { want.reversed() } else { want.clone() };
                oc2.push(newc);
                let got = oc2.last().cloned();
                let all = oc2.take_circles();
                let placed = all.len() == n - 1 && if flag { same(&all[0], want) && (1..n - 1).all(|i| same(&all[i], &oriented[i])) } else { same(&all[n - 2], want) && (0..n - 2).all(|i| same(&all[i], &oriented[i + 1])) };
                out.push((placed && got.map(|c| same(&c, want)).unwrap_or(false), "OrientedCircles::push puts the station at the working end (front: index 0) oriented like its neighbour and keeps the other stations in order", format!("{} flag {} flip {}", d, flag, flip)));
            }
            let oc3 = OrientedCircles::new(oriented.clone(), flag);
            let back = oc3.take_circles();
            out.push((back.len() == n && (0..n).all(|i| same(&back[i], &oriented[i])), "OrientedCircles::take_circles returns the stations in leading-to-trailing storage order", format!("{} flag {}", d, flag)));
        }
        // every applicable locator called directly at both ends: works at the requested end, keeps the given stations in order
        for e in applicable(&sec) {
            for front in [true, false] {
                let loc = make_edge(e, &sec);
                match loc.find_edge(&section, oriented.clone(), front, sec.core_tol()) {
                    Err(er) => out.push((false, "every applicable edge locator accepts the oriented stations at either end", format!("{} {:?} front {} -> {}", d, e, front, er))),
                    Ok((edge, sts)) => {
                        let want_tip = iso * { let q = if front { sec.le_point() } else { sec.te_point() }; p2(q.x * sec.scale, q.y * sec.scale) };
                        let other_tip = iso * { let q = if front { sec.te_point() } else { sec.le_point() }; p2(q.x * sec.scale, q.y * sec.scale) };
                        let at_end = edge.as_ref().map(|ed| d2(&ed.point, &want_tip) < d2(&ed.point, &other_tip)).unwrap_or(false);
                        out.push((at_end, "find_edge(front) locates the leading edge, find_edge(back) the trailing edge", format!("{} {:?} front {}", d, e, front)));
                        if e != Edge::Converge {
                            // additions only at the working end: the given stations are a suffix (front) / prefix (back)
                            let m = sts.len();
                            let kept = m >= n && if front { (0..n).all(|i| same(&sts[m - n + i], &oriented[i])) } else { (0..n).all(|i| same(&sts[i], &oriented[i])) };
                            out.push((kept, "find_edge keeps the given stations in order and adds stations only at the requested end", format!("{} {:?} front {} n {} -> {}", d, e, front, n, m)));
                        } else {
                            let sub = sts.iter().all(|s| fwd.dot(&s.center().coords).is_finite());
                            out.push((sub && sts.len() >= 2, "ConvergeTangentEdge returns at least two stations", format!("{} front {}", d, front)));
                        }
                    }
                }
            }
        }
        Ok(out)
    }, 60);
    match res {
        Ok(Ok(v)) => for (ok, what, input) in v { cx.r.check(ok, what, || input); },
        Ok(Err(e)) => cx.r.check(false, "the helper checks can be set up (camber extraction accepted)", || format!("{:?} {:?}: {}", sec, pose, e)),
        Err(Run::Panic(p)) => cx.r.check(false, "the airfoil helpers do not panic", || format!("{:?} {:?}: {}", sec, pose, p)),
        Err(_) => { TIMEOUTS.fetch_add(1, std::sync::atomic::Ordering::SeqCst); cx.r.check(false, "the airfoil helpers terminate (watchdog 60 s)", || format!("{:?} {:?}", sec, pose)) }
    }
}

pub fn run() -> Option<Report> {
    let mut cx = Ctx { known: std::fs::read_to_string(std::env::var("VERIF_KNOWN_FINDINGS").unwrap_or_else(|_| "/verif/known_findings.json".to_string())).unwrap_or_default(), r: Report::new(
        "envelope sections (straight / circular-arc camber of 0.3, 0.6 rad, L = 10, radius laws: constant 0.4 / 0.5, taper 0.5 -> 0.25 and 0.3 -> 0.5, NACA-like bump with end radii 0.15 / 0.1 and maximum 0.635 at 30 %) and half-ellipse pairs (3 | 7 x 0.6, 4 | 4 x 1), 160 / 120 points per face and 40 per end arc (+ densities 100/32 and 320/80 on two sections), scale 0.1 / 1 / 10, 3 rigid motions x 2 windings x 3 start vertices; DirectionFwd / TMaxFwd x the applicable locators of {IntersectEdge, FitRadiusEdge, ConstRadiusEdge, RansacRadiusEdge, TraceToMaxCurvature, ConvergeTangentEdge} on both ends x UpperDir(+n) / UpperDir(-n) / Detect; open sections (trailing or leading 30 % cut away) with OpenEdge / OpenIntersectGap; analysis tolerance 1e-4 L; OrientedCircles / reversal / orientation helpers and every locator called directly at both ends on the stations of 4 sections; thorough tier: 3 more sections (bump 0.2 / 0.2 / 0.3 on 0.3 rad, taper 0.6 -> 0.2 on 0.45 rad, ellipses 2 | 6 x 0.5), every pose of the invariance sweep, and the full cross product locator(LE) x locator(TE) x orientation x face on every section. WAVE 5 (parameter-space audit): bump laws with a thin nose / thick tail and the maximum at 44 % of the camber length (and the mirror image), camber arcs turning 1.8 / 2.0 / 2.4 rad, stubby sections (L 1.6 / 2.4 with radii 0.5 .. 0.7, ellipses 1.6 | 1.6 x 1); DirectionFwd along -t(0), the chord, -t(L), x 1e-6, x 1e6; UpperDir 55 degrees off the normal with length 7 and -n x 1e-3; (analysis tolerance, curve tolerance) / L in {(1e-5, 1e-4), (1e-5, 1e-7), (1e-4, 1e-4), (1e-3, 1e-6), (1e-3, 5e-4), (2e-5, 2e-5)}; locator parameters Fit(0.5 tol), Ransac(0.05 tol, 200), Trace(0.02), Converge(0.02 r), OpenIntersectGap(12); open sections with every locator applicable to the closed end x OpenEdge / OpenIntersectGap x 8 pose classes (origin ahead of / behind / beside the closed edge, 2e4 away, half turn, other vertex order), each against the identity pose; poses 2e5 from the origin, near-identity (1e-8), chord on the y axis; scale 100 / 1000; start vertex on the tips / next to the seam; outline closed by coincidence / within the curve tolerance / with duplicated vertices; gauges at 0.1 and 0.9 of the camber"), m: Meter::new() };

    let bump = Law::Bump { le: 0.15, te: 0.1, amp: 0.5, at: 0.3 };
    let mut secs = vec![
        Sec::env(Cam::Straight, bump), Sec::env(Cam::Arc(0.3), bump), Sec::env(Cam::Arc(0.6), bump),
        Sec::env(Cam::Arc(0.6), Law::Taper(0.5, 0.25)), Sec::env(Cam::Straight, Law::Taper(0.3, 0.5)),
        Sec::env(Cam::Straight, Law::Const(0.5)), Sec::env(Cam::Arc(0.3), Law::Const(0.4)),
        Sec::ell(3.0, 7.0, 0.6), Sec::ell(4.0, 4.0, 1.0),
    ];
    if thorough() {
        secs.push(Sec::env(Cam::Arc(0.3), Law::Bump { le: 0.2, te: 0.2, amp: 0.3, at: 0.3 }));
        secs.push(Sec::env(Cam::Arc(0.45), Law::Taper(0.6, 0.2)));
        secs.push(Sec::ell(2.0, 6.0, 0.5));
    }
    let up_faces = |s: &Sec| if let Cam::Arc(_) = s.cam { vec![Face::Up, Face::Down, Face::Detect] } else { vec![Face::Up, Face::Down] };
    // ---- A. every applicable locator on both ends (same locator, and mixed with IntersectEdge)
    for sec in secs.iter() {
        for e in applicable(sec) {
            run_case(&mut cx, sec, &ID, &Cfg { orient: Orient::Dir, le: e, te: e, face: Face::Up }, None);
            if e != Edge::Intersect {
                run_case(&mut cx, sec, &ID, &Cfg { orient: Orient::Dir, le: e, te: Edge::Intersect, face: Face::Up }, None);
                run_case(&mut cx, sec, &ID, &Cfg { orient: Orient::Dir, le: Edge::Intersect, te: e, face: Face::Down }, None);
            }
        }
    }
    // ---- B. orientation methods x face modes
    for sec in secs.iter() {
        for face in up_faces(sec) {
            let mut os = vec![Orient::Dir];
            if sec.has_fwd_max() { os.push(Orient::TMax); }
            for orient in os { run_case(&mut cx, sec, &ID, &Cfg { orient, le: Edge::Intersect, te: Edge::Intersect, face }, None); }
        }
    }
    // ---- C. invariance: rigid motions x windings x start vertices against the identity pose
    let motions = [(0.0, 0.0, 0.0), (0.7, 3.0, -2.0), (2.5, -40.0, 25.0), (-1.9, 100.0, 50.0)];
    for sec in secs.iter() {
        let nv = sec.outline(None).len();
        let mut cfgs = vec![Cfg { orient: Orient::Dir, le: Edge::Intersect, te: Edge::Intersect, face: Face::Up }];
        let second = *applicable(sec).last().unwrap();
        cfgs.push(Cfg { orient: if sec.has_fwd_max() { Orient::TMax } else { Orient::Dir }, le: second, te: second, face: if let Cam::Arc(_) = sec.cam { Face::Detect } else { Face::Down } });
        for cfg in cfgs.iter() {
            let base = match run_case(&mut cx, sec, &ID, cfg, None) { Some(b) => b, None => continue };
            for (mi, (angle, tx, ty)) in motions.iter().enumerate() {
                for reversed in [false, true] {
                    for rot in [0, nv / 3, 2 * nv / 3 + 1] {
                        if mi == 0 && !reversed && rot == 0 { continue; }
                        if !thorough() && (mi + rot + reversed as usize) % 2 == 1 && mi > 0 && rot > 0 { continue; }
                        let pose = Pose { angle: *angle, tx: tx * sec.scale, ty: ty * sec.scale, reversed, rot, closure: 0 };
                        if let Some(o) = run_case(&mut cx, sec, &pose, cfg, None) { check_same(&mut cx, sec, &pose, cfg, None, &base, &o); }
                    }
                }
            }
        }
    }
    // ---- D. scale and sampling density
    for base in [secs[1], secs[3], secs[7]] {
        for scale in [0.1, 10.0] {
            let sec = Sec { scale, ..base };
            for e in applicable(&sec) {
                let pose = Pose { angle: 0.7, tx: 3.0 * scale, ty: -2.0 * scale, reversed: false, rot: 7, closure: 0 };
                let cfg = Cfg { orient: Orient::Dir, le: e, te: e, face: Face::Up };
                // Circle2::from_3_points rejects |det| < 1e-6 (absolute): on a chord-1 section the vertex triples of the end arcs /
                // tips count as collinear, ConstRadiusEdge finds no arc (Err: the section is not accepted) and the curvature
                // series of TraceToMaxCurvature is zero where it matters (a WRONG edge, reported defect)
                if scale < 1.0 && e == Edge::ConstR { continue; }
                if scale < 1.0 && e == Edge::Trace { run_case_folded(&mut cx, &sec, &pose, &cfg, F_CURV); continue; }
                run_case(&mut cx, &sec, &pose, &cfg, None);
            }
        }
    }
    for base in [secs[1], secs[3]] {
        for (ns, nc) in [(100, 32), (320, 80)] {
            let sec = Sec { n_side: ns, n_cap: nc, ..base };
            for e in applicable(&sec) {
                let cfg = Cfg { orient: Orient::Dir, le: e, te: e, face: Face::Up };
                if ns > 200 && e == Edge::ConstR { run_case_folded(&mut cx, &sec, &ID, &cfg, F_ARCS); continue; }
                run_case(&mut cx, &sec, &ID, &cfg, None);
            }
        }
    }
    // ---- E. open sections: every locator applicable to the closed end x both open-edge methods x every pose class (the
    // origin ahead of / behind / beside the closed edge, far away, turned, given in the other vertex order), each checked
    // clause by clause AND against the identity pose
    let open_poses = [
        Pose { angle: 0.0, tx: 100.0, ty: 0.0, reversed: false, rot: 0, closure: 0 }, Pose { angle: 0.0, tx: -100.0, ty: 0.0, reversed: true, rot: 0, closure: 0 },
        Pose { angle: 0.0, tx: 0.0, ty: 100.0, reversed: true, rot: 0, closure: 0 }, Pose { angle: 0.0, tx: 0.0, ty: -100.0, reversed: false, rot: 0, closure: 0 },
        Pose { angle: 2.5, tx: -40.0, ty: 25.0, reversed: true, rot: 0, closure: 0 }, Pose { angle: -1.9, tx: 7.0, ty: 3.0, reversed: false, rot: 0, closure: 0 },
        Pose { angle: std::f64::consts::PI, tx: 5.0, ty: 0.0, reversed: false, rot: 0, closure: 0 }, Pose { angle: 0.7, tx: 1e4, ty: -2e4, reversed: true, rot: 0, closure: 0 },
    ];
    for sec in [secs[0], secs[1]] {
        for (open, closed_is_le) in [(Some((false, 0.7)), true), (Some((true, 0.3)), false)] {
            for ce in applicable(&sec) {
                for oe in [Edge::Open, Edge::OpenGap, Edge::OpenGapFew] {
                    if oe != Edge::Open && !(ce == Edge::Intersect || ce == Edge::Fit) { continue; }
                    if oe == Edge::OpenGapFew && ce != Edge::Intersect { continue; }
                    let cfg = if closed_is_le { Cfg { orient: Orient::Dir, le: ce, te: oe, face: Face::Up } } else { Cfg { orient: Orient::Dir, le: oe, te: ce, face: Face::Up } };
                    let base = match run_case(&mut cx, &sec, &ID, &cfg, open) { Some(b) => b, None => continue };
                    for (pi, pose) in open_poses.iter().enumerate() {
                        if !thorough() && oe != Edge::Open && pi % 2 == 1 { continue; }
                        if let Some(o) = run_case(&mut cx, &sec, pose, &cfg, open) { check_same(&mut cx, &sec, pose, &cfg, open, &base, &o); }
                    }
                }
            }
        }
    }
    // ---- H. shape classes the sections above avoid: (1) a thin nose and a thick tail with the maximum thickness only just
    // ahead of mid camber BY LENGTH (the 0.25 r station spacing puts most STATIONS ahead of it), and its mirror image (maximum
    // aft: TMaxFwd not applicable); (2) strong camber, turning more than 90 degrees (the local heading at either end differs
    // from the end-to-end direction by more than a right angle between the two ends); every direction DirectionFwd may
    // legitimately be given (tangent at the leading end, chord, tangent at the trailing end, tiny, huge), three poses each
    // because which end the camber search lists first depends on the hull's farthest pair and the winding
    let thin = Law::Bump { le: 0.05, te: 0.25, amp: 0.45, at: 0.35 };
    let blunt = Law::Bump { le: 0.25, te: 0.05, amp: 0.45, at: 0.65 };
    let shapes = [
        Sec::env(Cam::Arc(0.3), thin), Sec::env(Cam::Straight, thin), Sec::env(Cam::Arc(0.3), blunt),
        Sec::env(Cam::Arc(2.0), bump), Sec::env(Cam::Arc(1.8), Law::Taper(0.5, 0.25)), Sec::env(Cam::Arc(2.4), Law::Const(0.4)),
    ];
    // (the third pose turns the chord EXACTLY onto the y axis)
    let shape_poses = [ID, Pose { angle: 2.5, tx: -40.0, ty: 25.0, reversed: true, rot: 57, closure: 0 }, Pose { angle: -1.1, tx: 3.0, ty: 8.0, reversed: false, rot: 211, closure: 0 }, Pose { angle: std::f64::consts::FRAC_PI_2, tx: 0.0, ty: 0.0, reversed: false, rot: 101, closure: 0 }];
    for sec in shapes.iter() {
        let mut os = vec![Orient::Dir, Orient::DirChord, Orient::DirEnd, Orient::DirTiny, Orient::DirBig];
        if sec.has_fwd_max() { os.push(Orient::TMax); }
        for (oi, orient) in os.iter().enumerate() {
            let cfg = Cfg { orient: *orient, le: Edge::Intersect, te: Edge::Intersect, face: [Face::Up, Face::Down, Face::Detect, Face::UpOblique, Face::DownTiny][oi % 5] };
            let base = match run_case(&mut cx, sec, &ID, &cfg, None) { Some(b) => b, None => continue };
            for pose in shape_poses.iter().skip(1) {
                if let Some(o) = run_case(&mut cx, sec, pose, &cfg, None) { check_same(&mut cx, sec, pose, &cfg, None, &base, &o); }
            }
        }
        for e in applicable(sec) {
            if e == Edge::Intersect { continue; }
            run_case(&mut cx, sec, &shape_poses[1], &Cfg { orient: Orient::DirChord, le: e, te: e, face: Face::Up }, None);
        }
    }
    // stubby sections: the edge region beyond the last station is 25 % .. 40 % of the perimeter (the locators that cut an edge
    // sub-curve out of the section ask for 'less than 40 %', the helper's own default is 25 %)
    for sec in [Sec { len: 1.6, n_side: 60, n_cap: 80, ..Sec::env(Cam::Straight, Law::Const(0.5)) }, Sec { len: 2.4, n_side: 80, n_cap: 80, ..Sec::env(Cam::Arc(0.4), Law::Taper(0.7, 0.55)) }, Sec::ell(1.6, 1.6, 1.0)] {
        for e in applicable(&sec) {
            // (on the stubby ellipse ConvergeTangentEdge answers Ok WITHOUT an edge point -- 'not found', which the locator
            // interface allows: not applicable)
            if e == Edge::Converge && matches!(sec.law, Law::Ellipses { .. }) { continue; }
            for pose in [ID, shape_poses[3]] { run_case(&mut cx, &sec, &pose, &Cfg { orient: Orient::DirChord, le: e, te: e, face: Face::Up }, None); }
        }
    }
    // the directions and the face variants on the ordinary sections as well
    for (si, sec) in secs.iter().enumerate() {
        let orient = [Orient::DirChord, Orient::DirEnd, Orient::DirTiny, Orient::DirBig][si % 4];
        let face = [Face::UpOblique, Face::DownTiny][si % 2];
        run_case(&mut cx, sec, &shape_poses[1 + si % 2], &Cfg { orient, le: Edge::Intersect, te: Edge::Intersect, face }, None);
    }
    // ---- I. tolerance pairings: analysis tolerance finer / coarser than usual against a section curve built with a point
    // tolerance smaller than, equal to and LARGER than it (clauses tied to the analysis tolerance use exactly it)
    for base in [secs[1], secs[3], secs[7]] {
        for (ktol, kcurve) in [(1e-5, 1e-4), (1e-5, 1e-7), (1e-4, 1e-4), (1e-3, 1e-6), (1e-3, 5e-4), (2e-5, 2e-5)] {
            let sec = Sec { ktol, kcurve, ..base };
            // (ConstRadiusEdge forges its end station from the TRUE end circle: on a polygon whose end-arc sagitta exceeds the
            // analysis tolerance that station is not an inscribed circle of the polygon -- outside the family)
            let second = if applicable(&sec)[1] == Edge::ConstR && ktol < 1e-4 { Edge::Intersect } else { applicable(&sec)[1] };
            run_case(&mut cx, &sec, &ID, &Cfg { orient: Orient::Dir, le: Edge::Intersect, te: Edge::Intersect, face: Face::Up }, None);
            run_case(&mut cx, &sec, &shape_poses[1], &Cfg { orient: Orient::DirChord, le: second, te: Edge::Intersect, face: Face::Down }, None);
        }
    }
    // ---- J. the optional parameters of the locators given explicitly / differently
    for (sec, list) in [(secs[1], vec![Edge::FitTight, Edge::RansacFew]), (secs[0], vec![Edge::FitTight, Edge::RansacFew]), (secs[7], vec![Edge::TraceWide, Edge::ConvergeWide]), (secs[8], vec![Edge::TraceWide, Edge::ConvergeWide])] {
        for e in list {
            run_case(&mut cx, &sec, &ID, &Cfg { orient: Orient::Dir, le: e, te: e, face: Face::Up }, None);
            run_case(&mut cx, &sec, &shape_poses[2], &Cfg { orient: Orient::DirEnd, le: e, te: Edge::Intersect, face: Face::Down }, None);
        }
    }
    // ---- K. magnitudes, ties and sequences: a near-identity motion (1e-8 rad, 1e-8 translation), a pose 2e5 from the
    // origin, sections of chord 1e3 / 1e4 (scale 100 / 1000), the start vertex ON the leading tip / the trailing tip / next to
    // the seam, a closed outline handed over closed-by-coincidence / closed within the curve tolerance / with duplicated
    // vertices, and the same analysis twice (every result against the identity pose)
    for (si, sec) in [secs[1], secs[4], secs[7], shapes[3]].iter().enumerate() {
        let nv = sec.outline(None).len();
        let second = *applicable(sec).last().unwrap();
        for cfg in [Cfg { orient: Orient::Dir, le: Edge::Intersect, te: Edge::Intersect, face: Face::Up }, Cfg { orient: Orient::DirChord, le: second, te: second, face: Face::Down }] {
            let base = match run_case(&mut cx, sec, &ID, &cfg, None) { Some(b) => b, None => continue };
            let tip_le = if let Law::Ellipses { .. } = sec.law { 0 } else { 2 * (sec.n_side + 1) + sec.n_cap + sec.n_cap / 2 };
            let tip_te = if let Law::Ellipses { .. } = sec.law { 2 * sec.n_side } else { sec.n_side + 1 + sec.n_cap / 2 };
            let poses = [
                ID,
                Pose { angle: 1e-8, tx: 1e-8, ty: -1e-8, reversed: false, rot: 0, closure: 0 },
                Pose { angle: 0.3, tx: 2e5, ty: -1e5, reversed: si % 2 == 0, rot: 3, closure: 0 },
                Pose { angle: 0.0, tx: 0.0, ty: 0.0, reversed: false, rot: tip_le, closure: 0 },
                Pose { angle: 0.0, tx: 0.0, ty: 0.0, reversed: true, rot: tip_te, closure: 0 },
                Pose { angle: 0.0, tx: 0.0, ty: 0.0, reversed: false, rot: 1, closure: 0 },
                Pose { angle: 0.0, tx: 0.0, ty: 0.0, reversed: false, rot: nv - 1, closure: 0 },
                Pose { angle: 0.7, tx: 3.0, ty: -2.0, reversed: false, rot: 17, closure: 1 },
                Pose { angle: 0.7, tx: 3.0, ty: -2.0, reversed: true, rot: 0, closure: 2 },
                Pose { angle: -1.9, tx: 7.0, ty: 3.0, reversed: si % 2 == 1, rot: nv / 2, closure: 3 },
            ];
            for pose in poses.iter() {
                // (2e5 from the origin Circle2::from_3_points -- absolute coordinates in a 3 x 3 determinant -- has lost the digits
                // the arc detection of ConstRadiusEdge lives on: the same family as the known finding on small / fine arcs)
                if pose.tx == 2e5 && cfg.le == Edge::ConstR { continue; }
                if let Some(o) = run_case(&mut cx, sec, pose, &cfg, None) { check_same(&mut cx, sec, pose, &cfg, None, &base, &o); }
            }
        }
        for scale in [100.0, 1000.0] {
            let big = Sec { scale, ..*sec };
            run_case(&mut cx, &big, &Pose { angle: 0.7, tx: 3.0 * scale, ty: -2.0 * scale, reversed: si % 2 == 0, rot: 7, closure: 0 }, &Cfg { orient: Orient::Dir, le: Edge::Intersect, te: Edge::Intersect, face: Face::Up }, None);
        }
    }
    // ---- G. (thorough) the full cross product of locator pairs x orientation methods x face modes on every section
    if thorough() {
        for sec in secs.iter() {
            let mut os = vec![Orient::Dir];
            if sec.has_fwd_max() { os.push(Orient::TMax); }
            for le in applicable(sec) { for te in applicable(sec) { for orient in os.iter() { for face in up_faces(sec) {
                run_case(&mut cx, sec, &Pose { angle: 0.7, tx: 3.0, ty: -2.0, reversed: true, rot: 5, closure: 0 }, &Cfg { orient: *orient, le, te, face }, None);
            } } } }
        }
    }
    // ---- F. containers, reversal, orientation, locators called directly
    for (sec, pose) in [(secs[1], ID), (secs[3], Pose { angle: 0.7, tx: 3.0, ty: -2.0, reversed: true, rot: 11, closure: 0 }), (secs[7], ID), (secs[0], Pose { angle: -1.9, tx: 100.0, ty: 50.0, reversed: false, rot: 5, closure: 0 })] {
        check_helpers(&mut cx, sec, pose);
    }
    cx.m.dump();
    Some(cx.r)
}
