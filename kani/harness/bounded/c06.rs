//! C06 bounded: line/polyline intersection search against the exhaustive per-edge computation.
//! Polylines: 5..=40 edges on small integer grids (zig-zags, combs, U shapes, staircases, closed rectangles /
//! diamonds / octagons / stars, rectangular spirals); many vertices are the x- or y-extreme of both adjacent edges.
//! Lines (rays, negative parameters included): axis-parallel lines through every vertex coordinate, through the
//! bounding-box bounds and through half-integer offsets, oblique lines with dyadic slopes through vertices and
//! through edge interiors; every line with its origin before / inside / behind the curve and in both senses.
//! The oracle is written independently of the code under check (own Cramer formula, own sort / merge).
//! Plus: lines EXACTLY through a vertex one of whose edges makes 1e-3 / 1e-4 / 1e-5 rad with the line (the two per-edge
//! parameters at the vertex differ by rounding: one crossing, no duplicate), and regular polygons with lines through two
//! vertices (inexact coordinates: the slab test of the accelerated search works at rounding level).
//! Plus (NEARLY PARALLEL, ANY MAGNITUDE): a 7-edge polyline one of whose edges E (length 0.01 .. 200) is crossed in its
//! interior by a line making 1e-6 / 1e-8 / 1e-10 rad with it, direction magnitudes 1e-3, 1, 1e3, in all 8 axis
//! symmetries; which edges the line crosses is decided by orientation signs relative to a point known to lie on the line
//! (scale-independent: no determinant threshold), judged whenever the determinant of the two direction vectors is above
//! 4e-12 (below 1e-12 the code reports "parallel" by design).
//! Plus (THIN FEATURE, ANY MAGNITUDE): a slot 0.002 .. 0.03 wide crossed transversally by lines whose direction vector has
//! magnitude 1e-3 .. 2000; the two wall crossings (>= 1e-6 apart in parameter) must both be reported.
use super::{close, Report};
use crate::common::Intersection;
use crate::geom2::polyline2::{farthest_point_direction_distance, max_intersection, polyline_intersections, ray_intersect_with_edge, spanning_ray};
use crate::geom2::{Curve2, Point2, Ray2, SurfacePoint2, Vector2};
use parry2d_f64::shape::Polyline;

const DEDUP: f64 = 1e-8;

fn p(x: f64, y: f64) -> Point2 { Point2::new(x, y) }

// ---------------------------------------------------------------- oracle
/// line a0 + t0*ad against the edge b0 + t1*bd, t1 in [0, 1]; directions parallel within |det| < 1e-12 give nothing
fn edge_hit(o: &Point2, d: &Vector2, v0: &Point2, v1: &Point2) -> Option<f64> {
    let (ex, ey) = (v1.x - v0.x, v1.y - v0.y);
    let det = ex * d.y - ey * d.x;
    if det.abs() < 1e-12 { return None; }
    let (dx, dy) = (v0.x - o.x, v0.y - o.y);
    let t0 = (dy * ex - dx * ey) / det;
    let t1 = (dy * d.x - dx * d.y) / det;
    if t1 >= 0.0 && t1 <= 1.0 { Some(t0) } else { None }
}
/// all per-edge hits (t, edge), ascending in t
fn brute(v: &[Point2], o: &Point2, d: &Vector2) -> Vec<(f64, usize)> {
    let mut out = vec![];
    for i in 0..v.len() - 1 { if let Some(t) = edge_hit(o, d, &v[i], &v[i + 1]) { out.push((t, i)); } }
    out.sort_by(|a, b| a.0.partial_cmp(&b.0).unwrap());
    out
}
/// the distinct crossing parameters: clusters of per-edge hits closer than 1e-8; None when two clusters are closer than
/// 1e-6 (the merge would depend on rounding: such a line is not part of the input space)
fn distinct(hits: &[(f64, usize)]) -> Option<Vec<f64>> {
    let mut ts: Vec<f64> = vec![];
    for (t, _) in hits.iter() {
        match ts.last() {
            Some(l) if (t - l).abs() < DEDUP => {}
            Some(l) if (t - l).abs() < 1e-6 => return None,
            _ => ts.push(*t),
        }
    }
    Some(ts)
}
fn on_edge(q: &Point2, a: &Point2, b: &Point2) -> bool {
    // distance of q to the segment a-b is (nearly) zero
    let (ex, ey) = (b.x - a.x, b.y - a.y);
    let l2 = ex * ex + ey * ey;
    let mut s = ((q.x - a.x) * ex + (q.y - a.y) * ey) / l2;
    if s < 0.0 { s = 0.0 } else if s > 1.0 { s = 1.0 }
    let (cx, cy) = (a.x + s * ex - q.x, a.y + s * ey - q.y);
    (cx * cx + cy * cy).sqrt() <= 1e-7
}
fn at(o: &Point2, d: &Vector2, t: f64) -> Point2 { p(o.x + d.x * t, o.y + d.y * t) }

// ---------------------------------------------------------------- polylines
fn zigzag(n_edges: usize, h: f64, dx: f64) -> Vec<Point2> { (0..=n_edges).map(|i| p(i as f64 * dx, if i % 2 == 0 { 0.0 } else { h })).collect() }
fn zigzag_vertical(n_edges: usize, w: f64) -> Vec<Point2> { (0..=n_edges).map(|i| p(if i % 2 == 0 { 0.0 } else { w }, i as f64)).collect() }
fn comb(teeth: usize) -> Vec<Point2> {
    // square wave: up, right, down, right ...
    let mut v = vec![p(0.0, 0.0)];
    for k in 0..teeth {
        let x = 2.0 * k as f64;
        v.push(p(x, 3.0)); v.push(p(x + 1.0, 3.0)); v.push(p(x + 1.0, 0.0)); v.push(p(x + 2.0, 0.0));
    }
    v
}
fn staircase(steps: usize) -> Vec<Point2> {
    let mut v = vec![p(0.0, 0.0)];
    for k in 0..steps { v.push(p(k as f64 + 1.0, k as f64)); v.push(p(k as f64 + 1.0, k as f64 + 1.0)); }
    v
}
fn u_shape(side: usize) -> Vec<Point2> {
    let s = side as f64;
    let mut v = vec![];
    for k in 0..=side { v.push(p(0.0, s - k as f64)); }
    for k in 1..=side { v.push(p(k as f64, 0.0)); }
    for k in 1..=side { v.push(p(s, k as f64)); }
    v
}
fn rect_closed(w: usize, h: usize) -> Vec<Point2> {
    let mut v = vec![];
    for k in 0..w { v.push(p(k as f64, 0.0)); }
    for k in 0..h { v.push(p(w as f64, k as f64)); }
    for k in 0..w { v.push(p((w - k) as f64, h as f64)); }
    for k in 0..h { v.push(p(0.0, (h - k) as f64)); }
    v.push(p(0.0, 0.0));
    v
}
fn diamond(r: usize) -> Vec<Point2> {
    // vertices on |x| + |y| = r, every corner is the x- or y-extreme of both adjacent edges
    let r = r as i64;
    let mut v = vec![];
    for k in 0..r { v.push(p((r - k) as f64, k as f64)); }
    for k in 0..r { v.push(p(-k as f64, (r - k) as f64)); }
    for k in 0..r { v.push(p((k - r) as f64, -k as f64)); }
    for k in 0..r { v.push(p(k as f64, (k - r) as f64)); }
    v.push(p(r as f64, 0.0));
    v
}
fn octagon(off: (f64, f64)) -> Vec<Point2> {
    let c = [(2.0, 0.0), (4.0, 0.0), (6.0, 2.0), (6.0, 4.0), (4.0, 6.0), (2.0, 6.0), (0.0, 4.0), (0.0, 2.0), (2.0, 0.0)];
    c.iter().map(|(x, y)| p(x + off.0, y + off.1)).collect()
}
fn star() -> Vec<Point2> {
    let c = [(0.0, 6.0), (1.0, 2.0), (5.0, 2.0), (2.0, -1.0), (3.0, -5.0), (0.0, -2.0), (-3.0, -5.0), (-2.0, -1.0), (-5.0, 2.0), (-1.0, 2.0), (0.0, 6.0)];
    c.iter().map(|(x, y)| p(*x, *y)).collect()
}
fn spiral(turns: usize, out_in: bool) -> Vec<Point2> {
    // rectangular spiral with integer corners: leg lengths 1,1,2,2,3,3,...
    let mut v = vec![p(0.0, 0.0)];
    let dirs = [(1.0, 0.0), (0.0, 1.0), (-1.0, 0.0), (0.0, -1.0)];
    let (mut x, mut y) = (0.0, 0.0);
    for k in 0..4 * turns {
        let len = (k / 2 + 1) as f64;
        x += dirs[k % 4].0 * len; y += dirs[k % 4].1 * len;
        v.push(p(x, y));
    }
    if out_in { v.reverse(); }
    v
}
/// open polylines whose LAST (or first) vertex is the unique extreme in some direction
fn hook_last_extreme() -> Vec<Vec<Point2>> {
    vec![
        vec![p(0.0, 0.0), p(1.0, 2.0), p(2.0, 0.0), p(3.0, 2.0), p(4.0, 0.0), p(9.0, 1.0)],
        vec![p(0.0, 0.0), p(1.0, 2.0), p(2.0, 0.0), p(3.0, 2.0), p(4.0, 0.0), p(2.0, 7.0)],
        vec![p(0.0, 0.0), p(1.0, 2.0), p(2.0, 0.0), p(3.0, 2.0), p(4.0, 0.0), p(2.0, -7.0)],
        vec![p(-8.0, 1.0), p(1.0, 2.0), p(2.0, 0.0), p(3.0, 2.0), p(4.0, 0.0), p(3.0, 1.0)],
        vec![p(0.0, 0.0), p(2.0, 1.0), p(1.0, 3.0), p(-1.0, 2.0), p(-2.0, -1.0), p(0.0, -3.0), p(6.0, -6.0)],
    ]
}

fn polylines() -> Vec<(&'static str, Vec<Point2>)> {
    let mut v: Vec<(&'static str, Vec<Point2>)> = vec![];
    for n in [5usize, 6, 8, 9, 13, 16, 17, 24, 33, 40] { v.push(("zigzag", zigzag(n, 2.0, 1.0))); }
    v.push(("zigzag tall", zigzag(12, 8.0, 2.0)));
    for n in [5usize, 11, 20] { v.push(("vertical zigzag", zigzag_vertical(n, 3.0))); }
    for t in [2usize, 5, 10] { v.push(("comb", comb(t))); }
    for s in [3usize, 8, 20] { v.push(("staircase", staircase(s))); }
    for s in [2usize, 5, 13] { v.push(("U shape", u_shape(s))); }
    v.push(("closed rectangle", rect_closed(2, 1)));
    v.push(("closed rectangle", rect_closed(5, 3)));
    v.push(("closed rectangle", rect_closed(12, 8)));
    for r in [2usize, 4, 10] { v.push(("closed diamond", diamond(r))); }
    v.push(("closed octagon", octagon((0.0, 0.0))));
    v.push(("closed octagon offset", octagon((-11.0, 5.0))));
    v.push(("closed star", star()));
    for t in [2usize, 4, 9] { v.push(("spiral", spiral(t, false))); v.push(("spiral inward", spiral(t, true))); }
    for h in hook_last_extreme() { v.push(("open, end vertex extreme", h)); }
    v
}

// ---------------------------------------------------------------- lines
fn rays_for(v: &[Point2]) -> Vec<Ray2> {
    let (mut x0, mut x1, mut y0, mut y1) = (f64::MAX, f64::MIN, f64::MAX, f64::MIN);
    for q in v { x0 = x0.min(q.x); x1 = x1.max(q.x); y0 = y0.min(q.y); y1 = y1.max(q.y); }
    let (cx, cy) = (((x0 + x1) * 0.5).floor() + 0.25, ((y0 + y1) * 0.5).floor() + 0.25);
    let mut xs: Vec<f64> = v.iter().map(|q| q.x).collect();
    let mut ys: Vec<f64> = v.iter().map(|q| q.y).collect();
    for (c, lo, hi) in [(&mut xs, x0, x1), (&mut ys, y0, y1)] {
        c.push(lo); c.push(hi); c.push(lo - 1.0); c.push(hi + 1.0); c.push(lo + 0.5); c.push(hi - 0.25); c.push((lo + hi) * 0.5 + 0.125);
        c.sort_by(|a, b| a.partial_cmp(b).unwrap());
        c.dedup();
    }
    let mut rays = vec![];
    // axis-parallel: horizontal lines y = c, origins left of / inside / right of the curve, both senses, two speeds
    for &c in ys.iter() {
        for ox in [x0 - 3.0, cx, x1 + 2.0, x0, x1] { for dx in [1.0, -1.0, 0.5, -4.0] { rays.push(Ray2::new(p(ox, c), Vector2::new(dx, 0.0))); } }
    }
    for &c in xs.iter() {
        for oy in [y0 - 3.0, cy, y1 + 2.0, y0, y1] { for dy in [1.0, -1.0, 0.5, -4.0] { rays.push(Ray2::new(p(c, oy), Vector2::new(0.0, dy))); } }
    }
    // oblique, dyadic slopes: through vertices (every third one plus both ends) and through quarter-offset points
    let dirs = [(1.0, 1.0), (1.0, -1.0), (2.0, 1.0), (1.0, -0.5), (-1.0, 2.0), (0.25, 1.0), (-4.0, -1.0), (3.0, 0.125),
        // nearly parallel to axis-parallel, slope-2 and diagonal edges (direction determinants 2^-10 .. 2^-16)
        (1.0, 0.0009765625), (-0.000244140625, 1.0), (1.0, 2.000244140625), (1.0, -1.0000152587890625), (-1.0, -2.0009765625)];
    let mut anchors: Vec<Point2> = v.iter().step_by(3).cloned().collect();
    anchors.push(*v.last().unwrap());
    anchors.push(p(cx, cy)); anchors.push(p(x0 - 1.5, cy)); anchors.push(p(cx, y1 + 1.5)); anchors.push(p(x1 + 2.25, y0 - 0.75));
    for a in anchors.iter() {
        for (dx, dy) in dirs {
            // origin on the anchor, and shifted far before / behind it along the line
            for s in [0.0, -16.0, 16.0] { rays.push(Ray2::new(p(a.x + s * dx, a.y + s * dy), Vector2::new(dx, dy))); }
        }
    }
    rays
}

// ---------------------------------------------------------------- the clauses
fn check_line(r: &mut Report, name: &str, v: &[Point2], line: &Polyline, curve: Option<&Curve2>, ray: &Ray2) {
    let hits = brute(v, &ray.origin, &ray.dir);
    let expected = match distinct(&hits) { Some(e) => e, None => return };
    r.case();
    let desc = || format!("{} {:?} x ray origin ({:?}, {:?}) dir ({:?}, {:?}); exhaustive per-edge hits {:?}", name, v.iter().map(|q| (q.x, q.y)).collect::<Vec<_>>(), ray.origin.x, ray.origin.y, ray.dir.x, ray.dir.y, hits);
    let n = v.len();

    // the real per-edge function agrees with the oracle formula
    for i in 0..n - 1 {
        let a = ray_intersect_with_edge(line, ray, i);
        let b = edge_hit(&ray.origin, &ray.dir, &v[i], &v[i + 1]);
        r.check(match (a, b) { (Some(x), Some(y)) => close(x, y), (None, None) => true, _ => false }, "ray_intersect_with_edge == parametric intersection restricted to edge parameter [0,1]", || format!("{} edge {}: got {:?}, expected {:?}", desc(), i, a, b));
    }

    let sources: Vec<(&str, Vec<(f64, usize)>)> = {
        let mut s = vec![("polyline_intersections", polyline_intersections(line, ray))];
        if let Some(c) = curve { s.push(("Curve2::ray_intersections", c.ray_intersections(ray))); }
        s
    };
    for (src, got) in sources.iter() {
        let d2 = || format!("{}: {} returned {:?}", desc(), src, got);
        // every reported parameter gives a point on the named edge
        let mut sound = true;
        for (t, i) in got.iter() {
            if *i + 1 >= n || !t.is_finite() { sound = false; continue; }
            if !on_edge(&at(&ray.origin, &ray.dir, *t), &v[*i], &v[*i + 1]) { sound = false; }
            if !hits.iter().any(|(bt, bi)| bi == i && close(*bt, *t)) { sound = false; }
        }
        r.check(sound, "every reported parameter gives a point on the named edge", d2);
        // none is missed
        let complete = hits.iter().all(|(bt, _)| got.iter().any(|(t, _)| (t - bt).abs() <= DEDUP));
        r.check(complete, "no per-edge intersection is missed", d2);
        r.check(got.len() == expected.len() && got.iter().zip(expected.iter()).all(|((t, _), e)| (t - e).abs() <= DEDUP), "reported parameters equal the distinct per-edge parameters", d2);
        // ascending without duplicates
        r.check(got.windows(2).all(|w| w[1].0 - w[0].0 >= DEDUP), "list ascending without duplicates (1e-8)", d2);
    }

    // spanning ray: exactly when there are two crossings
    let mut spans = vec![("spanning_ray", spanning_ray(line, ray))];
    if let Some(c) = curve { spans.push(("Curve2::try_create_spanning_ray", c.try_create_spanning_ray(ray))); }
    for (src, sr) in spans.iter() {
        let d3 = || format!("{}: {} returned {:?}", desc(), src, sr.as_ref().map(|s| (s.ray().origin.x, s.ray().origin.y, s.ray().dir.x, s.ray().dir.y)));
        r.check(sr.is_some() == (expected.len() == 2), "spanning ray produced exactly when there are two crossings", d3);
        if let (Some(s), 2) = (sr, expected.len()) {
            let sray = s.ray();
            let (a, b) = (at(&ray.origin, &ray.dir, expected[0]), at(&ray.origin, &ray.dir, expected[1]));
            let end = p(sray.origin.x + sray.dir.x, sray.origin.y + sray.dir.y);
            r.check(close(sray.origin.x, a.x) && close(sray.origin.y, a.y) && (0..n - 1).any(|i| on_edge(&sray.origin, &v[i], &v[i + 1])), "spanning ray starts on the curve at the first crossing", d3);
            r.check(close(end.x, b.x) && close(end.y, b.y) && (0..n - 1).any(|i| on_edge(&end, &v[i], &v[i + 1])), "spanning ray ends on the curve at the second crossing", d3);
            let cross = sray.dir.x * ray.dir.y - sray.dir.y * ray.dir.x;
            let dot = sray.dir.x * ray.dir.x + sray.dir.y * ray.dir.y;
            let scale = (sray.dir.x.abs() + sray.dir.y.abs()) * (ray.dir.x.abs() + ray.dir.y.abs());
            r.check(cross.abs() <= 1e-9 * scale && dot > 0.0, "spanning ray keeps the direction of the query line", d3);
            // no other crossing strictly between its ends (exhaustive over the edges, on the spanning ray itself)
            let inner = brute(v, &sray.origin, &sray.dir);
            r.check(inner.iter().all(|(t, _)| *t <= 1e-7 || *t >= 1.0 - 1e-7), "no crossing strictly between the ends of the spanning ray", || format!("{} crossings of the spanning ray {:?}", d3(), inner));
        }
    }

    // largest intersection
    let mi = max_intersection(line, ray);
    r.check(match (mi, expected.last()) { (Some(a), Some(b)) => (a - b).abs() <= DEDUP, (None, None) => true, _ => false }, "max_intersection == largest per-edge parameter", || format!("{}: got {:?}", desc(), mi));

    // farthest projected vertex
    let nrm = (ray.dir.x * ray.dir.x + ray.dir.y * ray.dir.y).sqrt();
    let mut far = f64::NEG_INFINITY;
    for q in v { far = far.max(((q.x - ray.origin.x) * ray.dir.x + (q.y - ray.origin.y) * ray.dir.y) / nrm); }
    let got = farthest_point_direction_distance(line, ray);
    r.check(close(got, far), "farthest_point_direction_distance == max over ALL vertices of the projection on the unit direction", || format!("{}: got {:?}, expected {:?}", desc(), got, far));
}

/// the intersection of a surface point's normal line with a curve: the parameters (distances along the unit normal,
/// negative ones kept) of the exhaustive computation
fn check_surface_point(r: &mut Report, name: &str, curve: &Curve2, sp: &SurfacePoint2) {
    let v = curve.points();
    let d = sp.normal.into_inner();
    let hits = brute(v, &sp.point, &d);
    let expected = match distinct(&hits) { Some(e) => e, None => return };
    // stay clear of lines that graze a vertex with an inexact (normalised) direction
    let grazing = hits.iter().any(|(t, i)| { let q = at(&sp.point, &d, *t); let (a, b) = (&v[*i], &v[*i + 1]);
        let da = ((q.x - a.x).powi(2) + (q.y - a.y).powi(2)).sqrt(); let db = ((q.x - b.x).powi(2) + (q.y - b.y).powi(2)).sqrt();
        (da < 1e-6 || db < 1e-6) && d.x != 0.0 && d.y != 0.0 });
    if grazing { return; }
    r.case();
    let got: Vec<f64> = curve.intersection(sp);
    r.check(got.len() == expected.len() && got.iter().zip(expected.iter()).all(|(a, b)| (a - b).abs() <= DEDUP),
        "surface-point normal-line intersection == exhaustive per-edge parameters (negative ones kept)",
        || format!("{} {:?} x surface point ({:?}, {:?}) normal ({:?}, {:?}): got {:?}, expected {:?}", name, v.iter().map(|q| (q.x, q.y)).collect::<Vec<_>>(), sp.point.x, sp.point.y, d.x, d.y, got, expected));
}


// ---------------------------------------------------------------- lines exactly through a vertex, one incident edge nearly parallel
/// closed pentagon given in the local frame (a along `d`, b along the left normal of `d`) of the vertex `v`:
/// u = (-len, theta*len) -> v = (0,0) -> (1.5,-3.75) -> (-6.5,-4) -> (-7.5,2) -> u.  The line {b = 0} passes exactly through
/// v; the edge u-v makes the angle atan(theta) with it; the only other crossing is on the edge (-6.5,-4)-(-7.5,2).
/// `side` = -1 mirrors the polygon in the line (u below the line), `rev` reverses the vertex order (v becomes the START
/// of the nearly parallel edge).
fn near_parallel_polygon(v: &Point2, d: &Vector2, theta: f64, len: f64, side: f64, rev: bool) -> Vec<Point2> {
    let n = Vector2::new(-d.y, d.x);
    let at = |a: f64, b: f64| p(v.x + a * d.x + side * b * n.x, v.y + a * d.y + side * b * n.y);
    let mut pts = vec![at(-len, theta * len), *v, at(1.5, -3.75), at(-6.5, -4.0), at(-7.5, 2.0), at(-len, theta * len)];
    if rev { pts.reverse(); }
    pts
}
fn near_parallel_vertex_lines(r: &mut Report) {
    let dirs = [(1.0, 0.25), (1.0, 0.0), (0.0, -1.0), (-0.5, 1.0), (2.0, -1.0), (1.0, 1.0)];
    let anchors = [p(3.5, 1.75), p(0.0, 0.0), p(-20.25, 13.5)];
    for theta in [1e-3, 1e-4, 1e-5] { for len in [4.2, 1.3, 9.7] { for (dx, dy) in dirs { for v in anchors.iter() {
        for side in [1.0, -1.0] { for rev in [false, true] {
            let d = Vector2::new(dx, dy);
            let pts = near_parallel_polygon(v, &d, theta, len, side, rev);
            let line = Polyline::new(pts.clone(), None);
            let curve = Curve2::from_points(&pts, 1e-6, false).ok().filter(|c| c.points().len() == pts.len());
            r.check(curve.is_some(), "Curve2::from_points keeps the vertex list of a duplicate-free polyline", || format!("near-parallel pentagon {:?}", pts.iter().map(|q| (q.x, q.y)).collect::<Vec<_>>()));
            // origin = v - k*d is exact (dyadic v, d, k): the line passes EXACTLY through the vertex v
            for k in [0.0, 2.0, 8.0, 32.0, -4.0, -16.0] { for s in [1.0, -1.0, 0.5] {
                let ray = Ray2::new(p(v.x - k * d.x, v.y - k * d.y), Vector2::new(s * d.x, s * d.y));
                check_line(r, "pentagon with an edge nearly parallel to a line through its vertex", &pts, &line, curve.as_ref(), &ray);
            } }
        } }
    } } } }
}

// ---------------------------------------------------------------- regular polygons, lines through two vertices
/// A line through two non-adjacent vertices of a regular polygon.  The vertex coordinates are inexact (cos / sin) and the
/// line touches the bounding boxes of the edges at those vertices only at a corner, so the slab test of the accelerated
/// search works at rounding level there.  Own clause names (prefix): on the unfixed tree the search prunes such edges.
fn regular_polygon_chords(r: &mut Report) {
    for n in [5usize, 6, 7, 8, 9, 12, 16, 24] { for radius in [1.0, 2.5, 10.0] { for (cx, cy) in [(0.0, 0.0), (3.25, -1.5)] {
        let mut pts: Vec<Point2> = (0..n).map(|k| { let a = 2.0 * std::f64::consts::PI * (k as f64) / (n as f64); p(cx + radius * a.cos(), cy + radius * a.sin()) }).collect();
        pts.push(pts[0]);
        let line = Polyline::new(pts.clone(), None);
        for i in 0..n { for j in 0..n {
            let gap = (i + n - j) % n;
            if gap < 2 || gap > n - 2 { continue; }
            let (a, b) = (pts[i], pts[j]);
            let ray = Ray2::new(a, b - a);
            let hits = brute(&pts, &ray.origin, &ray.dir);
            let expected = match distinct(&hits) { Some(e) => e, None => continue };
            r.case();
            let got = polyline_intersections(&line, &ray);
            let desc = || format!("regular {}-gon radius {:?} centre ({:?}, {:?}) {:?}; line from vertex {} {:?} to vertex {} {:?} (origin = vertex {}, dir = their difference); polyline_intersections returned {:?}; exhaustive per-edge hits {:?}",
                n, radius, cx, cy, pts.iter().map(|q| (q.x, q.y)).collect::<Vec<_>>(), i, (a.x, a.y), j, (b.x, b.y), i, got, hits);
            r.check(hits.iter().all(|(bt, _)| got.iter().any(|(t, _)| (t - bt).abs() <= DEDUP)),
                "[slab test rounding at a box corner] no per-edge intersection is missed for a line through two vertices of a regular polygon", desc);
            r.check(got.iter().all(|(t, e)| hits.iter().any(|(bt, be)| be == e && close(*bt, *t))) && got.windows(2).all(|w| w[1].0 - w[0].0 >= DEDUP),
                "regular polygon, line through two vertices: every reported parameter is a per-edge hit, ascending without duplicates (1e-8)", desc);
            r.check(spanning_ray(&line, &ray).is_some() == (expected.len() == 2),
                "[slab test rounding at a box corner] spanning ray produced exactly when the per-edge computation finds two crossings (line through two vertices of a regular polygon)", desc);
        } }
    } } }
}

// ---------------------------------------------------------------- nearly parallel lines of any magnitude
/// one of the 8 symmetries of the square (exact in floating point), then a translation
fn sym(k: usize, x: f64, y: f64) -> (f64, f64) {
    let (a, b) = if k & 1 == 1 { (y, x) } else { (x, y) };
    (if k & 2 == 2 { -a } else { a }, if k & 4 == 4 { -b } else { b })
}
/// The local frame has the edge E from (0,0) to (len,0).  The line passes through M = (mf*len, 0) with direction
/// mag*(1, theta); its origin is M - k*dir with k a power of two (so origin.y = -k*dir.y exactly: the line given to the code
/// crosses E within one ulp of M, at parameter k).  Polyline (H = max(1, len)):
/// (-3H,-2H) (-2H,3H) (-H,H) (0,0) (len,0) (len+H,-H) (len+2H,-3H) (len+3H,2H): edges 0 and 6 are crossed well inside
/// (transversally), edges 1 and 5 are not crossed, the neighbours 2 and 4 of E end on E's end points, which lie within
/// theta*len of the line: they are not judged.
fn near_parallel_scaled(r: &mut Report) {
    for &len in [0.01f64, 0.1, 1.0, 10.0, 200.0].iter() { for &theta in [1e-6f64, 1e-8, 1e-10].iter() { for &mag in [1e-3f64, 1.0, 1e3].iter() {
        // the determinant of the two direction vectors as the code computes it; below 1e-12 "parallel" by design
        let det = len * mag * theta;
        if det < 4e-12 { continue; }
        let h = len.max(1.0);
        let local = [(-3.0 * h, -2.0 * h), (-2.0 * h, 3.0 * h), (-h, h), (0.0, 0.0), (len, 0.0), (len + h, -h), (len + 2.0 * h, -3.0 * h), (len + 3.0 * h, 2.0 * h)];
        for symk in 0..8usize { for &(tx, ty) in [(0.0f64, 0.0f64), (3.5, -1.25)].iter() { for &mf in [0.5f64, 0.25, 0.8125].iter() { for &rev in [false, true].iter() {
            let tr = |x: f64, y: f64| { let (a, b) = sym(symk, x, y); p(a + tx, b + ty) };
            let mut pts: Vec<Point2> = local.iter().map(|&(x, y)| tr(x, y)).collect();
            // 8 vertices: E is the middle edge (index 3) in either vertex order
            let ie = 3usize;
            if rev { pts.reverse(); }
            let n = pts.len();
            let m = tr(mf * len, 0.0);
            let (dx, dy) = sym(symk, mag, mag * theta);
            let line = Polyline::new(pts.clone(), None);
            let curve = Curve2::from_points(&pts, 1e-6 * len.min(1.0), false).ok().filter(|c| c.points().len() == n);
            for &k in [0.0f64, 2.0, -4.0, 32.0].iter() { for &sense in [1.0f64, -1.0].iter() {
                let d = Vector2::new(sense * dx, sense * dy);
                let o = p(m.x - k * d.x, m.y - k * d.y);
                let ray = Ray2::new(o, d);
                r.case();
                let desc = || format!("polyline {:?} x ray origin ({:?}, {:?}) dir ({:?}, {:?}) [edge {} of length {:?} is crossed at ({:?}, {:?}) = parameter {:?} by this line, which makes {:?} rad with it; |dir| = {:?}; determinant of the two directions {:?}]",
                    pts.iter().map(|q| (q.x, q.y)).collect::<Vec<_>>(), o.x, o.y, d.x, d.y, ie, len, m.x, m.y, k, theta, mag, det);
                // orientation of every vertex relative to the line through M (not through the far-away origin), in units of length
                let side: Vec<f64> = pts.iter().map(|q| (d.x * (q.y - m.y) - d.y * (q.x - m.x)) / mag).collect();
                let margin = 1e-6 * h;
                let got = polyline_intersections(&line, &ray);
                let got_c = curve.as_ref().map(|c| c.ray_intersections(&ray));
                for i in 0..n - 1 {
                    let (sa, sb) = (side[i], side[i + 1]);
                    let e = ray_intersect_with_edge(&line, &ray, i);
                    let d1 = || format!("{}: edge {}: ray_intersect_with_edge = {:?}; polyline_intersections = {:?}", desc(), i, e, got);
                    if i == ie {
                        // E: end points strictly on opposite sides, crossing at M (edge parameter mf, well inside)
                        r.check(sa * sb < 0.0, "harness: the end points of the nearly parallel edge lie strictly on opposite sides of the line", d1);
                        r.check(e.is_some(), "per edge: a line crossing the interior of an edge at 1e-6 .. 1e-10 rad (determinant of the directions >= 4e-12) is reported, whatever the magnitudes of the direction vector and of the edge", d1);
                        if let Some(t) = e {
                            let q = at(&o, &d, t);
                            r.check(on_edge(&q, &pts[i], &pts[i + 1]), "per edge: the reported parameter gives a point on the nearly parallel edge", d1);
                            if tx == 0.0 && ty == 0.0 { r.check((t - k).abs() <= 1e-9 * (1.0 + k.abs()), "per edge: the reported parameter is the parameter of the crossing point (origin = crossing point - k * dir)", d1); }
                        }
                        for (src, g) in [("polyline_intersections", Some(&got)), ("Curve2::ray_intersections", got_c.as_ref())] {
                            if let Some(g) = g {
                                r.check(g.iter().any(|(t, j)| *j == i && on_edge(&at(&o, &d, *t), &pts[i], &pts[i + 1])), "none is missed: the crossing of a nearly parallel edge (any magnitude of direction vector / edge) is in the reported list", || format!("{}: {} = {:?}", desc(), src, g));
                            }
                        }
                    } else if (sa > margin && sb < -margin) || (sa < -margin && sb > margin) {
                        // transversal crossing well inside the edge: parameter from the orientation ratio
                        let f = sa / (sa - sb);
                        let q = p(pts[i].x + (pts[i + 1].x - pts[i].x) * f, pts[i].y + (pts[i + 1].y - pts[i].y) * f);
                        let t = ((q.x - o.x) * d.x + (q.y - o.y) * d.y) / (d.x * d.x + d.y * d.y);
                        r.check(match e { Some(x) => (x - t).abs() <= 1e-9 * (1.0 + t.abs()), None => false }, "per edge: an edge whose end points lie on opposite sides of the line is crossed, at the parameter of the crossing point", || format!("{} expected {:?}", d1(), t));
                        r.check(got.iter().any(|(x, j)| *j == i && (x - t).abs() <= 1e-9 * (1.0 + t.abs())), "none is missed: a transversal crossing of the same line is in the reported list", d1);
                    } else if (sa > margin && sb > margin) || (sa < -margin && sb < -margin) {
                        r.check(e.is_none() && !got.iter().any(|(_, j)| *j == i), "an edge whose end points lie on the same side of the line is not reported", d1);
                    }
                }
                // soundness and order of everything reported
                for (src, g) in [("polyline_intersections", Some(&got)), ("Curve2::ray_intersections", got_c.as_ref())] {
                    if let Some(g) = g {
                        let d2 = || format!("{}: {} = {:?}", desc(), src, g);
                        r.check(g.iter().all(|(t, i)| *i + 1 < n && t.is_finite() && on_edge(&at(&o, &d, *t), &pts[*i], &pts[*i + 1])), "every reported parameter gives a point on the named edge", d2);
                        r.check(g.windows(2).all(|w| w[1].0 - w[0].0 >= DEDUP), "list ascending without duplicates (1e-8)", d2);
                    }
                }
            } }
        } } } }
    } } }
}

// ---------------------------------------------------------------- long / short direction vectors over a thin feature
/// A slot of width w (0.002 .. 0.03) with two parallel walls, crossed transversally (slope 1/8 .. 2) by a line whose
/// direction vector has magnitude 1e-3 .. 2000: the two wall crossings are w/|dir|-ish apart in PARAMETER (>= 1e-6, so
/// inside the input space) although the parameter scale differs by 6 orders of magnitude.  Both must be reported, in
/// order, with the third (far) crossing.  Crossed edges decided by orientation signs relative to the known point M of the
/// line; parameters from the orientation ratio.
fn thin_feature_scaled_lines(r: &mut Report) {
    for &w in [0.002f64, 0.01, 0.03].iter() { for &mag in [1e-3f64, 1.0, 1000.0, 2000.0].iter() { for &(sx, sy) in [(1.0f64, 0.125f64), (1.0, -0.5), (0.5, 1.0)].iter() {
        // parameter distance of the two wall crossings; the 1e-8 merge must not touch them: only lines with a gap >= 1e-6
        let gap = w / (mag * sx);
        if gap < 1e-6 { continue; }
        let local = [(-3.0, 2.0), (-0.5 * w, 1.0), (-0.5 * w, -1.0), (0.5 * w, -1.0), (0.5 * w, 1.0), (3.0, 2.0), (4.0, -3.0)];
        for symk in 0..8usize { for &rev in [false, true].iter() {
            let tr = |x: f64, y: f64| { let (a, b) = sym(symk, x, y); p(a, b) };
            let mut pts: Vec<Point2> = local.iter().map(|&(x, y)| tr(x, y)).collect();
            if rev { pts.reverse(); }
            let n = pts.len();
            let m = tr(0.0, 0.0);
            let (dx, dy) = sym(symk, mag * sx, mag * sy);
            let line = Polyline::new(pts.clone(), None);
            let curve = Curve2::from_points(&pts, 1e-6, false).ok().filter(|c| c.points().len() == n);
            for &k in [0.0f64, 2.0, -4.0].iter() { for &sense in [1.0f64, -1.0].iter() {
                let d = Vector2::new(sense * dx, sense * dy);
                let o = p(m.x - k * d.x, m.y - k * d.y);
                let ray = Ray2::new(o, d);
                r.case();
                let desc = || format!("polyline {:?} x ray origin ({:?}, {:?}) dir ({:?}, {:?}) [slot of width {:?}, |dir| ~ {:?}: the two wall crossings are {:?} apart in parameter]",
                    pts.iter().map(|q| (q.x, q.y)).collect::<Vec<_>>(), o.x, o.y, d.x, d.y, w, mag, gap);
                let side: Vec<f64> = pts.iter().map(|q| (d.x * (q.y - m.y) - d.y * (q.x - m.x)) / mag).collect();
                let margin = 1e-6;
                let mut expected: Vec<(f64, usize)> = vec![];
                let mut clear = true;
                for i in 0..n - 1 {
                    let (sa, sb) = (side[i], side[i + 1]);
                    if (sa > margin && sb < -margin) || (sa < -margin && sb > margin) {
                        let f = sa / (sa - sb);
                        let q = p(pts[i].x + (pts[i + 1].x - pts[i].x) * f, pts[i].y + (pts[i + 1].y - pts[i].y) * f);
                        expected.push((((q.x - o.x) * d.x + (q.y - o.y) * d.y) / (d.x * d.x + d.y * d.y), i));
                    } else if !((sa > margin && sb > margin) || (sa < -margin && sb < -margin)) { clear = false; }
                }
                if !clear { continue; }
                expected.sort_by(|a, b| a.0.partial_cmp(&b.0).unwrap());
                r.check(expected.len() == 3, "harness: the line crosses both walls of the slot and the far edge", desc);
                let mut srcs = vec![("polyline_intersections", polyline_intersections(&line, &ray))];
                if let Some(c) = curve.as_ref() { srcs.push(("Curve2::ray_intersections", c.ray_intersections(&ray))); }
                for (src, got) in srcs.iter() {
                    let d2 = || format!("{}: {} = {:?}; per-edge crossings by orientation {:?}", desc(), src, got, expected);
                    r.check(got.len() == expected.len() && got.iter().zip(expected.iter()).all(|(g, e)| g.1 == e.1 && (g.0 - e.0).abs() <= 1e-9 * (1.0 + e.0.abs())),
                        "reported intersections equal the per-edge ones whatever the magnitude of the direction vector (crossings >= 1e-6 apart in parameter are distinct)", d2);
                }
                let mi = max_intersection(&line, &ray);
                r.check(match (mi, expected.last()) { (Some(a), Some(b)) => (a - b.0).abs() <= 1e-9 * (1.0 + b.0.abs()), _ => false }, "max_intersection == largest per-edge parameter (direction vector of any magnitude)", || format!("{}: got {:?}, per-edge {:?}", desc(), mi, expected));
                r.check(spanning_ray(&line, &ray).is_none(), "spanning ray produced exactly when there are two crossings (here three, direction vector of any magnitude)", desc);
            } }
        } }
    } } }
}

pub fn run() -> Option<Report> {
    let mut r = Report::new("43 polylines with 5..=40 edges on integer grids (zig-zags, combs, staircases, U shapes, closed rectangles / diamonds / octagons / star, rectangular spirals, open chains whose end vertex is the unique extreme) x per polyline: axis-parallel lines through every vertex coordinate, the box bounds, one unit outside and fractional offsets (5 origins before / inside / behind / on the box, 4 signed speeds) and oblique lines of 13 dyadic slopes (5 of them nearly parallel to edges, direction determinants 2^-10 .. 2^-16) through every third vertex, the last vertex and 4 off-grid anchors (origin on the anchor and 16 steps before / behind); surface points = the same lines with a unit normal; lines whose distinct crossings are closer than 1e-6 are excluded; NEAR-PARALLEL: 648 closed pentagons (3 vertex positions x 6 dyadic line directions x nearly parallel edge of length 1.3 / 4.2 / 9.7 at 1e-3, 1e-4, 1e-5 rad, on either side, vertex = end or start of that edge) x 18 lines EXACTLY through the vertex (origin 0, 2, 8, 32, -4, -16 steps before it, speeds 1, -1, 0.5); REGULAR POLYGONS: 5,6,7,8,9,12,16,24-gons of radius 1, 2.5, 10 at 2 centres x every line through two non-adjacent vertices (inexact coordinates); NEARLY PARALLEL, ANY MAGNITUDE: 7-edge polyline with an edge of length 0.01, 0.1, 1, 10, 200 crossed at 0.25 / 0.5 / 0.8125 of its length by a line at 1e-6, 1e-8, 1e-10 rad with |dir| = 1e-3, 1, 1e3 (combinations whose direction determinant len*|dir|*angle is >= 4e-12), 8 axis symmetries x 2 translations x both vertex orders x origins 0, 2, -4, 32 steps before the crossing x both senses; crossed edges decided by orientation signs relative to the known crossing point; THIN FEATURE: a slot of width 0.002, 0.01, 0.03 crossed at slopes 1/8, -1/2, 2 by lines with |dir| ~ 1e-3, 1, 1e3, 2e3 whose two wall crossings are >= 1e-6 apart in parameter (8 symmetries, both vertex orders, 3 origins, both senses)");
    for (name, pts) in polylines() {
        let line = Polyline::new(pts.clone(), None);
        let curve = Curve2::from_points(&pts, 1e-6, false).ok();
        // the curve has the same vertex list (no duplicates to remove, never force-closed)
        let curve = curve.filter(|c| c.points().len() == pts.len());
        r.check(curve.is_some(), "Curve2::from_points keeps the vertex list of a duplicate-free polyline", || format!("{} {:?}", name, pts.iter().map(|q| (q.x, q.y)).collect::<Vec<_>>()));
        let rays = rays_for(&pts);
        for ray in rays.iter() {
            check_line(&mut r, name, &pts, &line, curve.as_ref(), ray);
        }
        if let Some(c) = curve.as_ref() {
            for ray in rays.iter() {
                let sp = SurfacePoint2::new_normalize(ray.origin, ray.dir);
                check_surface_point(&mut r, name, c, &sp);
            }
        }
    }
    near_parallel_vertex_lines(&mut r);
    regular_polygon_chords(&mut r);
    near_parallel_scaled(&mut r);
    thin_feature_scaled_lines(&mut r);
    Some(r)
}
