//! C06 bounded: line/polyline intersection search against the exhaustive per-edge computation.
//! Polylines: 5..=40 edges on small integer grids (zig-zags, combs, U shapes, staircases, closed rectangles /
//! diamonds / octagons / stars, rectangular spirals); many vertices are the x- or y-extreme of both adjacent edges.
//! Lines (rays, negative parameters included): axis-parallel lines through every vertex coordinate, through the
//! bounding-box bounds and through half-integer offsets, oblique lines with dyadic slopes through vertices and
//! through edge interiors; every line with its origin before / inside / behind the curve and in both senses.
//! The oracle is written independently of the code under check (own Cramer formula, own sort / merge).
//! Plus: lines EXACTLY through a vertex one of whose edges makes 1e-3 / 1e-4 / 1e-5 rad with the line (the two per-edge
//! parameters at the vertex differ by rounding: one crossing, no duplicate), and regular polygons with lines through two
//! vertices (inexact coordinates: the slab test of the accelerated search works at rounding level).
//! Plus (NEARLY PARALLEL, ANY MAGNITUDE): a 7-edge polyline one of whose edges E (length 0.01 .. 200) is crossed in its
//! interior by a line making 1e-6 / 1e-8 / 1e-10 rad with it, direction magnitudes 1e-3, 1, 1e3, in all 8 axis
//! symmetries; which edges the line crosses is decided by orientation signs relative to a point known to lie on the line
//! (scale-independent: no determinant threshold), judged whenever the determinant of the two direction vectors is above
//! 4e-12 (below 1e-12 the code reports "parallel" by design).
//! Plus (THIN FEATURE, ANY MAGNITUDE): a slot 0.002 .. 0.03 wide crossed transversally by lines whose direction vector has
//! magnitude 1e-3 .. 2000; the two wall crossings (>= 1e-6 apart in parameter) must both be reported.
//! Plus (wave 5, ORIENTATION-SIGN ORACLE; every line is given as (m, d, k): it passes through m, the ray origin m - k*d is exact):
//!  F1 SIZES / LAYOUTS: 1..4, 41, 63..65, 100, 255..257, 1000, 1024, 4097, 5000 edges (zig-zag, asymmetric zig-zag, comb,
//!     rectangular spiral both ways, round spiral and closed star ring with inexact coordinates, nearly straight run, closed
//!     rectangles); targeted lines through every edge (<= 300 edges) or the first / last 10 edges, the edges around 16, 64,
//!     256, 1024, 4096 and every n/37-th: edge fractions 0.375, 0 (the vertex), 2^-18, 2^-34 inside each end, and just
//!     beyond / exactly at the free ends; 6 directions (incl. (49, 1): inexact reciprocal); origins 0, 4, -8, 2^20, -2^36,
//!     12345678901 steps away; sweeps that cross every edge in one query (up to 5000 hits), signed-zero components.
//!  F2 MAGNITUDES: 11 shapes (1, 2, 9..32 edges) x offsets (0,0), (1e3,-3e3), (1e5+.5, 2.5e5), (-1e8, 1e8), (1.2e8, -9.9e8) x
//!     scales 1, 2^-10, 2^-20, 2^-27 (pairs whose image is exact) x |dir| factors scale*2^-10 .. 2^10: targeted lines as in F1
//!     and the generic lines of the base shape; a line is judged when no design threshold is in play (see orient_oracle).
//!  F5 / F6: zero-length edges; curves as Curve2 builds them (force_closed: crossing on the closing edge; closed within the
//!     tolerance; duplicates removed; cloned / translated / reversed), oracle on the vertex list the curve reports; every
//!     query asked twice.
use super::{close, Report};
use crate::common::Intersection;
use crate::geom2::polyline2::{farthest_point_direction_distance, max_intersection, polyline_intersections, ray_intersect_with_edge, spanning_ray};
use crate::geom2::{Curve2, Line2, Point2, Ray2, SurfacePoint2, Vector2};
use parry2d_f64::shape::Polyline;

const DEDUP: f64 = 1e-8;

fn p(x: f64, y: f64) -> Point2 { Point2::new(x, y) }

// ---------------------------------------------------------------- oracle
/// line a0 + t0*ad against the edge b0 + t1*bd, t1 in [0, 1]; directions parallel within |det| < 1e-12 give nothing
fn edge_hit(o: &Point2, d: &Vector2, v0: &Point2, v1: &Point2) -> Option<f64> {
    let (ex, ey) = (v1.x - v0.x, v1.y - v0.y);
    let det = ex * d.y - ey * d.x;
    if det.abs() < 1e-12 { return None; }
    let (dx, dy) = (v0.x - o.x, v0.y - o.y);
    let t0 = (dy * ex - dx * ey) / det;
    let t1 = (dy * d.x - dx * d.y) / det;
    if t1 >= 0.0 && t1 <= 1.0 { Some(t0) } else { None }
}
/// all per-edge hits (t, edge), ascending in t
fn brute(v: &[Point2], o: &Point2, d: &Vector2) -> Vec<(f64, usize)> {
    let mut out = vec![];
    for i in 0..v.len() - 1 { if let Some(t) = edge_hit(o, d, &v[i], &v[i + 1]) { out.push((t, i)); } }
    out.sort_by(|a, b| a.0.partial_cmp(&b.0).unwrap());
    out
}
/// the distinct crossing parameters: clusters of per-edge hits closer than 1e-8; None when two clusters are closer than
/// 1e-6 (the merge would depend on rounding: such a line is not part of the input space)
fn distinct(hits: &[(f64, usize)]) -> Option<Vec<f64>> {
    let mut ts: Vec<f64> = vec![];
    for (t, _) in hits.iter() {
        match ts.last() {
            Some(l) if (t - l).abs() < DEDUP => {}
            Some(l) if (t - l).abs() < 1e-6 => return None,
            _ => ts.push(*t),
        }
    }
    Some(ts)
}
fn on_edge(q: &Point2, a: &Point2, b: &Point2) -> bool {
    // distance of q to the segment a-b is (nearly) zero
    let (ex, ey) = (b.x - a.x, b.y - a.y);
    let l2 = ex * ex + ey * ey;
    let mut s = ((q.x - a.x) * ex + (q.y - a.y) * ey) / l2;
    if s < 0.0 { s = 0.0 } else if s > 1.0 { s = 1.0 }
    let (cx, cy) = (a.x + s * ex - q.x, a.y + s * ey - q.y);
    (cx * cx + cy * cy).sqrt() <= 1e-7
}
fn at(o: &Point2, d: &Vector2, t: f64) -> Point2 { p(o.x + d.x * t, o.y + d.y * t) }

// ---------------------------------------------------------------- polylines
fn zigzag(n_edges: usize, h: f64, dx: f64) -> Vec<Point2> { (0..=n_edges).map(|i| p(i as f64 * dx, if i % 2 == 0 { 0.0 } else { h })).collect() }
fn zigzag_vertical(n_edges: usize, w: f64) -> Vec<Point2> { (0..=n_edges).map(|i| p(if i % 2 == 0 { 0.0 } else { w }, i as f64)).collect() }
fn comb(teeth: usize) -> Vec<Point2> {
    // square wave: up, right, down, right ...
    let mut v = vec![p(0.0, 0.0)];
    for k in 0..teeth {
        let x = 2.0 * k as f64;
        v.push(p(x, 3.0)); v.push(p(x + 1.0, 3.0)); v.push(p(x + 1.0, 0.0)); v.push(p(x + 2.0, 0.0));
    }
    v
}
fn staircase(steps: usize) -> Vec<Point2> {
    let mut v = vec![p(0.0, 0.0)];
    for k in 0..steps { v.push(p(k as f64 + 1.0, k as f64)); v.push(p(k as f64 + 1.0, k as f64 + 1.0)); }
    v
}
fn u_shape(side: usize) -> Vec<Point2> {
    let s = side as f64;
    let mut v = vec![];
    for k in 0..=side { v.push(p(0.0, s - k as f64)); }
    for k in 1..=side { v.push(p(k as f64, 0.0)); }
    for k in 1..=side { v.push(p(s, k as f64)); }
    v
}
fn rect_closed(w: usize, h: usize) -> Vec<Point2> {
    let mut v = vec![];
    for k in 0..w { v.push(p(k as f64, 0.0)); }
    for k in 0..h { v.push(p(w as f64, k as f64)); }
    for k in 0..w { v.push(p((w - k) as f64, h as f64)); }
    for k in 0..h { v.push(p(0.0, (h - k) as f64)); }
    v.push(p(0.0, 0.0));
    v
}
fn diamond(r: usize) -> Vec<Point2> {
    // vertices on |x| + |y| = r, every corner is the x- or y-extreme of both adjacent edges
    let r = r as i64;
    let mut v = vec![];
    for k in 0..r { v.push(p((r - k) as f64, k as f64)); }
    for k in 0..r { v.push(p(-k as f64, (r - k) as f64)); }
    for k in 0..r { v.push(p((k - r) as f64, -k as f64)); }
    for k in 0..r { v.push(p(k as f64, (k - r) as f64)); }
    v.push(p(r as f64, 0.0));
    v
}
fn octagon(off: (f64, f64)) -> Vec<Point2> {
    let c = [(2.0, 0.0), (4.0, 0.0), (6.0, 2.0), (6.0, 4.0), (4.0, 6.0), (2.0, 6.0), (0.0, 4.0), (0.0, 2.0), (2.0, 0.0)];
    c.iter().map(|(x, y)| p(x + off.0, y + off.1)).collect()
}
fn star() -> Vec<Point2> {
    let c = [(0.0, 6.0), (1.0, 2.0), (5.0, 2.0), (2.0, -1.0), (3.0, -5.0), (0.0, -2.0), (-3.0, -5.0), (-2.0, -1.0), (-5.0, 2.0), (-1.0, 2.0), (0.0, 6.0)];
    c.iter().map(|(x, y)| p(*x, *y)).collect()
}
fn spiral(turns: usize, out_in: bool) -> Vec<Point2> {
    // rectangular spiral with integer corners: leg lengths 1,1,2,2,3,3,...
    let mut v = vec![p(0.0, 0.0)];
    let dirs = [(1.0, 0.0), (0.0, 1.0), (-1.0, 0.0), (0.0, -1.0)];
    let (mut x, mut y) = (0.0, 0.0);
    for k in 0..4 * turns {
        let len = (k / 2 + 1) as f64;
        x += dirs[k % 4].0 * len; y += dirs[k % 4].1 * len;
        v.push(p(x, y));
    }
    if out_in { v.reverse(); }
    v
}
/// open polylines whose LAST (or first) vertex is the unique extreme in some direction
fn hook_last_extreme() -> Vec<Vec<Point2>> {
    vec![
        vec![p(0.0, 0.0), p(1.0, 2.0), p(2.0, 0.0), p(3.0, 2.0), p(4.0, 0.0), p(9.0, 1.0)],
        vec![p(0.0, 0.0), p(1.0, 2.0), p(2.0, 0.0), p(3.0, 2.0), p(4.0, 0.0), p(2.0, 7.0)],
        vec![p(0.0, 0.0), p(1.0, 2.0), p(2.0, 0.0), p(3.0, 2.0), p(4.0, 0.0), p(2.0, -7.0)],
        vec![p(-8.0, 1.0), p(1.0, 2.0), p(2.0, 0.0), p(3.0, 2.0), p(4.0, 0.0), p(3.0, 1.0)],
        vec![p(0.0, 0.0), p(2.0, 1.0), p(1.0, 3.0), p(-1.0, 2.0), p(-2.0, -1.0), p(0.0, -3.0), p(6.0, -6.0)],
    ]
}

fn polylines() -> Vec<(&'static str, Vec<Point2>)> {
    let mut v: Vec<(&'static str, Vec<Point2>)> = vec![];
    for n in [5usize, 6, 8, 9, 13, 16, 17, 24, 33, 40] { v.push(("zigzag", zigzag(n, 2.0, 1.0))); }
    v.push(("zigzag tall", zigzag(12, 8.0, 2.0)));
    for n in [5usize, 11, 20] { v.push(("vertical zigzag", zigzag_vertical(n, 3.0))); }
    for t in [2usize, 5, 10] { v.push(("comb", comb(t))); }
    for s in [3usize, 8, 20] { v.push(("staircase", staircase(s))); }
    for s in [2usize, 5, 13] { v.push(("U shape", u_shape(s))); }
    v.push(("closed rectangle", rect_closed(2, 1)));
    v.push(("closed rectangle", rect_closed(5, 3)));
    v.push(("closed rectangle", rect_closed(12, 8)));
    for r in [2usize, 4, 10] { v.push(("closed diamond", diamond(r))); }
    v.push(("closed octagon", octagon((0.0, 0.0))));
    v.push(("closed octagon offset", octagon((-11.0, 5.0))));
    v.push(("closed star", star()));
    for t in [2usize, 4, 9] { v.push(("spiral", spiral(t, false))); v.push(("spiral inward", spiral(t, true))); }
    for h in hook_last_extreme() { v.push(("open, end vertex extreme", h)); }
    v
}

// ---------------------------------------------------------------- lines
fn rays_for(v: &[Point2]) -> Vec<Ray2> {
    let (mut x0, mut x1, mut y0, mut y1) = (f64::MAX, f64::MIN, f64::MAX, f64::MIN);
    for q in v { x0 = x0.min(q.x); x1 = x1.max(q.x); y0 = y0.min(q.y); y1 = y1.max(q.y); }
    let (cx, cy) = (((x0 + x1) * 0.5).floor() + 0.25, ((y0 + y1) * 0.5).floor() + 0.25);
    let mut xs: Vec<f64> = v.iter().map(|q| q.x).collect();
    let mut ys: Vec<f64> = v.iter().map(|q| q.y).collect();
    for (c, lo, hi) in [(&mut xs, x0, x1), (&mut ys, y0, y1)] {
        c.push(lo); c.push(hi); c.push(lo - 1.0); c.push(hi + 1.0); c.push(lo + 0.5); c.push(hi - 0.25); c.push((lo + hi) * 0.5 + 0.125);
        c.sort_by(|a, b| a.partial_cmp(b).unwrap());
        c.dedup();
    }
    let mut rays = vec![];
    // axis-parallel: horizontal lines y = c, origins left of / inside / right of the curve, both senses, two speeds
    for &c in ys.iter() {
        for ox in [x0 - 3.0, cx, x1 + 2.0, x0, x1] { for dx in [1.0, -1.0, 0.5, -4.0] { rays.push(Ray2::new(p(ox, c), Vector2::new(dx, 0.0))); } }
    }
    for &c in xs.iter() {
        for oy in [y0 - 3.0, cy, y1 + 2.0, y0, y1] { for dy in [1.0, -1.0, 0.5, -4.0] { rays.push(Ray2::new(p(c, oy), Vector2::new(0.0, dy))); } }
    }
    // oblique, dyadic slopes: through vertices (every third one plus both ends) and through quarter-offset points
    let dirs = [(1.0, 1.0), (1.0, -1.0), (2.0, 1.0), (1.0, -0.5), (-1.0, 2.0), (0.25, 1.0), (-4.0, -1.0), (3.0, 0.125),
        // nearly parallel to axis-parallel, slope-2 and diagonal edges (direction determinants 2^-10 .. 2^-16)
        (1.0, 0.0009765625), (-0.000244140625, 1.0), (1.0, 2.000244140625), (1.0, -1.0000152587890625), (-1.0, -2.0009765625)];
    let mut anchors: Vec<Point2> = v.iter().step_by(3).cloned().collect();
    anchors.push(*v.last().unwrap());
    anchors.push(p(cx, cy)); anchors.push(p(x0 - 1.5, cy)); anchors.push(p(cx, y1 + 1.5)); anchors.push(p(x1 + 2.25, y0 - 0.75));
    for a in anchors.iter() {
        for (dx, dy) in dirs {
            // origin on the anchor, and shifted far before / behind it along the line
            for s in [0.0, -16.0, 16.0] { rays.push(Ray2::new(p(a.x + s * dx, a.y + s * dy), Vector2::new(dx, dy))); }
        }
    }
    rays
}

// ---------------------------------------------------------------- the clauses
fn check_line(r: &mut Report, name: &str, v: &[Point2], line: &Polyline, curve: Option<&Curve2>, ray: &Ray2) {
    let hits = brute(v, &ray.origin, &ray.dir);
    let expected = match distinct(&hits) { Some(e) => e, None => return };
    r.case();
    let desc = || format!("{} {:?} x ray origin ({:?}, {:?}) dir ({:?}, {:?}); exhaustive per-edge hits {:?}", name, v.iter().map(|q| (q.x, q.y)).collect::<Vec<_>>(), ray.origin.x, ray.origin.y, ray.dir.x, ray.dir.y, hits);
    let n = v.len();

    // the real per-edge function agrees with the oracle formula
    for i in 0..n - 1 {
        let a = ray_intersect_with_edge(line, ray, i);
        let b = edge_hit(&ray.origin, &ray.dir, &v[i], &v[i + 1]);
        r.check(match (a, b) { (Some(x), Some(y)) => close(x, y), (None, None) => true, _ => false }, "ray_intersect_with_edge == parametric intersection restricted to edge parameter [0,1]", || format!("{} edge {}: got {:?}, expected {:?}", desc(), i, a, b));
    }

    let sources: Vec<(&str, Vec<(f64, usize)>)> = {
        let mut s = vec![("polyline_intersections", polyline_intersections(line, ray))];
        if let Some(c) = curve { s.push(("Curve2::ray_intersections", c.ray_intersections(ray))); }
        s
    };
    for (src, got) in sources.iter() {
        let d2 = || format!("{}: {} returned {:?}", desc(), src, got);
        // every reported parameter gives a point on the named edge
        let mut sound = true;
        for (t, i) in got.iter() {
            if *i + 1 >= n || !t.is_finite() { sound = false; continue; }
            if !on_edge(&at(&ray.origin, &ray.dir, *t), &v[*i], &v[*i + 1]) { sound = false; }
            if !hits.iter().any(|(bt, bi)| bi == i && close(*bt, *t)) { sound = false; }
        }
        r.check(sound, "every reported parameter gives a point on the named edge", d2);
        // none is missed
        let complete = hits.iter().all(|(bt, _)| got.iter().any(|(t, _)| (t - bt).abs() <= DEDUP));
        r.check(complete, "no per-edge intersection is missed", d2);
        r.check(got.len() == expected.len() && got.iter().zip(expected.iter()).all(|((t, _), e)| (t - e).abs() <= DEDUP), "reported parameters equal the distinct per-edge parameters", d2);
        // ascending without duplicates
        r.check(got.windows(2).all(|w| w[1].0 - w[0].0 >= DEDUP), "list ascending without duplicates (1e-8)", d2);
    }

    // spanning ray: exactly when there are two crossings
    let mut spans = vec![("spanning_ray", spanning_ray(line, ray))];
    if let Some(c) = curve { spans.push(("Curve2::try_create_spanning_ray", c.try_create_spanning_ray(ray))); }
    for (src, sr) in spans.iter() {
        let d3 = || format!("{}: {} returned {:?}", desc(), src, sr.as_ref().map(|s| (s.ray().origin.x, s.ray().origin.y, s.ray().dir.x, s.ray().dir.y)));
        r.check(sr.is_some() == (expected.len() == 2), "spanning ray produced exactly when there are two crossings", d3);
        if let (Some(s), 2) = (sr, expected.len()) {
            let sray = s.ray();
            let (a, b) = (at(&ray.origin, &ray.dir, expected[0]), at(&ray.origin, &ray.dir, expected[1]));
            let end = p(sray.origin.x + sray.dir.x, sray.origin.y + sray.dir.y);
            r.check(close(sray.origin.x, a.x) && close(sray.origin.y, a.y) && (0..n - 1).any(|i| on_edge(&sray.origin, &v[i], &v[i + 1])), "spanning ray starts on the curve at the first crossing", d3);
            r.check(close(end.x, b.x) && close(end.y, b.y) && (0..n - 1).any(|i| on_edge(&end, &v[i], &v[i + 1])), "spanning ray ends on the curve at the second crossing", d3);
            let cross = sray.dir.x * ray.dir.y - sray.dir.y * ray.dir.x;
            let dot = sray.dir.x * ray.dir.x + sray.dir.y * ray.dir.y;
            let scale = (sray.dir.x.abs() + sray.dir.y.abs()) * (ray.dir.x.abs() + ray.dir.y.abs());
            r.check(cross.abs() <= 1e-9 * scale && dot > 0.0, "spanning ray keeps the direction of the query line", d3);
            // no other crossing strictly between its ends (exhaustive over the edges, on the spanning ray itself)
            let inner = brute(v, &sray.origin, &sray.dir);
            r.check(inner.iter().all(|(t, _)| *t <= 1e-7 || *t >= 1.0 - 1e-7), "no crossing strictly between the ends of the spanning ray", || format!("{} crossings of the spanning ray {:?}", d3(), inner));
        }
    }

    // largest intersection
    let mi = max_intersection(line, ray);
    r.check(match (mi, expected.last()) { (Some(a), Some(b)) => (a - b).abs() <= DEDUP, (None, None) => true, _ => false }, "max_intersection == largest per-edge parameter", || format!("{}: got {:?}", desc(), mi));

    // farthest projected vertex
    let nrm = (ray.dir.x * ray.dir.x + ray.dir.y * ray.dir.y).sqrt();
    let mut far = f64::NEG_INFINITY;
    for q in v { far = far.max(((q.x - ray.origin.x) * ray.dir.x + (q.y - ray.origin.y) * ray.dir.y) / nrm); }
    let got = farthest_point_direction_distance(line, ray);
    r.check(close(got, far), "farthest_point_direction_distance == max over ALL vertices of the projection on the unit direction", || format!("{}: got {:?}, expected {:?}", desc(), got, far));
}

/// the intersection of a surface point's normal line with a curve: the parameters (distances along the unit normal,
/// negative ones kept) of the exhaustive computation
fn check_surface_point(r: &mut Report, name: &str, curve: &Curve2, sp: &SurfacePoint2) {
    let v = curve.points();
    let d = sp.normal.into_inner();
    let hits = brute(v, &sp.point, &d);
    let expected = match distinct(&hits) { Some(e) => e, None => return };
    // stay clear of lines that graze a vertex with an inexact (normalised) direction
    let grazing = hits.iter().any(|(t, i)| { let q = at(&sp.point, &d, *t); let (a, b) = (&v[*i], &v[*i + 1]);
        let da = ((q.x - a.x).powi(2) + (q.y - a.y).powi(2)).sqrt(); let db = ((q.x - b.x).powi(2) + (q.y - b.y).powi(2)).sqrt();
        (da < 1e-6 || db < 1e-6) && d.x != 0.0 && d.y != 0.0 });
    if grazing { return; }
    r.case();
    let got: Vec<f64> = curve.intersection(sp);
    r.check(got.len() == expected.len() && got.iter().zip(expected.iter()).all(|(a, b)| (a - b).abs() <= DEDUP),
        "surface-point normal-line intersection == exhaustive per-edge parameters (negative ones kept)",
        || format!("{} {:?} x surface point ({:?}, {:?}) normal ({:?}, {:?}): got {:?}, expected {:?}", name, v.iter().map(|q| (q.x, q.y)).collect::<Vec<_>>(), sp.point.x, sp.point.y, d.x, d.y, got, expected));
}


// ---------------------------------------------------------------- lines exactly through a vertex, one incident edge nearly parallel
/// closed pentagon given in the local frame (a along `d`, b along the left normal of `d`) of the vertex `v`:
/// u = (-len, theta*len) -> v = (0,0) -> (1.5,-3.75) -> (-6.5,-4) -> (-7.5,2) -> u.  The line {b = 0} passes exactly through
/// v; the edge u-v makes the angle atan(theta) with it; the only other crossing is on the edge (-6.5,-4)-(-7.5,2).
/// `side` = -1 mirrors the polygon in the line (u below the line), `rev` reverses the vertex order (v becomes the START
/// of the nearly parallel edge).
fn near_parallel_polygon(v: &Point2, d: &Vector2, theta: f64, len: f64, side: f64, rev: bool) -> Vec<Point2> {
    let n = Vector2::new(-d.y, d.x);
    let at = |a: f64, b: f64| p(v.x + a * d.x + side * b * n.x, v.y + a * d.y + side * b * n.y);
    let mut pts = vec![at(-len, theta * len), *v, at(1.5, -3.75), at(-6.5, -4.0), at(-7.5, 2.0), at(-len, theta * len)];
    if rev { pts.reverse(); }
    pts
}
fn near_parallel_vertex_lines(r: &mut Report) {
    let dirs = [(1.0, 0.25), (1.0, 0.0), (0.0, -1.0), (-0.5, 1.0), (2.0, -1.0), (1.0, 1.0)];
    let anchors = [p(3.5, 1.75), p(0.0, 0.0), p(-20.25, 13.5)];
    for theta in [1e-3, 1e-4, 1e-5] { for len in [4.2, 1.3, 9.7] { for (dx, dy) in dirs { for v in anchors.iter() {
        for side in [1.0, -1.0] { for rev in [false, true] {
            let d = Vector2::new(dx, dy);
            let pts = near_parallel_polygon(v, &d, theta, len, side, rev);
            let line = Polyline::new(pts.clone(), None);
            let curve = Curve2::from_points(&pts, 1e-6, false).ok().filter(|c| c.points().len() == pts.len());
            r.check(curve.is_some(), "Curve2::from_points keeps the vertex list of a duplicate-free polyline", || format!("near-parallel pentagon {:?}", pts.iter().map(|q| (q.x, q.y)).collect::<Vec<_>>()));
            // origin = v - k*d is exact (dyadic v, d, k): the line passes EXACTLY through the vertex v
            for k in [0.0, 2.0, 8.0, 32.0, -4.0, -16.0] { for s in [1.0, -1.0, 0.5] {
                let ray = Ray2::new(p(v.x - k * d.x, v.y - k * d.y), Vector2::new(s * d.x, s * d.y));
                check_line(r, "pentagon with an edge nearly parallel to a line through its vertex", &pts, &line, curve.as_ref(), &ray);
            } }
        } }
    } } } }
}

// ---------------------------------------------------------------- regular polygons, lines through two vertices
/// A line through two non-adjacent vertices of a regular polygon.  The vertex coordinates are inexact (cos / sin) and the
/// line touches the bounding boxes of the edges at those vertices only at a corner, so the slab test of the accelerated
/// search works at rounding level there.  Own clause names (prefix): on the unfixed tree the search prunes such edges.
fn regular_polygon_chords(r: &mut Report) {
    for n in [5usize, 6, 7, 8, 9, 12, 16, 24] { for radius in [1.0, 2.5, 10.0] { for (cx, cy) in [(0.0, 0.0), (3.25, -1.5)] {
        let mut pts: Vec<Point2> = (0..n).map(|k| { let a = 2.0 * std::f64::consts::PI * (k as f64) / (n as f64); p(cx + radius * a.cos(), cy + radius * a.sin()) }).collect();
        pts.push(pts[0]);
        let line = Polyline::new(pts.clone(), None);
        for i in 0..n { for j in 0..n {
            let gap = (i + n - j) % n;
            if gap < 2 || gap > n - 2 { continue; }
            let (a, b) = (pts[i], pts[j]);
            let ray = Ray2::new(a, b - a);
            let hits = brute(&pts, &ray.origin, &ray.dir);
            let expected = match distinct(&hits) { Some(e) => e, None => continue };
            r.case();
            let got = polyline_intersections(&line, &ray);
            let desc = || format!("regular {}-gon radius {:?} centre ({:?}, {:?}) {:?}; line from vertex {} {:?} to vertex {} {:?} (origin = vertex {}, dir = their difference); polyline_intersections returned {:?}; exhaustive per-edge hits {:?}",
                n, radius, cx, cy, pts.iter().map(|q| (q.x, q.y)).collect::<Vec<_>>(), i, (a.x, a.y), j, (b.x, b.y), i, got, hits);
            r.check(hits.iter().all(|(bt, _)| got.iter().any(|(t, _)| (t - bt).abs() <= DEDUP)),
                "[slab test rounding at a box corner] no per-edge intersection is missed for a line through two vertices of a regular polygon", desc);
            r.check(got.iter().all(|(t, e)| hits.iter().any(|(bt, be)| be == e && close(*bt, *t))) && got.windows(2).all(|w| w[1].0 - w[0].0 >= DEDUP),
                "regular polygon, line through two vertices: every reported parameter is a per-edge hit, ascending without duplicates (1e-8)", desc);
            r.check(spanning_ray(&line, &ray).is_some() == (expected.len() == 2),
                "[slab test rounding at a box corner] spanning ray produced exactly when the per-edge computation finds two crossings (line through two vertices of a regular polygon)", desc);
        } }
    } } }
}

// ---------------------------------------------------------------- nearly parallel lines of any magnitude
/// one of the 8 symmetries of the square (exact in floating point), then a translation
fn sym(k: usize, x: f64, y: f64) -> (f64, f64) {
    let (a, b) = if k & 1 == 1 { (y, x) } else { (x, y) };
    (if k & 2 == 2 { -a } else { a }, if k & 4 == 4 { -b } else { b })
}
/// The local frame has the edge E from (0,0) to (len,0).  The line passes through M = (mf*len, 0) with direction
/// mag*(1, theta); its origin is M - k*dir with k a power of two (so origin.y = -k*dir.y exactly: the line given to the code
/// crosses E within one ulp of M, at parameter k).  Polyline (H = max(1, len)):
/// (-3H,-2H) (-2H,3H) (-H,H) (0,0) (len,0) (len+H,-H) (len+2H,-3H) (len+3H,2H): edges 0 and 6 are crossed well inside
/// (transversally), edges 1 and 5 are not crossed, the neighbours 2 and 4 of E end on E's end points, which lie within
/// theta*len of the line: they are not judged.
fn near_parallel_scaled(r: &mut Report) {
    for &len in [0.01f64, 0.1, 1.0, 10.0, 200.0].iter() { for &theta in [1e-6f64, 1e-8, 1e-10].iter() { for &mag in [1e-3f64, 1.0, 1e3].iter() {
        // the determinant of the two direction vectors as the code computes it; below 1e-12 "parallel" by design
        let det = len * mag * theta;
        if det < 4e-12 { continue; }
        let h = len.max(1.0);
        let local = [(-3.0 * h, -2.0 * h), (-2.0 * h, 3.0 * h), (-h, h), (0.0, 0.0), (len, 0.0), (len + h, -h), (len + 2.0 * h, -3.0 * h), (len + 3.0 * h, 2.0 * h)];
        for symk in 0..8usize { for &(tx, ty) in [(0.0f64, 0.0f64), (3.5, -1.25)].iter() { for &mf in [0.5f64, 0.25, 0.8125].iter() { for &rev in [false, true].iter() {
            let tr = |x: f64, y: f64| { let (a, b) = sym(symk, x, y); p(a + tx, b + ty) };
            let mut pts: Vec<Point2> = local.iter().map(|&(x, y)| tr(x, y)).collect();
            // 8 vertices: E is the middle edge (index 3) in either vertex order
            let ie = 3usize;
            if rev { pts.reverse(); }
            let n = pts.len();
            let m = tr(mf * len, 0.0);
            let (dx, dy) = sym(symk, mag, mag * theta);
            let line = Polyline::new(pts.clone(), None);
            let curve = Curve2::from_points(&pts, 1e-6 * len.min(1.0), false).ok().filter(|c| c.points().len() == n);
            for &k in [0.0f64, 2.0, -4.0, 32.0].iter() { for &sense in [1.0f64, -1.0].iter() {
                let d = Vector2::new(sense * dx, sense * dy);
                let o = p(m.x - k * d.x, m.y - k * d.y);
                let ray = Ray2::new(o, d);
                r.case();
                let desc = || format!("polyline {:?} x ray origin ({:?}, {:?}) dir ({:?}, {:?}) [edge {} of length {:?} is crossed at ({:?}, {:?}) = parameter {:?} by this line, which makes {:?} rad with it; |dir| = {:?}; determinant of the two directions {:?}]",
                    pts.iter().map(|q| (q.x, q.y)).collect::<Vec<_>>(), o.x, o.y, d.x, d.y, ie, len, m.x, m.y, k, theta, mag, det);
                // orientation of every vertex relative to the line through M (not through the far-away origin), in units of length
                let side: Vec<f64> = pts.iter().map(|q| (d.x * (q.y - m.y) - d.y * (q.x - m.x)) / mag).collect();
                let margin = 1e-6 * h;
                let got = polyline_intersections(&line, &ray);
                let got_c = curve.as_ref().map(|c| c.ray_intersections(&ray));
                for i in 0..n - 1 {
                    let (sa, sb) = (side[i], side[i + 1]);
                    let e = ray_intersect_with_edge(&line, &ray, i);
                    let d1 = || format!("{}: edge {}: ray_intersect_with_edge = {:?}; polyline_intersections = {:?}", desc(), i, e, got);
                    if i == ie {
                        // E: end points strictly on opposite sides, crossing at M (edge parameter mf, well inside)
                        r.check(sa * sb < 0.0, "harness: the end points of the nearly parallel edge lie strictly on opposite sides of the line", d1);
                        r.check(e.is_some(), "per edge: a line crossing the interior of an edge at 1e-6 .. 1e-10 rad (determinant of the directions >= 4e-12) is reported, whatever the magnitudes of the direction vector and of the edge", d1);
                        if let Some(t) = e {
                            let q = at(&o, &d, t);
                            r.check(on_edge(&q, &pts[i], &pts[i + 1]), "per edge: the reported parameter gives a point on the nearly parallel edge", d1);
                            if tx == 0.0 && ty == 0.0 { r.check((t - k).abs() <= 1e-9 * (1.0 + k.abs()), "per edge: the reported parameter is the parameter of the crossing point (origin = crossing point - k * dir)", d1); }
                        }
                        for (src, g) in [("polyline_intersections", Some(&got)), ("Curve2::ray_intersections", got_c.as_ref())] {
                            if let Some(g) = g {
                                r.check(g.iter().any(|(t, j)| *j == i && on_edge(&at(&o, &d, *t), &pts[i], &pts[i + 1])), "none is missed: the crossing of a nearly parallel edge (any magnitude of direction vector / edge) is in the reported list", || format!("{}: {} = {:?}", desc(), src, g));
                            }
                        }
                    } else if (sa > margin && sb < -margin) || (sa < -margin && sb > margin) {
                        // transversal crossing well inside the edge: parameter from the orientation ratio
                        let f = sa / (sa - sb);
                        let q = p(pts[i].x + (pts[i + 1].x - pts[i].x) * f, pts[i].y + (pts[i + 1].y - pts[i].y) * f);
                        let t = ((q.x - o.x) * d.x + (q.y - o.y) * d.y) / (d.x * d.x + d.y * d.y);
                        r.check(match e { Some(x) => (x - t).abs() <= 1e-9 * (1.0 + t.abs()), None => false }, "per edge: an edge whose end points lie on opposite sides of the line is crossed, at the parameter of the crossing point", || format!("{} expected {:?}", d1(), t));
                        r.check(got.iter().any(|(x, j)| *j == i && (x - t).abs() <= 1e-9 * (1.0 + t.abs())), "none is missed: a transversal crossing of the same line is in the reported list", d1);
                    } else if (sa > margin && sb > margin) || (sa < -margin && sb < -margin) {
                        r.check(e.is_none() && !got.iter().any(|(_, j)| *j == i), "an edge whose end points lie on the same side of the line is not reported", d1);
                    }
                }
                // soundness and order of everything reported
                for (src, g) in [("polyline_intersections", Some(&got)), ("Curve2::ray_intersections", got_c.as_ref())] {
                    if let Some(g) = g {
                        let d2 = || format!("{}: {} = {:?}", desc(), src, g);
                        r.check(g.iter().all(|(t, i)| *i + 1 < n && t.is_finite() && on_edge(&at(&o, &d, *t), &pts[*i], &pts[*i + 1])), "every reported parameter gives a point on the named edge", d2);
                        r.check(g.windows(2).all(|w| w[1].0 - w[0].0 >= DEDUP), "list ascending without duplicates (1e-8)", d2);
                    }
                }
            } }
        } } } }
    } } }
}

// ---------------------------------------------------------------- long / short direction vectors over a thin feature
/// A slot of width w (0.002 .. 0.03) with two parallel walls, crossed transversally (slope 1/8 .. 2) by a line whose
/// direction vector has magnitude 1e-3 .. 2000: the two wall crossings are w/|dir|-ish apart in PARAMETER (>= 1e-6, so
/// inside the input space) although the parameter scale differs by 6 orders of magnitude.  Both must be reported, in
/// order, with the third (far) crossing.  Crossed edges decided by orientation signs relative to the known point M of the
/// line; parameters from the orientation ratio.
fn thin_feature_scaled_lines(r: &mut Report) {
    for &w in [0.002f64, 0.01, 0.03].iter() { for &mag in [1e-3f64, 1.0, 1000.0, 2000.0].iter() { for &(sx, sy) in [(1.0f64, 0.125f64), (1.0, -0.5), (0.5, 1.0)].iter() {
        // parameter distance of the two wall crossings; the 1e-8 merge must not touch them: only lines with a gap >= 1e-6
        let gap = w / (mag * sx);
        if gap < 1e-6 { continue; }
        let local = [(-3.0, 2.0), (-0.5 * w, 1.0), (-0.5 * w, -1.0), (0.5 * w, -1.0), (0.5 * w, 1.0), (3.0, 2.0), (4.0, -3.0)];
        for symk in 0..8usize { for &rev in [false, true].iter() {
            let tr = |x: f64, y: f64| { let (a, b) = sym(symk, x, y); p(a, b) };
            let mut pts: Vec<Point2> = local.iter().map(|&(x, y)| tr(x, y)).collect();
            if rev { pts.reverse(); }
            let n = pts.len();
            let m = tr(0.0, 0.0);
            let (dx, dy) = sym(symk, mag * sx, mag * sy);
            let line = Polyline::new(pts.clone(), None);
            let curve = Curve2::from_points(&pts, 1e-6, false).ok().filter(|c| c.points().len() == n);
            for &k in [0.0f64, 2.0, -4.0].iter() { for &sense in [1.0f64, -1.0].iter() {
                let d = Vector2::new(sense * dx, sense * dy);
                let o = p(m.x - k * d.x, m.y - k * d.y);
                let ray = Ray2::new(o, d);
                r.case();
                let desc = || format!("polyline {:?} x ray origin ({:?}, {:?}) dir ({:?}, {:?}) [slot of width {:?}, |dir| ~ {:?}: the two wall crossings are {:?} apart in parameter]",
                    pts.iter().map(|q| (q.x, q.y)).collect::<Vec<_>>(), o.x, o.y, d.x, d.y, w, mag, gap);
                let side: Vec<f64> = pts.iter().map(|q| (d.x * (q.y - m.y) - d.y * (q.x - m.x)) / mag).collect();
                let margin = 1e-6;
                let mut expected: Vec<(f64, usize)> = vec![];
                let mut clear = true;
                for i in 0..n - 1 {
                    let (sa, sb) = (side[i], side[i + 1]);
                    if (sa > margin && sb < -margin) || (sa < -margin && sb > margin) {
                        let f = sa / (sa - sb);
                        let q = p(pts[i].x + (pts[i + 1].x - pts[i].x) * f, pts[i].y + (pts[i + 1].y - pts[i].y) * f);
                        expected.push((((q.x - o.x) * d.x + (q.y - o.y) * d.y) / (d.x * d.x + d.y * d.y), i));
                    } else if !((sa > margin && sb > margin) || (sa < -margin && sb < -margin)) { clear = false; }
                }
                if !clear { continue; }
                expected.sort_by(|a, b| a.0.partial_cmp(&b.0).unwrap());
                r.check(expected.len() == 3, "harness: the line crosses both walls of the slot and the far edge", desc);
                let mut srcs = vec![("polyline_intersections", polyline_intersections(&line, &ray))];
                if let Some(c) = curve.as_ref() { srcs.push(("Curve2::ray_intersections", c.ray_intersections(&ray))); }
                for (src, got) in srcs.iter() {
                    let d2 = || format!("{}: {} = {:?}; per-edge crossings by orientation {:?}", desc(), src, got, expected);
                    r.check(got.len() == expected.len() && got.iter().zip(expected.iter()).all(|(g, e)| g.1 == e.1 && (g.0 - e.0).abs() <= 1e-9 * (1.0 + e.0.abs())),
                        "reported intersections equal the per-edge ones whatever the magnitude of the direction vector (crossings >= 1e-6 apart in parameter are distinct)", d2);
                }
                let mi = max_intersection(&line, &ray);
                r.check(match (mi, expected.last()) { (Some(a), Some(b)) => (a - b.0).abs() <= 1e-9 * (1.0 + b.0.abs()), _ => false }, "max_intersection == largest per-edge parameter (direction vector of any magnitude)", || format!("{}: got {:?}, per-edge {:?}", desc(), mi, expected));
                r.check(spanning_ray(&line, &ray).is_none(), "spanning ray produced exactly when there are two crossings (here three, direction vector of any magnitude)", desc);
            } }
        } }
    } } }
}

// ================================================================ wave 5: orientation-sign oracle, any size / magnitude
// The families below give every line as (m, d, k): the line passes through the reference point m with direction d and the
// ray handed to the code has origin m - k*d, computed WITHOUT rounding (checked by an error-free transformation), so the
// line is known exactly although the origin may lie 2^36 steps away or the coordinates may be 1e8 + a fraction.  Which edges
// the line crosses is decided per edge from the signs of d x (q - m) at the two end points (no determinant formula, no
// parametric solve); the crossing parameter follows from the ratio of the two orientations.

/// a - b when it is exactly representable
fn exact_sub(a: f64, b: f64) -> Option<f64> {
    let nb = -b;
    let s = a + nb;
    let ap = s - nb;
    let bp = s - ap;
    let err = (a - ap) + (nb - bp);
    if err == 0.0 && s.is_finite() { Some(s) } else { None }
}

/// a * b when it is exactly representable
fn exact_mul(a: f64, b: f64) -> Option<f64> {
    let pr = a * b;
    if pr.is_finite() && a.mul_add(b, -pr) == 0.0 && (pr != 0.0 || a == 0.0 || b == 0.0) { Some(pr) } else { None }
}
/// true when every operation of the per-edge formula (differences, the four products, the two determinants) is exact for
/// the edge a-b and the ray (o, d): a vertex EXACTLY on the line then gives the edge parameter exactly 0 or 1.  Lines through
/// a vertex are judged only under this condition (otherwise the outcome is a matter of rounding, not of the statement).
fn formula_exact(o: &Point2, d: &Vector2, a: &Point2, b: &Point2) -> bool {
    let f = || -> Option<()> {
        let (ex, ey) = (exact_sub(b.x, a.x)?, exact_sub(b.y, a.y)?);
        let (dx, dy) = (exact_sub(a.x, o.x)?, exact_sub(a.y, o.y)?);
        exact_sub(exact_mul(dy, d.x)?, exact_mul(dx, d.y)?)?;
        exact_sub(exact_mul(dy, ex)?, exact_mul(dx, ey)?)?;
        exact_sub(exact_mul(ex, d.y)?, exact_mul(ey, d.x)?)?;
        Some(())
    };
    f().is_some()
}

struct Orc {
    /// distinct crossings, ascending: parameter RELATIVE to m (the ray parameter is k + t_rel) and the edges that contain the
    /// crossing point (two for a crossing exactly at a shared vertex)
    cross: Vec<(f64, Vec<usize>)>,
    /// smallest sine of the angle between the line and a crossed edge
    sin_min: f64,
    /// smallest |edge| * sine over the crossed edges (the determinant the code would see for a UNIT direction)
    unit_det_min: f64,
    /// true when no vertex lies exactly on the line and every crossing is at least 1e-9 (edge parameter) inside its edge
    clear: bool,
    /// tolerance for comparing a reported parameter with k + t_rel
    tol: f64,
}

/// Exhaustive per-edge computation by orientation signs.  None: the line is outside the judged input space (a vertex closer
/// to the line than the rounding of the code can resolve, a crossed edge nearly parallel (sine < 1e-4 or determinant of the
/// two direction vectors < 4e-12: "parallel" by design below 1e-12), an edge collinear with the line, two distinct crossings
/// closer than 1e-6 in parameter (the 1e-8 merge is absolute by design)).
/// `ties`: a vertex EXACTLY on the line is accepted (exact-arithmetic families only); `far_ties`: also when the origin is
/// far away, for a free end of an open polyline (a single incident edge: no merge involved).
fn orient_oracle(v: &[Point2], m: &Point2, d: &Vector2, o: &Point2, k: f64, ties: bool, far_ties: bool) -> Option<Orc> {
    let n = v.len();
    let d2 = d.x * d.x + d.y * d.y;
    let dn = d2.sqrt();
    if !(dn > 0.0) || !dn.is_finite() { return None; }
    let open = v[0] != v[n - 1];
    let s: Vec<f64> = v.iter().map(|q| d.x * (q.y - m.y) - d.y * (q.x - m.x)).collect();
    let mut raw: Vec<(f64, usize)> = vec![];
    let (mut sin_min, mut unit_det_min, mut clear) = (1.0f64, f64::MAX, true);
    for i in 0..n - 1 {
        let (a, b) = (&v[i], &v[i + 1]);
        if a == b { continue; } // zero-length edge: determinant 0, never reported; its end points belong to the neighbours
        let (sa, sb) = (s[i], s[i + 1]);
        let det = (sa - sb).abs();
        let far = (a.x - o.x).abs() + (a.y - o.y).abs() + (b.x - o.x).abs() + (b.y - o.y).abs();
        let tol_s = det * 9.1e-13 + 1e-14 * dn * far;
        let el = ((b.x - a.x).powi(2) + (b.y - a.y).powi(2)).sqrt();
        if sa == 0.0 && sb == 0.0 { return None; }
        if sa == 0.0 || sb == 0.0 {
            let (j, q, other) = if sa == 0.0 { (i, a, sb) } else { (i + 1, b, sa) };
            if other.abs() < tol_s || det < 4e-12 || det < 1e-4 * dn * el { return None; }
            let t = ((q.x - m.x) * d.x + (q.y - m.y) * d.y) / d2;
            let sine = det / (dn * el);
            let free_end = open && (j == 0 || j == n - 1);
            let near = (k.abs() + t.abs()) * 1e-15 <= 1e-9 * sine;
            if !((ties && near) || (far_ties && free_end)) || !formula_exact(o, d, a, b) { return None; }
            sin_min = sin_min.min(sine); unit_det_min = unit_det_min.min(det / dn); clear = false;
            raw.push((t, i));
            continue;
        }
        if sa.abs() < tol_s || sb.abs() < tol_s { return None; }
        if (sa > 0.0) != (sb > 0.0) {
            if det < 4e-12 || det < 1e-4 * dn * el { return None; }
            let f = sa / (sa - sb);
            // the crossing point relative to m (differences of nearby coordinates are exact: no rounding at the magnitude of the coordinates)
            let (pa, pb) = ((a.x - m.x) * d.x + (a.y - m.y) * d.y, (b.x - m.x) * d.x + (b.y - m.y) * d.y);
            raw.push(((pa + f * (pb - pa)) / d2, i));
            sin_min = sin_min.min(det / (dn * el)); unit_det_min = unit_det_min.min(det / dn);
            if f < 1e-9 || f > 1.0 - 1e-9 { clear = false; }
        } else if sa.abs().min(sb.abs()) < 1e-9 * det { clear = false; }
    }
    raw.sort_by(|x, y| x.0.partial_cmp(&y.0).unwrap().then(x.1.cmp(&y.1)));
    let tmax = raw.iter().fold(0.0f64, |acc, x| acc.max(x.0.abs()));
    let tol = 1e-9 * (1.0 + tmax) + 4e-15 * k.abs() / sin_min;
    let mut cross: Vec<(f64, Vec<usize>)> = vec![];
    for (t, i) in raw {
        match cross.last_mut() {
            Some(l) if l.0 == t => l.1.push(i),
            Some(l) if t - l.0 < 1e-6 + 4.0 * tol => return None,
            _ => cross.push((t, vec![i])),
        }
    }
    Some(Orc { cross, sin_min, unit_det_min, clear, tol })
}

/// index of the expected crossing whose parameter is within tol of t
fn find_cross(exp: &[f64], t: f64, tol: f64) -> Option<usize> {
    let j = exp.partition_point(|e| *e < t - tol);
    if j < exp.len() && (exp[j] - t).abs() <= tol { Some(j) } else { None }
}

/// All clauses of the statement for the line through m with direction d, origin m - k*d.  Returns whether the line was judged.
fn check_ref_line(r: &mut Report, fam: &str, v: &[Point2], line: &Polyline, curve: Option<&Curve2>, m: &Point2, d: &Vector2, k: f64, ties: bool, far_ties: bool) -> bool {
    let (ox, oy) = match (exact_sub(m.x, k * d.x), exact_sub(m.y, k * d.y)) { (Some(x), Some(y)) => (x, y), _ => return false };
    let o = p(ox, oy);
    let orc = match orient_oracle(v, m, d, &o, k, ties, far_ties) { Some(x) => x, None => return false };
    r.case();
    let n = v.len();
    let ray = Ray2::new(o, *d);
    let dn = (d.x * d.x + d.y * d.y).sqrt();
    let tol = orc.tol;
    let exp: Vec<f64> = orc.cross.iter().map(|c| k + c.0).collect();
    let short = |pts: &[Point2]| -> String {
        if pts.len() <= 48 { format!("{:?}", pts.iter().map(|q| (q.x, q.y)).collect::<Vec<_>>()) }
        else { format!("[{} vertices: {:?} .. {:?}]", pts.len(), pts[..3].iter().map(|q| (q.x, q.y)).collect::<Vec<_>>(), pts[pts.len() - 3..].iter().map(|q| (q.x, q.y)).collect::<Vec<_>>()) }
    };
    let cut = |l: &[(f64, usize)]| -> String { if l.len() <= 12 { format!("{:?}", l) } else { format!("[{} entries: {:?} .. {:?}]", l.len(), &l[..4], &l[l.len() - 4..]) } };
    let expd: Vec<(f64, usize)> = orc.cross.iter().map(|c| (k + c.0, c.1[0])).collect();
    let desc = || format!("{} {} x ray origin ({:?}, {:?}) dir ({:?}, {:?}) [the line passes through ({:?}, {:?}) at parameter {:?}]; crossings by orientation signs (parameter, edge) {}",
        fam, short(v), o.x, o.y, d.x, d.y, m.x, m.y, k, cut(&expd));

    // per edge
    let mut edge_exp: Vec<Option<f64>> = vec![None; n - 1];
    for (c, e) in orc.cross.iter().zip(exp.iter()) { for i in c.1.iter() { edge_exp[*i] = Some(*e); } }
    for i in 0..n - 1 {
        let a = ray_intersect_with_edge(line, &ray, i);
        let ok = match (a, edge_exp[i]) { (Some(x), Some(y)) => (x - y).abs() <= tol, (None, None) => true, _ => false };
        r.check(ok, "per edge (orientation signs): an edge is reported exactly when its end points lie on opposite sides of the line or one of them on it, at the parameter of the crossing point", || format!("{} edge {}: got {:?}, expected {:?}", desc(), i, a, edge_exp[i]));
    }

    // the search, asked twice (no hidden state) and through the curve
    let first = polyline_intersections(line, &ray);
    let mut sources: Vec<(&str, Vec<(f64, usize)>)> = vec![];
    if let Some(c) = curve { sources.push(("Curve2::ray_intersections", c.ray_intersections(&ray))); }
    sources.push(("polyline_intersections (same query repeated)", polyline_intersections(line, &ray)));
    sources.insert(0, ("polyline_intersections", first));
    for (src, got) in sources.iter() {
        let d2 = || format!("{}: {} returned {}", desc(), src, cut(got));
        let sound = got.iter().all(|(t, i)| *i + 1 < n && t.is_finite() && match find_cross(&exp, *t, tol) { Some(j) => orc.cross[j].1.contains(i), None => false });
        r.check(sound, "every reported parameter gives a point on the named edge", d2);
        let gt: Vec<f64> = { let mut g: Vec<f64> = got.iter().map(|x| x.0).collect(); g.sort_by(|a, b| a.partial_cmp(b).unwrap()); g };
        r.check(exp.iter().all(|e| find_cross(&gt, *e, tol).is_some()), "no per-edge intersection is missed", d2);
        r.check(got.len() == exp.len() && got.iter().zip(exp.iter()).all(|((t, _), e)| (t - e).abs() <= tol), "reported parameters equal the distinct per-edge parameters", d2);
        r.check(got.windows(2).all(|w| w[1].0 - w[0].0 >= DEDUP), "list ascending without duplicates (1e-8)", d2);
    }

    // spanning ray
    let at_rel = |t: f64| p(m.x + d.x * t, m.y + d.y * t);
    let ptol = dn * tol + 4e-15 * (o.x.abs() + o.y.abs() + m.x.abs() + m.y.abs() + k.abs() * dn);
    let mut spans = vec![("spanning_ray", spanning_ray(line, &ray))];
    if let Some(c) = curve { spans.push(("Curve2::try_create_spanning_ray", c.try_create_spanning_ray(&ray))); }
    for (src, sr) in spans.iter() {
        let d3 = || format!("{}: {} returned {:?}", desc(), src, sr.as_ref().map(|s| (s.ray().origin.x, s.ray().origin.y, s.ray().dir.x, s.ray().dir.y)));
        r.check(sr.is_some() == (exp.len() == 2), "spanning ray produced exactly when there are two crossings", d3);
        if let (Some(s), 2) = (sr, exp.len()) {
            let sray = s.ray();
            let (a, b) = (at_rel(orc.cross[0].0), at_rel(orc.cross[1].0));
            let end = p(sray.origin.x + sray.dir.x, sray.origin.y + sray.dir.y);
            r.check((sray.origin.x - a.x).abs() <= ptol && (sray.origin.y - a.y).abs() <= ptol, "spanning ray starts on the curve at the first crossing", d3);
            r.check((end.x - b.x).abs() <= ptol && (end.y - b.y).abs() <= ptol, "spanning ray ends on the curve at the second crossing", d3);
            let cross = sray.dir.x * d.y - sray.dir.y * d.x;
            let dot = sray.dir.x * d.x + sray.dir.y * d.y;
            let sl = (sray.dir.x.powi(2) + sray.dir.y.powi(2)).sqrt();
            // (a span shorter than the resolution of the coordinates has no direction to speak of)
            if (exp[1] - exp[0]) * dn >= 1e3 * ptol {
                let rel = 1e-9 + 8.0 * ptol / sl;
                r.check(cross.abs() <= rel * sl * dn && dot > 0.0, "spanning ray keeps the direction of the query line", d3);
            }
            // the same span seen through the Line2 view of the spanning ray
            let (lo, ld, l0, l1) = (Line2::origin(s), Line2::dir(s), Line2::at(s, 0.0), Line2::at(s, 1.0));
            r.check(lo == sray.origin && ld == sray.dir && l0 == sray.origin && (l1.x - b.x).abs() <= ptol && (l1.y - b.y).abs() <= ptol,
                "spanning ray seen as a Line2 (origin, dir, at(0), at(1)) starts and ends at the same two crossings", d3);
        }
    }

    // largest intersection
    let mi = max_intersection(line, &ray);
    r.check(match (mi, exp.last()) { (Some(a), Some(b)) => (a - b).abs() <= tol, (None, None) => true, _ => false }, "max_intersection == largest per-edge parameter", || format!("{}: got {:?}", desc(), mi));

    // farthest projected vertex
    let (mut far, mut scale) = (f64::NEG_INFINITY, 0.0f64);
    for q in v { let pr = ((q.x - o.x) * d.x + (q.y - o.y) * d.y) / dn; far = far.max(pr); scale = scale.max((q.x - o.x).abs() + (q.y - o.y).abs()); }
    let got = farthest_point_direction_distance(line, &ray);
    r.check((got - far).abs() <= 1e-9 * scale, "farthest_point_direction_distance == max over ALL vertices of the projection on the unit direction", || format!("{}: got {:?}, expected {:?}", desc(), got, far));

    // surface point: the same line with a unit normal; distances = parameter * |d|.  Only where the rounding of the
    // normalisation cannot change the answer (no vertex on or within 1e-9 of the line, origin close), and where the design
    // thresholds (unit direction now) are respected: determinants >= 4e-12, distinct distances >= 1e-6 apart
    if let Some(c) = curve {
        let dist: Vec<f64> = exp.iter().map(|t| t * dn).collect();
        let dtol = tol * dn + 1e-9 * (k.abs() * dn);
        let gaps_ok = dist.windows(2).all(|w| w[1] - w[0] >= 1e-6 + 4.0 * dtol);
        if orc.clear && k.abs() <= 1024.0 && orc.unit_det_min >= 4e-12 && gaps_ok {
            let sp = SurfacePoint2::new_normalize(o, *d);
            let got: Vec<f64> = c.intersection(&sp);
            r.check(got.len() == dist.len() && got.iter().zip(dist.iter()).all(|(a, b)| (a - b).abs() <= dtol),
                "surface-point normal-line intersection == exhaustive per-edge parameters (negative ones kept)",
                || format!("{}: surface point at the origin with the unit normal along dir: got {:?}, expected {:?}", desc(), got, dist));
        }
    }
    true
}

// ---------------------------------------------------------------- F1: sizes and layouts
fn zigzag_asym(n_edges: usize) -> Vec<Point2> {
    let steps = [1.0, 3.0, 0.5, 2.0];
    let hs = [2.0, 5.0, 1.5];
    let mut x = 0.0;
    let mut v = vec![p(0.0, 0.0)];
    for i in 1..=n_edges { x += steps[i % 4]; v.push(p(x, if i % 2 == 0 { 0.0 } else { hs[i % 3] })); }
    v
}
fn spiral_edges(n_edges: usize, out_in: bool) -> Vec<Point2> {
    let mut v = spiral(n_edges / 4 + 1, false);
    v.truncate(n_edges + 1);
    if out_in { v.reverse(); }
    v
}
fn round_spiral(n_edges: usize) -> Vec<Point2> {
    (0..=n_edges).map(|i| { let a = 0.1 * i as f64; let rad = 1.0 + 0.01 * i as f64; p(rad * a.cos(), rad * a.sin()) }).collect()
}
fn straight_run(n_edges: usize) -> Vec<Point2> {
    (0..=n_edges).map(|i| p(i as f64, 0.0009765625 * (((i * 7) % 5) as f64 - 2.0))).collect()
}
fn star_ring(n_edges: usize) -> Vec<Point2> {
    let mut v: Vec<Point2> = (0..n_edges).map(|i| { let a = 2.0 * std::f64::consts::PI * (i as f64) / (n_edges as f64); let rad = if i % 2 == 0 { 10.0 } else { 7.0 }; p(3.0 + rad * a.cos(), -2.0 + rad * a.sin()) }).collect();
    v.push(v[0]);
    v
}
/// (name, vertices, exact arithmetic family)
fn sized_polylines() -> Vec<(&'static str, Vec<Point2>, bool)> {
    let th = super::thorough();
    let mut v: Vec<(&'static str, Vec<Point2>, bool)> = vec![];
    for n in [1usize, 2, 3, 4, 41, 63, 64, 65, 100, 255, 256, 257, 1000, 1024, 4097, 5000] { v.push(("zig-zag", zigzag(n, 2.0, 1.0), true)); }
    if th { for n in [127usize, 128, 129, 1023, 1025, 2048, 4095, 4096] { v.push(("zig-zag", zigzag(n, 2.0, 1.0), true)); } }
    for n in [2usize, 65, 1000] { v.push(("asymmetric zig-zag", zigzag_asym(n), true)); }
    for t in [16usize, 250, 1250] { v.push(("comb", comb(t), true)); }
    for n in [64usize, 65, 257, 1000] { v.push(("rectangular spiral", spiral_edges(n, false), true)); }
    v.push(("rectangular spiral inward", spiral_edges(65, true), true));
    v.push(("rectangular spiral inward", spiral_edges(1001, true), true));
    for n in [100usize, 1000, 5000] { v.push(("round spiral (inexact coordinates)", round_spiral(n), false)); }
    for n in [65usize, 1000, 5000] { v.push(("nearly straight run", straight_run(n), true)); }
    v.push(("closed rectangle", rect_closed(16, 16), true));
    v.push(("closed rectangle", rect_closed(17, 16), true));
    v.push(("closed rectangle", rect_closed(300, 200), true));
    v.push(("closed rectangle", rect_closed(1250, 1250), true));
    for n in [64usize, 1000, 4096] { v.push(("closed star ring (inexact coordinates)", star_ring(n), false)); }
    v
}
fn target_edges(n_edges: usize) -> Vec<usize> {
    if n_edges <= 300 { return (0..n_edges).collect(); }
    let mut t: Vec<usize> = vec![];
    for i in 0..10 { t.push(i); t.push(n_edges - 1 - i); }
    for c in [16usize, 64, 256, 1024, 4096] { for off in 0..5 { let i = c + off; if i >= 2 && i - 2 < n_edges { t.push(i - 2); } } }
    let step = n_edges / 37 + 1;
    let mut i = 0; while i < n_edges { t.push(i); i += step; }
    t.sort(); t.dedup();
    t
}
const D18: f64 = 3.814697265625e-6; // 2^-18
const D34: f64 = 5.820766091346741e-11; // 2^-34
// (49, 1): 49 * (1/49) rounds below 1, so the two slab parameters of a box corner on the line differ by an ulp of the parameter
const DIRS: [(f64, f64); 6] = [(1.0, 0.25), (-0.5, 1.0), (3.0, 1.0), (-5.0, 3.0), (49.0, 1.0), (-49.0, 1.0)];
fn snap(x: f64) -> f64 { (x * 65536.0).round() / 65536.0 }

/// targeted lines through edge `i`: fractions of the edge (interior, just inside each end, the start vertex itself, and for
/// the free ends just outside / the end vertex), directions, origins
fn targeted_lines(v: &[Point2], i: usize, exact: bool, rich: bool) -> Vec<(Point2, Vector2, f64)> {
    let n_edges = v.len() - 1;
    let (a, b) = (v[i], v[i + 1]);
    let mut fr: Vec<f64> = vec![0.375];
    if exact { fr.push(0.0); }
    if rich || i == 0 || i + 1 == n_edges { fr.extend_from_slice(&[D18, D34, 1.0 - D18, 1.0 - D34]); }
    if i == 0 { fr.extend_from_slice(&[-D18, -D34]); }
    if i + 1 == n_edges { fr.extend_from_slice(&[1.0 + D18, 1.0 + D34]); if exact { fr.push(1.0); } }
    let mut out = vec![];
    for (fi, f) in fr.iter().enumerate() {
        let mut m = if *f == 0.0 { a } else if *f == 1.0 { b } else { p(a.x + (b.x - a.x) * f, a.y + (b.y - a.y) * f) };
        if !exact { m = p(snap(m.x), snap(m.y)); }
        for (di, (dx, dy)) in DIRS.iter().enumerate() {
            if !rich && (di + i + fi) % 3 != 0 { continue; }
            for (ki, k) in [0.0, 4.0, -8.0, 1048576.0, -68719476736.0, 12345678901.0].iter().enumerate() {
                if !rich && ki >= 1 && (ki + i + di) % 5 != 0 { continue; }
                for sense in [1.0, -1.0] { out.push((m, Vector2::new(sense * dx, sense * dy), *k)); }
            }
        }
    }
    out
}
/// lines that cross many edges at once: through points of the first / middle / last edge along the axes (signed zeros
/// included) and from one such point to the next
fn sweep_lines(v: &[Point2], exact: bool) -> Vec<(Point2, Vector2, f64)> {
    let n_edges = v.len() - 1;
    let mut ms: Vec<Point2> = vec![];
    for i in [0, n_edges / 3, n_edges / 2, n_edges - 1] {
        let (a, b) = (v[i], v[i + 1]);
        let m = p(a.x + (b.x - a.x) * 0.375, a.y + (b.y - a.y) * 0.375);
        ms.push(if exact { m } else { p(snap(m.x), snap(m.y)) });
    }
    let mut out = vec![];
    for (j, m) in ms.iter().enumerate() {
        let mut ds = vec![Vector2::new(1.0, 0.0), Vector2::new(0.0, 1.0), Vector2::new(-1.0, -0.0), Vector2::new(0.0, -0.5), Vector2::new(-0.0, 4.0), Vector2::new(0.001953125, 0.0)];
        let o = ms[(j + 1) % ms.len()];
        if o != *m { ds.push(o - *m); ds.push(*m - o); }
        for d in ds { for k in [0.0, -8.0, 1048576.0] { out.push((*m, d, k)); } }
    }
    out
}
fn sizes_and_layouts(r: &mut Report) {
    for (name, pts, exact) in sized_polylines() {
        let n_edges = pts.len() - 1;
        let line = Polyline::new(pts.clone(), None);
        let curve = Curve2::from_points(&pts, 1e-6, false).ok().filter(|c| c.points() == &pts[..]);
        let rich = n_edges <= 70;
        let mut judged_total = 0usize;
        for i in target_edges(n_edges) {
            let mut judged = 0usize;
            for (m, d, k) in targeted_lines(&pts, i, exact, rich) {
                if check_ref_line(r, name, &pts, &line, curve.as_ref(), &m, &d, k, exact, exact) { judged += 1; }
            }
            judged_total += judged;
            r.check(judged > 0, "harness: at least one line through every targeted edge is inside the judged input space", || format!("{} with {} edges, edge {}", name, n_edges, i));
        }
        for (m, d, k) in sweep_lines(&pts, exact) {
            if check_ref_line(r, name, &pts, &line, curve.as_ref(), &m, &d, k, exact, exact) { judged_total += 1; }
        }
        r.check(judged_total >= 10, "harness: the sized family judges lines on every polyline", || format!("{} with {} edges: {} lines judged", name, n_edges, judged_total));
    }
}

// ---------------------------------------------------------------- F2: magnitudes (offsets, scales, direction lengths, far origins, signed zeros)
fn magnitude_shapes() -> Vec<(&'static str, Vec<Point2>)> {
    let mut h = hook_last_extreme();
    vec![
        ("one edge", vec![p(0.0, 0.0), p(3.0, 2.0)]),
        ("two edges", vec![p(0.0, 0.0), p(3.0, 2.0), p(4.0, -3.0)]),
        ("zig-zag", zigzag(9, 2.0, 1.0)),
        ("comb", comb(2)),
        ("closed octagon", octagon((0.0, 0.0))),
        ("closed star", star()),
        ("spiral", spiral(2, false)),
        ("open, end vertex extreme", h.remove(0)),
        ("closed rectangle", rect_closed(5, 3)),
        ("closed diamond", diamond(4)),
        ("U shape", u_shape(3)),
    ]
}
fn magnitudes(r: &mut Report) {
    let offsets = [(0.0, 0.0), (1000.0, -3000.0), (100000.5, 250000.0), (-1.0e8, 1.0e8), (123456789.0, -987654321.0)];
    let scales = [1.0, 0.0009765625, 9.5367431640625e-7, 7.450580596923828e-9]; // 1, 2^-10, 2^-20, 2^-27
    let mut combo = 0usize;
    for (name, base) in magnitude_shapes() {
        let base_rays = rays_for(&base);
        for (ox, oy) in offsets { for s in scales {
            let tr = |q: &Point2| p(ox + s * q.x, oy + s * q.y);
            let back_ok = |q: &Point2, t: &Point2| (t.x - ox) / s == q.x && (t.y - oy) / s == q.y;
            let pts: Vec<Point2> = base.iter().map(|q| tr(q)).collect();
            // the transformed polyline is the exact image of the base one (else this offset / scale pair is skipped)
            if !base.iter().zip(pts.iter()).all(|(q, t)| back_ok(q, t)) { continue; }
            let line = Polyline::new(pts.clone(), None);
            let curve = Curve2::from_points(&pts, 1e-3 * s, false).ok().filter(|c| c.points() == &pts[..]);
            let mut gs = vec![s * 0.0009765625, s, s * 1024.0, 1.0, 0.0009765625, 1024.0];
            gs.sort_by(|a, b| a.partial_cmp(b).unwrap()); gs.dedup();
            let mut judged = 0usize;
            for g in gs.iter() {
                combo += 1;
                // targeted lines through every edge (vertex ties, just inside / outside the ends)
                for i in 0..pts.len() - 1 {
                    for (li, (m, d, k)) in targeted_lines(&pts, i, true, true).into_iter().enumerate() {
                        if (li + combo) % 2 != 0 { continue; }
                        if check_ref_line(r, name, &pts, &line, curve.as_ref(), &m, &(d * *g), k, true, false) { judged += 1; }
                    }
                }
                // the generic lines of the base polyline (axis-parallel through every vertex coordinate and the box bounds, oblique)
                for (li, ray) in base_rays.iter().enumerate() {
                    if (li + combo) % 3 != 0 { continue; }
                    let m = tr(&ray.origin);
                    if !back_ok(&ray.origin, &m) { continue; }
                    let mut ds = vec![ray.dir * *g];
                    // signed zeros in the direction
                    if ray.dir.y == 0.0 { ds.push(Vector2::new(ray.dir.x * *g, -0.0)); }
                    if ray.dir.x == 0.0 { ds.push(Vector2::new(-0.0, ray.dir.y * *g)); }
                    for d in ds {
                        let k = [0.0, 0.0, 1048576.0, 0.0, -68719476736.0, 0.0, 32.0][(li / 3 + combo) % 7];
                        if check_ref_line(r, name, &pts, &line, curve.as_ref(), &m, &d, k, true, false) { judged += 1; }
                    }
                }
            }
            r.check(judged >= if s < 1e-8 { 1 } else { 40 }, "harness: every exact offset / scale pair of the magnitude family judges lines", || format!("{} offset ({:?}, {:?}) scale {:?}: {} lines judged", name, ox, oy, s, judged));
        } }
    }
}

// ---------------------------------------------------------------- F5 / F6: zero-length edges; curves as built by Curve2 (forced closure, closure within tolerance, duplicates removed, moved, reversed, cloned)
fn all_edge_lines(r: &mut Report, name: &str, v: &[Point2], line: &Polyline, curve: Option<&Curve2>) -> usize {
    let mut judged = 0usize;
    for i in 0..v.len() - 1 {
        for (m, d, k) in targeted_lines(v, i, true, true) {
            if k.abs() > 8.0 { continue; }
            if check_ref_line(r, name, v, line, curve, &m, &d, k, true, false) { judged += 1; }
        }
    }
    judged
}
fn built_curves(r: &mut Report) {
    // zero-length edges (Polyline only: Curve2 removes them)
    for (name, base) in [("zig-zag with doubled vertices", zigzag(9, 2.0, 1.0)), ("closed star with doubled vertices", star()), ("two edges, doubled middle vertex", vec![p(0.0, 0.0), p(3.0, 2.0), p(4.0, -3.0)])] {
        let mut pts: Vec<Point2> = vec![];
        for (i, q) in base.iter().enumerate() { pts.push(*q); if i % 3 == 0 || i + 1 == base.len() { pts.push(*q); } }
        let line = Polyline::new(pts.clone(), None);
        let j = all_edge_lines(r, name, &pts, &line, None);
        r.check(j >= 20, "harness: the zero-length-edge family judges lines", || format!("{}: {}", name, j));
    }
    let opens: Vec<(&'static str, Vec<Point2>)> = vec![("zig-zag", zigzag(9, 2.0, 1.0)), ("comb", comb(2)), ("spiral", spiral(2, false)), ("U shape", u_shape(3)), ("hook", hook_last_extreme().remove(4)), ("asymmetric zig-zag", zigzag_asym(6))];
    for (name, base) in opens.iter() {
        let mut variants: Vec<(String, Curve2)> = vec![];
        if let Ok(c) = Curve2::from_points(base, 1e-6, true) {
            variants.push((format!("{}: Curve2::from_points(.., force_closed = true)", name), c.clone()));
            variants.push((format!("{}: force-closed curve, cloned", name), c.clone()));
            variants.push((format!("{}: force-closed curve, transformed_by(translation (1024, -512))", name), c.transformed_by(&crate::Iso2::translation(1024.0, -512.0))));
            variants.push((format!("{}: force-closed curve, reversed", name), c.reversed()));
        }
        // closed within the tolerance: the last point is 2^-21 away from the first, no closing edge
        let mut near = base.clone();
        near.push(p(base[0].x + 4.76837158203125e-7, base[0].y));
        if let Ok(c) = Curve2::from_points(&near, 1e-6, false) { variants.push((format!("{}: last point within the tolerance of the first", name), c)); }
        // duplicates and near-duplicates in the input
        let mut dup: Vec<Point2> = vec![];
        for (i, q) in base.iter().enumerate() { dup.push(*q); if i % 3 == 1 { dup.push(*q); } if i % 4 == 2 { dup.push(p(q.x + 2.384185791015625e-7, q.y)); } }
        if let Ok(c) = Curve2::from_points(&dup, 1e-6, false) { variants.push((format!("{}: duplicates and near-duplicates in the input", name), c)); }
        if let Ok(c) = Curve2::from_points(&dup, 1e-6, true) { variants.push((format!("{}: duplicates in the input, force_closed", name), c)); }
        r.check(variants.len() == 7, "harness: Curve2 builds all variants of the open polylines", || format!("{}: {}", name, variants.len()));
        for (vn, c) in variants.iter() {
            // the oracle works on the vertex list the curve reports; edge numbers are those of the curve
            let v: Vec<Point2> = c.points().to_vec();
            let line = Polyline::new(v.clone(), None);
            let j = all_edge_lines(r, vn, &v, &line, Some(c));
            r.check(j >= 20, "harness: the built-curve family judges lines", || format!("{}: {}", vn, j));
        }
    }
}

pub fn run() -> Option<Report> {
    let mut r = Report::new("43 polylines with 5..=40 edges on integer grids (zig-zags, combs, staircases, U shapes, closed rectangles / diamonds / octagons / star, rectangular spirals, open chains whose end vertex is the unique extreme) x per polyline: axis-parallel lines through every vertex coordinate, the box bounds, one unit outside and fractional offsets (5 origins before / inside / behind / on the box, 4 signed speeds) and oblique lines of 13 dyadic slopes (5 of them nearly parallel to edges, direction determinants 2^-10 .. 2^-16) through every third vertex, the last vertex and 4 off-grid anchors (origin on the anchor and 16 steps before / behind); surface points = the same lines with a unit normal; lines whose distinct crossings are closer than 1e-6 are excluded; NEAR-PARALLEL: 648 closed pentagons (3 vertex positions x 6 dyadic line directions x nearly parallel edge of length 1.3 / 4.2 / 9.7 at 1e-3, 1e-4, 1e-5 rad, on either side, vertex = end or start of that edge) x 18 lines EXACTLY through the vertex (origin 0, 2, 8, 32, -4, -16 steps before it, speeds 1, -1, 0.5); REGULAR POLYGONS: 5,6,7,8,9,12,16,24-gons of radius 1, 2.5, 10 at 2 centres x every line through two non-adjacent vertices (inexact coordinates); NEARLY PARALLEL, ANY MAGNITUDE: 7-edge polyline with an edge of length 0.01, 0.1, 1, 10, 200 crossed at 0.25 / 0.5 / 0.8125 of its length by a line at 1e-6, 1e-8, 1e-10 rad with |dir| = 1e-3, 1, 1e3 (combinations whose direction determinant len*|dir|*angle is >= 4e-12), 8 axis symmetries x 2 translations x both vertex orders x origins 0, 2, -4, 32 steps before the crossing x both senses; crossed edges decided by orientation signs relative to the known crossing point; THIN FEATURE: a slot of width 0.002, 0.01, 0.03 crossed at slopes 1/8, -1/2, 2 by lines with |dir| ~ 1e-3, 1, 1e3, 2e3 whose two wall crossings are >= 1e-6 apart in parameter (8 symmetries, both vertex orders, 3 origins, both senses); WAVE 5, orientation-sign oracle, lines (m, d, k) through a known point m with exact origin m - k d: SIZES 1, 2, 3, 4, 41, 63, 64, 65, 100, 255, 256, 257, 1000, 1024, 4097, 5000 edges (thorough tier: also 127..129, 1023, 1025, 2048, 4095, 4096) in 8 layouts (zig-zag, asymmetric zig-zag, comb, rectangular spiral out / in, round spiral and closed star ring with inexact coordinates, nearly straight run, closed rectangle), targeted lines through every edge (<= 300 edges) else the first / last 10 edges, the edges around 16, 64, 256, 1024, 4096 and every n/37-th, at edge fractions 0.375, 0, 2^-18, 2^-34, 1 - 2^-18, 1 - 2^-34 and -+2^-18, -+2^-34 beyond / exactly at the free ends, directions (1, 0.25), (-0.5, 1), (3, 1), (-5, 3), (+-49, 1) in both senses, origins 0, 4, -8, 2^20, -2^36, 12345678901 steps from m (sampled on the long polylines), sweeps through points of 4 edges along the signed axes (-0.0 components included) and from one to the next (a single query crosses up to 5000 edges); MAGNITUDES: 11 shapes of 1..32 edges x offsets (0, 0), (1000, -3000), (100000.5, 250000), (-1e8, 1e8), (123456789, -987654321) x scales 1, 2^-10, 2^-20, 2^-27 (exact images only) x direction factors scale * 2^-10, scale, scale * 2^10, 2^-10, 1, 2^10 x (every 2nd targeted line, every 3rd generic line of the base shape incl. axis-parallel lines on the box bounds with +-0.0 components, origins 0, 32, 2^20, -2^36 steps away); BUILT CURVES: 6 open shapes as Curve2 builds them with force_closed, last point within the tolerance of the first, duplicates / near-duplicates in the input, cloned, translated by (1024, -512), reversed, plus polylines with zero-length edges, targeted lines through every edge (the closing edge included); every query is asked twice; a line is judged when every vertex is farther from it than 2^-40 of the edge's orientation span + 1e-14 |d| (distance to the origin) or EXACTLY on it with an exact per-edge formula (error-free transformations), crossed edges make a sine >= 1e-4 and a direction determinant >= 4e-12 with it, and distinct crossings are >= 1e-6 apart in parameter");
    for (name, pts) in polylines() {
        let line = Polyline::new(pts.clone(), None);
        let curve = Curve2::from_points(&pts, 1e-6, false).ok();
        // the curve has the same vertex list (no duplicates to remove, never force-closed)
        let curve = curve.filter(|c| c.points().len() == pts.len());
        r.check(curve.is_some(), "Curve2::from_points keeps the vertex list of a duplicate-free polyline", || format!("{} {:?}", name, pts.iter().map(|q| (q.x, q.y)).collect::<Vec<_>>()));
        let rays = rays_for(&pts);
        for ray in rays.iter() {
            check_line(&mut r, name, &pts, &line, curve.as_ref(), ray);
        }
        if let Some(c) = curve.as_ref() {
            for ray in rays.iter() {
                let sp = SurfacePoint2::new_normalize(ray.origin, ray.dir);
                check_surface_point(&mut r, name, c, &sp);
            }
        }
    }
    near_parallel_vertex_lines(&mut r);
    regular_polygon_chords(&mut r);
    near_parallel_scaled(&mut r);
    thin_feature_scaled_lines(&mut r);
    sizes_and_layouts(&mut r);
    magnitudes(&mut r);
    built_curves(&mut r);
    Some(r)
}
