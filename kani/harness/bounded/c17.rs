//! C17 bounded: series and discrete domains stay sorted, finite and function-preserving.
//! Input space (all enumerated, no RNG):
//!  * constructor vectors: every vector of length 0..=4 over {-inf, -1, 0, 0.5, 1, +inf, NaN} (try_from / try_new),
//!    every push chain of length <= 3 over the same values, linear / linear_space for all ordered pairs of bounds over
//!    {-1, 0, 0.5, 1, 2, 3} (either order, equal bounds) and n in {2, 3, 4, 5, 9};
//!  * series: every non-decreasing abscissa vector of length 1..=4 over {0, 0.5, 1, 2, 3} (repeated values included)
//!    with every ordinate vector over {-1, 0, 1, 2};  probes / bounds over {-1, 0, 0.25, 0.5, 0.75, 1, 1.5, 2, 2.5, 3, 4}
//!    (slice / split bounds additionally 1 + 2^-50 and 2 - 2^-40: a hair past / before a knot value),
//!    levels over {-1, -0.5, 0, 0.5, 1, 1.5, 2, 3}, counts {2, 3, 4, 5, 7, 9}, spacings {0.25, 0.5, 0.75, 1, 4},
//!    scale factors {-2, -1, -0.5, 0.5, 2} x {-1, 2}, shifts {-1.5, 0, 2};
//!  * an "inexact stepping" family for resampling: two-knot series [0, b], b = k/10 (k = 1..=19), and [a, a + b] for
//!    a in {0.1, 1/3}, counts 2..=24;
//!  * NaN ordinates (remove_nan): series of length 1..=4 over the abscissae above (length <= 3 exhaustively) with
//!    ordinates over {NaN, +inf, -inf, 0, 1} (an infinite ordinate is not a NaN: the point is kept).
//!  * wave 4: validation helpers / constructors on vectors of length <= 4 whose neighbours are one rounding step apart
//!    (0.3 / 0.1+0.2, 1 / 1+2^-52, -1 / -1+2^-53, 0 / 5e-324), push chains of length 4, and shift_by / scaled_by with
//!    non-finite parameters or overflowing abscissae (valid result or loud failure, never a silently invalid series).
//!  * wave 5 (notes/w5_audit_C17.md): every remaining public function of DiscreteDomain / vec_f64 / Series1 named by the
//!    statement's anchors: index_of / bounds / accessors on domains built by EVERY constructor (try_from, push chain,
//!    linear, linear_space; empty, 1..4 values with repeats, 33 / 100 / 1000 / 4097 values at 0, 1e6, +-1e8 and on a 2^-30
//!    extent), probes bit-equal to a knot, one ulp either side, mid / quarter points, +-0.0, +-inf; push sequences with
//!    refused pushes followed by reads; has_nan / are_all_finite / ascending / descending / try_from / try_new on vectors of
//!    5..4097 values with ONE fault (NaN, +-inf, one rounding step down / up, a repeat) at every position (n <= 129) or
//!    around 0 / 32 / 64 / 1000 / 1024 / 4096 / the end; sort helpers; linear / linear_space over 15 bounds^2 (far, tiny,
//!    inexact, +-0.0) x n in {2, 3, 10, 33, 100, 1000, 4097}; on the small family: index_of_x_after, is_ordered, interval,
//!    xys, as_points, fs / from_sampled beyond the series, derived series (abs, scaled_y, + / -, dydx, savitzky_golay),
//!    no-op updates, whole-domain slice, reversed Interval, slice of a slice, split twice, middle_reiemann_areas,
//!    bounds_at_y0, plateau_at_maxima; "long series": 6 (origin, spacing) pairs x 4 sizes x 4 layouts (uniform, growing
//!    gaps, every 7th abscissa repeated, one gap of 2001 spacings) x 2 ordinate patterns, every clause of the small family
//!    evaluated with a partition_point oracle (self-tested against the scan), resampling to 2..4097 points, resampling
//!    twice, 13 levels incl. knot ordinates +- one ulp and +-0.0, scale / shift round trips, a mirror-shift-slice-resample
//!    chain, NaN ordinates at the first / last / every third / every point.
//! Oracles are brute force: the piecewise-linear graph is evaluated segment by segment; at a repeated abscissa the graph
//! is the SET of ordinates stored there.  Outside the stated preconditions of props/C17.json (empty series, n < 2,
//! NaN probe, slice entirely left of the domain) nothing is evaluated.
use super::{close, Report};
use crate::common::{linear_space, DiscreteDomain, Interval};
use crate::func1::{Func1, Series1};
use std::panic::{catch_unwind, AssertUnwindSafe};

const XS: [f64; 5] = [0.0, 0.5, 1.0, 2.0, 3.0];
const YS: [f64; 4] = [-1.0, 0.0, 1.0, 2.0];
const PROBES: [f64; 11] = [-1.0, 0.0, 0.25, 0.5, 0.75, 1.0, 1.5, 2.0, 2.5, 3.0, 4.0];
const LEVELS: [f64; 8] = [-1.0, -0.5, 0.0, 0.5, 1.0, 1.5, 2.0, 3.0];
const COUNTS: [usize; 6] = [2, 3, 4, 5, 7, 9];
const SPACINGS: [f64; 5] = [0.25, 0.5, 0.75, 1.0, 4.0];
const RAW: [f64; 7] = [f64::NEG_INFINITY, -1.0, 0.0, 0.5, 1.0, f64::INFINITY, f64::NAN];

fn guarded<T>(f: impl FnOnce() -> T) -> Option<T> { catch_unwind(AssertUnwindSafe(f)).ok() }

fn finite_ascending(v: &[f64]) -> bool { v.iter().all(|x| x.is_finite()) && v.windows(2).all(|w| w[0] <= w[1]) }
fn same_bits_or_eq(a: &[f64], b: &[f64]) -> bool { a.len() == b.len() && a.iter().zip(b).all(|(p, q)| p == q || (p.is_nan() && q.is_nan())) }
/// the representation invariant of the property: finite ascending abscissae, matching number of ordinates
fn inv(s: &Series1) -> bool { finite_ascending(s.x.values()) && s.x.values().len() == s.y.len() }

/// ORACLE: the set of values of the piecewise-linear graph (xs, ys) at x; empty = outside the domain (NaN expected)
fn graph_vals(xs: &[f64], ys: &[f64], x: f64) -> Vec<f64> {
    let n = xs.len();
    let mut out = vec![];
    if n == 0 || !(x >= xs[0] && x <= xs[n - 1]) { return out; }
    for k in 0..n { if xs[k] == x { out.push(ys[k]); } }
    if out.is_empty() {
        for j in 0..n - 1 {
            if xs[j] < x && x < xs[j + 1] {
                out.push(ys[j] + (ys[j + 1] - ys[j]) * ((x - xs[j]) / (xs[j + 1] - xs[j])));
            }
        }
    }
    out
}
fn same_val(a: f64, b: f64) -> bool { (a.is_nan() && b.is_nan()) || close(a, b) }
fn on_graph(xs: &[f64], ys: &[f64], x: f64, v: f64) -> bool {
    let g = graph_vals(xs, ys, x);
    if g.is_empty() { v.is_nan() } else { g.iter().any(|&w| same_val(v, w)) }
}
/// ORACLE: trapezoid area of the graph
fn area(xs: &[f64], ys: &[f64]) -> f64 { (0..xs.len().saturating_sub(1)).map(|i| (xs[i + 1] - xs[i]) * (ys[i] + ys[i + 1]) * 0.5).sum() }
/// ORACLE: abscissae where a non-vertical segment of the graph meets the level (both ends of a flat segment on the level)
fn crossings(xs: &[f64], ys: &[f64], level: f64) -> Vec<f64> {
    let mut out: Vec<f64> = vec![];
    for j in 0..xs.len().saturating_sub(1) {
        let (x0, x1, v0, v1) = (xs[j], xs[j + 1], ys[j], ys[j + 1]);
        if x0 == x1 { continue; }
        if v0.min(v1) <= level && level <= v0.max(v1) {
            if v0 == v1 { out.push(x0); out.push(x1); } else { out.push(x0 + (x1 - x0) * ((level - v0) / (v1 - v0))); }
        }
    }
    out.sort_by(|a, b| a.partial_cmp(b).unwrap());
    out.dedup_by(|a, b| (*a - *b).abs() <= 1e-9);
    out
}
fn same_set(a: &[f64], b: &[f64]) -> bool { a.iter().all(|p| b.iter().any(|q| close(*p, *q))) && b.iter().all(|p| a.iter().any(|q| close(*p, *q))) }

// ------------------------------------------------------------------------------------------------ enumeration helpers
fn tuples(vals: &[f64], len: usize, f: &mut dyn FnMut(&[f64])) {
    let mut idx = vec![0usize; len];
    let mut cur = vec![0.0; len];
    loop {
        for k in 0..len { cur[k] = vals[idx[k]]; }
        f(&cur);
        let mut p = len;
        loop {
            if p == 0 { return; }
            p -= 1;
            idx[p] += 1;
            if idx[p] < vals.len() { break; }
            idx[p] = 0;
        }
    }
}
fn ascending_tuples(vals: &[f64], len: usize, f: &mut dyn FnMut(&[f64])) {
    tuples(vals, len, &mut |t| { if t.windows(2).all(|w| w[0] <= w[1]) { f(t) } });
}

// ------------------------------------------------------------------------------------------------ constructors
fn check_constructors(r: &mut Report) {
    for len in 0..=4usize {
        tuples(&RAW, len, &mut |v| {
            r.case();
            let d = || format!("DiscreteDomain::try_from({:?})", v);
            let valid = finite_ascending(v);
            match guarded(|| DiscreteDomain::try_from(v.to_vec())) {
                None => r.check(false, "try_from: returns (no panic)", d),
                Some(Ok(dom)) => {
                    r.check(valid, "try_from: Ok only for finite ascending values (never a silently invalid domain)", d);
                    r.check(same_bits_or_eq(dom.values(), v), "try_from: the accepted domain holds exactly the given values", d);
                }
                Some(Err(_)) => r.check(!valid, "try_from: finite ascending values are accepted", d),
            }
            // Series1::try_new: matching / short / long ordinate vectors
            for ylen in [len, len + 1, len.saturating_sub(1)] {
                let y: Vec<f64> = (0..ylen).map(|k| k as f64 - 1.0).collect();
                let d2 = || format!("Series1::try_new({:?}, {:?})", v, y);
                match guarded(|| Series1::try_new(v.to_vec(), y.clone())) {
                    None => r.check(false, "try_new: returns (no panic)", d2),
                    Some(Ok(s)) => {
                        r.check(valid && ylen == len, "try_new: Ok only for finite ascending abscissae with a matching number of ordinates", d2);
                        r.check(same_bits_or_eq(s.x.values(), v) && same_bits_or_eq(&s.y, &y), "try_new: the series holds exactly the given vectors", d2);
                    }
                    Some(Err(_)) => r.check(!(valid && ylen == len), "try_new: valid input is accepted", d2),
                }
            }
        });
    }
    // push chains from the empty domain
    for len in 1..=3usize {
        tuples(&RAW, len, &mut |seq| {
            r.case();
            let d = || format!("DiscreteDomain::default() then push each of {:?}", seq);
            let mut dom = DiscreteDomain::default();
            let mut model: Vec<f64> = vec![];
            for &v in seq {
                let expect_ok = v.is_finite() && model.last().map_or(true, |l| v >= *l);
                match guarded(|| dom.push(v).is_ok()) {
                    None => { r.check(false, "push: returns (no panic)", d); return; }
                    Some(ok) => {
                        r.check(ok == expect_ok, "push: Ok exactly for a finite value not below the last one", d);
                        if ok { model.push(v); }
                    }
                }
                // the model only follows accepted pushes: a wrongly accepted value shows up in both clauses below
                r.check(finite_ascending(dom.values()), "push: the domain stays finite and ascending", d);
                if finite_ascending(&model) { r.check(same_bits_or_eq(dom.values(), &model), "push: appends the accepted value, leaves the domain unchanged on error", d); }
            }
        });
    }
    // linear spacing, bounds in either order
    let b = [-1.0, 0.0, 0.5, 1.0, 2.0, 3.0];
    for &a0 in b.iter() { for &a1 in b.iter() { for n in [2usize, 3, 4, 5, 9] {
        r.case();
        for which in 0..2 {
            let name = if which == 0 { "DiscreteDomain::linear" } else { "linear_space" };
            let d = || format!("{}({:?}, {:?}, {})", name, a0, a1, n);
            let got = guarded(|| if which == 0 { DiscreteDomain::linear(a0, a1, n) } else { linear_space(a0, a1, n) });
            let Some(dom) = got else { r.check(false, "linear: returns (no panic)", d); continue; };
            let v = dom.values();
            let (lo, hi) = (a0.min(a1), a0.max(a1));
            r.check(v.len() == n, "linear: n values", d);
            r.check(finite_ascending(v), "linear: finite ascending values for bounds in either order", d);
            if v.len() == n {
                r.check(v[0] == lo, "linear: first value is the smaller bound", d);
                r.check(close(v[n - 1], hi), "linear: last value is the larger bound", d);
                r.check((0..n).all(|k| close(v[k], lo + (k as f64) * (hi - lo) / ((n - 1) as f64))), "linear: evenly spaced", d);
                r.check(lo == hi || v.windows(2).all(|w| w[0] < w[1]), "linear: distinct bounds do not collapse", d);
            }
        }
    } } }
}

// ------------------------------------------------------------------------------------------------ one series
fn check_piece(r: &mut Report, xs: &[f64], ys: &[f64], p: &Series1, lo: f64, hi: f64, what: &str, d: &dyn Fn() -> String) {
    let n = xs.len();
    let px = p.x.values();
    let cl = |c: &str| format!("{}: {}", what, c);
    r.check(inv(p), &cl("finite ascending abscissae with a matching number of ordinates"), d);
    if !inv(p) || px.is_empty() { r.check(!px.is_empty(), &cl("non-empty piece"), d); return; }
    r.check(px[0] == lo.max(xs[0]), &cl("left end exactly at the requested bound (the first knot if the bound lies before the domain)"), d);
    r.check(px[px.len() - 1] == hi, &cl("right end exactly at the requested bound"), d);
    r.check((0..px.len()).all(|k| on_graph(xs, ys, px[k], p.y[k])), &cl("same value as the parent at every returned abscissa"), d);
    // no parent knot inside (lo, hi] is dropped
    r.check((0..n).all(|j| !(lo < xs[j] && xs[j] <= hi) || (0..px.len()).any(|k| px[k] == xs[j] && same_val(p.y[k], ys[j]))),
        &cl("every parent knot inside the interval is kept with its ordinate"), d);
    // the piece evaluates like the parent between its knots and at its ends
    let mut ok_mid = true;
    for k in 0..px.len() - 1 {
        if px[k] < px[k + 1] {
            for f in [0.25, 0.5] {
                let m = px[k] + (px[k + 1] - px[k]) * f;
                let g = graph_vals(xs, ys, m);
                let Some(v) = guarded(|| p.interpolate(m)) else { ok_mid = false; continue; };
                // left of the parent's domain or right of it the parent is NaN; a piece reaching there blends with NaN
                ok_mid &= if g.is_empty() { v.is_nan() } else { g.iter().any(|w| same_val(v, *w)) };
            }
        }
    }
    r.check(ok_mid, &cl("same value as the parent between the returned abscissae"), d);
    for e in [px[0], px[px.len() - 1]] {
        let v = guarded(|| p.interpolate(e));
        r.check(v.map_or(false, |v| on_graph(xs, ys, e, v)), &cl("evaluates like the parent at its ends"), d);
    }
}

fn check_series(r: &mut Report, xs: &[f64], ys: &[f64]) {
    let Ok(s) = Series1::try_new(xs.to_vec(), ys.to_vec()) else { r.check(false, "try_new: valid input is accepted", || format!("{:?} {:?}", xs, ys)); return; };
    r.case();
    let n = xs.len();
    let (x_min, x_max) = (xs[0], xs[n - 1]);
    let sd = format!("Series1 x={:?} y={:?}", xs, ys);

    // ---- interpolation
    let mut probes: Vec<f64> = PROBES.to_vec();
    probes.extend_from_slice(&[f64::NEG_INFINITY, f64::INFINITY, 0.125, 2.75]);
    for &x in probes.iter() {
        let d = || format!("{} interpolate({:?})", sd, x);
        let Some(v) = guarded(|| s.interpolate(x)) else { r.check(false, "interpolate: returns (no panic)", d); continue; };
        let g = graph_vals(xs, ys, x);
        if g.is_empty() { r.check(v.is_nan(), "interpolate: NaN outside the domain", d); }
        else if xs.contains(&x) { r.check(g.iter().any(|w| *w == v), "interpolate: the stored value at a knot", d); }
        else { r.check(g.iter().any(|w| close(*w, v)), "interpolate: the linear blend between knots", d); }
        r.check(guarded(|| s.f(x)).map_or(false, |w| same_val(w, v)), "Func1::f agrees with interpolate", d);
    }
    r.check(guarded(|| s.x_min()) == Some(x_min) && guarded(|| s.x_max()) == Some(x_max), "x_min / x_max are the first and last abscissa", || sd.clone());

    // ---- area
    let whole = area(xs, ys);
    let a_real = guarded(|| s.area_under());
    r.check(a_real.map_or(false, |a| close(a, whole)), "area_under: sum of the trapezoids", || sd.clone());

    // ---- slices (bounds: the probes plus two bounds a hair past / before a knot value)
    let mut sb: Vec<f64> = PROBES.to_vec();
    sb.push(1.0 + (2.0f64).powi(-50));
    sb.push(2.0 - (2.0f64).powi(-40));
    sb.sort_by(|a, b| a.partial_cmp(b).unwrap());
    for (i0, &x0) in sb.iter().enumerate() { for &x1 in sb[i0..].iter() {
        if x1 < x_min { continue; }    // stated precondition: the slice reaches into the domain from the left
        let d = || format!("{} between({:?}, {:?})", sd, x0, x1);
        let Some(p) = guarded(|| s.between(x0, x1)) else { r.check(false, "between: returns (no panic)", &d); continue; };
        check_piece(r, xs, ys, &p, x0, x1, "between", &d);
        if let Some(q) = guarded(|| s.in_interval(Interval::new(x0, x1))) {
            r.check(same_bits_or_eq(q.x.values(), p.x.values()) && same_bits_or_eq(&q.y, &p.y), "in_interval: the same piece as between(min, max)", &d);
        } else { r.check(false, "in_interval: returns (no panic)", &d); }
    } }

    // ---- splits
    for &x in sb.iter() {
        let d = || format!("{} split_at_x({:?})", sd, x);
        let Some((a, b)) = guarded(|| s.split_at_x(x)) else { r.check(false, "split_at_x: returns (no panic)", &d); continue; };
        let is_whole = |p: &Option<Series1>| p.as_ref().map_or(false, |p| p.x.values() == xs && p.y == ys);
        if x > x_max { r.check(is_whole(&a) && b.is_none(), "split_at_x: right of the domain: (whole, None)", &d); continue; }
        if x < x_min { r.check(a.is_none() && is_whole(&b), "split_at_x: left of the domain: (None, whole)", &d); continue; }
        let (Some(a), Some(b)) = (a, b) else { r.check(false, "split_at_x: two pieces inside the domain", &d); continue; };
        check_piece(r, xs, ys, &a, x_min, x, "split_at_x lower piece", &d);
        check_piece(r, xs, ys, &b, x, x_max, "split_at_x upper piece", &d);
        if inv(&a) && inv(&b) {
            let (aa, ab) = (guarded(|| a.area_under()), guarded(|| b.area_under()));
            r.check(matches!((aa, ab), (Some(p), Some(q)) if close(p + q, whole) && close(p, area(a.x.values(), &a.y)) && close(q, area(b.x.values(), &b.y))),
                "split_at_x: areas of the pieces add up to the whole", &d);
        }
    }

    // ---- resampling
    for &k in COUNTS.iter() { check_resampled(r, &s, xs, ys, &format!("{} resampled_n({})", sd, k), guarded(|| s.resampled_n(k)), Some(k)); }
    for &sp in SPACINGS.iter() { check_resampled(r, &s, xs, ys, &format!("{} resampled_x({:?})", sd, sp), guarded(|| s.resampled_x(sp)), None); }

    // ---- level crossings
    for &lv in LEVELS.iter() {
        let d = || format!("{} y_crossings({:?})", sd, lv);
        let Some(c) = guarded(|| s.y_crossings(lv)) else { r.check(false, "y_crossings: returns (no panic)", &d); continue; };
        r.check(c.iter().all(|x| x.is_finite()) && c.windows(2).all(|w| w[0] < w[1]), "y_crossings: finite, strictly ascending (unique)", &d);
        r.check(c.iter().all(|&x| graph_vals(xs, ys, x).iter().any(|w| close(*w, lv))), "y_crossings: the interpolant equals the level at every reported abscissa", &d);
        let want = crossings(xs, ys, lv);
        r.check(want.iter().all(|p| c.iter().any(|q| close(*p, *q))), "y_crossings: every abscissa where a segment meets the level is reported (knots on the level, flat segments included)", &d);
        r.check(same_set(&c, &want), "y_crossings: exactly the abscissae where the interpolant equals the level", &d);
    }

    // ---- scaling (negative factors included), shifting, chains
    for &sx in [-2.0, -1.0, -0.5, 0.5, 2.0].iter() { for &sy in [-1.0, 2.0].iter() {
        let d = || format!("{} scaled_by({:?}, {:?})", sd, sx, sy);
        let Some(t) = guarded(|| s.scaled_by(sx, sy)) else { r.check(false, "scaled_by: returns (no panic)", &d); continue; };
        r.check(inv(&t) && t.y.len() == n, "scaled_by: finite ascending abscissae with a matching number of ordinates", &d);
        if !(inv(&t) && t.y.len() == n) { continue; }
        let ok = (0..n).all(|k| { let q = if sx < 0.0 { n - 1 - k } else { k }; t.x.values()[q] == xs[k] * sx && t.y[q] == ys[k] * sy });
        r.check(ok, "scaled_by: point k maps to (sx * x, sy * y), order reversed for a negative factor", &d);
        r.check(t.x.values().first() != t.x.values().last() || x_min == x_max, "scaled_by: does not collapse", &d);
        let okf = probes.iter().filter(|p| p.is_finite()).all(|&p| {
            let g = graph_vals(xs, ys, p);
            guarded(|| t.interpolate(p * sx)).map_or(false, |v| if g.is_empty() { v.is_nan() } else { g.iter().any(|w| same_val(*w * sy, v)) })
        });
        r.check(okf, "scaled_by: the scaled series evaluates to sy * f(x) at sx * x", &d);
    } }
    for &dx in [-1.5, 0.0, 2.0].iter() {
        let dy = 0.5;
        let d = || format!("{} shift_by({:?}, {:?})", sd, dx, dy);
        let Some(t) = guarded(|| s.shift_by(dx, dy)) else { r.check(false, "shift_by: returns (no panic)", &d); continue; };
        r.check(inv(&t) && t.y.len() == n, "shift_by: finite ascending abscissae with a matching number of ordinates", &d);
        if !(inv(&t) && t.y.len() == n) { continue; }
        r.check((0..n).all(|k| t.x.values()[k] == xs[k] + dx && t.y[k] == ys[k] + dy), "shift_by: point k maps to (x + dx, y + dy)", &d);
    }
    // chain: mirror about x = 1.5 (scale by -1, shift by 3), slice, resample -- the invariant and the function survive
    if n >= 2 && x_min < x_max {
        let d = || format!("{} scaled_by(-1, 1).shift_by(3, 0).between(0.5, 2.5).resampled_n(5)", sd);
        let got = guarded(|| { let m = s.scaled_by(-1.0, 1.0).shift_by(3.0, 0.0); let lo = 0.5f64.max(m.x_min()); let hi = 2.5f64.min(m.x_max()); (m.clone(), if lo <= hi { Some((lo, hi, m.between(lo, hi))) } else { None }) });
        match got {
            None => r.check(false, "chain: returns (no panic)", &d),
            Some((m, piece)) => {
                r.check(inv(&m), "chain: mirrored series keeps the invariant", &d);
                let okm = PROBES.iter().all(|&p| { let g = graph_vals(xs, ys, 3.0 - p); guarded(|| m.interpolate(p)).map_or(false, |v| if g.is_empty() { v.is_nan() } else { g.iter().any(|w| same_val(*w, v)) }) });
                r.check(okm, "chain: the mirrored series evaluates to f(3 - x)", &d);
                if let Some((lo, hi, p)) = piece {
                    r.check(inv(&p) && !p.y.is_empty() && p.x_min() == lo && p.x_max() == hi, "chain: slice of the mirrored series ends at the requested bounds", &d);
                    if inv(&p) && !p.y.is_empty() {
                        let q = guarded(|| p.resampled_n(5));
                        r.check(q.as_ref().map_or(false, |q| inv(q) && q.y.len() == 5 && (0..5).all(|k| on_graph(m.x.values(), &m.y, q.x.values()[k], q.y[k]))),
                            "chain: resampled slice lies on the mirrored graph", &d);
                    }
                }
            }
        }
    }
}

fn check_resampled(r: &mut Report, s: &Series1, xs: &[f64], ys: &[f64], desc: &str, got: Option<Series1>, want_n: Option<usize>) {
    check_resampled_with(r, s, xs, ys, desc, got, want_n, false)
}
/// `fast`: long parents (wave 5) - the graph oracle locates the segment with partition_point, and "evenly spaced" is
/// measured against the step (not against the absolute floor of `close`, which hides everything on a 1e-9 extent)
fn check_resampled_with(r: &mut Report, s: &Series1, xs: &[f64], ys: &[f64], desc: &str, got: Option<Series1>, want_n: Option<usize>, fast: bool) {
    let d = || desc.to_string();
    let n = xs.len();
    let Some(t) = got else { r.check(false, "resampled: returns (no panic)", d); return; };
    r.check(inv(&t), "resampled: finite ascending abscissae with a matching number of ordinates", d);
    if !inv(&t) { return; }
    let tx = t.x.values();
    if let Some(k) = want_n { r.check(tx.len() == k, "resampled_n: n points", d); }
    r.check(tx.len() >= 1, "resampled: non-empty", d);
    if tx.is_empty() { return; }
    r.check(tx[0] == xs[0], "resampled: keeps the first end point exactly", d);
    // two clauses for the last point: it never lies beyond the domain (the clamp), and it is the end point exactly
    r.check(tx[tx.len() - 1] <= xs[n - 1] && tx.iter().all(|x| *x >= xs[0]), "resampled: no abscissa outside [x_min, x_max]", d);
    r.check(tx[tx.len() - 1] == xs[n - 1], "resampled: keeps the last end point exactly", d);
    r.check((0..tx.len()).all(|k| !t.y[k].is_nan() && if fast { on_graph_fast(xs, ys, tx[k], t.y[k]) } else { on_graph(xs, ys, tx[k], t.y[k]) }), "resampled: every point lies on the piecewise-linear graph (finite ordinates)", d);
    if tx.len() >= 2 {
        let step = (xs[n - 1] - xs[0]) / ((tx.len() - 1) as f64);
        r.check((0..tx.len()).all(|k| if fast { near(tx[k], xs[0] + (k as f64) * step, step) } else { close(tx[k], xs[0] + (k as f64) * step) }), "resampled: evenly spaced", d);
    }
    let _ = s;
}

fn check_nan_removal(r: &mut Report) {
    let yn = [f64::NAN, f64::INFINITY, f64::NEG_INFINITY, 0.0, 1.0];
    for len in 1..=4usize {
        let xs_set: &[f64] = if len <= 3 { &XS } else { &XS[..4] };
        ascending_tuples(xs_set, len, &mut |xs| {
            tuples(&yn, len, &mut |ys| {
                r.case();
                let d = || format!("Series1 x={:?} y={:?} remove_nan()", xs, ys);
                let Ok(s) = Series1::try_new(xs.to_vec(), ys.to_vec()) else { r.check(false, "try_new: valid input is accepted", d); return; };
                let Some(t) = guarded(|| s.remove_nan()) else { r.check(false, "remove_nan: returns (no panic)", d); return; };
                r.check(inv(&t), "remove_nan: finite ascending abscissae with a matching number of ordinates", d);
                let keep: Vec<usize> = (0..len).filter(|k| !ys[*k].is_nan()).collect();
                r.check(t.y.iter().all(|v| !v.is_nan()), "remove_nan: no NaN ordinate is left", d);
                r.check(t.y.len() == keep.len() && t.x.values().len() == keep.len() && keep.iter().enumerate().all(|(q, &k)| t.x.values()[q] == xs[k] && t.y[q] == ys[k]),
                    "remove_nan: exactly the points with a non-NaN ordinate are kept, in order", d);
                r.check(keep.iter().all(|&k| (0..t.y.len().min(t.x.values().len())).any(|q| t.x.values()[q] == xs[k] && t.y[q] == ys[k])),
                    "remove_nan: every parent point with a non-NaN ordinate (infinite ones included) is kept", d);
                r.check(guarded(|| s.has_nan()) == Some(keep.len() != len), "has_nan: true exactly when an ordinate is NaN", d);
                for (x0, x1) in [(0.0, 0.5), (0.75, 2.0), (1.0, 1.0), (-1.0, 4.0)] {
                    let want = (0..len).any(|k| ys[k].is_nan() && xs[k] >= x0 && xs[k] <= x1);
                    r.check(guarded(|| s.has_nan_between(x0, x1)) == Some(want), "has_nan_between: true exactly when a NaN ordinate lies in [x0, x1]", || format!("{} has_nan_between({:?}, {:?})", d(), x0, x1));
                }
            });
        });
    }
}

/// two-knot series whose even stepping is inexact in binary: both end points must still be kept
fn check_inexact_stepping(r: &mut Report) {
    for &a in [0.0, 0.1, 1.0 / 3.0].iter() { for k in 1..=19 {
        let b = a + (k as f64) / 10.0;
        let xs = [a, b];
        let ys = [1.0, 2.0];
        let Ok(s) = Series1::try_new(xs.to_vec(), ys.to_vec()) else { continue; };
        r.case();
        for n in 2..=24usize {
            check_resampled(r, &s, &xs, &ys, &format!("Series1 x={:?} y={:?} resampled_n({})", xs, ys, n), guarded(|| s.resampled_n(n)), Some(n));
        }
        for sp in [0.1, 0.3, 0.07] {
            check_resampled(r, &s, &xs, &ys, &format!("Series1 x={:?} y={:?} resampled_x({:?})", xs, ys, sp), guarded(|| s.resampled_x(sp)), None);
        }
    } }
}

// ------------------------------------------------------------------------------------------------ wave 4 additions
fn ulp_up(x: f64) -> f64 { if x > 0.0 { f64::from_bits(x.to_bits() + 1) } else if x < 0.0 { -f64::from_bits((-x).to_bits() - 1) } else { f64::from_bits(1) } }

/// validation helpers and constructors on vectors whose neighbours are ONE ROUNDING STEP apart (0.3 / 0.1+0.2,
/// 1 / 1+2^-52, -1 / -1+2^-53, 0 / 5e-324): "ascending" means w[0] <= w[1] exactly, "descending" w[0] >= w[1] exactly;
/// push chains of length <= 4 (a value strictly between the first and the last one must be refused).
fn check_rounding_step_neighbours(r: &mut Report) {
    use crate::common::vec_f64::{are_all_finite, are_in_ascending_order, are_in_descending_order};
    let pool = [-1.0, ulp_up(-1.0), 0.0, 5e-324, 0.3, 0.1 + 0.2, 1.0, ulp_up(1.0), f64::INFINITY, f64::NAN];
    for len in 0..=4usize {
        tuples(&pool, len, &mut |v| {
            r.case();
            let asc = v.windows(2).all(|w| w[0] <= w[1]);
            let desc = v.windows(2).all(|w| w[0] >= w[1]);
            let fin = v.iter().all(|x| x.is_finite());
            let d = || format!("{:?}", v);
            r.check(guarded(|| are_all_finite(v)) == Some(fin), "vec_f64::are_all_finite: true exactly when no value is NaN or infinite", d);
            r.check(guarded(|| are_in_ascending_order(v)) == Some(asc), "vec_f64::are_in_ascending_order: true exactly when w[0] <= w[1] for every neighbouring pair (no slack, not even one rounding step)", d);
            r.check(guarded(|| are_in_descending_order(v)) == Some(desc), "vec_f64::are_in_descending_order: true exactly when w[0] >= w[1] for every neighbouring pair (no slack, not even one rounding step)", d);
            let valid = fin && asc;
            let dd = || format!("DiscreteDomain::try_from({:?})", v);
            match guarded(|| DiscreteDomain::try_from(v.to_vec())) {
                None => r.check(false, "try_from: returns (no panic)", dd),
                Some(Ok(dom)) => {
                    r.check(valid, "try_from: Ok only for finite ascending values (never a silently invalid domain)", dd);
                    r.check(same_bits_or_eq(dom.values(), v), "try_from: the accepted domain holds exactly the given values", dd);
                }
                Some(Err(_)) => r.check(!valid, "try_from: finite ascending values are accepted", dd),
            }
            let y: Vec<f64> = (0..len).map(|k| k as f64).collect();
            let d2 = || format!("Series1::try_new({:?}, {:?})", v, y);
            match guarded(|| Series1::try_new(v.to_vec(), y.clone())) {
                None => r.check(false, "try_new: returns (no panic)", d2),
                Some(Ok(_)) => r.check(valid, "try_new: Ok only for finite ascending abscissae with a matching number of ordinates", d2),
                Some(Err(_)) => r.check(!valid, "try_new: valid input is accepted", d2),
            }
        });
    }
    let pushes = [-1.0, 0.0, 0.3, 0.1 + 0.2, 1.0, 2.0, 3.0, f64::NEG_INFINITY, f64::NAN];
    tuples(&pushes, 4, &mut |seq| {
        r.case();
        let d = || format!("DiscreteDomain::default() then push each of {:?}", seq);
        let mut dom = DiscreteDomain::default();
        let mut model: Vec<f64> = vec![];
        for &v in seq {
            let expect_ok = v.is_finite() && model.last().map_or(true, |l| v >= *l);
            match guarded(|| dom.push(v).is_ok()) {
                None => { r.check(false, "push: returns (no panic)", d); return; }
                Some(ok) => {
                    r.check(ok == expect_ok, "push: Ok exactly for a finite value not below the last one", d);
                    if ok && expect_ok { model.push(v); }
                }
            }
            r.check(finite_ascending(dom.values()), "push: the domain stays finite and ascending", d);
            let same = same_bits_or_eq(dom.values(), &model);
            r.check(same, "push: appends the accepted value, leaves the domain unchanged on error", d);
            if !same { return; }
        }
    });
}

/// derived operations whose parameter or result leaves the finite range: shifting / scaling by +-inf or NaN, and by
/// finite amounts that overflow the abscissae (|x| up to 1e308): the result is finite ascending with matching
/// ordinates, or the call fails loudly (these functions return Self: the failure is the unwrap panic of the
/// validating constructor) - never a silently invalid object.
fn check_nonfinite_derivations(r: &mut Report) {
    let series: Vec<(Vec<f64>, Vec<f64>)> = vec![
        (vec![0.0], vec![1.0]), (vec![0.0, 1.0], vec![1.0, 2.0]), (vec![-1.0, 0.0, 0.5, 3.0], vec![0.0, 1.0, -1.0, 2.0]), (vec![1.0, 1.0, 2.0], vec![0.0, 1.0, 2.0]),
        (vec![-1e308, 0.0, 1e308], vec![0.0, 1.0, 2.0]), (vec![1e308, 1.5e308], vec![0.0, 1.0]), (vec![-1.7e308, -1e308], vec![0.0, 1.0]),
    ];
    let params = [f64::INFINITY, f64::NEG_INFINITY, f64::NAN, 1e308, -1e308, f64::MAX, f64::MIN, 10.0, -10.0, 2.0, -2.0, 1e-320];
    for (xs, ys) in series.iter() {
        let Ok(s) = Series1::try_new(xs.clone(), ys.clone()) else { r.check(false, "try_new: valid input is accepted", || format!("{:?} {:?}", xs, ys)); continue; };
        for &p in params.iter() {
            r.case();
            let d = || format!("Series1 x={:?} y={:?} shift_by({:?}, 0.5)", xs, ys, p);
            if let Some(t) = guarded(|| s.shift_by(p, 0.5)) {
                r.check(inv(&t) && t.y.len() == xs.len(), "shift_by, non-finite shift or overflowing abscissae: finite ascending abscissae with matching ordinates, or a loud failure - never a silently invalid series", d);
            }
            let d = || format!("Series1 x={:?} y={:?} scaled_by({:?}, 2.0)", xs, ys, p);
            if let Some(t) = guarded(|| s.scaled_by(p, 2.0)) {
                r.check(inv(&t) && t.y.len() == xs.len(), "scaled_by, non-finite factor or overflowing abscissae: finite ascending abscissae with matching ordinates, or a loud failure - never a silently invalid series", d);
            }
        }
        let yn: Vec<f64> = ys.iter().enumerate().map(|(k, v)| if k % 2 == 0 { f64::NAN } else { *v }).collect();
        if let Ok(sn) = Series1::try_new(xs.clone(), yn.clone()) {
            let d = || format!("Series1 x={:?} y={:?} remove_nan()", xs, yn);
            if let Some(t) = guarded(|| sn.remove_nan()) { r.check(inv(&t), "remove_nan: finite ascending abscissae with a matching number of ordinates", d); }
        }
    }
}

// ================================================================================================ wave 5 additions
// Parameter-space audit (notes/w5_audit_C17.md): sizes past 32 / 64 / 1000 / 4096, abscissae far from the origin
// (1e6, +-1e8) and tiny extents (2^-30 ~ 1e-9), probes bit-equal to a knot and one ulp either side, +-0.0, repeated
// abscissae, a single gap > 1000x the spacing, bounds in either order, every constructor as the source of the state,
// rejected push followed by reads, the same operation twice, chains.  All data are dyadic so the arithmetic of the
// oracles is exact or within a few rounding steps; abscissae are compared with `near` (1e-9 of the local spacing plus
// 8 rounding steps), areas against the sum of the absolute strip areas.
fn ulp_dn(x: f64) -> f64 { -ulp_up(-x) }
fn bits_eq(a: &[f64], b: &[f64]) -> bool { a.len() == b.len() && a.iter().zip(b).all(|(p, q)| p.to_bits() == q.to_bits()) }
fn near(a: f64, b: f64, h: f64) -> bool { (a - b).abs() <= 1e-9 * h.abs() + 8.0 * f64::EPSILON * a.abs().max(b.abs()) }

/// ORACLE for long series: the same set-valued graph as `graph_vals`, the segment located with partition_point
/// (cross-checked against the scan on every probe of the small exhaustive family: "oracle self-test")
fn graph_vals_fast(xs: &[f64], ys: &[f64], x: f64) -> Vec<f64> {
    let n = xs.len();
    let mut out = vec![];
    if n == 0 || !(x >= xs[0] && x <= xs[n - 1]) { return out; }
    let lo = xs.partition_point(|v| *v < x);
    let hi = xs.partition_point(|v| *v <= x);
    if lo < hi { for k in lo..hi { out.push(ys[k]); } }
    else { let j = lo - 1; out.push(ys[j] + (ys[j + 1] - ys[j]) * ((x - xs[j]) / (xs[j + 1] - xs[j]))); }
    out
}
fn on_graph_fast(xs: &[f64], ys: &[f64], x: f64, v: f64) -> bool {
    let g = graph_vals_fast(xs, ys, x);
    if g.is_empty() { v.is_nan() } else { g.iter().any(|&w| same_val(v, w)) }
}
/// ORACLE index_of: None outside [first, last] (or empty); else a knot equal to the value or the lower knot of the strictly bracketing pair
fn index_of_ok(v: &[f64], x: f64, got: Option<usize>) -> bool {
    let n = v.len();
    if n == 0 || x < v[0] || x > v[n - 1] { return got.is_none(); }
    match got { None => false, Some(i) => i < n && (v[i] == x || (i + 1 < n && v[i] < x && x < v[i + 1])) }
}
/// ORACLE index_of_x_after: a knot equal to x when there is one, else the first knot above x (the length when there is none)
fn index_after_ok(v: &[f64], x: f64, i: usize) -> bool {
    let n = v.len();
    if i > n { return false; }
    if v.iter().any(|w| *w == x) { return i < n && v[i] == x; }
    v[..i].iter().all(|w| *w < x) && v[i..].iter().all(|w| *w > x)
}
fn pick_indices(n: usize) -> Vec<usize> {
    if n <= 130 { return (0..n).collect(); }
    let mut q: Vec<usize> = vec![0, 1, 2, 31, 32, 33, 63, 64, 65, n / 2 - 1, n / 2, n / 2 + 1, 999, 1000, 1023, 1024, 1025, 4095, 4096, n - 3, n - 2, n - 1];
    let mut k = 0; while k < n { q.push(k); k += 37; }
    q.retain(|k| *k < n); q.sort(); q.dedup(); q
}
/// probes: -inf, +inf, +-0.0, and for the picked knots: the knot bit for bit, one ulp either side, the mid and quarter point of the next segment
fn knot_probes(v: &[f64]) -> Vec<f64> {
    let n = v.len();
    let mut p = vec![f64::NEG_INFINITY, f64::INFINITY, 0.0, -0.0];
    for &k in pick_indices(n).iter() {
        p.push(v[k]); p.push(ulp_up(v[k])); p.push(ulp_dn(v[k]));
        if k + 1 < n { p.push(v[k] + (v[k + 1] - v[k]) * 0.5); p.push(v[k] + (v[k + 1] - v[k]) * 0.25); }
    }
    p
}

fn check_domain_queries(r: &mut Report, v: &[f64], dom: &DiscreteDomain, how: &str) {
    r.case();
    let n = v.len();
    let d = || format!("{} (n = {}, first = {:?}, last = {:?})", how, n, v.first(), v.last());
    r.check(bits_eq(dom.values(), v), "domain accessors: values() are the stored values", d);
    r.check(dom.len() == n && dom.is_empty() == (n == 0), "domain accessors: len / is_empty agree with values()", d);
    r.check(dom.iter().count() == n && dom.iter().zip(v).all(|(a, b)| a.to_bits() == b.to_bits()), "domain accessors: iter() yields the stored values in order", d);
    let sl: &[f64] = dom;
    r.check(bits_eq(sl, v), "domain accessors: the slice view (Deref) is the stored values", d);
    match guarded(|| dom.bounds()) {
        None => r.check(false, "bounds: returns (no panic)", d),
        Some(b) => {
            r.check(b.is_none() == (n == 0), "bounds: None exactly for the empty domain", d);
            if let (Some(b), true) = (b, n > 0) { r.check(b.min == v[0] && b.max == v[n - 1], "bounds: from the first to the last value", d); }
        }
    }
    if n > 0 { r.check(guarded(|| dom.bounds_unchecked()).map_or(false, |b| b.min == v[0] && b.max == v[n - 1]), "bounds: from the first to the last value", d); }
    for &x in knot_probes(v).iter() {
        let dd = || format!("{} index_of({:?})", d(), x);
        match guarded(|| dom.index_of(x)) {
            None => r.check(false, "index_of: returns (no panic)", dd),
            Some(got) => {
                let outside = n == 0 || x < v[0] || x > v[n - 1];
                r.check(got.is_none() == outside, "index_of: None exactly outside the bounds of the domain (or on an empty domain)", dd);
                r.check(index_of_ok(v, x, got), "index_of: the index of a knot equal to the value, else of the lower knot of the bracketing pair", dd);
            }
        }
    }
}

/// every constructor as the source of the state: try_from, push chain, linear, linear_space; empty / 1 / 2 elements, repeats, long, far, tiny
fn check_domains_w5(r: &mut Report) {
    check_domain_queries(r, &[], &DiscreteDomain::default(), "DiscreteDomain::default()");
    for len in 1..=4usize {
        ascending_tuples(&XS, len, &mut |v| {
            if let Ok(dom) = DiscreteDomain::try_from(v.to_vec()) { check_domain_queries(r, v, &dom, &format!("try_from({:?})", v)); }
            let mut dom = DiscreteDomain::default();
            if v.iter().all(|x| dom.push(*x).is_ok()) { check_domain_queries(r, v, &dom, &format!("default() then push each of {:?}", v)); }
            else { r.check(false, "push: Ok exactly for a finite value not below the last one", || format!("{:?}", v)); }
        });
    }
    for &(base, h) in [(0.0, 0.5), (1e6, 0.25), (1e8, 0.015625), (-1e8, 0.5), (0.0, 9.313225746154785e-10), (1.0, 9.313225746154785e-10)].iter() {
        for &n in [33usize, 100, 1000, 4097].iter() {
            // strictly increasing, and with every 7th value repeated
            for rep in [false, true] {
                let v: Vec<f64> = (0..n).map(|k| base + h * ((if rep { k - k / 7 } else { k }) as f64)).collect();
                let how = format!("values {:?} + {:?} * k{}", base, h, if rep { " (every 7th repeated)" } else { "" });
                match DiscreteDomain::try_from(v.clone()) { Ok(dom) => check_domain_queries(r, &v, &dom, &format!("try_from: {}", how)), Err(_) => r.check(false, "try_from: finite ascending values are accepted", || how.clone()) }
                let mut dom = DiscreteDomain::default();
                if v.iter().all(|x| dom.push(*x).is_ok()) { check_domain_queries(r, &v, &dom, &format!("push chain: {}", how)); }
                else { r.check(false, "push: Ok exactly for a finite value not below the last one", || how.clone()); }
            }
            for which in 0..2 {
                let (a, b) = (base, base + h * ((n - 1) as f64));
                let Some(dom) = guarded(|| if which == 0 { DiscreteDomain::linear(b, a, n) } else { linear_space(b, a, n) }) else { continue; };
                let v = dom.values().to_vec();
                if finite_ascending(&v) { check_domain_queries(r, &v, &dom, &format!("{}({:?}, {:?}, {})", if which == 0 { "linear" } else { "linear_space" }, b, a, n)); }
            }
        }
    }
}

/// push sequences on a state produced by each constructor: rejected push followed by reads, the same push twice, first push onto the empty domain
fn check_push_sequences(r: &mut Report) {
    let firsts = [-0.0, 0.0, 5e-324, -5e-324, f64::MAX, f64::MIN, 1e8, -1e8];
    for &f in firsts.iter() { for &bad in [f64::NAN, f64::INFINITY, f64::NEG_INFINITY].iter() {
        r.case();
        let d = || format!("default(); push({:?}); push({:?}); push({:?})", bad, f, bad);
        let mut dom = DiscreteDomain::default();
        r.check(guarded(|| dom.push(bad).is_err()) == Some(true) && dom.values().is_empty() && dom.bounds().is_none() && dom.index_of(0.0).is_none(), "push: appends the accepted value, leaves the domain unchanged on error", d);
        r.check(guarded(|| dom.push(f).is_ok()) == Some(true) && bits_eq(dom.values(), &[f]), "push: Ok exactly for a finite value not below the last one", d);
        r.check(guarded(|| dom.push(bad).is_err()) == Some(true) && bits_eq(dom.values(), &[f]), "push: appends the accepted value, leaves the domain unchanged on error", d);
        check_domain_queries(r, &[f], &dom, &d());
    } }
    let starts: Vec<(String, Vec<f64>)> = vec![
        ("try_from([1, 2, 2, 3.5])".into(), vec![1.0, 2.0, 2.0, 3.5]),
        ("linear(3, 1, 5)".into(), DiscreteDomain::linear(3.0, 1.0, 5).values().to_vec()),
        ("linear_space(-1e8, -1e8 + 1, 3)".into(), linear_space(-1e8, -1e8 + 1.0, 3).values().to_vec()),
        ("1000 values 0.25 * k".into(), (0..1000).map(|k| 0.25 * k as f64).collect()),
        ("4097 values 1 + 2^-30 * k".into(), (0..4097).map(|k| 1.0 + 9.313225746154785e-10 * k as f64).collect()),
    ];
    for (how, v0) in starts.iter() {
        let Ok(mut dom) = DiscreteDomain::try_from(v0.clone()) else { r.check(false, "try_from: finite ascending values are accepted", || how.clone()); continue; };
        let mut model = v0.clone();
        let last = *v0.last().unwrap();
        let first = v0[0];
        // (value, expected Ok): one ulp below the last (refused), a value between first and last (refused), the last itself twice
        // (accepted, a repeat), non-finite (refused, twice), one ulp above, the same refused value again, far above
        let seq = [(ulp_dn(last), false), (first + (last - first) * 0.5, false), (first, first == last), (last, true), (last, true), (f64::NAN, false), (f64::NAN, false),
                   (f64::INFINITY, false), (ulp_up(last), true), (last, false), (ulp_dn(last), false), (last + 1e9, true), (last + 1e9, true), (f64::NEG_INFINITY, false)];
        for (step, &(v, want)) in seq.iter().enumerate() {
            r.case();
            let d = || format!("{} then push sequence {:?} (step {})", how, seq.iter().map(|s| s.0).collect::<Vec<_>>(), step);
            let want = want && v.is_finite() && v >= *model.last().unwrap();
            let Some(ok) = guarded(|| dom.push(v).is_ok()) else { r.check(false, "push: returns (no panic)", d); break; };
            r.check(ok == want, "push: Ok exactly for a finite value not below the last one", d);
            if want { model.push(v); }
            r.check(finite_ascending(dom.values()), "push: the domain stays finite and ascending", d);
            let same = bits_eq(dom.values(), &model);
            r.check(same, "push: appends the accepted value, leaves the domain unchanged on error", d);
            if !same { break; }
            // reads after the (possibly refused) push see exactly the model
            r.check(dom.len() == model.len() && guarded(|| dom.bounds()).map_or(false, |b| b.map_or(false, |b| b.min == model[0] && b.max == *model.last().unwrap())), "bounds: from the first to the last value", d);
            for x in [v, last, ulp_dn(last), first] { if !x.is_nan() {
                r.check(guarded(|| dom.index_of(x)).map_or(false, |g| index_of_ok(&model, x, g)), "index_of: the index of a knot equal to the value, else of the lower knot of the bracketing pair", || format!("{} index_of({:?})", d(), x));
            } }
        }
    }
}

/// validation helpers / constructors on LONG vectors with a single fault at every position (n <= 129) or at the positions
/// around 0, 32, 64, 1000, 1024, 4096, the middle and the end: NaN, +inf, -inf, a dip / bump of one rounding step, a repeat
fn check_long_vectors(r: &mut Report) {
    use crate::common::vec_f64::{are_all_finite, are_in_ascending_order, are_in_descending_order, has_nan};
    let eval = |r: &mut Report, v: &[f64], what: &str| {
        r.case();
        let n = v.len();
        let fin = (0..n).all(|k| v[k].is_finite());
        let nan = (0..n).any(|k| v[k].is_nan());
        let asc = (1..n).all(|k| v[k - 1] <= v[k]);
        let desc = (1..n).all(|k| v[k - 1] >= v[k]);
        let d = || format!("{} (n = {})", what, n);
        r.check(guarded(|| has_nan(v)) == Some(nan), "vec_f64::has_nan: true exactly when some value is NaN", d);
        r.check(guarded(|| are_all_finite(v)) == Some(fin), "vec_f64::are_all_finite: true exactly when no value is NaN or infinite", d);
        r.check(guarded(|| are_in_ascending_order(v)) == Some(asc), "vec_f64::are_in_ascending_order: true exactly when w[0] <= w[1] for every neighbouring pair (no slack, not even one rounding step)", d);
        r.check(guarded(|| are_in_descending_order(v)) == Some(desc), "vec_f64::are_in_descending_order: true exactly when w[0] >= w[1] for every neighbouring pair (no slack, not even one rounding step)", d);
        let valid = fin && asc;
        match guarded(|| DiscreteDomain::try_from(v.to_vec())) {
            None => r.check(false, "try_from: returns (no panic)", d),
            Some(Ok(dom)) => { r.check(valid, "try_from: Ok only for finite ascending values (never a silently invalid domain)", d); r.check(bits_eq(dom.values(), v), "try_from: the accepted domain holds exactly the given values", d); }
            Some(Err(_)) => r.check(!valid, "try_from: finite ascending values are accepted", d),
        }
        for ylen in [n, n + 1, n.saturating_sub(1)] {
            let y = vec![1.0; ylen];
            match guarded(|| Series1::try_new(v.to_vec(), y)) {
                None => r.check(false, "try_new: returns (no panic)", d),
                Some(Ok(s)) => { r.check(valid && ylen == n, "try_new: Ok only for finite ascending abscissae with a matching number of ordinates", d); r.check(bits_eq(s.x.values(), v) && s.y.len() == ylen, "try_new: the series holds exactly the given vectors", d); }
                Some(Err(_)) => r.check(!(valid && ylen == n), "try_new: valid input is accepted", d),
            }
        }
    };
    // has_nan on the small pools (both infinities together, NaN at every position)
    for len in 0..=4usize { tuples(&RAW, len, &mut |v| { r.case(); let nan = v.iter().any(|x| x.is_nan()); r.check(guarded(|| has_nan(v)) == Some(nan), "vec_f64::has_nan: true exactly when some value is NaN", || format!("{:?}", v)); }); }
    for &n in [5usize, 31, 32, 33, 63, 64, 65, 100, 127, 128, 129, 1000, 4097].iter() {
        for base_kind in 0..4 {
            // 0: strictly ascending around 0; 1: constant; 2: strictly descending; 3: ascending huge values (their sum overflows)
            let base: Vec<f64> = (0..n).map(|k| match base_kind { 0 => 0.5 * k as f64 - 7.0, 1 => 2.5, 2 => 7.0 - 0.5 * k as f64, _ => 1e308 + 1e292 * k as f64 }).collect();
            let bname = ["0.5k - 7", "2.5 (constant)", "7 - 0.5k", "1e308 + 1e292 k"][base_kind];
            eval(r, &base, bname);
            let pos: Vec<usize> = pick_indices(n);
            for &p in pos.iter() {
                let mut faults: Vec<(f64, &str)> = vec![(f64::NAN, "NaN"), (f64::INFINITY, "+inf"), (f64::NEG_INFINITY, "-inf")];
                if p > 0 { faults.push((ulp_dn(base[p - 1]), "one ulp below its predecessor")); faults.push((ulp_up(base[p - 1]), "one ulp above its predecessor")); faults.push((base[p - 1], "equal to its predecessor")); }
                for (f, fname) in faults {
                    let mut v = base.clone();
                    v[p] = f;
                    eval(r, &v, &format!("{} with v[{}] = {} ({:?})", bname, p, fname, f));
                }
            }
        }
    }
}

/// sorting helpers of vec_f64 (documented meaning): a permutation in ascending order, NaN last / NaN panics
fn check_sort_helpers(r: &mut Report) {
    use crate::common::vec_f64::{sort_nan_panics, sort_with_nan};
    let mut inputs: Vec<Vec<f64>> = vec![];
    for len in 0..=5usize { tuples(&[3.0, -1.0, f64::NAN, 0.5, f64::NEG_INFINITY], len, &mut |v| inputs.push(v.to_vec())); }
    for &n in [33usize, 100, 1000].iter() { for nan_every in [0usize, 1, 7] {
        inputs.push((0..n).map(|k| if nan_every > 0 && k % nan_every == 0 && (nan_every > 1 || k % 2 == 0) { f64::NAN } else { ((k * 37) % 101) as f64 * 0.25 - (k % 3) as f64 }).collect());
    } }
    for v in inputs.iter() {
        r.case();
        let d = || if v.len() <= 8 { format!("{:?}", v) } else { format!("{} values, {} NaN", v.len(), v.iter().filter(|x| x.is_nan()).count()) };
        let nn = v.iter().filter(|x| x.is_nan()).count();
        let perm = |w: &[f64]| { let mut a: Vec<u64> = v.iter().map(|x| x.to_bits()).collect(); let mut b: Vec<u64> = w.iter().map(|x| x.to_bits()).collect(); a.sort(); b.sort(); a == b };
        let mut w = v.clone();
        if guarded(|| sort_with_nan(&mut w)).is_none() { r.check(false, "vec_f64::sort_with_nan: returns (no panic)", d); }
        else {
            let k = w.len() - nn;
            r.check(perm(&w) && w[..k].iter().all(|x| !x.is_nan()) && w[..k].windows(2).all(|p| p[0] <= p[1]) && w[k..].iter().all(|x| x.is_nan()), "vec_f64::sort_with_nan: a permutation, ascending, NaN values last", d);
        }
        let mut w = v.clone();
        let got = guarded(|| sort_nan_panics(&mut w));
        if nn == 0 { r.check(got.is_some() && perm(&w) && w.windows(2).all(|p| p[0] <= p[1]), "vec_f64::sort_nan_panics: a permutation in ascending order when there is no NaN", d); }
        else if v.len() >= 2 { r.check(got.is_none(), "vec_f64::sort_nan_panics: panics on a NaN (never a silently unsorted slice)", d); }
    }
}

/// linear / linear_space: magnitudes (far bounds, tiny extents, inexact steps), sizes past 32 / 1000 / 4096, bounds in either order, +-0.0
fn check_linear_magnitudes(r: &mut Report) {
    let b = [-1e8, -1e6, -3.0, -0.0, 0.0, 1e-9, 0.1, 1.0 / 3.0, 1.0, 1.0 + 1e-9, 1e6, 1e6 + 1e-3, 1e8, 1e8 + 1e-6, 1e8 + 1.0];
    for &a0 in b.iter() { for &a1 in b.iter() { for &n in [2usize, 3, 10, 33, 100, 1000, 4097].iter() {
        r.case();
        for which in 0..2 {
            let name = if which == 0 { "DiscreteDomain::linear" } else { "linear_space" };
            let d = || format!("{}({:?}, {:?}, {})", name, a0, a1, n);
            let Some(dom) = guarded(|| if which == 0 { DiscreteDomain::linear(a0, a1, n) } else { linear_space(a0, a1, n) }) else { r.check(false, "linear: returns (no panic)", d); continue; };
            let v = dom.values();
            let (lo, hi) = (a0.min(a1), a0.max(a1));
            r.check(v.len() == n, "linear: n values", d);
            r.check(finite_ascending(v), "linear: finite ascending values for bounds in either order", d);
            if v.len() != n { continue; }
            let step = (hi - lo) / ((n - 1) as f64);
            r.check(v[0] == lo, "linear: first value is the smaller bound", d);
            r.check(near(v[n - 1], hi, hi - lo), "linear: last value is the larger bound", d);
            r.check((0..n).all(|k| near(v[k], lo + ((k as f64) * (hi - lo)) / ((n - 1) as f64), step)), "linear: evenly spaced", d);
            // no collapse: the ends stay distinct; neighbours stay distinct when the step is well above the rounding step of the values
            let strict = step > 16.0 * f64::EPSILON * lo.abs().max(hi.abs());
            r.check(lo == hi || (v[0] < v[n - 1] && (!strict || v.windows(2).all(|w| w[0] < w[1]))), "linear: distinct bounds do not collapse", d);
        }
    } } }
    // finite bounds whose difference overflows
    for &(a0, a1) in [(-1e308, 1e308), (1e308, -1e308), (f64::MIN, f64::MAX), (-1.5e308, 0.5e308)].iter() { for &n in [2usize, 3, 5].iter() {
        r.case();
        for which in 0..2 {
            let name = if which == 0 { "DiscreteDomain::linear" } else { "linear_space" };
            let d = || format!("{}({:?}, {:?}, {})", name, a0, a1, n);
            // a loud failure (panic) is an error; a returned domain must be valid
            if let Some(dom) = guarded(|| if which == 0 { DiscreteDomain::linear(a0, a1, n) } else { linear_space(a0, a1, n) }) {
                r.check(finite_ascending(dom.values()) && dom.len() == n, "[defect span overflow] linear / linear_space with finite bounds whose difference exceeds f64::MAX: finite ascending values or a loud failure - never a silently invalid domain", d);
            }
        }
    } }
}

// ------------------------------------------------------------------------------------------------ wave 5: small family, more functions
fn same_series(a: &Series1, xs: &[f64], ys: &[f64]) -> bool { bits_eq(a.x.values(), xs) && same_bits_or_eq(&a.y, ys) }

fn check_series_w5(r: &mut Report, xs: &[f64], ys: &[f64]) {
    use crate::func1::Line1;
    let Ok(s) = Series1::try_new(xs.to_vec(), ys.to_vec()) else { return; };
    r.case();
    let n = xs.len();
    let (x_min, x_max) = (xs[0], xs[n - 1]);
    let sd = format!("Series1 x={:?} y={:?}", xs, ys);
    let strict = xs.windows(2).all(|w| w[0] < w[1]);

    // ---- probes bit-equal to a knot, one ulp either side, +-0.0: interpolate, index_of_x_after; self-test of the fast oracle
    let mut probes = vec![0.0, -0.0];
    for &x in xs { probes.push(x); probes.push(ulp_up(x)); probes.push(ulp_dn(x)); }
    for &x in probes.iter().chain(PROBES.iter()) {
        let d = || format!("{} interpolate({:?})", sd, x);
        let g = graph_vals(xs, ys, x);
        r.check(same_bits_or_eq(&g, &graph_vals_fast(xs, ys, x)), "oracle self-test: the partition_point graph oracle agrees with the segment scan", d);
        match guarded(|| s.interpolate(x)) {
            None => r.check(false, "interpolate: returns (no panic)", d),
            Some(v) => {
                if g.is_empty() { r.check(v.is_nan(), "interpolate: NaN outside the domain", d); }
                else if xs.contains(&x) { r.check(g.iter().any(|w| *w == v), "interpolate: the stored value at a knot", d); }
                else { r.check(g.iter().any(|w| close(*w, v)), "interpolate: the linear blend between knots", d); }
            }
        }
        r.check(guarded(|| s.index_of_x_after(x)).map_or(false, |i| index_after_ok(xs, x, i)),
            "index_of_x_after: the index of a knot equal to x, else of the first knot above x (0 before the first, the length after the last)", || format!("{} index_of_x_after({:?})", sd, x));
    }
    // ---- plain accessors
    r.check(guarded(|| s.is_ordered()) == Some(strict), "is_ordered: true exactly when the abscissae strictly increase", || sd.clone());
    r.check(guarded(|| s.interval()).map_or(false, |i| i.min == x_min && i.max == x_max), "interval: from the first to the last abscissa", || sd.clone());
    r.check(s.xys().count() == n && s.xys().zip(xs.iter().zip(ys.iter())).all(|((a, b), (c, e))| a == c && b == e), "xys: the stored pairs in order", || sd.clone());
    r.check(guarded(|| s.as_points()).map_or(false, |p| p.len() == n && (0..n).all(|k| p[k].x == xs[k] && p[k].y == ys[k])), "as_points: the stored pairs in order", || sd.clone());
    // ---- Func1::fs and from_sampled over a domain reaching beyond the series on both sides
    if let Some(dom) = guarded(|| DiscreteDomain::linear(x_max + 1.0, x_min - 1.0, 9)) {
        let dv = dom.values().to_vec();
        let d = || format!("{} fs / from_sampled over linear({:?}, {:?}, 9)", sd, x_max + 1.0, x_min - 1.0);
        match guarded(|| s.fs(&dom)) {
            None => r.check(false, "fs: returns (no panic)", d),
            Some(v) => r.check(v.len() == dv.len() && (0..dv.len().min(v.len())).all(|k| on_graph(xs, ys, dv[k], v[k])), "fs: one ordinate per domain value, the interpolant inside the series and NaN outside", d),
        }
        match guarded(|| Series1::from_sampled(&s, dom.clone())) {
            None => r.check(false, "from_sampled: returns (no panic)", d),
            Some(t) => {
                r.check(inv(&t) && bits_eq(t.x.values(), &dv), "from_sampled: the given abscissae with a matching number of ordinates", d);
                r.check(t.y.len() == dv.len() && (0..dv.len().min(t.y.len())).all(|k| on_graph(xs, ys, dv[k], t.y[k])), "from_sampled: ordinate k is the sampled function at abscissa k", d);
            }
        }
    }
    // ---- derived series that keep the abscissae: the invariant survives, nothing collapses
    let line = Line1::new_mxb(0.5, -1.0);
    // a function that is NaN outside [0.75, 1.25]: the ordinates may become NaN, their number may not change
    let narrow = Series1::try_new(vec![0.75, 1.25], vec![2.0, -1.0]).unwrap();
    let derived: Vec<(&str, Option<Series1>)> = vec![
        ("scaled_y(series on [0.75, 1.25])", guarded(|| s.scaled_y(&narrow))), ("+ series on [0.75, 1.25]", guarded(|| &s + (&narrow as &dyn Func1))), ("- series on [0.75, 1.25]", guarded(|| &s - (&narrow as &dyn Func1))),
        ("abs", guarded(|| s.abs())), ("scaled_y(line)", guarded(|| s.scaled_y(&line))), ("scaled_y(self)", guarded(|| s.scaled_y(&s))),
        ("+ line", guarded(|| &s + (&line as &dyn Func1))), ("- line", guarded(|| &s - (&line as &dyn Func1))),
        ("dydx", if n >= 2 { guarded(|| s.dydx()) } else { None }), ("savitzky_golay", guarded(|| s.savitzky_golay())),
        ("no-op remove_nan", guarded(|| s.remove_nan())), ("no-op shift_by(0, 0)", guarded(|| s.shift_by(0.0, 0.0))), ("no-op scaled_by(1, 1)", guarded(|| s.scaled_by(1.0, 1.0))),
    ];
    for (name, t) in derived.iter() {
        if let Some(t) = t {
            r.check(inv(t) && bits_eq(t.x.values(), xs) && t.y.len() == n, "derived series (abs, scaled_y, + / - a function, dydx, savitzky_golay, no-op shift / scale / remove_nan): the same finite ascending abscissae with a matching number of ordinates", || format!("{} {}", sd, name));
        } else if *name != "dydx" { r.check(false, "derived series: returns (no panic)", || format!("{} {}", sd, name)); }
    }
    // no-op updates give back the same function
    for (name, t) in derived.iter().filter(|e| e.0.starts_with("no-op")) { if let Some(t) = t { r.check(same_series(t, xs, ys), "no-op update (remove_nan without NaN, shift by 0, scale by 1): the series is unchanged", || format!("{} {}", sd, name)); } }

    // ---- the whole domain as a slice is the parent (when the first abscissa is not repeated: the search may land on either copy)
    if n == 1 || xs[0] < xs[1] {
        r.check(guarded(|| s.between(x_min, x_max)).map_or(false, |p| same_series(&p, xs, ys)), "between(x_min, x_max): the parent itself", || sd.clone());
    }
    // ---- in_interval with the Interval built from the bounds in reversed order
    for &(lo, hi) in [(0.25, 2.5), (0.5, 2.0), (-1.0, 4.0), (1.0, 1.0)].iter() {
        if hi < x_min { continue; }
        let d = || format!("{} in_interval(Interval::new({:?}, {:?}))", sd, hi, lo);
        let (p, q) = (guarded(|| s.between(lo, hi)), guarded(|| s.in_interval(Interval::new(hi, lo))));
        r.check(matches!((&p, &q), (Some(p), Some(q)) if same_series(q, p.x.values(), &p.y)), "in_interval: the same piece as between(min, max)", d);
    }
    // ---- a slice of a slice is a slice of the parent
    for &(a, b) in [(-1.0, 4.0), (0.25, 2.5), (0.5, 2.0), (0.0, 3.0)].iter() {
        if b < x_min { continue; }
        let Some(p1) = guarded(|| s.between(a, b)) else { continue; };
        if !inv(&p1) || p1.y.is_empty() { continue; }
        for &(c, e) in [(a, b), (0.5, 1.5), (0.75, 2.0), (1.0, 1.0), (0.25, 0.5)].iter() {
            if !(a <= c && c <= e && e <= b) || e < p1.x_min() { continue; }
            let d = || format!("{} between({:?}, {:?}).between({:?}, {:?})", sd, a, b, c, e);
            let Some(p2) = guarded(|| p1.between(c, e)) else { r.check(false, "between: returns (no panic)", &d); continue; };
            check_piece(r, xs, ys, &p2, c, e, "between of a between", &d);
        }
    }
    // ---- split twice: three areas add up
    let whole = area(xs, ys);
    for &(c0, c1) in [(0.75, 1.5), (0.5, 2.0), (0.25, 2.75), (1.0, 1.0)].iter() {
        if !(x_min <= c0 && c1 <= x_max) { continue; }
        let d = || format!("{} split_at_x({:?}), lower piece split_at_x({:?})", sd, c1, c0);
        let got = guarded(|| { let (lo, hi) = s.split_at_x(c1); let (a, b) = lo.as_ref().unwrap().split_at_x(c0); (a.unwrap().area_under(), b.unwrap().area_under(), hi.unwrap().area_under()) });
        r.check(got.map_or(false, |(a, b, c)| close(a + b + c, whole)), "split_at_x: areas of the pieces add up to the whole", d);
    }
    // ---- middle_reiemann_areas: one strip per segment
    {
        let got = guarded(|| s.middle_reiemann_areas());
        let ok = got.map_or(false, |v| v.len() == n - 1 && (0..n - 1).all(|k| close(v[k].0, xs[k] + (xs[k + 1] - xs[k]) / 2.0) && close(v[k].1, (ys[k] + ys[k + 1]) / 2.0 * (xs[k + 1] - xs[k]))));
        r.check(ok, "middle_reiemann_areas: one (mid abscissa, trapezoid area) per segment", || sd.clone());
    }
    // ---- consumers of the level crossings
    if x_min < x_max {
        let d = || format!("{} bounds_at_y0()", sd);
        match guarded(|| s.bounds_at_y0()) {
            None => r.check(false, "bounds_at_y0: returns (no panic)", d),
            Some(iv) => {
                let chain_ok = !iv.is_empty() && iv[0].min == x_min && iv[iv.len() - 1].max == x_max && iv.windows(2).all(|w| w[0].max == w[1].min) && iv.iter().all(|i| i.min < i.max);
                r.check(chain_ok, "bounds_at_y0: contiguous non-empty intervals from x_min to x_max", d);
                let inner: Vec<f64> = iv.iter().skip(1).map(|i| i.min).collect();
                let want: Vec<f64> = crossings(xs, ys, 0.0).into_iter().filter(|c| !close(*c, x_min) && !close(*c, x_max)).collect();
                r.check(same_set(&inner, &want), "bounds_at_y0: the interior break points are exactly the abscissae where the interpolant equals 0", d);
            }
        }
    }
    for &x in xs.iter().chain([-1.0, 4.0, 0.75].iter()) { for &tol in [0.5, 0.25].iter() {
        let d = || format!("{} plateau_at_maxima({:?}, {:?})", sd, x, tol);
        let g = graph_vals(xs, ys, x);
        match guarded(|| s.plateau_at_maxima(x, tol)) {
            None => r.check(false, "plateau_at_maxima: returns (no panic)", d),
            Some(None) => {}
            Some(Some(i)) => {
                r.check(!g.is_empty(), "plateau_at_maxima: None outside the domain", d);
                let end_ok = |e: f64| e == x_min || e == x_max || g.iter().any(|v| graph_vals(xs, ys, e).iter().any(|w| close(*w, *v - tol)));
                r.check(i.min <= x && x <= i.max && end_ok(i.min) && end_ok(i.max), "plateau_at_maxima: an interval around x whose ends are domain ends or abscissae where the interpolant equals f(x) - tol", d);
            }
        }
    } }
}

// ------------------------------------------------------------------------------------------------ wave 5: long series
struct Fam { name: String, xs: Vec<f64>, ys: Vec<f64>, h: f64 }
const PAT_ZIG: [f64; 5] = [0.0, 3.0, -1.0, 2.0, 1.0];
const PAT_FLAT: [f64; 7] = [0.0, 2.0, 2.0, -1.0, 1.0, 1.0, -1.0];
const H30: f64 = 9.313225746154785e-10;   // 2^-30

fn long_families() -> Vec<Fam> {
    let mut out = vec![];
    for &(base, h) in [(0.0, 0.5), (1e6, 0.25), (1e8, 0.015625), (-1e8, 0.5), (0.0, H30), (1.0, H30)].iter() {
        for &n in [33usize, 100, 1000, 4097].iter() {
            for layout in 0..4usize {
                if n >= 1000 && (layout == 1) { continue; }
                for pat in 0..2usize {
                    if n == 4097 && pat == 1 && layout != 0 { continue; }
                    let pos = |k: usize| -> f64 { match layout {
                        0 => k as f64,                                              // uniform
                        1 => (k * (k + 1) / 2) as f64,                              // growing gaps
                        2 => (k - k / 7) as f64,                                    // every 7th abscissa repeated (vertical step)
                        _ => (if k > n / 2 { k + 2000 } else { k }) as f64,          // one gap 2001 x the spacing
                    } };
                    let xs: Vec<f64> = (0..n).map(|k| base + h * pos(k)).collect();
                    let ys: Vec<f64> = (0..n).map(|k| if pat == 0 { PAT_ZIG[k % 5] } else { PAT_FLAT[k % 7] }).collect();
                    let lname = ["uniform", "growing gaps k(k+1)/2", "every 7th abscissa repeated", "one gap of 2001 spacings after the middle"][layout];
                    out.push(Fam { name: format!("long series n={} x = {:?} + {:?} * ({}) y = {}", n, base, h, lname, if pat == 0 { "[0,3,-1,2,1] repeated" } else { "[0,2,2,-1,1,1,-1] repeated" }), xs, ys, h });
                }
            }
        }
    }
    out
}
fn area_scale(xs: &[f64], ys: &[f64]) -> f64 { (0..xs.len().saturating_sub(1)).map(|i| ((xs[i + 1] - xs[i]) * (ys[i] + ys[i + 1]) * 0.5).abs() + (xs[i + 1] - xs[i]) * 1e-3).sum() }
fn aclose(a: f64, b: f64, scale: f64) -> bool { (a - b).abs() <= 1e-9 * scale }

/// piece of a long parent: the clauses of check_piece, evaluated with the fast oracle and searches instead of scans
fn check_piece_long(r: &mut Report, f: &Fam, p: &Series1, lo: f64, hi: f64, what: &str, d: &dyn Fn() -> String) {
    let (xs, ys) = (&f.xs[..], &f.ys[..]);
    let px = p.x.values();
    let cl = |c: &str| format!("{}: {}", what, c);
    r.check(inv(p), &cl("finite ascending abscissae with a matching number of ordinates"), d);
    if !inv(p) || px.is_empty() { r.check(!px.is_empty(), &cl("non-empty piece"), d); return; }
    let m = px.len();
    r.check(px[0] == lo.max(xs[0]), &cl("left end exactly at the requested bound (the first knot if the bound lies before the domain)"), d);
    r.check(px[m - 1] == hi, &cl("right end exactly at the requested bound"), d);
    r.check((0..m).all(|k| on_graph_fast(xs, ys, px[k], p.y[k])), &cl("same value as the parent at every returned abscissa"), d);
    let kept = (0..xs.len()).all(|j| {
        if !(lo < xs[j] && xs[j] <= hi) { return true; }
        let a = px.partition_point(|v| *v < xs[j]);
        let b = px.partition_point(|v| *v <= xs[j]);
        (a..b).any(|k| same_val(p.y[k], ys[j]))
    });
    r.check(kept, &cl("every parent knot inside the interval is kept with its ordinate"), d);
    let mut ok_mid = true;
    for &k in pick_indices(m).iter() {
        if k + 1 < m && px[k] < px[k + 1] {
            for fr in [0.25, 0.5] {
                let x = px[k] + (px[k + 1] - px[k]) * fr;
                let g = graph_vals_fast(xs, ys, x);
                let Some(v) = guarded(|| p.interpolate(x)) else { ok_mid = false; continue; };
                ok_mid &= if g.is_empty() { v.is_nan() } else { g.iter().any(|w| same_val(v, *w)) };
            }
        }
    }
    r.check(ok_mid, &cl("same value as the parent between the returned abscissae"), d);
    for e in [px[0], px[m - 1]] {
        let v = guarded(|| p.interpolate(e));
        r.check(v.map_or(false, |v| on_graph_fast(xs, ys, e, v)), &cl("evaluates like the parent at its ends"), d);
    }
}

fn check_long_series(r: &mut Report, f: &Fam) {
    let (xs, ys, h) = (&f.xs[..], &f.ys[..], f.h);
    let n = xs.len();
    let sd = &f.name;
    let Ok(s) = Series1::try_new(xs.to_vec(), ys.to_vec()) else { r.check(false, "try_new: valid input is accepted", || sd.clone()); return; };
    r.case();
    let (x_min, x_max) = (xs[0], xs[n - 1]);
    let strict = xs.windows(2).all(|w| w[0] < w[1]);
    r.check(guarded(|| s.is_ordered()) == Some(strict), "is_ordered: true exactly when the abscissae strictly increase", || sd.clone());
    r.check(guarded(|| s.x_min()) == Some(x_min) && guarded(|| s.x_max()) == Some(x_max), "x_min / x_max are the first and last abscissa", || sd.clone());

    // ---- interpolation and index lookups at knots, one ulp either side, mid / quarter points, outside, +-0.0
    let probes = knot_probes(xs);
    for &x in probes.iter() {
        let d = || format!("{} interpolate({:?})", sd, x);
        let g = graph_vals_fast(xs, ys, x);
        match guarded(|| s.interpolate(x)) {
            None => r.check(false, "interpolate: returns (no panic)", d),
            Some(v) => {
                if g.is_empty() { r.check(v.is_nan(), "interpolate: NaN outside the domain", d); }
                else if xs.binary_search_by(|w| w.partial_cmp(&x).unwrap()).is_ok() { r.check(g.iter().any(|w| *w == v), "interpolate: the stored value at a knot", d); }
                else { r.check(g.iter().any(|w| close(*w, v)), "interpolate: the linear blend between knots", d); }
                r.check(guarded(|| s.f(x)).map_or(false, |w| same_val(w, v)), "Func1::f agrees with interpolate", d);
            }
        }
        r.check(guarded(|| s.index_of_x_after(x)).map_or(false, |i| index_after_ok(xs, x, i)),
            "index_of_x_after: the index of a knot equal to x, else of the first knot above x (0 before the first, the length after the last)", || format!("{} index_of_x_after({:?})", sd, x));
    }

    // ---- areas
    let whole = area(xs, ys);
    let scale = area_scale(xs, ys);
    r.check(guarded(|| s.area_under()).map_or(false, |a| aclose(a, whole, scale)), "area_under: sum of the trapezoids", || sd.clone());
    {
        let got = guarded(|| s.middle_reiemann_areas());
        let ok = got.map_or(false, |v| v.len() == n - 1 && (0..n - 1).all(|k| near(v[k].0, xs[k] + (xs[k + 1] - xs[k]) / 2.0, h) && aclose(v[k].1, (ys[k] + ys[k + 1]) / 2.0 * (xs[k + 1] - xs[k]), scale / (n as f64))));
        r.check(ok, "middle_reiemann_areas: one (mid abscissa, trapezoid area) per segment", || sd.clone());
    }

    // ---- cut points: ends, one ulp inside / outside, knots, a repeated abscissa, mid / quarter points, inside the big gap
    let mid = n / 2;
    let mut cuts = vec![ulp_dn(x_min), x_min - 3.0 * h, x_min, ulp_up(x_min), xs[1], xs[3] + (xs[4] - xs[3]) * 0.25, xs[6], xs[7], ulp_dn(xs[7]), xs[mid], ulp_up(xs[mid]),
                        xs[mid] + (xs[mid + 1] - xs[mid]) * 0.5, xs[n - 2], ulp_dn(x_max), x_max, ulp_up(x_max), x_max + 3.0 * h];
    if n > 70 { cuts.push(xs[64]); cuts.push(xs[64] + (xs[65] - xs[64]) * 0.75); }
    if n > 1100 { cuts.push(xs[1024]); cuts.push(xs[1023] + (xs[1024] - xs[1023]) * 0.5); }
    cuts.sort_by(|a, b| a.partial_cmp(b).unwrap());
    cuts.dedup();
    // splits
    for &x in cuts.iter() {
        let d = || format!("{} split_at_x({:?})", sd, x);
        let Some((a, b)) = guarded(|| s.split_at_x(x)) else { r.check(false, "split_at_x: returns (no panic)", &d); continue; };
        let is_whole = |p: &Option<Series1>| p.as_ref().map_or(false, |p| same_series(p, xs, ys));
        if x > x_max { r.check(is_whole(&a) && b.is_none(), "split_at_x: right of the domain: (whole, None)", &d); continue; }
        if x < x_min { r.check(a.is_none() && is_whole(&b), "split_at_x: left of the domain: (None, whole)", &d); continue; }
        let (Some(a), Some(b)) = (a, b) else { r.check(false, "split_at_x: two pieces inside the domain", &d); continue; };
        check_piece_long(r, f, &a, x_min, x, "split_at_x lower piece", &d);
        check_piece_long(r, f, &b, x, x_max, "split_at_x upper piece", &d);
        if inv(&a) && inv(&b) {
            let (aa, ab) = (guarded(|| a.area_under()), guarded(|| b.area_under()));
            r.check(matches!((aa, ab), (Some(p), Some(q)) if aclose(p + q, whole, scale) && aclose(p, area(a.x.values(), &a.y), scale) && aclose(q, area(b.x.values(), &b.y), scale)),
                "split_at_x: areas of the pieces add up to the whole", &d);
        }
    }
    // slices (every ordered pair of cuts reaching into the domain), Interval built in reversed order, slice of a slice
    let few: Vec<f64> = if n > 1100 { cuts.iter().copied().step_by(2).collect() } else { cuts.clone() };
    for (i0, &x0) in few.iter().enumerate() { for &x1 in few[i0..].iter() {
        if x1 < x_min { continue; }
        let d = || format!("{} between({:?}, {:?})", sd, x0, x1);
        let Some(p) = guarded(|| s.between(x0, x1)) else { r.check(false, "between: returns (no panic)", &d); continue; };
        check_piece_long(r, f, &p, x0, x1, "between", &d);
        match guarded(|| s.in_interval(Interval::new(x1, x0))) {
            Some(q) => r.check(same_series(&q, p.x.values(), &p.y), "in_interval: the same piece as between(min, max)", &d),
            None => r.check(false, "in_interval: returns (no panic)", &d),
        }
    } }
    if strict { r.check(guarded(|| s.between(x_min, x_max)).map_or(false, |p| same_series(&p, xs, ys)), "between(x_min, x_max): the parent itself", || sd.clone()); }
    {
        let (a, b) = (xs[1] + (xs[2] - xs[1]) * 0.5, xs[n - 2] + (xs[n - 1] - xs[n - 2]) * 0.5);
        let (c, e) = (xs[3] + (xs[4] - xs[3]) * 0.25, xs[mid] + (xs[mid + 1] - xs[mid]) * 0.5);
        let d = || format!("{} between({:?}, {:?}).between({:?}, {:?})", sd, a, b, c, e);
        match guarded(|| s.between(a, b).between(c, e)) { Some(p2) => check_piece_long(r, f, &p2, c, e, "between of a between", &d), None => r.check(false, "between: returns (no panic)", &d) }
        // split twice: three areas add up
        let d = || format!("{} split_at_x({:?}), lower piece split_at_x({:?})", sd, e, c);
        let got = guarded(|| { let (lo, hi) = s.split_at_x(e); let (p, q) = lo.as_ref().unwrap().split_at_x(c); (p.unwrap().area_under(), q.unwrap().area_under(), hi.unwrap().area_under()) });
        r.check(got.map_or(false, |(p, q, t)| aclose(p + q + t, whole, scale)), "split_at_x: areas of the pieces add up to the whole", d);
    }

    // ---- resampling: counts past 32 / 1000 / 4096, spacings that give them; resampling twice
    for &k in [2usize, 3, 33, 100, 1000, 4097].iter() {
        check_resampled_with(r, &s, xs, ys, &format!("{} resampled_n({})", sd, k), guarded(|| s.resampled_n(k)), Some(k), true);
    }
    for &k in [1.0, 32.0, 1000.0, 4096.0, 0.5, 7.3].iter() {
        let sp = (x_max - x_min) / k;
        check_resampled_with(r, &s, xs, ys, &format!("{} resampled_x({:?})", sd, sp), guarded(|| s.resampled_x(sp)), None, true);
    }
    if let Some(t) = guarded(|| s.resampled_n(33)) {
        if inv(&t) && t.y.len() == 33 {
            let (tx, ty) = (t.x.values().to_vec(), t.y.clone());
            check_resampled_with(r, &t, &tx, &ty, &format!("{} resampled_n(33).resampled_n(33)", sd), guarded(|| t.resampled_n(33)), Some(33), true);
            check_resampled_with(r, &t, &tx, &ty, &format!("{} resampled_n(33).resampled_n(65)", sd), guarded(|| t.resampled_n(65)), Some(65), true);
        }
    }

    // ---- level crossings: generic levels, levels bit-equal to a knot ordinate and one ulp either side, +-0.0
    for &lv in [0.5, 2.5, -0.5, 3.0, ulp_dn(3.0), ulp_up(3.0), -1.0, ulp_up(-1.0), ulp_dn(-1.0), 0.0, -0.0, 1.0, 2.0].iter() {
        let d = || format!("{} y_crossings({:?})", sd, lv);
        let Some(c) = guarded(|| s.y_crossings(lv)) else { r.check(false, "y_crossings: returns (no panic)", &d); continue; };
        r.check(c.iter().all(|x| x.is_finite()) && c.windows(2).all(|w| w[0] < w[1]), "y_crossings: finite, strictly ascending (unique)", &d);
        // ORACLE (no merging): every non-vertical segment that meets the level
        let mut want: Vec<f64> = vec![];
        for j in 0..n - 1 {
            let (x0, x1, v0, v1) = (xs[j], xs[j + 1], ys[j], ys[j + 1]);
            if x0 == x1 || !(v0.min(v1) <= lv && lv <= v0.max(v1)) { continue; }
            if v0 == v1 { want.push(x0); want.push(x1); } else { want.push(x0 + (x1 - x0) * ((lv - v0) / (v1 - v0))); }
        }
        want.sort_by(|a, b| a.partial_cmp(b).unwrap());
        let near_some = |p: f64, set: &[f64], hh: f64| { let i = set.partition_point(|q| *q < p); (i.saturating_sub(1)..(i + 2).min(set.len())).any(|k| near(p, set[k], hh)) };
        // the local spacing around a crossing is at least h
        // (the value test allows for the rounding of the abscissa itself: 8 rounding steps times the steepest slope 4 / h)
        let vtol = 1e-9 * (1.0 + lv.abs()) + (4.0 / h) * 8.0 * f64::EPSILON * x_min.abs().max(x_max.abs());
        r.check(c.iter().all(|&x| graph_vals_fast(xs, ys, x).iter().any(|w| (*w - lv).abs() <= vtol) && near_some(x, &want, h)), "y_crossings: the interpolant equals the level at every reported abscissa", &d);
        r.check(want.iter().all(|&p| near_some(p, &c, h)), "y_crossings: every abscissa where a segment meets the level is reported (knots on the level, flat segments included)", &d);
    }

    // ---- scaling (negative factors), shifting, the same operation twice, inverse pairs (all exact on dyadic data)
    for &(sx, sy) in [(-1.0, 1.0), (-0.5, 2.0), (2.0, -1.0), (-4.0, 0.5)].iter() {
        let d = || format!("{} scaled_by({:?}, {:?})", sd, sx, sy);
        let Some(t) = guarded(|| s.scaled_by(sx, sy)) else { r.check(false, "scaled_by: returns (no panic)", &d); continue; };
        r.check(inv(&t) && t.y.len() == n, "scaled_by: finite ascending abscissae with a matching number of ordinates", &d);
        if !(inv(&t) && t.y.len() == n) { continue; }
        r.check((0..n).all(|k| { let q = if sx < 0.0 { n - 1 - k } else { k }; t.x.values()[q] == xs[k] * sx && t.y[q] == ys[k] * sy }), "scaled_by: point k maps to (sx * x, sy * y), order reversed for a negative factor", &d);
        r.check(t.x.values()[0] < t.x.values()[n - 1], "scaled_by: does not collapse", &d);
        let okf = probes.iter().filter(|p| p.is_finite() && (**p * sx) / sx == **p).all(|&p| { let g = graph_vals_fast(xs, ys, p); guarded(|| t.interpolate(p * sx)).map_or(false, |v| if g.is_empty() { v.is_nan() } else { g.iter().any(|w| same_val(*w * sy, v)) }) });
        r.check(okf, "scaled_by: the scaled series evaluates to sy * f(x) at sx * x", &d);
        let back = guarded(|| t.scaled_by(1.0 / sx, 1.0 / sy));
        r.check(back.map_or(false, |b| inv(&b) && (0..n).all(|k| b.x.values()[k] == xs[k] && b.y[k] == ys[k])), "scaled_by twice (factor, then its inverse; both powers of two): the original series", &d);
    }
    for &(dx, dy) in [(1e6, 0.5), (-3.0 * h, -1.0), (h * 0.5, 0.0)].iter() {
        let d = || format!("{} shift_by({:?}, {:?})", sd, dx, dy);
        let Some(t) = guarded(|| s.shift_by(dx, dy)) else { r.check(false, "shift_by: returns (no panic)", &d); continue; };
        r.check(inv(&t) && t.y.len() == n, "shift_by: finite ascending abscissae with a matching number of ordinates", &d);
        if !(inv(&t) && t.y.len() == n) { continue; }
        r.check((0..n).all(|k| t.x.values()[k] == xs[k] + dx && t.y[k] == ys[k] + dy), "shift_by: point k maps to (x + dx, y + dy)", &d);
        // the data are dyadic: when x + dx - dx == x for every abscissa (exact arithmetic) the round trip is the identity
        if (0..n).all(|k| (xs[k] + dx) - dx == xs[k] && (ys[k] + dy) - dy == ys[k]) {
            let back = guarded(|| t.shift_by(-dx, -dy));
            r.check(back.map_or(false, |b| inv(&b) && (0..n).all(|k| b.x.values()[k] == xs[k] && b.y[k] == ys[k])), "shift_by twice (a shift, then its opposite; exact on these data): the original series", &d);
            let okf = probes.iter().filter(|p| p.is_finite() && (**p + dx) - dx == **p).all(|&p| { let g = graph_vals_fast(xs, ys, p); guarded(|| t.interpolate(p + dx)).map_or(false, |v| if g.is_empty() { v.is_nan() } else { g.iter().any(|w| same_val(*w + dy, v)) }) });
            r.check(okf, "shift_by: the shifted series evaluates to f(x) + dy at x + dx", &d);
        }
    }
    // chain: mirror, shift back onto the original interval, slice, resample
    {
        let c = x_min + x_max;
        let d = || format!("{} scaled_by(-1, 1).shift_by({:?}, 0).between(..).resampled_n(33)", sd, c);
        if (0..n).all(|k| (-xs[k] + c) == c - xs[k] && c - (c - xs[k]) == xs[k]) {
            let (lo, hi) = (xs[2] + (xs[3] - xs[2]) * 0.5, xs[n - 3]);
            match guarded(|| { let m = s.scaled_by(-1.0, 1.0).shift_by(c, 0.0); let p = m.between(lo, hi); let q = p.resampled_n(33); (m, p, q) }) {
                None => r.check(false, "chain: returns (no panic)", &d),
                Some((m, p, q)) => {
                    r.check(inv(&m) && m.x_min() == x_min && m.x_max() == x_max, "chain: mirrored series keeps the invariant", &d);
                    r.check(inv(&p) && !p.y.is_empty() && p.x_min() == lo && p.x_max() == hi, "chain: slice of the mirrored series ends at the requested bounds", &d);
                    r.check(inv(&q) && q.y.len() == 33 && (0..33).all(|k| graph_vals_fast(xs, ys, c - q.x.values()[k]).iter().any(|w| same_val(*w, q.y[k]))), "chain: resampled slice lies on the mirrored graph", &d);
                }
            }
        }
    }

    // ---- NaN ordinates on a long series: at the first / last point, every third point, all points
    for mode in 0..4usize {
        let isn = |k: usize| match mode { 0 => k == 0, 1 => k == n - 1, 2 => k % 3 == 1, _ => true };
        let yn: Vec<f64> = (0..n).map(|k| if isn(k) { f64::NAN } else { ys[k] }).collect();
        let d = || format!("{} with NaN ordinates {} remove_nan()", sd, ["at the first point", "at the last point", "at every k % 3 == 1", "everywhere"][mode]);
        let Ok(sn) = Series1::try_new(xs.to_vec(), yn.clone()) else { continue; };
        let Some(t) = guarded(|| sn.remove_nan()) else { r.check(false, "remove_nan: returns (no panic)", d); continue; };
        r.check(inv(&t), "remove_nan: finite ascending abscissae with a matching number of ordinates", d);
        let keep: Vec<usize> = (0..n).filter(|k| !isn(*k)).collect();
        r.check(t.y.iter().all(|v| !v.is_nan()), "remove_nan: no NaN ordinate is left", d);
        r.check(t.y.len() == keep.len() && t.x.values().len() == keep.len() && keep.iter().enumerate().all(|(q, &k)| t.x.values()[q] == xs[k] && t.y[q] == ys[k]), "remove_nan: exactly the points with a non-NaN ordinate are kept, in order", d);
        r.check(guarded(|| sn.has_nan()) == Some(true), "has_nan: true exactly when an ordinate is NaN", d);
        for &(x0, x1) in [(xs[1], xs[1]), (ulp_up(xs[1]), xs[2]), (xs[0], ulp_dn(xs[1])), (ulp_up(xs[n - 2]), x_max), (x_max, x_max + h), (ulp_up(x_max), x_max + h), (x_min - h, ulp_dn(x_min)), (xs[mid], xs[mid + 2]), (xs[2], xs[1])].iter() {
            let want = (0..n).any(|k| isn(k) && xs[k] >= x0 && xs[k] <= x1);
            r.check(guarded(|| sn.has_nan_between(x0, x1)) == Some(want), "has_nan_between: true exactly when a NaN ordinate lies in [x0, x1]", || format!("{} has_nan_between({:?}, {:?})", d(), x0, x1));
        }
    }
    r.check(guarded(|| s.has_nan()) == Some(false), "has_nan: true exactly when an ordinate is NaN", || sd.clone());
}

/// resampling a series whose extent exceeds f64::MAX (finite abscissae): a valid result that keeps both end points, or a loud failure
fn check_resample_overflow(r: &mut Report) {
    for (xs, ys) in [(vec![-1e308, 1e308], vec![0.0, 1.0]), (vec![-1.5e308, 0.0, 1e308], vec![0.0, 1.0, 2.0])] {
        let Ok(s) = Series1::try_new(xs.clone(), ys.clone()) else { r.check(false, "try_new: valid input is accepted", || format!("{:?}", xs)); continue; };
        for n in [2usize, 3, 5] {
            r.case();
            let d = || format!("Series1 x={:?} y={:?} resampled_n({})", xs, ys, n);
            if let Some(t) = guarded(|| s.resampled_n(n)) {
                let tx = t.x.values();
                r.check(inv(&t) && tx.len() == n && tx[0] == xs[0] && tx[n - 1] == xs[xs.len() - 1] && tx.windows(2).all(|w| w[0] < w[1]),
                    "[defect span overflow] resampled_n on finite abscissae whose extent exceeds f64::MAX: n ascending points from x_min to x_max or a loud failure - never a silently collapsed series", d);
            }
        }
    }
}

pub fn run() -> Option<Report> {
    let mut r = Report::new("constructors on every vector of length <= 4 over {-inf,-1,0,0.5,1,+inf,NaN}, push chains <= 3, linear/linear_space over bounds {-1,0,0.5,1,2,3}^2 x n in {2,3,4,5,9}; every series with 1..=4 non-decreasing abscissae over {0,0.5,1,2,3} and ordinates over {-1,0,1,2}: interpolate / between / in_interval / split_at_x / area_under / resampled_n / resampled_x / y_crossings / scaled_by / shift_by / one chain, probes and bounds over 11 values in [-1,4] plus 1+2^-50 and 2-2^-40 for slices/splits, 8 levels, counts {2,3,4,5,7,9}; two-knot series with inexact stepping x counts 2..=24; remove_nan / has_nan / has_nan_between with ordinates over {NaN,+inf,-inf,0,1}; wave 4: vec_f64 validation helpers, try_from and try_new on every vector of length <= 4 over {-1, -1+2^-53, 0, 5e-324, 0.3, 0.1+0.2, 1, 1+2^-52, +inf, NaN} (neighbours one rounding step apart), push chains of length 4 over {-1, 0, 0.3, 0.1+0.2, 1, 2, 3, -inf, NaN}; shift_by / scaled_by with parameters {+-inf, NaN, +-1e308, +-f64::MAX, +-10, +-2, 1e-320} on 7 series incl. abscissae up to +-1.7e308; wave 5: index_of / bounds / accessors on domains from every constructor (empty, 1..4 values over {0,0.5,1,2,3} with repeats, 33/100/1000/4097 values at origins {0, 1e6, 1e8, -1e8} and spacings {0.5, 0.25, 2^-6, 2^-30}, with every 7th value repeated), probes = knots bit for bit, one ulp either side, mid and quarter points, +-0.0, +-inf; push sequences of 14 steps on 5 starting states and first pushes over 8 extreme values; vec_f64 helpers / try_from / try_new on vectors of {5,31,32,33,63,64,65,100,127,128,129,1000,4097} values x 4 base shapes x one fault (NaN, +-inf, +-1 ulp, repeat) at every position (n <= 129) or 22 positions around 0/32/64/1000/1024/4096/end; sort helpers on all vectors of length <= 5 over {3,-1,NaN,0.5,-inf} and 9 long ones; linear / linear_space over 15^2 bounds in {+-1e8, -1e6, -3, +-0, 1e-9, 0.1, 1/3, 1, 1+1e-9, 1e6, 1e6+1e-3, 1e8+1e-6, 1e8+1} x n in {2,3,10,33,100,1000,4097} and 4 bound pairs whose difference overflows; small family again: ulp probes, index_of_x_after, accessors, fs / from_sampled, derived series, no-op updates, slices of slices, double splits, strips, bounds_at_y0, plateau_at_maxima; long series: 6 origin/spacing pairs x n in {33,100,1000,4097} x layouts {uniform, growing gaps, every 7th abscissa repeated, one gap of 2001 spacings} x 2 ordinate patterns: interpolate / index_of_x_after at ~60..500 probes, areas, <= 21 cut points (splits, all ordered pairs as slices, reversed Interval), resampled_n {2,3,33,100,1000,4097}, resampled_x (6 spacings), resampling twice, 13 levels, 4 scale and 3 shift pairs with round trips, one chain, NaN ordinates in 4 placements; resampled_n on 2 series whose extent overflows");
    // the real code is called under catch_unwind: keep the default hook from printing one message per caught panic
    let hook = std::panic::take_hook();
    std::panic::set_hook(Box::new(|_| {}));
    let res = catch_unwind(AssertUnwindSafe(|| {
        check_constructors(&mut r);
        for len in 1..=4usize {
            ascending_tuples(&XS, len, &mut |xs| {
                tuples(&YS, len, &mut |ys| check_series(&mut r, xs, ys));
            });
        }
        check_inexact_stepping(&mut r);
        check_nan_removal(&mut r);
        check_rounding_step_neighbours(&mut r);
        check_nonfinite_derivations(&mut r);
        // wave 5
        check_domains_w5(&mut r);
        check_push_sequences(&mut r);
        check_long_vectors(&mut r);
        check_sort_helpers(&mut r);
        check_linear_magnitudes(&mut r);
        for len in 1..=4usize {
            ascending_tuples(&XS, len, &mut |xs| {
                tuples(&YS, len, &mut |ys| check_series_w5(&mut r, xs, ys));
            });
        }
        for f in long_families().iter() { check_long_series(&mut r, f); }
        check_resample_overflow(&mut r);
    }));
    std::panic::set_hook(hook);
    if res.is_err() { r.check(false, "the bounded check itself completes (no panic outside a guarded call)", || "see stderr".to_string()); }
    Some(r)
}
