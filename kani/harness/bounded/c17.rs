//! C17 bounded: series and discrete domains stay sorted, finite and function-preserving.
//! Input space (all enumerated, no RNG):
//!  * constructor vectors: every vector of length 0..=4 over {-inf, -1, 0, 0.5, 1, +inf, NaN} (try_from / try_new),
//!    every push chain of length <= 3 over the same values, linear / linear_space for all ordered pairs of bounds over
//!    {-1, 0, 0.5, 1, 2, 3} (either order, equal bounds) and n in {2, 3, 4, 5, 9};
//!  * series: every non-decreasing abscissa vector of length 1..=4 over {0, 0.5, 1, 2, 3} (repeated values included)
//!    with every ordinate vector over {-1, 0, 1, 2};  probes / bounds over {-1, 0, 0.25, 0.5, 0.75, 1, 1.5, 2, 2.5, 3, 4}
//!    (slice / split bounds additionally 1 + 2^-50 and 2 - 2^-40: a hair past / before a knot value),
//!    levels over {-1, -0.5, 0, 0.5, 1, 1.5, 2, 3}, counts {2, 3, 4, 5, 7, 9}, spacings {0.25, 0.5, 0.75, 1, 4},
//!    scale factors {-2, -1, -0.5, 0.5, 2} x {-1, 2}, shifts {-1.5, 0, 2};
//!  * an "inexact stepping" family for resampling: two-knot series [0, b], b = k/10 (k = 1..=19), and [a, a + b] for
//!    a in {0.1, 1/3}, counts 2..=24;
//!  * NaN ordinates (remove_nan): series of length 1..=4 over the abscissae above (length <= 3 exhaustively) with
//!    ordinates over {NaN, +inf, -inf, 0, 1} (an infinite ordinate is not a NaN: the point is kept).
//!  * wave 4: validation helpers / constructors on vectors of length <= 4 whose neighbours are one rounding step apart
//!    (0.3 / 0.1+0.2, 1 / 1+2^-52, -1 / -1+2^-53, 0 / 5e-324), push chains of length 4, and shift_by / scaled_by with
//!    non-finite parameters or overflowing abscissae (valid result or loud failure, never a silently invalid series).
//! Oracles are brute force: the piecewise-linear graph is evaluated segment by segment; at a repeated abscissa the graph
//! is the SET of ordinates stored there.  Outside the stated preconditions of props/C17.json (empty series, n < 2,
//! NaN probe, slice entirely left of the domain) nothing is evaluated.
use super::{close, Report};
use crate::common::{linear_space, DiscreteDomain, Interval};
use crate::func1::{Func1, Series1};
use std::panic::{catch_unwind, AssertUnwindSafe};

const XS: [f64; 5] = [0.0, 0.5, 1.0, 2.0, 3.0];
const YS: [f64; 4] = [-1.0, 0.0, 1.0, 2.0];
const PROBES: [f64; 11] = [-1.0, 0.0, 0.25, 0.5, 0.75, 1.0, 1.5, 2.0, 2.5, 3.0, 4.0];
const LEVELS: [f64; 8] = [-1.0, -0.5, 0.0, 0.5, 1.0, 1.5, 2.0, 3.0];
const COUNTS: [usize; 6] = [2, 3, 4, 5, 7, 9];
const SPACINGS: [f64; 5] = [0.25, 0.5, 0.75, 1.0, 4.0];
const RAW: [f64; 7] = [f64::NEG_INFINITY, -1.0, 0.0, 0.5, 1.0, f64::INFINITY, f64::NAN];

fn guarded<T>(f: impl FnOnce() -> T) -> Option<T> { catch_unwind(AssertUnwindSafe(f)).ok() }

fn finite_ascending(v: &[f64]) -> bool { v.iter().all(|x| x.is_finite()) && v.windows(2).all(|w| w[0] <= w[1]) }
fn same_bits_or_eq(a: &[f64], b: &[f64]) -> bool { a.len() == b.len() && a.iter().zip(b).all(|(p, q)| p == q || (p.is_nan() && q.is_nan())) }
/// the representation invariant of the property: finite ascending abscissae, matching number of ordinates
fn inv(s: &Series1) -> bool { finite_ascending(s.x.values()) && s.x.values().len() == s.y.len() }

/// ORACLE: the set of values of the piecewise-linear graph (xs, ys) at x; empty = outside the domain (NaN expected)
fn graph_vals(xs: &[f64], ys: &[f64], x: f64) -> Vec<f64> {
    let n = xs.len();
    let mut out = vec![];
    if n == 0 || !(x >= xs[0] && x <= xs[n - 1]) { return out; }
    for k in 0..n { if xs[k] == x { out.push(ys[k]); } }
    if out.is_empty() {
        for j in 0..n - 1 {
            if xs[j] < x && x < xs[j + 1] {
                out.push(ys[j] + (ys[j + 1] - ys[j]) * ((x - xs[j]) / (xs[j + 1] - xs[j])));
            }
        }
    }
    out
}
fn same_val(a: f64, b: f64) -> bool { (a.is_nan() && b.is_nan()) || close(a, b) }
fn on_graph(xs: &[f64], ys: &[f64], x: f64, v: f64) -> bool {
    let g = graph_vals(xs, ys, x);
    if g.is_empty() { v.is_nan() } else { g.iter().any(|&w| same_val(v, w)) }
}
/// ORACLE: trapezoid area of the graph
fn area(xs: &[f64], ys: &[f64]) -> f64 { (0..xs.len().saturating_sub(1)).map(|i| (xs[i + 1] - xs[i]) * (ys[i] + ys[i + 1]) * 0.5).sum() }
/// ORACLE: abscissae where a non-vertical segment of the graph meets the level (both ends of a flat segment on the level)
fn crossings(xs: &[f64], ys: &[f64], level: f64) -> Vec<f64> {
    let mut out: Vec<f64> = vec![];
    for j in 0..xs.len().saturating_sub(1) {
        let (x0, x1, v0, v1) = (xs[j], xs[j + 1], ys[j], ys[j + 1]);
        if x0 == x1 { continue; }
        if v0.min(v1) <= level && level <= v0.max(v1) {
            if v0 == v1 { out.push(x0); out.push(x1); } else { out.push(x0 + (x1 - x0) * ((level - v0) / (v1 - v0))); }
        }
    }
    out.sort_by(|a, b| a.partial_cmp(b).unwrap());
    out.dedup_by(|a, b| (*a - *b).abs() <= 1e-9);
    out
}
fn same_set(a: &[f64], b: &[f64]) -> bool { a.iter().all(|p| b.iter().any(|q| close(*p, *q))) && b.iter().all(|p| a.iter().any(|q| close(*p, *q))) }

// ------------------------------------------------------------------------------------------------ enumeration helpers
fn tuples(vals: &[f64], len: usize, f: &mut dyn FnMut(&[f64])) {
    let mut idx = vec![0usize; len];
    let mut cur = vec![0.0; len];
    loop {
        for k in 0..len { cur[k] = vals[idx[k]]; }
        f(&cur);
        let mut p = len;
        loop {
            if p == 0 { return; }
            p -= 1;
            idx[p] += 1;
            if idx[p] < vals.len() { break; }
            idx[p] = 0;
        }
    }
}
fn ascending_tuples(vals: &[f64], len: usize, f: &mut dyn FnMut(&[f64])) {
    tuples(vals, len, &mut |t| { if t.windows(2).all(|w| w[0] <= w[1]) { f(t) } });
}

// ------------------------------------------------------------------------------------------------ constructors
fn check_constructors(r: &mut Report) {
    for len in 0..=4usize {
        tuples(&RAW, len, &mut |v| {
            r.case();
            let d = || format!("DiscreteDomain::try_from({:?})", v);
            let valid = finite_ascending(v);
            match guarded(|| DiscreteDomain::try_from(v.to_vec())) {
                None => r.check(false, "try_from: returns (no panic)", d),
                Some(Ok(dom)) => {
                    r.check(valid, "try_from: Ok only for finite ascending values (never a silently invalid domain)", d);
                    r.check(same_bits_or_eq(dom.values(), v), "try_from: the accepted domain holds exactly the given values", d);
                }
                Some(Err(_)) => r.check(!valid, "try_from: finite ascending values are accepted", d),
            }
            // Series1::try_new: matching / short / long ordinate vectors
            for ylen in [len, len + 1, len.saturating_sub(1)] {
                let y: Vec<f64> = (0..ylen).map(|k| k as f64 - 1.0).collect();
                let d2 = || format!("Series1::try_new({:?}, {:?})", v, y);
                match guarded(|| Series1::try_new(v.to_vec(), y.clone())) {
                    None => r.check(false, "try_new: returns (no panic)", d2),
                    Some(Ok(s)) => {
                        r.check(valid && ylen == len, "try_new: Ok only for finite ascending abscissae with a matching number of ordinates", d2);
                        r.check(same_bits_or_eq(s.x.values(), v) && same_bits_or_eq(&s.y, &y), "try_new: the series holds exactly the given vectors", d2);
                    }
                    Some(Err(_)) => r.check(!(valid && ylen == len), "try_new: valid input is accepted", d2),
                }
            }
        });
    }
    // push chains from the empty domain
    for len in 1..=3usize {
        tuples(&RAW, len, &mut |seq| {
            r.case();
            let d = || format!("DiscreteDomain::default() then push each of {:?}", seq);
            let mut dom = DiscreteDomain::default();
            let mut model: Vec<f64> = vec![];
            for &v in seq {
                let expect_ok = v.is_finite() && model.last().map_or(true, |l| v >= *l);
                match guarded(|| dom.push(v).is_ok()) {
                    None => { r.check(false, "push: returns (no panic)", d); return; }
                    Some(ok) => {
                        r.check(ok == expect_ok, "push: Ok exactly for a finite value not below the last one", d);
                        if ok { model.push(v); }
                    }
                }
                // the model only follows accepted pushes: a wrongly accepted value shows up in both clauses below
                r.check(finite_ascending(dom.values()), "push: the domain stays finite and ascending", d);
                if finite_ascending(&model) { r.check(same_bits_or_eq(dom.values(), &model), "push: appends the accepted value, leaves the domain unchanged on error", d); }
            }
        });
    }
    // linear spacing, bounds in either order
    let b = [-1.0, 0.0, 0.5, 1.0, 2.0, 3.0];
    for &a0 in b.iter() { for &a1 in b.iter() { for n in [2usize, 3, 4, 5, 9] {
        r.case();
        for which in 0..2 {
            let name = if which == 0 { "DiscreteDomain::linear" } else { "linear_space" };
            let d = || format!("{}({:?}, {:?}, {})", name, a0, a1, n);
            let got = guarded(|| if which == 0 { DiscreteDomain::linear(a0, a1, n) } else { linear_space(a0, a1, n) });
            let Some(dom) = got else { r.check(false, "linear: returns (no panic)", d); continue; };
            let v = dom.values();
            let (lo, hi) = (a0.min(a1), a0.max(a1));
            r.check(v.len() == n, "linear: n values", d);
            r.check(finite_ascending(v), "linear: finite ascending values for bounds in either order", d);
            if v.len() == n {
                r.check(v[0] == lo, "linear: first value is the smaller bound", d);
                r.check(close(v[n - 1], hi), "linear: last value is the larger bound", d);
                r.check((0..n).all(|k| close(v[k], lo + (k as f64) * (hi - lo) / ((n - 1) as f64))), "linear: evenly spaced", d);
                r.check(lo == hi || v.windows(2).all(|w| w[0] < w[1]), "linear: distinct bounds do not collapse", d);
            }
        }
    } } }
}

// ------------------------------------------------------------------------------------------------ one series
fn check_piece(r: &mut Report, xs: &[f64], ys: &[f64], p: &Series1, lo: f64, hi: f64, what: &str, d: &dyn Fn() -> String) {
    let n = xs.len();
    let px = p.x.values();
    let cl = |c: &str| format!("{}: {}", what, c);
    r.check(inv(p), &cl("finite ascending abscissae with a matching number of ordinates"), d);
    if !inv(p) || px.is_empty() { r.check(!px.is_empty(), &cl("non-empty piece"), d); return; }
    r.check(px[0] == lo.max(xs[0]), &cl("left end exactly at the requested bound (the first knot if the bound lies before the domain)"), d);
    r.check(px[px.len() - 1] == hi, &cl("right end exactly at the requested bound"), d);
    r.check((0..px.len()).all(|k| on_graph(xs, ys, px[k], p.y[k])), &cl("same value as the parent at every returned abscissa"), d);
    // no parent knot inside (lo, hi] is dropped
    r.check((0..n).all(|j| !(lo < xs[j] && xs[j] <= hi) || (0..px.len()).any(|k| px[k] == xs[j] && same_val(p.y[k], ys[j]))),
        &cl("every parent knot inside the interval is kept with its ordinate"), d);
    // the piece evaluates like the parent between its knots and at its ends
    let mut ok_mid = true;
    for k in 0..px.len() - 1 {
        if px[k] < px[k + 1] {
            for f in [0.25, 0.5] {
                let m = px[k] + (px[k + 1] - px[k]) * f;
                let g = graph_vals(xs, ys, m);
                let Some(v) = guarded(|| p.interpolate(m)) else { ok_mid = false; continue; };
                // left of the parent's domain or right of it the parent is NaN; a piece reaching there blends with NaN
                ok_mid &= if g.is_empty() { v.is_nan() } else { g.iter().any(|w| same_val(v, *w)) };
            }
        }
    }
    r.check(ok_mid, &cl("same value as the parent between the returned abscissae"), d);
    for e in [px[0], px[px.len() - 1]] {
        let v = guarded(|| p.interpolate(e));
        r.check(v.map_or(false, |v| on_graph(xs, ys, e, v)), &cl("evaluates like the parent at its ends"), d);
    }
}

fn check_series(r: &mut Report, xs: &[f64], ys: &[f64]) {
    let Ok(s) = Series1::try_new(xs.to_vec(), ys.to_vec()) else { r.check(false, "try_new: valid input is accepted", || format!("{:?} {:?}", xs, ys)); return; };
    r.case();
    let n = xs.len();
    let (x_min, x_max) = (xs[0], xs[n - 1]);
    let sd = format!("Series1 x={:?} y={:?}", xs, ys);

    // ---- interpolation
    let mut probes: Vec<f64> = PROBES.to_vec();
    probes.extend_from_slice(&[f64::NEG_INFINITY, f64::INFINITY, 0.125, 2.75]);
    for &x in probes.iter() {
        let d = || format!("{} interpolate({:?})", sd, x);
        let Some(v) = guarded(|| s.interpolate(x)) else { r.check(false, "interpolate: returns (no panic)", d); continue; };
        let g = graph_vals(xs, ys, x);
        if g.is_empty() { r.check(v.is_nan(), "interpolate: NaN outside the domain", d); }
        else if xs.contains(&x) { r.check(g.iter().any(|w| *w == v), "interpolate: the stored value at a knot", d); }
        else { r.check(g.iter().any(|w| close(*w, v)), "interpolate: the linear blend between knots", d); }
        r.check(guarded(|| s.f(x)).map_or(false, |w| same_val(w, v)), "Func1::f agrees with interpolate", d);
    }
    r.check(guarded(|| s.x_min()) == Some(x_min) && guarded(|| s.x_max()) == Some(x_max), "x_min / x_max are the first and last abscissa", || sd.clone());

    // ---- area
    let whole = area(xs, ys);
    let a_real = guarded(|| s.area_under());
    r.check(a_real.map_or(false, |a| close(a, whole)), "area_under: sum of the trapezoids", || sd.clone());

    // ---- slices (bounds: the probes plus two bounds a hair past / before a knot value)
    let mut sb: Vec<f64> = PROBES.to_vec();
    sb.push(1.0 + (2.0f64).powi(-50));
    sb.push(2.0 - (2.0f64).powi(-40));
    sb.sort_by(|a, b| a.partial_cmp(b).unwrap());
    for (i0, &x0) in sb.iter().enumerate() { for &x1 in sb[i0..].iter() {
        if x1 < x_min { continue; }    // stated precondition: the slice reaches into the domain from the left
        let d = || format!("{} between({:?}, {:?})", sd, x0, x1);
        let Some(p) = guarded(|| s.between(x0, x1)) else { r.check(false, "between: returns (no panic)", &d); continue; };
        check_piece(r, xs, ys, &p, x0, x1, "between", &d);
        if let Some(q) = guarded(|| s.in_interval(Interval::new(x0, x1))) {
            r.check(same_bits_or_eq(q.x.values(), p.x.values()) && same_bits_or_eq(&q.y, &p.y), "in_interval: the same piece as between(min, max)", &d);
        } else { r.check(false, "in_interval: returns (no panic)", &d); }
    } }

    // ---- splits
    for &x in sb.iter() {
        let d = || format!("{} split_at_x({:?})", sd, x);
        let Some((a, b)) = guarded(|| s.split_at_x(x)) else { r.check(false, "split_at_x: returns (no panic)", &d); continue; };
        let is_whole = |p: &Option<Series1>| p.as_ref().map_or(false, |p| p.x.values() == xs && p.y == ys);
        if x > x_max { r.check(is_whole(&a) && b.is_none(), "split_at_x: right of the domain: (whole, None)", &d); continue; }
        if x < x_min { r.check(a.is_none() && is_whole(&b), "split_at_x: left of the domain: (None, whole)", &d); continue; }
        let (Some(a), Some(b)) = (a, b) else { r.check(false, "split_at_x: two pieces inside the domain", &d); continue; };
        check_piece(r, xs, ys, &a, x_min, x, "split_at_x lower piece", &d);
        check_piece(r, xs, ys, &b, x, x_max, "split_at_x upper piece", &d);
        if inv(&a) && inv(&b) {
            let (aa, ab) = (guarded(|| a.area_under()), guarded(|| b.area_under()));
            r.check(matches!((aa, ab), (Some(p), Some(q)) if close(p + q, whole) && close(p, area(a.x.values(), &a.y)) && close(q, area(b.x.values(), &b.y))),
                "split_at_x: areas of the pieces add up to the whole", &d);
        }
    }

    // ---- resampling
    for &k in COUNTS.iter() { check_resampled(r, &s, xs, ys, &format!("{} resampled_n({})", sd, k), guarded(|| s.resampled_n(k)), Some(k)); }
    for &sp in SPACINGS.iter() { check_resampled(r, &s, xs, ys, &format!("{} resampled_x({:?})", sd, sp), guarded(|| s.resampled_x(sp)), None); }

    // ---- level crossings
    for &lv in LEVELS.iter() {
        let d = || format!("{} y_crossings({:?})", sd, lv);
        let Some(c) = guarded(|| s.y_crossings(lv)) else { r.check(false, "y_crossings: returns (no panic)", &d); continue; };
        r.check(c.iter().all(|x| x.is_finite()) && c.windows(2).all(|w| w[0] < w[1]), "y_crossings: finite, strictly ascending (unique)", &d);
        r.check(c.iter().all(|&x| graph_vals(xs, ys, x).iter().any(|w| close(*w, lv))), "y_crossings: the interpolant equals the level at every reported abscissa", &d);
        let want = crossings(xs, ys, lv);
        r.check(want.iter().all(|p| c.iter().any(|q| close(*p, *q))), "y_crossings: every abscissa where a segment meets the level is reported (knots on the level, flat segments included)", &d);
        r.check(same_set(&c, &want), "y_crossings: exactly the abscissae where the interpolant equals the level", &d);
    }

    // ---- scaling (negative factors included), shifting, chains
    for &sx in [-2.0, -1.0, -0.5, 0.5, 2.0].iter() { for &sy in [-1.0, 2.0].iter() {
        let d = || format!("{} scaled_by({:?}, {:?})", sd, sx, sy);
        let Some(t) = guarded(|| s.scaled_by(sx, sy)) else { r.check(false, "scaled_by: returns (no panic)", &d); continue; };
        r.check(inv(&t) && t.y.len() == n, "scaled_by: finite ascending abscissae with a matching number of ordinates", &d);
        if !(inv(&t) && t.y.len() == n) { continue; }
        let ok = (0..n).all(|k| { let q = if sx < 0.0 { n - 1 - k } else { k }; t.x.values()[q] == xs[k] * sx && t.y[q] == ys[k] * sy });
        r.check(ok, "scaled_by: point k maps to (sx * x, sy * y), order reversed for a negative factor", &d);
        r.check(t.x.values().first() != t.x.values().last() || x_min == x_max, "scaled_by: does not collapse", &d);
        let okf = probes.iter().filter(|p| p.is_finite()).all(|&p| {
            let g = graph_vals(xs, ys, p);
            guarded(|| t.interpolate(p * sx)).map_or(false, |v| if g.is_empty() { v.is_nan() } else { g.iter().any(|w| same_val(*w * sy, v)) })
        });
        r.check(okf, "scaled_by: the scaled series evaluates to sy * f(x) at sx * x", &d);
    } }
    for &dx in [-1.5, 0.0, 2.0].iter() {
        let dy = 0.5;
        let d = || format!("{} shift_by({:?}, {:?})", sd, dx, dy);
        let Some(t) = guarded(|| s.shift_by(dx, dy)) else { r.check(false, "shift_by: returns (no panic)", &d); continue; };
        r.check(inv(&t) && t.y.len() == n, "shift_by: finite ascending abscissae with a matching number of ordinates", &d);
        if !(inv(&t) && t.y.len() == n) { continue; }
        r.check((0..n).all(|k| t.x.values()[k] == xs[k] + dx && t.y[k] == ys[k] + dy), "shift_by: point k maps to (x + dx, y + dy)", &d);
    }
    // chain: mirror about x = 1.5 (scale by -1, shift by 3), slice, resample -- the invariant and the function survive
    if n >= 2 && x_min < x_max {
        let d = || format!("{} scaled_by(-1, 1).shift_by(3, 0).between(0.5, 2.5).resampled_n(5)", sd);
        let got = guarded(|| { let m = s.scaled_by(-1.0, 1.0).shift_by(3.0, 0.0); let lo = 0.5f64.max(m.x_min()); let hi = 2.5f64.min(m.x_max()); (m.clone(), if lo <= hi { Some((lo, hi, m.between(lo, hi))) } else { None }) });
        match got {
            None => r.check(false, "chain: returns (no panic)", &d),
            Some((m, piece)) => {
                r.check(inv(&m), "chain: mirrored series keeps the invariant", &d);
                let okm = PROBES.iter().all(|&p| { let g = graph_vals(xs, ys, 3.0 - p); guarded(|| m.interpolate(p)).map_or(false, |v| if g.is_empty() { v.is_nan() } else { g.iter().any(|w| same_val(*w, v)) }) });
                r.check(okm, "chain: the mirrored series evaluates to f(3 - x)", &d);
                if let Some((lo, hi, p)) = piece {
                    r.check(inv(&p) && !p.y.is_empty() && p.x_min() == lo && p.x_max() == hi, "chain: slice of the mirrored series ends at the requested bounds", &d);
                    if inv(&p) && !p.y.is_empty() {
                        let q = guarded(|| p.resampled_n(5));
                        r.check(q.as_ref().map_or(false, |q| inv(q) && q.y.len() == 5 && (0..5).all(|k| on_graph(m.x.values(), &m.y, q.x.values()[k], q.y[k]))),
                            "chain: resampled slice lies on the mirrored graph", &d);
                    }
                }
            }
        }
    }
}

fn check_resampled(r: &mut Report, s: &Series1, xs: &[f64], ys: &[f64], desc: &str, got: Option<Series1>, want_n: Option<usize>) {
    let d = || desc.to_string();
    let n = xs.len();
    let Some(t) = got else { r.check(false, "resampled: returns (no panic)", d); return; };
    r.check(inv(&t), "resampled: finite ascending abscissae with a matching number of ordinates", d);
    if !inv(&t) { return; }
    let tx = t.x.values();
    if let Some(k) = want_n { r.check(tx.len() == k, "resampled_n: n points", d); }
    r.check(tx.len() >= 1, "resampled: non-empty", d);
    if tx.is_empty() { return; }
    r.check(tx[0] == xs[0], "resampled: keeps the first end point exactly", d);
    // two clauses for the last point: it never lies beyond the domain (the clamp), and it is the end point exactly
    r.check(tx[tx.len() - 1] <= xs[n - 1] && tx.iter().all(|x| *x >= xs[0]), "resampled: no abscissa outside [x_min, x_max]", d);
    r.check(tx[tx.len() - 1] == xs[n - 1], "resampled: keeps the last end point exactly", d);
    r.check((0..tx.len()).all(|k| !t.y[k].is_nan() && on_graph(xs, ys, tx[k], t.y[k])), "resampled: every point lies on the piecewise-linear graph (finite ordinates)", d);
    if tx.len() >= 2 {
        let step = (xs[n - 1] - xs[0]) / ((tx.len() - 1) as f64);
        r.check((0..tx.len()).all(|k| close(tx[k], xs[0] + (k as f64) * step)), "resampled: evenly spaced", d);
    }
    let _ = s;
}

fn check_nan_removal(r: &mut Report) {
    let yn = [f64::NAN, f64::INFINITY, f64::NEG_INFINITY, 0.0, 1.0];
    for len in 1..=4usize {
        let xs_set: &[f64] = if len <= 3 { &XS } else { &XS[..4] };
        ascending_tuples(xs_set, len, &mut |xs| {
            tuples(&yn, len, &mut |ys| {
                r.case();
                let d = || format!("Series1 x={:?} y={:?} remove_nan()", xs, ys);
                let Ok(s) = Series1::try_new(xs.to_vec(), ys.to_vec()) else { r.check(false, "try_new: valid input is accepted", d); return; };
                let Some(t) = guarded(|| s.remove_nan()) else { r.check(false, "remove_nan: returns (no panic)", d); return; };
                r.check(inv(&t), "remove_nan: finite ascending abscissae with a matching number of ordinates", d);
                let keep: Vec<usize> = (0..len).filter(|k| !ys[*k].is_nan()).collect();
                r.check(t.y.iter().all(|v| !v.is_nan()), "remove_nan: no NaN ordinate is left", d);
                r.check(t.y.len() == keep.len() && t.x.values().len() == keep.len() && keep.iter().enumerate().all(|(q, &k)| t.x.values()[q] == xs[k] && t.y[q] == ys[k]),
                    "remove_nan: exactly the points with a non-NaN ordinate are kept, in order", d);
                r.check(keep.iter().all(|&k| (0..t.y.len().min(t.x.values().len())).any(|q| t.x.values()[q] == xs[k] && t.y[q] == ys[k])),
                    "remove_nan: every parent point with a non-NaN ordinate (infinite ones included) is kept", d);
                r.check(guarded(|| s.has_nan()) == Some(keep.len() != len), "has_nan: true exactly when an ordinate is NaN", d);
                for (x0, x1) in [(0.0, 0.5), (0.75, 2.0), (1.0, 1.0), (-1.0, 4.0)] {
                    let want = (0..len).any(|k| ys[k].is_nan() && xs[k] >= x0 && xs[k] <= x1);
                    r.check(guarded(|| s.has_nan_between(x0, x1)) == Some(want), "has_nan_between: true exactly when a NaN ordinate lies in [x0, x1]", || format!("{} has_nan_between({:?}, {:?})", d(), x0, x1));
                }
            });
        });
    }
}

/// two-knot series whose even stepping is inexact in binary: both end points must still be kept
fn check_inexact_stepping(r: &mut Report) {
    for &a in [0.0, 0.1, 1.0 / 3.0].iter() { for k in 1..=19 {
        let b = a + (k as f64) / 10.0;
        let xs = [a, b];
        let ys = [1.0, 2.0];
        let Ok(s) = Series1::try_new(xs.to_vec(), ys.to_vec()) else { continue; };
        r.case();
        for n in 2..=24usize {
            check_resampled(r, &s, &xs, &ys, &format!("Series1 x={:?} y={:?} resampled_n({})", xs, ys, n), guarded(|| s.resampled_n(n)), Some(n));
        }
        for sp in [0.1, 0.3, 0.07] {
            check_resampled(r, &s, &xs, &ys, &format!("Series1 x={:?} y={:?} resampled_x({:?})", xs, ys, sp), guarded(|| s.resampled_x(sp)), None);
        }
    } }
}

// ------------------------------------------------------------------------------------------------ wave 4 additions
fn ulp_up(x: f64) -> f64 { if x > 0.0 { f64::from_bits(x.to_bits() + 1) } else if x < 0.0 { -f64::from_bits((-x).to_bits() - 1) } else { f64::from_bits(1) } }

/// validation helpers and constructors on vectors whose neighbours are ONE ROUNDING STEP apart (0.3 / 0.1+0.2,
/// 1 / 1+2^-52, -1 / -1+2^-53, 0 / 5e-324): "ascending" means w[0] <= w[1] exactly, "descending" w[0] >= w[1] exactly;
/// push chains of length <= 4 (a value strictly between the first and the last one must be refused).
fn check_rounding_step_neighbours(r: &mut Report) {
    use crate::common::vec_f64::{are_all_finite, are_in_ascending_order, are_in_descending_order};
    let pool = [-1.0, ulp_up(-1.0), 0.0, 5e-324, 0.3, 0.1 + 0.2, 1.0, ulp_up(1.0), f64::INFINITY, f64::NAN];
    for len in 0..=4usize {
        tuples(&pool, len, &mut |v| {
            r.case();
            let asc = v.windows(2).all(|w| w[0] <= w[1]);
            let desc = v.windows(2).all(|w| w[0] >= w[1]);
            let fin = v.iter().all(|x| x.is_finite());
            let d = || format!("{:?}", v);
            r.check(guarded(|| are_all_finite(v)) == Some(fin), "vec_f64::are_all_finite: true exactly when no value is NaN or infinite", d);
            r.check(guarded(|| are_in_ascending_order(v)) == Some(asc), "vec_f64::are_in_ascending_order: true exactly when w[0] <= w[1] for every neighbouring pair (no slack, not even one rounding step)", d);
            r.check(guarded(|| are_in_descending_order(v)) == Some(desc), "vec_f64::are_in_descending_order: true exactly when w[0] >= w[1] for every neighbouring pair (no slack, not even one rounding step)", d);
            let valid = fin && asc;
            let dd = || format!("DiscreteDomain::try_from({:?})", v);
            match guarded(|| DiscreteDomain::try_from(v.to_vec())) {
                None => r.check(false, "try_from: returns (no panic)", dd),
                Some(Ok(dom)) => {
                    r.check(valid, "try_from: Ok only for finite ascending values (never a silently invalid domain)", dd);
                    r.check(same_bits_or_eq(dom.values(), v), "try_from: the accepted domain holds exactly the given values", dd);
                }
                Some(Err(_)) => r.check(!valid, "try_from: finite ascending values are accepted", dd),
            }
            let y: Vec<f64> = (0..len).map(|k| k as f64).collect();
            let d2 = || format!("Series1::try_new({:?}, {:?})", v, y);
            match guarded(|| Series1::try_new(v.to_vec(), y.clone())) {
                None => r.check(false, "try_new: returns (no panic)", d2),
                Some(Ok(_)) => r.check(valid, "try_new: Ok only for finite ascending abscissae with a matching number of ordinates", d2),
                Some(Err(_)) => r.check(!valid, "try_new: valid input is accepted", d2),
            }
        });
    }
    let pushes = [-1.0, 0.0, 0.3, 0.1 + 0.2, 1.0, 2.0, 3.0, f64::NEG_INFINITY, f64::NAN];
    tuples(&pushes, 4, &mut |seq| {
        r.case();
        let d = || format!("DiscreteDomain::default() then push each of {:?}", seq);
        let mut dom = DiscreteDomain::default();
        let mut model: Vec<f64> = vec![];
        for &v in seq {
            let expect_ok = v.is_finite() && model.last().map_or(true, |l| v >= *l);
            match guarded(|| dom.push(v).is_ok()) {
                None => { r.check(false, "push: returns (no panic)", d); return; }
                Some(ok) => {
                    r.check(ok == expect_ok, "push: Ok exactly for a finite value not below the last one", d);
                    if ok && expect_ok { model.push(v); }
                }
            }
            r.check(finite_ascending(dom.values()), "push: the domain stays finite and ascending", d);
            let same = same_bits_or_eq(dom.values(), &model);
            r.check(same, "push: appends the accepted value, leaves the domain unchanged on error", d);
            if !same { return; }
        }
    });
}

/// derived operations whose parameter or result leaves the finite range: shifting / scaling by +-inf or NaN, and by
/// finite amounts that overflow the abscissae (|x| up to 1e308): the result is finite ascending with matching
/// ordinates, or the call fails loudly (these functions return Self: the failure is the unwrap panic of the
/// validating constructor) - never a silently invalid object.
fn check_nonfinite_derivations(r: &mut Report) {
    let series: Vec<(Vec<f64>, Vec<f64>)> = vec![
        (vec![0.0], vec![1.0]), (vec![0.0, 1.0], vec![1.0, 2.0]), (vec![-1.0, 0.0, 0.5, 3.0], vec![0.0, 1.0, -1.0, 2.0]), (vec![1.0, 1.0, 2.0], vec![0.0, 1.0, 2.0]),
        (vec![-1e308, 0.0, 1e308], vec![0.0, 1.0, 2.0]), (vec![1e308, 1.5e308], vec![0.0, 1.0]), (vec![-1.7e308, -1e308], vec![0.0, 1.0]),
    ];
    let params = [f64::INFINITY, f64::NEG_INFINITY, f64::NAN, 1e308, -1e308, f64::MAX, f64::MIN, 10.0, -10.0, 2.0, -2.0, 1e-320];
    for (xs, ys) in series.iter() {
        let Ok(s) = Series1::try_new(xs.clone(), ys.clone()) else { r.check(false, "try_new: valid input is accepted", || format!("{:?} {:?}", xs, ys)); continue; };
        for &p in params.iter() {
            r.case();
            let d = || format!("Series1 x={:?} y={:?} shift_by({:?}, 0.5)", xs, ys, p);
            if let Some(t) = guarded(|| s.shift_by(p, 0.5)) {
                r.check(inv(&t) && t.y.len() == xs.len(), "shift_by, non-finite shift or overflowing abscissae: finite ascending abscissae with matching ordinates, or a loud failure - never a silently invalid series", d);
            }
            let d = || format!("Series1 x={:?} y={:?} scaled_by({:?}, 2.0)", xs, ys, p);
            if let Some(t) = guarded(|| s.scaled_by(p, 2.0)) {
                r.check(inv(&t) && t.y.len() == xs.len(), "scaled_by, non-finite factor or overflowing abscissae: finite ascending abscissae with matching ordinates, or a loud failure - never a silently invalid series", d);
            }
        }
        let yn: Vec<f64> = ys.iter().enumerate().map(|(k, v)| if k % 2 == 0 { f64::NAN } else { *v }).collect();
        if let Ok(sn) = Series1::try_new(xs.clone(), yn.clone()) {
            let d = || format!("Series1 x={:?} y={:?} remove_nan()", xs, yn);
            if let Some(t) = guarded(|| sn.remove_nan()) { r.check(inv(&t), "remove_nan: finite ascending abscissae with a matching number of ordinates", d); }
        }
    }
}

pub fn run() -> Option<Report> {
    let mut r = Report::new("constructors on every vector of length <= 4 over {-inf,-1,0,0.5,1,+inf,NaN}, push chains <= 3, linear/linear_space over bounds {-1,0,0.5,1,2,3}^2 x n in {2,3,4,5,9}; every series with 1..=4 non-decreasing abscissae over {0,0.5,1,2,3} and ordinates over {-1,0,1,2}: interpolate / between / in_interval / split_at_x / area_under / resampled_n / resampled_x / y_crossings / scaled_by / shift_by / one chain, probes and bounds over 11 values in [-1,4] plus 1+2^-50 and 2-2^-40 for slices/splits, 8 levels, counts {2,3,4,5,7,9}; two-knot series with inexact stepping x counts 2..=24; remove_nan / has_nan / has_nan_between with ordinates over {NaN,+inf,-inf,0,1}; wave 4: vec_f64 validation helpers, try_from and try_new on every vector of length <= 4 over {-1, -1+2^-53, 0, 5e-324, 0.3, 0.1+0.2, 1, 1+2^-52, +inf, NaN} (neighbours one rounding step apart), push chains of length 4 over {-1, 0, 0.3, 0.1+0.2, 1, 2, 3, -inf, NaN}; shift_by / scaled_by with parameters {+-inf, NaN, +-1e308, +-f64::MAX, +-10, +-2, 1e-320} on 7 series incl. abscissae up to +-1.7e308");
    // the real code is called under catch_unwind: keep the default hook from printing one message per caught panic
    let hook = std::panic::take_hook();
    std::panic::set_hook(Box::new(|_| {}));
    let res = catch_unwind(AssertUnwindSafe(|| {
        check_constructors(&mut r);
        for len in 1..=4usize {
            ascending_tuples(&XS, len, &mut |xs| {
                tuples(&YS, len, &mut |ys| check_series(&mut r, xs, ys));
            });
        }
        check_inexact_stepping(&mut r);
        check_nan_removal(&mut r);
        check_rounding_step_neighbours(&mut r);
        check_nonfinite_derivations(&mut r);
    }));
    std::panic::set_hook(hook);
    if res.is_err() { r.check(false, "the bounded check itself completes (no panic outside a guarded call)", || "see stderr".to_string()); }
    Some(r)
}
