//! C20 bounded: conformal flattening (`MeshEdges::boundary_first_flatten`) is an isometry on planar disks and never
//! folds them; it depends only on connectivity and edge lengths; non-disks are rejected; UV maps round-trip.
//! TESTING-GRADE evidence on a stated bound (the property is about the solution of linear systems in floats: nothing here
//! is deduction).  Deterministic: all "random" choices come from a fixed LCG; the only non-determinism is inside the code
//! under test (the start vertex of the boundary loop depends on std's RandomState), which is why every comparison is "up to
//! a planar rigid motion" (a fitted proper rotation + translation) and why every mesh is flattened more than once.
//!
//! (a) PLANAR DISKS.  Families: jittered grids nx x ny (vertex (i, j) moved by an LCG jitter of at most 0.2 of the pitch
//!     in x and y; diagonals fixed "/", alternating, LCG-chosen, locally Delaunay), with cell masks giving rectangle, L, U
//!     and plus outlines; polar meshes (centre + rings x spokes; rings = 1 is a pure fan) with round and star (spoke radii
//!     alternating 1 / 0.55) outlines; strips (2 x n vertices, NO inner vertex), a single triangle and a two-triangle
//!     square (no inner vertex).  Each in vertex numberings {as built, reversed, LCG shuffle}, face storage {as built,
//!     corners rotated by face index and face order LCG-shuffled}, winding {CCW, CW (every face flipped)}, scales
//!     {1, 1e-3, 1e3} and 5 poses (identity; general rotations with translations up to 2e3; plane turned into xz; turned
//!     over).  Clauses: Ok; one position per vertex; every position finite; every edge keeps its 3D length (relative
//!     TOL_LEN); every triangle has positive orientation in UV and keeps its area (TOL_LEN); the whole result is the image
//!     of the planar input coordinates under ONE proper planar rigid motion (residual <= TOL_FIT x diameter).
//! (b) CURVED DISKS (spherical caps, saddles, half cylinder; jittered): Ok, one finite position per vertex; with the
//!     stored boundary loop beginning at the same vertex, the result for the moved mesh (4 poses) and for a second call is
//!     the first result up to a proper planar rigid motion (TOL_INV x diameter) and the result of the mesh scaled by s is
//!     s x the result.  OWN CLAUSE "[boundary-loop start vertex]": the same holds when the stored loop begins at another
//!     vertex (1, 1/4, 1/2, 3/4 of the loop further) -- `boundary_loops` picks that vertex from a std HashSet, so this is
//!     what two plain calls on the same mesh differ by.  On the unchanged tree the results differ by up to 3.3e-3 of the
//!     diameter (x is the harmonic extension of the boundary abscissae, y its discrete conjugate: the pair is not
//!     equivariant under rotation of the boundary curve, whose direction is set by the first loop vertex).
//! (c) REJECTION, every call on a helper thread under a watchdog: closed box, closed tetrahedron, annulus (2 boundaries),
//!     disk with two holes, two separate disks, a fin (edge in three faces: `calc_edges` already refuses), single-boundary
//!     inputs that are not disks (disk + separate closed box; torus with one hole).  Each: the call
//!     `calc_edges()?.boundary_first_flatten()` returns, does not panic, and returns Err.  LAST of the whole run (2 s
//!     watchdog): two triangles sharing ONE vertex (D7: the boundary successor map is not a bijection there; since the
//!     D7 repair `identify_edges` answers Err for it - before, `boundary_loops` never returned and the stuck thread died
//!     with the process).
//! (d) UV ROUND TRIP: Mesh::new_with_uv with (i) the flattening result of planar and curved disks, (ii) hand-made UV
//!     maps (sheared / scaled copies of a parameter plane).  For every face f and 10 barycentric weights (interior, on
//!     edges, at vertices): uv = UvMapping::point(f, w) is the w-combination of the face's UV corners; uv_to_3d(uv) is the
//!     w-combination of the SAME face's 3D corners (and, for interior weights, carries that face's normal);
//!     uv_with_tol(that 3D point) gives uv back with depth 0.
//! (e) PARAMETER-SPACE AUDIT (wave 5).  MAGNITUDES: planar disks scaled by 1e-9 .. 1e6 (extent 1e-9 .. 1e7; tiny ones only in
//!     poses without a translation, so that the INPUT keeps its digits); a 40 x 40 grid (1681 vertices).  NEEDLES: triangles
//!     of aspect 1000 : 1 -- a whole grid stretched by 1000 (corner angles of 0.001 rad, cot = +1000), one thin column of
//!     cells between ordinary ones, and caps (an inner / boundary vertex 0.001 off an edge: a corner angle of pi - 0.002 rad,
//!     cot = -1000), up to 3000 : 1.  The isometry clauses are the same as in (a).  UV QUERIES: every uv_samples mesh again
//!     in FAR poses (1e4, 1e6 from the origin), reached both by building it there and by `Mesh::transform`; uv_with_tol with
//!     the angle tolerance pi AND 0.3 rad (a point ON the surface has no offset direction: it must be answered whatever the
//!     angle tolerance), with a large search distance, and through `Some(transform)` (the query given in another frame);
//!     hand-made UV maps far from the UV origin (1e4, 1e6).  SEQUENCES on a UV-carrying mesh: clone, transform there and
//!     back, new_with_options(.., Some(uv)), `append` of / to a mesh without a UV map (whatever append answers, a mesh that
//!     carries a UV map afterwards must round-trip a point of EVERY face it now has: 3D -> uv -> 3D, no panic).
use super::{thorough, Report};
use crate::geom2::Point2;
use crate::geom3::{Iso3, Mesh, Point3, UvMapping, Vector3};
use std::sync::mpsc;
use std::time::Duration;

/// relative tolerance on edge lengths / areas of a flattened PLANAR disk.  The flattening solves with the matrix
/// L + 1e-8 I ("added for stability" in the source), so its result is exact only to about 1e-8 / lambda_min(L), which
/// grows with (diameter / pitch)^2.  Measured on the unchanged tree over the family below AND every boundary-loop start
/// (`VERIF_C20_ALLSTARTS=1 VERIF_C20_VERBOSE=1`): worst relative edge error 5.7e-6 (the 40-cell strip; 2e-6 elsewhere),
/// area 5.8e-6, rigid fit 1.5e-6 of the diameter.  Fixed at 3.5 x the worst measured value.
const TOL_LEN: f64 = 2e-5;
/// residual of the fitted rigid motion, relative to the diameter (measured 1.5e-6)
const TOL_FIT: f64 = 1e-5;
/// invariance of the result (curved disks, same stored boundary loop) under rigid motion / repetition / scaling, relative
/// to the diameter (measured 2.2e-14 with translations up to 2e3)
const TOL_INV: f64 = 1e-9;
/// dependence of the result on the vertex at which the stored boundary loop begins, relative to the diameter: the level
/// of the planar accuracy above (measured on the unchanged tree: up to 3.3e-3, a discretisation-size effect, see the
/// "[boundary-loop start vertex]" clause)
const TOL_START: f64 = 2e-5;

// ------------------------------------------------------------------------------------------------ deterministic noise
struct Lcg(u64);
impl Lcg {
    fn next(&mut self) -> u64 {
        self.0 = self.0.wrapping_mul(6364136223846793005).wrapping_add(1442695040888963407);
        self.0 >> 33
    }
    /// uniform in [-1, 1)
    fn unit(&mut self) -> f64 { (self.next() as f64) / ((1u64 << 30) as f64) - 1.0 }
    fn below(&mut self, n: usize) -> usize { (self.next() % (n as u64)) as usize }
    fn shuffle<T>(&mut self, v: &mut [T]) {
        for i in (1..v.len()).rev() {
            let j = self.below(i + 1);
            v.swap(i, j);
        }
    }
}

// ------------------------------------------------------------------------------------------------ planar mesh builders
#[derive(Clone)]
struct Flat {
    name: String,
    pts: Vec<[f64; 2]>,
    faces: Vec<[u32; 3]>,
}

fn area2(a: [f64; 2], b: [f64; 2], c: [f64; 2]) -> f64 { 0.5 * ((b[0] - a[0]) * (c[1] - a[1]) - (c[0] - a[0]) * (b[1] - a[1])) }

#[derive(Clone, Copy, PartialEq, Debug)]
enum Diag { Slash, Alternate, Random, Delaunay }

/// jittered grid of nx x ny cells, cells kept where `keep(i, j)`; unused vertices dropped
fn grid(name: &str, nx: usize, ny: usize, jitter: f64, diag: Diag, seed: u64, keep: &dyn Fn(usize, usize) -> bool) -> Flat {
    let mut g = Lcg(seed);
    let mut all = Vec::new();
    for j in 0..=ny {
        for i in 0..=nx {
            let (dx, dy) = (g.unit() * jitter, g.unit() * jitter);
            all.push([i as f64 + dx, j as f64 + dy]);
        }
    }
    let id = |i: usize, j: usize| j * (nx + 1) + i;
    let mut faces_all: Vec<[usize; 3]> = Vec::new();
    for j in 0..ny {
        for i in 0..nx {
            let coin = g.below(2) == 0; // drawn for every cell so that masks do not shift the sequence
            if !keep(i, j) { continue; }
            let (a, b, c, d) = (id(i, j), id(i + 1, j), id(i + 1, j + 1), id(i, j + 1));
            let slash = match diag {
                Diag::Slash => true,
                Diag::Alternate => (i + j) % 2 == 0,
                Diag::Random => coin,
                Diag::Delaunay => {
                    // diagonal a-c is locally Delaunay when the angles at b and d sum to <= pi
                    let ang = |p: [f64; 2], q: [f64; 2], r: [f64; 2]| {
                        let (u, v) = ([q[0] - p[0], q[1] - p[1]], [r[0] - p[0], r[1] - p[1]]);
                        (u[0] * v[1] - u[1] * v[0]).atan2(u[0] * v[0] + u[1] * v[1]).abs()
                    };
                    ang(all[b], all[a], all[c]) + ang(all[d], all[a], all[c]) <= std::f64::consts::PI
                }
            };
            if slash {
                faces_all.push([a, b, c]);
                faces_all.push([a, c, d]);
            } else {
                faces_all.push([a, b, d]);
                faces_all.push([b, c, d]);
            }
        }
    }
    compact(name, all, faces_all)
}

fn compact(name: &str, all: Vec<[f64; 2]>, faces_all: Vec<[usize; 3]>) -> Flat {
    let mut map = vec![u32::MAX; all.len()];
    let mut pts = Vec::new();
    for f in faces_all.iter() {
        for &v in f.iter() {
            if map[v] == u32::MAX {
                map[v] = pts.len() as u32;
                pts.push(all[v]);
            }
        }
    }
    let faces = faces_all.iter().map(|f| [map[f[0]], map[f[1]], map[f[2]]]).collect();
    Flat { name: name.to_string(), pts, faces }
}

/// centre + `rings` rings of `spokes` vertices; radius of ring k on spoke i is (k +- 0.6 jitter) x (star ? alternating 1 / 0.55 : 1), angle jittered by 0.6 (star: 0.2) jitter of the spoke pitch
fn polar(name: &str, rings: usize, spokes: usize, star: bool, jitter: f64, seed: u64) -> Flat {
    let mut g = Lcg(seed);
    let mut all = vec![[0.1 * jitter, -0.07 * jitter]];
    for k in 1..=rings {
        for i in 0..spokes {
            let m = if star && i % 2 == 1 { 0.55 } else { 1.0 };
            let rad = m * (k as f64 + 0.6 * jitter * g.unit());
            let th = (i as f64 + (if star { 0.2 } else { 0.6 }) * jitter * g.unit()) * 2.0 * std::f64::consts::PI / spokes as f64;
            all.push([rad * th.cos(), rad * th.sin()]);
        }
    }
    let id = |k: usize, i: usize| 1 + (k - 1) * spokes + (i % spokes);
    let mut faces: Vec<[usize; 3]> = Vec::new();
    for i in 0..spokes { faces.push([0, id(1, i), id(1, i + 1)]); }
    for k in 1..rings {
        for i in 0..spokes {
            let (a, b, c, d) = (id(k, i), id(k + 1, i), id(k + 1, i + 1), id(k, i + 1));
            if (i + k) % 2 == 0 {
                faces.push([a, b, c]);
                faces.push([a, c, d]);
            } else {
                faces.push([a, b, d]);
                faces.push([b, c, d]);
            }
        }
    }
    compact(name, all, faces)
}

/// renumber the vertices: mode 0 as built, 1 reversed, 2 LCG shuffle;  storage: false as built, true = corners of face f
/// rotated by f % 3 and faces LCG-shuffled;  flip: every face [a, b, c] -> [a, c, b] (CW in the plane coordinates)
fn variant(m: &Flat, numbering: u8, storage: bool, flip: bool, seed: u64) -> Flat {
    let n = m.pts.len();
    let mut g = Lcg(seed);
    let mut perm: Vec<usize> = (0..n).collect(); // perm[old] = new
    match numbering {
        1 => perm.reverse(),
        2 => g.shuffle(&mut perm),
        _ => {}
    }
    let mut pts = vec![[0.0; 2]; n];
    for (old, &new) in perm.iter().enumerate() { pts[new] = m.pts[old]; }
    let mut faces: Vec<[u32; 3]> = m.faces.iter().map(|f| [perm[f[0] as usize] as u32, perm[f[1] as usize] as u32, perm[f[2] as usize] as u32]).collect();
    if storage {
        for (k, f) in faces.iter_mut().enumerate() { f.rotate_left(k % 3); }
        g.shuffle(&mut faces);
    }
    if flip {
        for f in faces.iter_mut() { f.swap(1, 2); }
    }
    Flat { name: format!("{} [numbering {}, storage {}, {}]", m.name, numbering, if storage { "shuffled" } else { "as built" }, if flip { "CW" } else { "CCW" }), pts, faces }
}

// ------------------------------------------------------------------------------------------------ poses
fn poses() -> Vec<(&'static str, Iso3)> {
    vec![
        ("identity", Iso3::identity()),
        ("rot (0.3,-1.1,0.7) + (100,-50,25)", Iso3::new(Vector3::new(100.0, -50.0, 25.0), Vector3::new(0.3, -1.1, 0.7))),
        ("quarter turn about x + (0,0,7)", Iso3::new(Vector3::new(0.0, 0.0, 7.0), Vector3::new(std::f64::consts::FRAC_PI_2, 0.0, 0.0))),
        ("rot (2,2,-1) + (-1000,2000,500)", Iso3::new(Vector3::new(-1000.0, 2000.0, 500.0), Vector3::new(2.0, 2.0, -1.0))),
        ("half turn about x (turned over)", Iso3::new(Vector3::new(0.0, 0.0, 0.0), Vector3::new(std::f64::consts::PI, 0.0, 0.0))),
    ]
}

// ------------------------------------------------------------------------------------------------ oracles
fn flatten(mesh: &Mesh) -> Result<Vec<Point2>, String> { flatten_from(mesh, None) }

/// `start = None`: the plain call `calc_edges()?.boundary_first_flatten()`; the vertex at which the stored boundary loop
/// begins is then whatever std's RandomState made `boundary_loops` pick.  `start = Some(k)`: the same call with the (single)
/// stored loop rotated so that it begins k places after its smallest vertex id -- a state `calc_edges` itself produces
/// with probability 1 / (loop length); this makes the run reproducible.
fn flatten_from(mesh: &Mesh, start: Option<usize>) -> Result<Vec<Point2>, String> {
    // a panic inside the code under test is an answer as well (reported with the input by the caller's "returns Ok" clause)
    match std::panic::catch_unwind(std::panic::AssertUnwindSafe(|| flatten_from_inner(mesh, start))) {
        Ok(r) => r,
        Err(p) => Err(format!("PANIC: {}", p.downcast_ref::<String>().cloned().or(p.downcast_ref::<&str>().map(|s| s.to_string())).unwrap_or_default())),
    }
}
fn flatten_from_inner(mesh: &Mesh, start: Option<usize>) -> Result<Vec<Point2>, String> {
    let mut e = mesh.calc_edges().map_err(|e| format!("calc_edges: {}", e))?;
    if let (Some(k), 1) = (start, e.boundary_loops.len()) {
        let l = &mut e.boundary_loops[0];
        if !l.is_empty() {
            let n = l.len();
            let at = (0..n).min_by_key(|&i| l[i]).unwrap();
            l.rotate_left((at + k) % n);
        }
    }
    e.boundary_first_flatten().map_err(|e| format!("boundary_first_flatten: {}", e))
}

fn loop_len(mesh: &Mesh) -> usize { mesh.calc_edges().ok().and_then(|e| e.boundary_loops.first().map(|l| l.len())).unwrap_or(1).max(1) }

fn all_edges(faces: &[[u32; 3]]) -> Vec<(usize, usize)> {
    let mut v = Vec::new();
    for f in faces {
        for k in 0..3 {
            let (a, b) = (f[k] as usize, f[(k + 1) % 3] as usize);
            v.push((a.min(b), a.max(b)));
        }
    }
    v.sort();
    v.dedup();
    v
}

/// best proper rigid motion p -> R p + t taking `from` onto `to`; returns the largest residual
fn fit_residual(from: &[[f64; 2]], to: &[[f64; 2]]) -> f64 {
    let n = from.len() as f64;
    let cen = |v: &[[f64; 2]]| { let mut c = [0.0; 2]; for p in v { c[0] += p[0]; c[1] += p[1]; } [c[0] / n, c[1] / n] };
    let (cf, ct) = (cen(from), cen(to));
    let (mut a, mut b) = (0.0, 0.0);
    for (p, q) in from.iter().zip(to.iter()) {
        let (p, q) = ([p[0] - cf[0], p[1] - cf[1]], [q[0] - ct[0], q[1] - ct[1]]);
        a += p[0] * q[0] + p[1] * q[1];
        b += p[0] * q[1] - p[1] * q[0];
    }
    let h = (a * a + b * b).sqrt();
    if !(h > 0.0) { return f64::INFINITY; }
    let (c, s) = (a / h, b / h);
    let mut worst: f64 = 0.0;
    for (p, q) in from.iter().zip(to.iter()) {
        let (p, q) = ([p[0] - cf[0], p[1] - cf[1]], [q[0] - ct[0], q[1] - ct[1]]);
        let r = [c * p[0] - s * p[1] - q[0], s * p[0] + c * p[1] - q[1]];
        worst = worst.max((r[0] * r[0] + r[1] * r[1]).sqrt());
    }
    worst
}

fn diameter(v: &[[f64; 2]]) -> f64 {
    let (mut lo, mut hi) = ([f64::INFINITY; 2], [f64::NEG_INFINITY; 2]);
    for p in v { for k in 0..2 { lo[k] = lo[k].min(p[k]); hi[k] = hi[k].max(p[k]); } }
    ((hi[0] - lo[0]).powi(2) + (hi[1] - lo[1]).powi(2)).sqrt()
}

fn to_arr(v: &[Point2]) -> Vec<[f64; 2]> { v.iter().map(|p| [p.x, p.y]).collect() }

struct Worst { len: f64, area: f64, fit: f64, inv: f64, start: f64, rt: f64 }

fn lift(m: &Flat, scale: f64, iso: &Iso3) -> Vec<Point3> { m.pts.iter().map(|p| iso * Point3::new(p[0] * scale, p[1] * scale, 0.0)).collect() }

/// clauses (a) for one planar disk in one pose
fn check_planar(r: &mut Report, w: &mut Worst, m: &Flat, flipped: bool, scale: f64, pose: &(&'static str, Iso3), start: Option<usize>) -> Option<Vec<[f64; 2]>> {
    let verts = lift(m, scale, &pose.1);
    let mesh = Mesh::new(verts.clone(), m.faces.clone(), false);
    let d = || format!("{} ({} vertices, {} faces), scale {}, pose {}, boundary loop start {}", m.name, m.pts.len(), m.faces.len(), scale, pose.0, start.map(|k| format!("smallest id + {}", k)).unwrap_or("as stored (hash order)".to_string()));
    r.case();
    let res = flatten_from(&mesh, start);
    r.check(res.is_ok(), "planar disk: flattening returns Ok", || format!("{}: {}", d(), res.as_ref().err().cloned().unwrap_or_default()));
    let uv = to_arr(&res.ok()?);
    r.check(uv.len() == m.pts.len(), "planar disk: one 2D position per vertex", || format!("{}: {} positions", d(), uv.len()));
    if uv.len() != m.pts.len() { return None; }
    let finite = uv.iter().all(|p| p[0].is_finite() && p[1].is_finite());
    r.check(finite, "planar disk: every position is finite", || d());
    if !finite { return None; }
    // edges keep their 3D length
    let mut worst_e = (0.0f64, (0usize, 0usize), 0.0, 0.0);
    for &(a, b) in all_edges(&m.faces).iter() {
        let l3 = (verts[a] - verts[b]).norm();
        let l2 = ((uv[a][0] - uv[b][0]).powi(2) + (uv[a][1] - uv[b][1]).powi(2)).sqrt();
        let e = (l2 - l3).abs() / l3;
        if e > worst_e.0 { worst_e = (e, (a, b), l3, l2); }
    }
    w.len = w.len.max(worst_e.0);
    r.check(worst_e.0 <= TOL_LEN, "planar disk: every edge keeps its 3D length", || format!("{}: edge {:?} has 3D length {} and UV length {} (relative error {:.3e})", d(), worst_e.1, worst_e.2, worst_e.3, worst_e.0));
    // triangles: positive orientation, same area
    let mut neg = None;
    let mut worst_a = (0.0f64, 0usize);
    for (k, f) in m.faces.iter().enumerate() {
        let a2 = area2(uv[f[0] as usize], uv[f[1] as usize], uv[f[2] as usize]);
        let a3 = 0.5 * (verts[f[1] as usize] - verts[f[0] as usize]).cross(&(verts[f[2] as usize] - verts[f[0] as usize])).norm();
        if !(a2 > 0.0) && neg.is_none() { neg = Some((k, a2)); }
        let e = (a2 - a3).abs() / a3;
        if e > worst_a.0 { worst_a = (e, k); }
    }
    w.area = w.area.max(worst_a.0);
    r.check(neg.is_none(), "planar disk: every triangle keeps positive orientation", || format!("{}: face {:?} has signed UV area {:?}", d(), neg.map(|x| m.faces[x.0]), neg.map(|x| x.1)));
    r.check(worst_a.0 <= 4.0 * TOL_LEN, "planar disk: every triangle keeps its area", || format!("{}: face {} relative area error {:.3e}", d(), worst_a.1, worst_a.0));
    // the original shape up to ONE proper rigid motion (CW-stored faces see the plane from below: mirrored coordinates)
    let reference: Vec<[f64; 2]> = m.pts.iter().map(|p| [p[0] * scale, if flipped { -p[1] * scale } else { p[1] * scale }]).collect();
    let fit = fit_residual(&reference, &uv) / diameter(&reference);
    w.fit = w.fit.max(fit);
    if std::env::var("VERIF_C20_VERBOSE").is_ok() && (fit > 1e-6 || worst_e.0 > 2e-6) { eprintln!("  planar {}: edge {:.3e} area {:.3e} fit {:.3e}", d(), worst_e.0, worst_a.0, fit); }
    r.check(fit <= TOL_FIT, "planar disk: the result is the original shape up to a proper planar rigid motion", || format!("{}: residual / diameter = {:.3e}", d(), fit));
    Some(uv)
}

// ------------------------------------------------------------------------------------------------ curved disks
struct Curved { name: String, verts: Vec<Point3>, faces: Vec<[u32; 3]> }

fn curved(name: &str, base: &Flat, f: &dyn Fn(f64, f64) -> [f64; 3]) -> Curved {
    Curved { name: format!("{} over {}", name, base.name), verts: base.pts.iter().map(|p| { let q = f(p[0], p[1]); Point3::new(q[0], q[1], q[2]) }).collect(), faces: base.faces.clone() }
}

fn check_curved(r: &mut Report, w: &mut Worst, c: &Curved) -> Option<Vec<[f64; 2]>> {
    let d = |what: &str| format!("{} ({} vertices), {}", c.name, c.verts.len(), what);
    let verbose = std::env::var("VERIF_C20_VERBOSE").is_ok();
    let mut first: Option<Vec<[f64; 2]>> = None;
    // (what, vertices, scale, boundary loop start, which clause)
    let mut runs: Vec<(String, Vec<Point3>, f64, Option<usize>, u8)> = Vec::new();
    let base = Mesh::new(c.verts.clone(), c.faces.clone(), false);
    let bl = loop_len(&base);
    for p in poses().iter().take(4) { runs.push((format!("pose {}", p.0), c.verts.iter().map(|v| p.1 * v).collect(), 1.0, Some(0), 0)); }
    runs.push(("second call, identity pose".to_string(), c.verts.clone(), 1.0, Some(0), 0));
    runs.push(("scaled by 0.125".to_string(), c.verts.iter().map(|v| Point3::from(v.coords * 0.125)).collect(), 0.125, Some(0), 0));
    runs.push(("scaled by 1000 and moved".to_string(), c.verts.iter().map(|v| poses()[1].1 * Point3::from(v.coords * 1000.0)).collect(), 1000.0, Some(0), 0));
    runs.push(("scaled by 1e-6".to_string(), c.verts.iter().map(|v| Point3::from(v.coords * 1e-6)).collect(), 1e-6, Some(0), 0));
    runs.push(("scaled by 1e5, turned over".to_string(), c.verts.iter().map(|v| poses()[4].1 * Point3::from(v.coords * 1e5)).collect(), 1e5, Some(0), 0));
    // the same mesh with the stored boundary loop beginning at another vertex (calc_edges picks the start by hash order)
    for k in [1, bl / 4, bl / 2, (3 * bl) / 4] { if k > 0 && k < bl { runs.push((format!("identity pose, boundary loop stored from {} places further", k), c.verts.clone(), 1.0, Some(k), 1)); } }
    // the plain call
    runs.push(("plain call, pose 1".to_string(), c.verts.iter().map(|v| poses()[1].1 * v).collect(), 1.0, None, 2));
    for (what, verts, s, start, clause) in runs.iter() {
        r.case();
        let mesh = Mesh::new(verts.clone(), c.faces.clone(), false);
        let res = flatten_from(&mesh, *start);
        r.check(res.is_ok(), "curved disk: flattening returns Ok", || format!("{}: {}", d(what), res.as_ref().err().cloned().unwrap_or_default()));
        let Ok(res) = res else { continue };
        let uv = to_arr(&res);
        r.check(uv.len() == c.verts.len(), "curved disk: one 2D position per vertex", || format!("{}: {} positions", d(what), uv.len()));
        let finite = uv.iter().all(|p| p[0].is_finite() && p[1].is_finite());
        r.check(finite, "curved disk: every position is finite", || d(what));
        if uv.len() != c.verts.len() || !finite { continue; }
        match &first {
            None => first = Some(uv),
            Some(f0) => {
                let scaled: Vec<[f64; 2]> = f0.iter().map(|p| [p[0] * s, p[1] * s]).collect();
                let fit = fit_residual(&scaled, &uv) / diameter(&scaled);
                if verbose { eprintln!("  curved {}: fit {:.3e}", d(what), fit); }
                match clause {
                    0 => {
                        w.inv = w.inv.max(fit);
                        r.check(fit <= TOL_INV, "curved disk: the result depends only on connectivity and edge lengths (same stored boundary loop: unchanged up to a proper planar rigid motion by rigid motion of the input and by repetition; scales with the input)", || format!("{}: residual / diameter = {:.3e}", d(what), fit));
                    }
                    1 => {
                        w.start = w.start.max(fit);
                        r.check(fit <= TOL_START, "[boundary-loop start vertex] curved disk: the result does not depend on the vertex at which the stored boundary loop begins (calc_edges picks it by hash order: two calls on the same mesh) beyond a proper planar rigid motion", || format!("{}: residual / diameter = {:.3e}", d(what), fit));
                    }
                    _ => {}
                }
            }
        }
    }
    first
}

// ------------------------------------------------------------------------------------------------ rejection
/// run `calc_edges()?.boundary_first_flatten()` on a helper thread; None = no answer within `secs`
enum Guarded { Answer(Result<usize, String>), Panicked, TimedOut }
fn flatten_guarded(verts: Vec<Point3>, faces: Vec<[u32; 3]>, secs: u64) -> Guarded {
    let (tx, rx) = mpsc::channel();
    std::thread::spawn(move || {
        let mesh = Mesh::new(verts, faces, false);
        let out = flatten(&mesh).map(|v| v.len());
        let _ = tx.send(out);
    });
    match rx.recv_timeout(Duration::from_secs(secs)) {
        Ok(a) => Guarded::Answer(a),
        Err(mpsc::RecvTimeoutError::Disconnected) => Guarded::Panicked, // the worker died without an answer
        Err(mpsc::RecvTimeoutError::Timeout) => Guarded::TimedOut,
    }
}

fn p3(x: f64, y: f64, z: f64) -> Point3 { Point3::new(x, y, z) }

fn check_rejected(r: &mut Report, tag: &str, name: &str, verts: Vec<Point3>, faces: Vec<[u32; 3]>) {
    r.case();
    let d = || format!("{}: {} vertices, faces {:?}", name, verts.len(), if faces.len() <= 16 { format!("{:?}", faces) } else { format!("({} faces)", faces.len()) });
    let got = flatten_guarded(verts.clone(), faces.clone(), 4);
    r.check(!matches!(got, Guarded::TimedOut), &format!("{}rejection terminates (watchdog 4 s)", tag), d);
    r.check(!matches!(got, Guarded::Panicked), &format!("{}rejection is an Err, not a panic", tag), d);
    if let Guarded::Answer(g) = got {
        r.check(g.is_err(), &format!("{}a mesh that is not a single-boundary disk is rejected with Err", tag), || format!("{}: returned Ok with {} positions", d(), g.clone().unwrap_or(0)));
    }
}

fn flat3(m: &Flat) -> Vec<Point3> { m.pts.iter().map(|p| p3(p[0], p[1], 0.0)).collect() }

fn rejection(r: &mut Report) {
    // closed surfaces
    let b = Mesh::create_box(2.0, 3.0, 1.5, false);
    check_rejected(r, "", "closed box", b.vertices().to_vec(), b.faces().to_vec());
    check_rejected(r, "", "closed tetrahedron", vec![p3(0.0, 0.0, 0.0), p3(1.0, 0.0, 0.0), p3(0.0, 1.0, 0.0), p3(0.0, 0.0, 1.0)], vec![[0, 2, 1], [0, 1, 3], [1, 2, 3], [0, 3, 2]]);
    // several boundaries
    let ann = grid("annulus 5x5 minus centre cell", 5, 5, 0.1, Diag::Alternate, 11, &|i, j| !(i == 2 && j == 2));
    check_rejected(r, "", &ann.name, flat3(&ann), ann.faces.clone());
    let ann2 = grid("7x3 grid minus two cells", 7, 3, 0.1, Diag::Slash, 12, &|i, j| !(j == 1 && (i == 1 || i == 5)));
    check_rejected(r, "", &ann2.name, flat3(&ann2), ann2.faces.clone());
    let two = grid("two separate 2x2 blocks", 5, 2, 0.1, Diag::Slash, 13, &|i, _| i != 2);
    check_rejected(r, "", &two.name, flat3(&two), two.faces.clone());
    // non-manifold edge (fin)
    check_rejected(r, "", "fin: three faces on the edge 0-1", vec![p3(0.0, 0.0, 0.0), p3(1.0, 0.0, 0.0), p3(0.0, 1.0, 0.0), p3(0.0, -1.0, 0.0), p3(0.0, 0.0, 1.0)], vec![[0, 1, 2], [1, 0, 3], [0, 1, 4]]);
    let mut fin = grid("3x3 grid with a fin on an inner edge", 3, 3, 0.0, Diag::Slash, 14, &|_, _| true);
    let mut fv = flat3(&fin);
    fv.push(p3(1.5, 1.5, 1.0));
    // inner edge between grid vertices (1,1) and (2,1): find their compacted ids by coordinates
    let idx = |x: f64, y: f64, m: &Flat| m.pts.iter().position(|p| p[0] == x && p[1] == y).unwrap() as u32;
    let (ia, ib) = (idx(1.0, 1.0, &fin), idx(2.0, 1.0, &fin));
    fin.faces.push([ia, ib, fv.len() as u32 - 1]);
    check_rejected(r, "", &fin.name, fv, fin.faces.clone());
    // ONE boundary loop, yet not a disk
    let disk = grid("3x3 grid", 3, 3, 0.1, Diag::Alternate, 15, &|_, _| true);
    let (mut v, mut f) = (flat3(&disk), disk.faces.clone());
    let off = v.len() as u32;
    for q in b.vertices() { v.push(p3(q.x + 10.0, q.y, q.z)); }
    for t in b.faces() { f.push([t[0] + off, t[1] + off, t[2] + off]); }
    check_rejected(r, "[single boundary loop, not a disk: disk + separate closed box] ", "3x3 grid disk and a separate closed box", v, f);
    let (tv, tf) = torus_with_hole(6, 5);
    check_rejected(r, "[single boundary loop, not a disk: torus with one face removed] ", "torus 6x5 quads, one triangle removed (genus 1, one boundary)", tv, tf);
    // ONE boundary loop AND V - E + F = 1, yet two pieces: a disk and a separate CLOSED TORUS (Euler characteristic 1 + 0)
    let (mut v, mut f) = (flat3(&disk), disk.faces.clone());
    let off = v.len() as u32;
    let (cv, cf) = torus_closed(6, 5);
    for q in cv.iter() { v.push(p3(q.x + 20.0, q.y, q.z)); }
    for t in cf.iter() { f.push([t[0] + off, t[1] + off, t[2] + off]); }
    check_rejected(r, "", "3x3 grid disk and a separate closed torus (one boundary loop, V - E + F = 1, two pieces)", v, f);
    // ONE boundary loop, one piece, yet V - E + F = 2: a disk whose vertex list carries vertices no face references (round 7)
    for extra in [1usize, 3] {
        let (mut v, f) = (flat3(&disk), disk.faces.clone());
        for k in 0..extra { v.push(p3(10.0 + k as f64, 10.0, 0.0)); }
        check_rejected(r, "", &format!("3x3 grid disk with {} unreferenced vertices appended (one boundary loop, V - E + F = {})", extra, 1 + extra), v, f);
    }
    // a Moebius strip: one boundary loop, one piece, V - E + F = 0, not orientable
    let n = 9usize;
    let mut mv = Vec::new();
    for i in 0..n { let a = i as f64 * 2.0 * std::f64::consts::PI / n as f64; for sgn in [-1.0, 1.0] { let h = 0.4 * sgn; mv.push(p3((2.0 + h * (a / 2.0).cos()) * a.cos(), (2.0 + h * (a / 2.0).cos()) * a.sin(), h * (a / 2.0).sin())); } }
    let mut mf: Vec<[u32; 3]> = Vec::new();
    for i in 0..n {
        let (a0, a1) = ((2 * i) as u32, (2 * i + 1) as u32);
        // the last segment joins back with the two sides swapped (the half twist)
        let (b0, b1) = if i + 1 < n { ((2 * i + 2) as u32, (2 * i + 3) as u32) } else { (1u32, 0u32) };
        mf.push([a0, b0, b1]); mf.push([a0, b1, a1]);
    }
    check_rejected(r, "", "Moebius strip of 9 segments (one boundary loop, one piece, V - E + F = 0)", mv, mf);
}

/// LAST clause of the run (own name).  Two disks sharing ONE vertex: the boundary successor map built by identify_edges is
/// not a bijection there; before the D7 repair (C12) `boundary_loops` never returned (`working` grew without bound), now
/// `calc_edges` answers Err.  The call is made on a
/// helper thread, the watchdog waits 2 s (the call takes microseconds when it returns) and the process exits right after
/// the report is printed, so the abandoned thread cannot exhaust memory.
fn rejection_vertex_contact(r: &mut Report) {
    r.case();
    let (verts, faces) = (vec![p3(0.0, 0.0, 0.0), p3(1.0, 0.0, 0.0), p3(0.0, 1.0, 0.0), p3(-1.0, 0.0, 0.0), p3(0.0, -1.0, 0.0)], vec![[0u32, 1, 2], [0, 3, 4]]);
    let d = || "two triangles sharing only vertex 0: vertices (0,0,0),(1,0,0),(0,1,0),(-1,0,0),(0,-1,0), faces [[0,1,2],[0,3,4]]".to_string();
    let got = flatten_guarded(verts, faces, 2);
    r.check(!matches!(got, Guarded::TimedOut), "[D7 vertex-only contact] rejection terminates (watchdog 2 s)", d);
    r.check(!matches!(got, Guarded::Panicked), "[D7 vertex-only contact] rejection is an Err, not a panic", d);
    if let Guarded::Answer(g) = got {
        r.check(g.is_err(), "[D7 vertex-only contact] a mesh that is not a single-boundary disk is rejected with Err", || format!("{}: returned Ok with {} positions", d(), g.clone().unwrap_or(0)));
    }
}

fn torus_with_hole(nu: usize, nv: usize) -> (Vec<Point3>, Vec<[u32; 3]>) { let (v, mut f) = torus_closed(nu, nv); f.remove(0); (v, f) }
fn torus_closed(nu: usize, nv: usize) -> (Vec<Point3>, Vec<[u32; 3]>) {
    let mut v = Vec::new();
    for i in 0..nu {
        for j in 0..nv {
            let (a, b) = (i as f64 * 2.0 * std::f64::consts::PI / nu as f64, j as f64 * 2.0 * std::f64::consts::PI / nv as f64);
            v.push(p3((3.0 + b.cos()) * a.cos(), (3.0 + b.cos()) * a.sin(), b.sin()));
        }
    }
    let id = |i: usize, j: usize| ((i % nu) * nv + (j % nv)) as u32;
    let mut f = Vec::new();
    for i in 0..nu {
        for j in 0..nv {
            f.push([id(i, j), id(i + 1, j), id(i + 1, j + 1)]);
            f.push([id(i, j), id(i + 1, j + 1), id(i, j + 1)]);
        }
    }
    (v, f)
}

// ------------------------------------------------------------------------------------------------ UV round trip
const WEIGHTS: [[f64; 3]; 10] = [
    [1.0 / 3.0, 1.0 / 3.0, 1.0 / 3.0],
    [0.5, 0.25, 0.25],
    [0.125, 0.75, 0.125],
    [0.0625, 0.125, 0.8125],
    [0.5, 0.5, 0.0],
    [0.0, 0.25, 0.75],
    [0.625, 0.0, 0.375],
    [1.0, 0.0, 0.0],
    [0.0, 1.0, 0.0],
    [0.0, 0.0, 1.0],
];

fn check_uv(r: &mut Report, w: &mut Worst, name: &str, verts: &[Point3], faces: &[[u32; 3]], uv: &[[f64; 2]]) {
    let uvp: Vec<Point2> = uv.iter().map(|p| Point2::new(p[0], p[1])).collect();
    let map = match UvMapping::new(uvp, faces.to_vec()) {
        Ok(m) => m,
        Err(e) => { r.case(); r.check(false, "UV round trip: UvMapping::new accepts one UV position per vertex and the mesh faces", || format!("{}: {}", name, e)); return; }
    };
    let mesh = Mesh::new_with_uv(verts.to_vec(), faces.to_vec(), false, Some(map));
    check_uv_mesh(r, w, name, &mesh, verts, faces, uv, 1);
}

/// is the UV map an embedding (every UV triangle positively oriented, not a sliver)?  The round trip is only well defined then.
fn uv_embedding(faces: &[[u32; 3]], uv: &[[f64; 2]]) -> bool {
    let d = diameter(uv);
    // consistently oriented either way: a mirrored map (every UV triangle clockwise, e.g. the v axis flipped) is an embedding too
    faces.iter().all(|f| area2(uv[f[0] as usize], uv[f[1] as usize], uv[f[2] as usize]) > 1e-9 * d * d)
        || faces.iter().all(|f| area2(uv[f[0] as usize], uv[f[1] as usize], uv[f[2] as usize]) < -1e-9 * d * d)
}

/// the round-trip clauses on a mesh that carries a UV map; `verts` / `faces` / `uv` are what the mesh is EXPECTED to hold
/// (they are the oracle: the mesh may have been moved or rebuilt since).  `stride`: use every stride-th face.
fn check_uv_mesh(r: &mut Report, w: &mut Worst, name: &str, mesh: &Mesh, verts: &[Point3], faces: &[[u32; 3]], uv: &[[f64; 2]], stride: usize) {
    let size = { let (mut lo, mut hi) = ([f64::INFINITY; 3], [f64::NEG_INFINITY; 3]); for v in verts { for k in 0..3 { lo[k] = lo[k].min(v[k]); hi[k] = hi[k].max(v[k]); } } ((hi[0] - lo[0]).powi(2) + (hi[1] - lo[1]).powi(2) + (hi[2] - lo[2]).powi(2)).sqrt() };
    let usize_ = diameter(uv);
    // the UV map must be an embedding for the round trip to be well defined: skip folded maps (reported under (a) for planar disks)
    if !uv_embedding(faces, uv) { return; }
    // coordinates far from the origin carry fewer digits: the tolerance follows the magnitude of the data (1e-9 of the size near
    // the origin, a few ulps of the coordinates far away)
    let far3 = verts.iter().map(|v| v.coords.norm()).fold(0.0, f64::max);
    let far2 = uv.iter().map(|p| (p[0] * p[0] + p[1] * p[1]).sqrt()).fold(0.0, f64::max);
    let tol3 = (1e-9 * size).max(64.0 * f64::EPSILON * far3);
    let tol2 = (1e-9 * usize_).max(64.0 * f64::EPSILON * far2).max(tol3 * usize_ / size);
    let Some(map) = mesh.uv() else { r.case(); r.check(false, "UV round trip: new_with_uv keeps the UV map", || name.to_string()); return; };
    // a frame change for the `Some(transform)` form of the query: uv_with_tol(p, .., Some(T)) looks up T * p
    let frame = Iso3::new(Vector3::new(-3.0e3, 1.5e3, 250.0), Vector3::new(0.4, -0.2, 1.3));
    let frame_inv = frame.inverse();
    for (k, f) in faces.iter().enumerate() {
        if k % stride != 0 { continue; }
        let (a, b, c) = (verts[f[0] as usize], verts[f[1] as usize], verts[f[2] as usize]);
        let (ua, ub, uc) = (uv[f[0] as usize], uv[f[1] as usize], uv[f[2] as usize]);
        let n = (b - a).cross(&(c - a)).normalize();
        for (wi, wt) in WEIGHTS.iter().enumerate() {
            r.case();
            let d = || format!("{}: face {} {:?}, weights {:?}", name, k, f, wt);
            let q3 = Point3::from(a.coords * wt[0] + b.coords * wt[1] + c.coords * wt[2]);
            let q2 = [ua[0] * wt[0] + ub[0] * wt[1] + uc[0] * wt[2], ua[1] * wt[0] + ub[1] * wt[1] + uc[1] * wt[2]];
            let got = map.point(k, *wt);
            let e = ((got.x - q2[0]).powi(2) + (got.y - q2[1]).powi(2)).sqrt();
            r.check(e <= tol2, "UV round trip: UvMapping::point(face, weights) is the weighted combination of that face's UV corners", || format!("{}: got ({}, {}), expected {:?}", d(), got.x, got.y, q2));
            // uv -> 3D
            let back = mesh.uv_to_3d(&Point2::new(q2[0], q2[1]));
            r.check(back.is_some(), "UV round trip: uv_to_3d answers for a uv inside the map", || d());
            if let Some(sp) = back {
                let e = (sp.point - q3).norm();
                w.rt = w.rt.max(e / size);
                r.check(e <= tol3, "UV round trip: uv_to_3d returns the surface point the uv came from", || format!("{}: uv {:?} -> {:?}, expected {:?}", d(), q2, sp.point.coords.as_slice(), q3.coords.as_slice()));
                if wi < 4 {
                    let min_edge = (b - a).norm().min((c - b).norm()).min((a - c).norm());
                    r.check((sp.normal.into_inner() - n).norm() <= (1e-9f64).max(64.0 * f64::EPSILON * far3 / min_edge), "UV round trip: uv_to_3d of an interior uv carries the normal of that face", || format!("{}: normal {:?}, expected {:?}", d(), sp.normal.as_slice(), n.as_slice()));
                }
            }
            // 3D -> uv: a point ON the surface is answered whatever the angle tolerance and however generous the search distance
            for (qi, (max_dist, max_angle, tf)) in [(1e-6 * size, std::f64::consts::PI, false), (1e-6 * size, 0.3, false), (1e3 * size, 0.02, false), (1e-6 * size, 0.3, true)].iter().enumerate() {
                if qi >= 2 && (wi + k) % 3 != 0 { continue; }
                let fwd = if *tf { mesh.uv_with_tol(&(frame_inv * q3), *max_dist, *max_angle, Some(&frame)) } else { mesh.uv_with_tol(&q3, *max_dist, *max_angle, None) };
                // (the frame change costs a few ulps of 3e3)
                let (t2, t3) = if *tf { (tol2.max(1e-11 * usize_ / size * (1.0 + far3)), tol3.max(1e-11 * (1.0 + far3))) } else { (tol2, tol3) };
                let dq = || format!("{}, search distance {:e}, angle tolerance {}, {}", d(), max_dist, max_angle, if *tf { "query given in another frame (Some(transform))" } else { "no transform" });
                r.check(fwd.is_some(), "UV round trip: uv_with_tol answers for a point on the surface", || dq());
                if let Some((u, depth)) = fwd {
                    let e = ((u.x - q2[0]).powi(2) + (u.y - q2[1]).powi(2)).sqrt();
                    w.rt = w.rt.max(e / usize_);
                    r.check(e <= t2, "UV round trip: uv_with_tol of a surface point returns its uv", || format!("{}: point {:?} -> uv ({}, {}), expected {:?}", dq(), q3.coords.as_slice(), u.x, u.y, q2));
                    r.check(depth.abs() <= t3, "UV round trip: a point on the surface has depth 0", || format!("{}: depth {}", dq(), depth));
                }
            }
        }
    }
}

/// 3D -> uv -> 3D on EVERY face the mesh now has (no oracle for the uv needed): used after mutating operations.  A mesh without
/// a UV map has nothing to round-trip.  Runs under catch_unwind: an index past the UV map's face list panics inside parry.
fn check_uv_closed_loop(r: &mut Report, name: &str, mesh: &Mesh) {
    r.case();
    if mesh.uv().is_none() { return; }
    let m2 = mesh.clone();
    let res = std::panic::catch_unwind(std::panic::AssertUnwindSafe(move || {
        let (verts, faces) = (m2.vertices().to_vec(), m2.faces().to_vec());
        let size = { let a = m2.aabb(); (a.maxs - a.mins).norm() };
        let mut bad: Option<String> = None;
        for (k, f) in faces.iter().enumerate() {
            let (a, b, c) = (verts[f[0] as usize], verts[f[1] as usize], verts[f[2] as usize]);
            for wt in [WEIGHTS[0], WEIGHTS[3]] {
                let q3 = Point3::from(a.coords * wt[0] + b.coords * wt[1] + c.coords * wt[2]);
                let back = m2.uv_with_tol(&q3, 1e-6 * size, 0.3, None).and_then(|(u, _)| m2.uv_to_3d(&u));
                let ok = back.map(|sp| (sp.point - q3).norm() <= 1e-9 * size).unwrap_or(false);
                if !ok && bad.is_none() { bad = Some(format!("face {} {:?} of {} faces, weights {:?}: point {:?} -> {:?}", k, f, faces.len(), wt, q3.coords.as_slice(), back.map(|sp| [sp.point.x, sp.point.y, sp.point.z]))); }
            }
        }
        bad
    }));
    match res {
        Ok(bad) => r.check(bad.is_none(), "UV round trip: a mesh carrying a UV map maps a point of every one of its faces to uv and back to the same point", || format!("{}: {}", name, bad.clone().unwrap_or_default())),
        Err(_) => r.check(false, "UV round trip: querying a mesh that carries a UV map does not panic", || name.to_string()),
    }
}

/// SEQUENCES of operations on a UV-carrying mesh (see (e) in the header)
fn check_uv_sequences(r: &mut Report, w: &mut Worst, name: &str, verts: &[Point3], faces: &[[u32; 3]], uv: &[[f64; 2]]) {
    if !uv_embedding(faces, uv) { return; }
    let make_map = || UvMapping::new(uv.iter().map(|p| Point2::new(p[0], p[1])).collect(), faces.to_vec());
    let Ok(map) = make_map() else { return; };
    let base = Mesh::new_with_uv(verts.to_vec(), faces.to_vec(), false, Some(map));
    // clone
    check_uv_mesh(r, w, &format!("{} [clone]", name), &base.clone(), verts, faces, uv, 3);
    // the `is_solid` flag set (an open disk has no inside: surface points are answered alike)
    if let Ok(map) = make_map() { check_uv_mesh(r, w, &format!("{} [is_solid = true]", name), &Mesh::new_with_uv(verts.to_vec(), faces.to_vec(), true, Some(map)), verts, faces, uv, 3); }
    // new_with_options(.., Some(uv)), nothing merged or deleted
    if let (Ok(map), true) = (make_map(), true) {
        match Mesh::new_with_options(verts.to_vec(), faces.to_vec(), false, false, false, Some(map)) {
            Ok(m) => check_uv_mesh(r, w, &format!("{} [new_with_options]", name), &m, verts, faces, uv, 3),
            Err(e) => { r.case(); r.check(false, "UV round trip: new_with_options accepts what new_with_uv accepts", || format!("{}: {}", name, e)); }
        }
    }
    // transform: far away, and there and back
    let far = Iso3::new(Vector3::new(2.0e4, -1.0e4, 3.0e4), Vector3::new(-0.7, 0.4, 2.1));
    let mut m = base.clone();
    m.transform(&far);
    let moved: Vec<Point3> = verts.iter().map(|v| far * v).collect();
    check_uv_mesh(r, w, &format!("{} [Mesh::transform to 3.7e4 from the origin]", name), &m, &moved, faces, uv, 2);
    m.transform(&far.inverse());
    let back: Vec<Point3> = moved.iter().map(|v| far.inverse() * v).collect();
    check_uv_mesh(r, w, &format!("{} [Mesh::transform there and back]", name), &m, &back, faces, uv, 3);
    // append: whatever it answers, a mesh that carries a UV map afterwards round-trips a point of every face it has
    let plain = Mesh::new(vec![p3(50.0, 0.0, 0.0), p3(51.0, 0.0, 0.0), p3(50.0, 1.0, 0.0), p3(51.0, 1.0, 0.5)], vec![[0, 1, 2], [1, 3, 2]], false);
    let mut a = base.clone();
    let ans = a.append(&plain);
    check_uv_closed_loop(r, &format!("{} [after append(mesh without UV) -> {}]", name, if ans.is_ok() { "Ok" } else { "Err" }), &a);
    if ans.is_err() { check_uv_mesh(r, w, &format!("{} [after a rejected append]", name), &a, verts, faces, uv, 3); }
    let mut b = plain.clone();
    let ans = b.append(&base);
    check_uv_closed_loop(r, &format!("{} [mesh without UV after append(UV mesh) -> {}]", name, if ans.is_ok() { "Ok" } else { "Err" }), &b);
    let mut c = base.clone();
    let ans = c.append(&base);
    check_uv_closed_loop(r, &format!("{} [after append(itself) -> {}]", name, if ans.is_ok() { "Ok" } else { "Err" }), &c);
    // the same operation twice
    let ans2 = a.append(&plain);
    check_uv_closed_loop(r, &format!("{} [after a second append(mesh without UV) -> {}]", name, if ans2.is_ok() { "Ok" } else { "Err" }), &a);
}

// ------------------------------------------------------------------------------------------------ driver
pub fn run() -> Option<Report> {
    let mut r = Report::new("TESTING-GRADE (no clause here is deduction). Planar disks: jittered grids (jitter <= 0.2 pitch; diagonals fixed / alternating / LCG / locally Delaunay) 3x3, 6x5, 15x15 (256 vertices) [thorough: 30x30], L 6x6 and 12x10, U 9x6, plus 9x9, polar fan 7, polar 3x10 and 6x16 round and star, [thorough: 10x40], strips 2x2..2x12 / single triangle / two-triangle square (no inner vertex), each in 3 vertex numberings x 2 face storages x CCW/CW (small meshes all combinations, large ones a fixed subset), scales 1, 1e-3, 1e3, 5 poses (translations up to 2e3, any rotation): Ok, one finite position per vertex, every edge length and triangle area kept to relative 2e-5 / 8e-5, every triangle positively oriented, result = input shape under ONE proper planar rigid motion (residual <= 1e-5 diameter), boundary loop stored from 2..3 different start vertices per variant and once as calc_edges leaves it. Curved disks (spherical caps of half angle 0.5 and 1.2 rad, saddle, half cylinder on jittered grids and polar meshes, up to 256 vertices): 4 poses, a repeated call, scale 0.125 and 1000: result unchanged up to a proper planar rigid motion (and the scale) within 1e-9 diameter for the same stored boundary loop, 2e-5 for a loop stored from another start vertex. A planar disk with one zero-area face (own clause). Rejection under a 4 s watchdog: closed box / tetrahedron, annulus, two holes, two separate disks, two fins, disk + closed box, torus with a hole; last, under a 2 s watchdog, two triangles sharing only a vertex. UV round trip: flattening results of 4 planar and 3 curved disks and 2 hand-made sheared UV maps, every face x 10 weights (4 interior, 3 edge, 3 vertex): point / uv_to_3d / uv_with_tol to 1e-9 of the size. WAVE 5 (parameter-space audit): planar disks of extent 1e-9 .. 1e7 (scales 1e-9, 1e-7, 1e-6, 1e-5, 1e4, 1e6), a 40 x 40 grid (1681 vertices), unjittered grids / hexagon fan (exact right angles, equal edges); needle and cap triangles of aspect 1000 : 1 (stretched grids and polar mesh, one thin column / row, a vertex 0.001 off an edge: |cot| = 1000) and a single 3000 : 1 face; rejection of a disk + separate closed torus (one loop, V - E + F = 1), of a disk with 1 / 3 unreferenced vertices (V - E + F = 2 / 4) and of a Moebius strip; every UV sample again posed 1.2e4 / 1.7e6 from the origin, UV maps moved 1e4 / 1e6 in UV space, uv_with_tol with angle tolerances pi / 0.3 / 0.02, search distance 1e3 sizes, and the query given in another frame (Some(transform)); curved disks also scaled by 1e-6 / 1e5; on every sample: clone, is_solid = true, new_with_options, Mesh::transform far away / there and back, append of and to a mesh without UV map, append of itself, the same append twice -- a mesh that carries a UV map afterwards maps a point of EVERY face to uv and back (no panic)");
    let verbose = std::env::var("VERIF_C20_VERBOSE").is_ok();
    let big = thorough();
    let mut w = Worst { len: 0.0, area: 0.0, fit: 0.0, inv: 0.0, start: 0.0, rt: 0.0 };
    let all = |_: usize, _: usize| true;

    // ---------------------------------------------------------------- (a) planar disks
    let mut small: Vec<Flat> = Vec::new();
    let mut large: Vec<Flat> = Vec::new();
    small.push(Flat { name: "single triangle".into(), pts: vec![[0.0, 0.0], [4.0, 0.0], [1.0, 3.0]], faces: vec![[0, 1, 2]] });
    small.push(Flat { name: "two-triangle square".into(), pts: vec![[0.0, 0.0], [2.0, 0.0], [2.0, 2.0], [0.0, 2.0]], faces: vec![[0, 1, 2], [0, 2, 3]] });
    small.push(grid("strip 1x1..: 2x3 vertices", 2, 1, 0.2, Diag::Alternate, 1, &all));
    small.push(grid("strip 2x12 vertices", 11, 1, 0.2, Diag::Random, 2, &all));
    small.push(grid("grid 2x2 (one inner vertex)", 2, 2, 0.2, Diag::Slash, 3, &all));
    small.push(grid("grid 3x3 slash", 3, 3, 0.2, Diag::Slash, 4, &all));
    small.push(grid("grid 3x3 delaunay", 3, 3, 0.2, Diag::Delaunay, 5, &all));
    small.push(grid("grid 6x5 random diagonals", 6, 5, 0.2, Diag::Random, 6, &all));
    small.push(grid("L 6x6", 6, 6, 0.2, Diag::Alternate, 7, &|i, j| !(i >= 3 && j >= 3)));
    small.push(grid("U 9x6", 9, 6, 0.2, Diag::Delaunay, 8, &|i, j| !((3..6).contains(&i) && j >= 2)));
    small.push(grid("plus 9x9", 9, 9, 0.15, Diag::Random, 9, &|i, j| (3..6).contains(&i) || (3..6).contains(&j)));
    small.push(polar("fan of 7", 1, 7, false, 0.5, 10));
    small.push(polar("star fan of 8", 1, 8, true, 0.3, 11));
    small.push(polar("polar 3x10 round", 3, 10, false, 0.5, 12));
    small.push(polar("polar 3x10 star", 3, 10, true, 0.3, 13));
    // exact ties: right angles (cos = 0, cot = 6e-17), equal edge lengths, collinear boundary vertices, equilateral faces
    small.push(grid("regular grid 4x4, no jitter (right isosceles faces)", 4, 4, 0.0, Diag::Alternate, 14, &all));
    small.push(polar("regular hexagon fan, no jitter (equilateral faces)", 1, 6, false, 0.0, 15));
    small.push(grid("regular L 4x4, no jitter, one diagonal direction", 4, 4, 0.0, Diag::Slash, 16, &|i, j| !(i >= 2 && j >= 2)));
    large.push(grid("grid 15x15 delaunay (256 vertices)", 15, 15, 0.2, Diag::Delaunay, 20, &all));
    large.push(grid("grid 15x15 random diagonals (256 vertices)", 15, 15, 0.2, Diag::Random, 21, &all));
    large.push(grid("L 12x10", 12, 10, 0.2, Diag::Slash, 22, &|i, j| !(i >= 5 && j >= 4)));
    large.push(polar("polar 6x16 star", 6, 16, true, 0.3, 23));
    large.push(grid("strip 40x1 (82 vertices, no inner vertex)", 40, 1, 0.2, Diag::Alternate, 24, &all));
    if big {
        large.push(grid("grid 30x30 random diagonals (961 vertices)", 30, 30, 0.2, Diag::Random, 25, &all));
        large.push(polar("polar 10x40 round", 10, 40, false, 0.4, 26));
        large.push(grid("U 24x18", 24, 18, 0.2, Diag::Delaunay, 27, &|i, j| !((8..16).contains(&i) && j >= 6)));
    }
    // sanity of the builders themselves (not a clause of the property): every input triangle is CCW and not a sliver
    for m in small.iter().chain(large.iter()) {
        for f in m.faces.iter() {
            assert!(area2(m.pts[f[0] as usize], m.pts[f[1] as usize], m.pts[f[2] as usize]) > 0.02, "builder produced a bad triangle in {}", m.name);
        }
    }
    let ps = poses();
    let all_starts = std::env::var("VERIF_C20_ALLSTARTS").is_ok(); // measuring aid: every boundary start of every base mesh
    let mut uv_samples: Vec<(String, Vec<Point3>, Vec<[u32; 3]>, Vec<[f64; 2]>)> = Vec::new();
    for (mi, m) in small.iter().enumerate() {
        let bl = loop_len(&Mesh::new(lift(m, 1.0, &ps[0].1), m.faces.clone(), false));
        for numbering in 0..3u8 {
            for storage in [false, true] {
                for flip in [false, true] {
                    let v = variant(m, numbering, storage, flip, 100 + mi as u64);
                    // every variant in two poses (rotating through the list), scale 1, two different loop starts
                    let k = (numbering as usize) * 4 + (storage as usize) * 2 + flip as usize;
                    for pi in [k % 5, (k + 2) % 5] {
                        let uv = check_planar(&mut r, &mut w, &v, flip, 1.0, &ps[pi], Some((5 * k + 3 * pi) % bl));
                        if let (Some(uv), true) = (uv, (mi == 7 || mi == 9 || mi == 14) && numbering == 2 && storage && !flip && pi == (k % 5)) {
                            uv_samples.push((v.name.clone(), lift(&v, 1.0, &ps[pi].1), v.faces.clone(), uv));
                        }
                    }
                }
            }
        }
        // the plain call (loop start as stored), scales, shuffled numbering
        let v = variant(m, 2, true, false, 200 + mi as u64);
        check_planar(&mut r, &mut w, &v, false, 1.0, &ps[(mi + 1) % 5], None);
        for (si, s) in [1e-3, 1e3].iter().enumerate() { check_planar(&mut r, &mut w, &v, false, *s, &ps[(mi + si) % 5], Some((mi + 7 * si) % bl)); }
        if all_starts { for k in 0..bl { check_planar(&mut r, &mut w, &v, false, 1.0, &ps[k % 5], Some(k)); } }
    }
    for (mi, m) in large.iter().enumerate() {
        let bl = loop_len(&Mesh::new(lift(m, 1.0, &ps[0].1), m.faces.clone(), false));
        let list: &[(u8, bool, bool)] = if big { &[(0, false, false), (1, true, false), (2, true, false), (2, false, true), (1, false, true)] } else { &[(0, false, false), (2, true, false), (1, false, true)] };
        for (vi, &(numbering, storage, flip)) in list.iter().enumerate() {
            let v = variant(m, numbering, storage, flip, 300 + mi as u64);
            let uv = check_planar(&mut r, &mut w, &v, flip, 1.0, &ps[(mi + 2 * vi + 1) % 5], Some((11 * vi + mi) % bl));
            if let (Some(uv), true) = (uv, mi == 2 && vi == 1) { uv_samples.push((v.name.clone(), lift(&v, 1.0, &ps[(mi + 2 * vi + 1) % 5].1), v.faces.clone(), uv)); }
        }
        let v = variant(m, 2, true, false, 400 + mi as u64);
        check_planar(&mut r, &mut w, &v, false, 1.0, &ps[(mi + 2) % 5], None);
        check_planar(&mut r, &mut w, &v, false, 1e-3, &ps[(mi + 3) % 5], Some((mi + 5) % bl));
        if big { check_planar(&mut r, &mut w, &v, false, 1e3, &ps[(mi + 4) % 5], Some((mi + 9) % bl)); }
        if all_starts { for k in 0..bl { check_planar(&mut r, &mut w, &v, false, 1.0, &ps[k % 5], Some(k)); } }
    }

    // a planar disk with a ZERO-AREA face (vertex 1 lies on the segment 0-2; the face [2,1,0] is degenerate): own clause names
    {
        let m = Flat { name: "[zero-area face] triangle (0,0),(2,0),(1,1) with the midpoint (1,0) of its base as inner vertex".into(), pts: vec![[0.0, 0.0], [1.0, 0.0], [2.0, 0.0], [1.0, 1.0]], faces: vec![[0, 1, 3], [1, 2, 3], [2, 1, 0]] };
        r.case();
        let res = flatten_from(&Mesh::new(lift(&m, 1.0, &ps[0].1), m.faces.clone(), false), Some(0));
        let d = || format!("{}: faces {:?}", m.name, m.faces);
        // a zero-area triangle cannot "keep positive orientation": refusing the mesh (Err) is accepted, an Ok answer must be finite
        let bad = match &res { Ok(uv) => uv.len() != 4 || uv.iter().any(|p| !p.x.is_finite() || !p.y.is_finite()), Err(_) => false };
        r.check(!bad, "[zero-area face] planar disk with a zero-area face: an Ok answer carries one FINITE position per vertex (an Err is accepted)", || format!("{}: {:?}", d(), res.as_ref().map(|uv| to_arr(uv))));
    }

    // ---------------------------------------------------------------- (e) magnitudes: tiny and huge disks, a large grid
    {
        let picks = [small[1].clone(), small[5].clone(), small[7].clone(), small[13].clone(), variant(&small[9], 2, true, true, 500)];
        for (mi, m) in picks.iter().enumerate() {
            let flipped = mi == 4;
            // tiny: only poses without a translation (identity, turned over), so that the input coordinates keep their digits
            for (si, sc) in [1e-9, 1e-7, 1e-6, 1e-5].iter().enumerate() { check_planar(&mut r, &mut w, m, flipped, *sc, &ps[if (mi + si) % 2 == 0 { 0 } else { 4 }], Some(mi + si)); }
            for (si, sc) in [1e4, 1e6].iter().enumerate() { check_planar(&mut r, &mut w, m, flipped, *sc, &ps[(mi + si) % 5], Some(mi + 2 * si)); }
        }
        let big_grid = grid("grid 40x40 random diagonals (1681 vertices)", 40, 40, 0.2, Diag::Random, 40, &all);
        check_planar(&mut r, &mut w, &variant(&big_grid, 2, true, false, 41), false, 1.0, &ps[1], None);
    }
    // ---------------------------------------------------------------- (e) needles: aspect 1000 : 1 and more
    {
        let stretch = |m: &Flat, sx: f64, sy: f64, name: &str| Flat { name: format!("{} stretched by ({}, {}) [{}]", m.name, sx, sy, name), pts: m.pts.iter().map(|p| [p[0] * sx, p[1] * sy]).collect(), faces: m.faces.clone() };
        // a grid with given column / row positions, no jitter, alternating diagonals
        let lattice = |name: &str, xs: &[f64], ys: &[f64]| {
            let mut all_pts = Vec::new();
            for y in ys { for x in xs { all_pts.push([*x, *y]); } }
            let id = |i: usize, j: usize| j * xs.len() + i;
            let mut fs: Vec<[usize; 3]> = Vec::new();
            for j in 0..ys.len() - 1 { for i in 0..xs.len() - 1 {
                let (a, b, c, d) = (id(i, j), id(i + 1, j), id(i + 1, j + 1), id(i, j + 1));
                if (i + j) % 2 == 0 { fs.push([a, b, c]); fs.push([a, c, d]); } else { fs.push([a, b, d]); fs.push([b, c, d]); }
            } }
            compact(name, all_pts, fs)
        };
        let mut needles: Vec<Flat> = vec![
            stretch(&small[7], 1000.0, 1.0, "every corner angle about 0.001 rad or a right angle"),
            stretch(&small[5], 1.0, 1000.0, "needles the other way"),
            stretch(&small[13], 1.0, 300.0, "a polar mesh flattened into needles and caps"),
            lattice("lattice with one column of cells 0.001 wide (aspect 1000 : 1) between ordinary ones", &[0.0, 1.0, 2.0, 2.001, 3.0, 4.25], &[0.0, 1.0, 2.0, 3.0]),
            lattice("lattice with a row 0.0005 high at the boundary and a column 0.001 wide inside", &[0.0, 1.5, 1.501, 2.5, 4.0], &[0.0, 0.0005, 1.0, 2.25]),
            // caps: a vertex 0.001 off the middle of an edge -> a corner angle of pi - 0.002 rad (cot = -1000 / -500)
            Flat { name: "square with its inner vertex 0.001 above the bottom edge (cap, cot = -1000)".into(), pts: vec![[0.0, 0.0], [2.0, 0.0], [2.0, 2.0], [0.0, 2.0], [1.0, 0.001]], faces: vec![[0, 1, 4], [1, 2, 4], [2, 3, 4], [3, 0, 4]] },
            Flat { name: "strip with a boundary vertex 0.001 off the straight line between its neighbours (cap on the boundary)".into(), pts: vec![[0.0, 0.0], [1.0, 0.001], [2.0, 0.0], [2.0, 1.0], [1.0, 1.0], [0.0, 1.0]], faces: vec![[0, 1, 5], [1, 4, 5], [1, 2, 4], [2, 3, 4]] },
            Flat { name: "single needle triangle 3000 : 1".into(), pts: vec![[0.0, 0.0], [3000.0, 0.0], [1700.0, 1.0]], faces: vec![[0, 1, 2]] },
        ];
        // (not enumerated: LARGE needle meshes. The source solves with L + 1e-8 I; on a mesh stretched by 1000 the smallest eigenvalue of L
        // drops by that factor and the regulariser shows: measured relative edge error 1.1e-4 on the 256-vertex grid stretched by
        // 1000 -- the limitation recorded in props/C20.json, not a new finding)
        for m in needles.iter() { for f in m.faces.iter() { assert!(area2(m.pts[f[0] as usize], m.pts[f[1] as usize], m.pts[f[2] as usize]) > 0.0, "builder produced a clockwise / flat triangle in {}", m.name); } }
        for (mi, m) in needles.iter().enumerate() {
            check_planar(&mut r, &mut w, m, false, 1.0, &ps[mi % 5], Some(mi));
            let v = variant(m, 2, true, mi % 2 == 1, 600 + mi as u64);
            check_planar(&mut r, &mut w, &v, mi % 2 == 1, 1.0, &ps[(mi + 2) % 5], Some(2 * mi + 1));
            check_planar(&mut r, &mut w, &v, mi % 2 == 1, 1e-3, &ps[(mi + 3) % 5], None);
        }
    }

    // ---------------------------------------------------------------- (b) curved disks
    let g8 = variant(&grid("grid 8x8", 8, 8, 0.2, Diag::Delaunay, 30, &all), 2, true, false, 31);
    let g15 = variant(&grid("grid 15x15", 15, 15, 0.2, Diag::Random, 32, &all), 2, true, false, 33);
    let pol = variant(&polar("polar 4x12", 4, 12, false, 0.4, 34), 2, true, false, 35);
    let lsh = variant(&grid("L 8x8", 8, 8, 0.2, Diag::Alternate, 36, &|i, j| !(i >= 4 && j >= 4)), 1, true, false, 37);
    let cap = |half: f64, ext: f64| move |x: f64, y: f64| {
        // polar angle proportional to the distance from the centre of the parameter square / disk
        let (cx, cy) = (x - ext, y - ext);
        let rho = (cx * cx + cy * cy).sqrt();
        let th = half * rho / (ext * std::f64::consts::SQRT_2);
        let (s, c) = (th.sin(), th.cos());
        if rho == 0.0 { [0.0, 0.0, 5.0] } else { [5.0 * s * cx / rho, 5.0 * s * cy / rho, 5.0 * c] }
    };
    let mut cs = vec![
        curved("spherical cap (half angle 0.5)", &g8, &cap(0.5, 4.0)),
        curved("spherical cap (half angle 1.2)", &g8, &cap(1.2, 4.0)),
        curved("saddle z = (x^2 - y^2)/8", &g8, &|x, y| [x, y, ((x - 4.0).powi(2) - (y - 4.0).powi(2)) / 8.0]),
        curved("half cylinder radius 8/pi", &g8, &|x, y| { let a = x * std::f64::consts::PI / 8.0; let rr = 8.0 / std::f64::consts::PI; [rr * a.cos(), y, rr * a.sin()] }),
        curved("spherical cap (half angle 1.0)", &pol, &|x, y| { let rho = (x * x + y * y).sqrt(); let th = rho / 4.5; if rho == 0.0 { [0.0, 0.0, 4.0] } else { [4.0 * th.sin() * x / rho, 4.0 * th.sin() * y / rho, 4.0 * th.cos()] } }),
        curved("saddle z = x y / 6", &lsh, &|x, y| [x, y, x * y / 6.0]),
        curved("spherical cap (half angle 0.8), 256 vertices", &g15, &cap(0.8, 7.5)),
    ];
    if big { cs.push(curved("half cylinder, 256 vertices", &g15, &|x, y| { let a = x * std::f64::consts::PI / 15.0; let rr = 15.0 / std::f64::consts::PI; [rr * a.cos(), y, rr * a.sin()] })); }
    for (ci, c) in cs.iter().enumerate() {
        let first = check_curved(&mut r, &mut w, c);
        if let (Some(uv), true) = (first, ci == 0 || ci == 2 || ci == 4) { uv_samples.push((c.name.clone(), c.verts.clone(), c.faces.clone(), uv)); }
    }

    // ---------------------------------------------------------------- (c) rejection
    rejection(&mut r);

    // ---------------------------------------------------------------- (d) UV round trip
    // hand-made maps: the parameter plane of a curved surface, sheared and scaled (not an isometry: UV and 3D weights must still agree)
    let shear = |p: &[f64; 2]| [2.0 * p[0] + 0.5 * p[1] - 3.0, 0.25 * p[1] + 1.0];
    let c2 = &cs[2];
    uv_samples.push((format!("hand-made sheared UV on {}", c2.name), c2.verts.clone(), c2.faces.clone(), g8.pts.iter().map(shear).collect()));
    let c4 = &cs[4];
    uv_samples.push((format!("hand-made sheared UV on {}", c4.name), c4.verts.clone(), c4.faces.clone(), pol.pts.iter().map(shear).collect()));
    // mirrored maps: the same UV positions with the v axis flipped / u and v exchanged (every UV triangle clockwise)
    let n_plain = uv_samples.len();
    for si in 0..n_plain {
        let (name, verts, faces, uv) = uv_samples[si].clone();
        if si % 2 == 0 { uv_samples.push((format!("{} [v axis flipped]", name), verts, faces, uv.iter().map(|p| [p[0], 0.75 - p[1]]).collect())); }
        else { uv_samples.push((format!("{} [u and v exchanged]", name), verts, faces, uv.iter().map(|p| [p[1], p[0]]).collect())); }
    }
    for (name, verts, faces, uv) in uv_samples.iter() { check_uv(&mut r, &mut w, name, verts, faces, uv); }
    // (e) every UV query again FAR from the origin (mesh built there), UV maps far from the UV origin, operation sequences
    let fars = [
        ("1.2e4 from the origin", Iso3::new(Vector3::new(1.0e4, -6.0e3, 2.0e3), Vector3::new(0.9, 0.2, -1.4))),
        ("1.7e6 from the origin", Iso3::new(Vector3::new(-1.0e6, 1.0e6, 1.0e6), Vector3::new(-0.3, 1.7, 0.5))),
    ];
    for (si, (name, verts, faces, uv)) in uv_samples.iter().enumerate() {
        let (fname, far) = &fars[si % 2];
        let moved: Vec<Point3> = verts.iter().map(|v| far * v).collect();
        check_uv(&mut r, &mut w, &format!("{} [posed {}]", name, fname), &moved, faces, uv);
        if si % 3 == 0 {
            let off = if si % 2 == 0 { [1.0e4, -2.0e4] } else { [-1.0e6, 3.0e5] };
            let uv_far: Vec<[f64; 2]> = uv.iter().map(|p| [p[0] + off[0], p[1] + off[1]]).collect();
            check_uv(&mut r, &mut w, &format!("{} [UV map moved by {:?}]", name, off), verts, faces, &uv_far);
        }
        check_uv_sequences(&mut r, &mut w, name, verts, faces, uv);
    }

    // ---------------------------------------------------------------- (c') the input on which the unchanged code never returns: LAST
    rejection_vertex_contact(&mut r);

    if verbose {
        eprintln!("C20 bounded: worst relative edge error {:.3e}, area error {:.3e}, rigid fit {:.3e}, invariance {:.3e}, start-vertex dependence {:.3e}, round trip {:.3e}; uv samples {}", w.len, w.area, w.fit, w.inv, w.start, w.rt, uv_samples.len());
    }
    Some(r)
}
