//! C03 bounded: "measurements do not depend on the coordinate frame", evaluated on the REAL code.
//! Isometries: 19 rotations (identity, the 9 quarter turns about x / y / z, 3 further elements of the cube group, and
//! 6 oblique ones: 30 / 45 degrees about an axis, 0.7 rad about (1,2,3), the rotation taking (1,1,1) to x) x 4
//! translations ((0,0,0), (1,-2,3), (-4,0.5,2.25), (1000,-500,250)); in 2D 8 rotations x 3 translations.  Entities have
//! small integer / dyadic coordinates.  nalgebra's `T * point` (rotation + translation), `T * vector` (rotation only),
//! `T.inverse()` and `T * S` are the oracle for "moved by T"; every comparison of floats uses `close` (1e-9 relative).
//! Queries are chosen without ties (never equidistant from two edges / faces with different answers).
//! Ill-conditioned part: points far along a surface point's normal but (nearly) on the normal line, points 1e-7 .. 1e-2
//! off mesh edges with oblique offsets, a UV-mapped mesh (uv_with_tol with Some(T) / uv_to_3d), all under translations up to 1e3.
//! ROUND 3: (a) 49 isometries close to the identity (rotations 1e-8 .. 1e-5 rad, also with translations of only 1e-8) on data FAR from the origin (radius 1e3): point
//! lists, point clouds (points move by the full isometry, normals rotate), surface points, planes, curves, meshes (box, its
//! triangle soup, touching appended boxes); (a') Mesh::transform on meshes with COINCIDENT vertices under all 76 isometries:
//! vertex i of T(mesh) == T * vertex i, faces unchanged; (b) 2D signed deviations (metrology::line_profiles) 1e-7 .. 1e-2 off
//! outside corners / open ends / edge interiors with translations up to 1e3; (c) capped projections for queries just outside
//! the extreme corners / edges of the bounding box with caps small against the mesh (a quick-reject must not change the answer
//! with the pose).
use super::{close, Report};
use crate::common::points::{dist, mid_point, transform_points};
use crate::common::DistMode;
use crate::geom2::{Curve2, Iso2, Line2, Point2, Segment2, SurfacePoint2, UnitVec2, Vector2};
use crate::geom3::{Curve3, Iso3, Mesh, Plane3, Point3, PointCloud, PointCloudFeatures, SurfacePoint3, UnitVec3, Vector3};
use crate::metrology::{Distance2, Distance3, Measurement};
use crate::{To3D, TransformBy};
use parry3d_f64::na::{Translation2, Translation3, UnitComplex, UnitQuaternion};
use std::f64::consts::{FRAC_PI_2, FRAC_PI_4, FRAC_PI_6, PI};

fn cp3(a: &Point3, b: &Point3) -> bool { close(a.x, b.x) && close(a.y, b.y) && close(a.z, b.z) }
fn cv3(a: &Vector3, b: &Vector3) -> bool { close(a.x, b.x) && close(a.y, b.y) && close(a.z, b.z) }
fn cp2(a: &Point2, b: &Point2) -> bool { close(a.x, b.x) && close(a.y, b.y) }
fn cv2(a: &Vector2, b: &Vector2) -> bool { close(a.x, b.x) && close(a.y, b.y) }
fn p3(x: f64, y: f64, z: f64) -> Point3 { Point3::new(x, y, z) }
fn p2(x: f64, y: f64) -> Point2 { Point2::new(x, y) }
fn u3(x: f64, y: f64, z: f64) -> UnitVec3 { UnitVec3::new_normalize(Vector3::new(x, y, z)) }
fn u2(x: f64, y: f64) -> UnitVec2 { UnitVec2::new_normalize(Vector2::new(x, y)) }
fn opt_close(a: Option<f64>, b: Option<f64>) -> bool { match (a, b) { (None, None) => true, (Some(x), Some(y)) => close(x, y), _ => false } }

pub struct I3 { pub name: String, pub t: Iso3, pub exact: bool }
pub struct I2 { pub name: String, pub t: Iso2 }

/// the 3D isometry family (also used by the C19 bounded check for its equivariance clause: `exact` = cube group)
pub fn isos3() -> Vec<I3> {
    let x = Vector3::x_axis(); let y = Vector3::y_axis(); let z = Vector3::z_axis();
    let q = |a: &parry3d_f64::na::Unit<Vector3>, ang: f64| UnitQuaternion::from_axis_angle(a, ang);
    let rots: Vec<(&str, UnitQuaternion<f64>, bool)> = vec![
        ("I", UnitQuaternion::identity(), true),
        ("Rx90", q(&x, FRAC_PI_2), true), ("Rx180", q(&x, PI), true), ("Rx270", q(&x, -FRAC_PI_2), true),
        ("Ry90", q(&y, FRAC_PI_2), true), ("Ry180", q(&y, PI), true), ("Ry270", q(&y, -FRAC_PI_2), true),
        ("Rz90", q(&z, FRAC_PI_2), true), ("Rz180", q(&z, PI), true), ("Rz270", q(&z, -FRAC_PI_2), true),
        ("Rx90*Ry90", q(&x, FRAC_PI_2) * q(&y, FRAC_PI_2), true),
        ("Rz90*Rx180", q(&z, FRAC_PI_2) * q(&x, PI), true),
        ("R(1,1,1)120", q(&u3(1.0, 1.0, 1.0), 2.0 * PI / 3.0), true),
        ("Rz30", q(&z, FRAC_PI_6), false), ("Rx45", q(&x, FRAC_PI_4), false), ("Ry45", q(&y, FRAC_PI_4), false),
        ("Rz45", q(&z, FRAC_PI_4), false), ("R(1,2,3)0.7", q(&u3(1.0, 2.0, 3.0), 0.7), false),
        ("R(1,1,1)->x", UnitQuaternion::rotation_between(&Vector3::new(1.0, 1.0, 1.0), &Vector3::x()).unwrap(), false),
    ];
    let trans = [(0.0, 0.0, 0.0), (1.0, -2.0, 3.0), (-4.0, 0.5, 2.25), (1000.0, -500.0, 250.0)];
    let mut out = vec![];
    for (n, r, e) in rots.iter() { for (a, b, c) in trans.iter() {
        out.push(I3 { name: format!("T=[{} then +({},{},{})]", n, a, b, c), t: Iso3::from_parts(Translation3::new(*a, *b, *c), *r), exact: *e });
    } }
    out
}
pub fn isos2() -> Vec<I2> {
    let angs = [("0", 0.0), ("90", FRAC_PI_2), ("180", PI), ("270", -FRAC_PI_2), ("30", FRAC_PI_6), ("45", FRAC_PI_4), ("-45", -FRAC_PI_4), ("2rad", 2.0)];
    let trans = [(0.0, 0.0), (3.0, -1.5), (1000.0, -250.0)];
    let mut out = vec![];
    for (n, a) in angs.iter() { for (tx, ty) in trans.iter() {
        out.push(I2 { name: format!("T=[rot {} then +({},{})]", n, tx, ty), t: Iso2::from_parts(Translation2::new(*tx, *ty), UnitComplex::new(*a)) });
    } }
    out
}
// partner isometry for the composition clause
fn partner(i: usize, n: usize) -> usize { (i * 7 + 3) % n }

fn queries3() -> Vec<Point3> { vec![p3(1.0, 2.0, 3.0), p3(-0.5, 0.25, 4.0), p3(2.0, -3.0, 0.5)] }
fn queries2() -> Vec<Point2> { vec![p2(1.0, 2.0), p2(-0.5, 0.25), p2(2.0, -3.0)] }

// ------------------------------------------------------------------------------------------------ surface points
fn surface_points3(r: &mut Report, isos: &[I3]) {
    let sps = [SurfacePoint3::new(p3(0.5, -1.0, 2.0), u3(0.0, 0.0, 1.0)), SurfacePoint3::new(p3(0.0, 0.0, 0.0), u3(1.0, 2.0, 2.0)),
        SurfacePoint3::new(p3(-2.0, 0.75, 1.0), u3(1.0, -1.0, 0.0))];
    for (i, it) in isos.iter().enumerate() { let t = &it.t; let s = &isos[partner(i, isos.len())].t;
        for sp in sps.iter() {
            r.case();
            let d = || format!("SurfacePoint3 {{ point: {:?}, normal: {:?} }} {}", sp.point.coords.as_slice(), sp.normal.as_slice(), it.name);
            let m = sp.transformed(t);
            r.check(cp3(&m.point, &(t * sp.point)) && cv3(&m.normal.into_inner(), &(t * sp.normal.into_inner())), "SurfacePoint3::transformed: the point moves by T, the normal only rotates", d);
            let m2 = t * sp; let m3 = t * *sp;
            r.check(cp3(&m2.point, &m.point) && cv3(&m2.normal, &m.normal) && cp3(&m3.point, &m.point) && cv3(&m3.normal, &m.normal), "&Iso3 * SurfacePoint3 equals SurfacePoint3::transformed", d);
            for q in queries3().iter() { let tq = t * q;
                let dq = || format!("{} query {:?}", d(), q.coords.as_slice());
                r.check(close(m.scalar_projection(&tq), sp.scalar_projection(q)), "SurfacePoint3::scalar_projection is invariant", dq);
                r.check(cp3(&m.projection(&tq), &(t * sp.projection(q))), "SurfacePoint3::projection commutes with T", dq);
                r.check(close(m.planar_distance(&tq), sp.planar_distance(q)), "SurfacePoint3::planar_distance is invariant", dq);
            }
            for l in [-1.5, 0.0, 2.0] {
                r.check(cp3(&m.at_distance(l), &(t * sp.at_distance(l))), "SurfacePoint3::at_distance commutes with T", || format!("{} distance {}", d(), l));
                let sh = sp.shift(l).transformed(t); let sh2 = m.shift(l);
                r.check(cp3(&sh.point, &sh2.point) && cv3(&sh.normal, &sh2.normal), "SurfacePoint3::shift commutes with T", || format!("{} offset {}", d(), l));
            }
            let rv = sp.reversed().transformed(t); let rv2 = m.reversed();
            r.check(cp3(&rv.point, &rv2.point) && cv3(&rv.normal, &rv2.normal), "SurfacePoint3::reversed commutes with T", d);
            let back = m.transformed(&t.inverse());
            r.check(cp3(&back.point, &sp.point) && cv3(&back.normal, &sp.normal), "SurfacePoint3: T then T^-1 restores the surface point", d);
            let c1 = sp.transformed(&(t * s)); let c2 = sp.transformed(s).transformed(t);
            r.check(cp3(&c1.point, &c2.point) && cv3(&c1.normal, &c2.normal), "SurfacePoint3: transforming by a composition equals transforming in sequence", d);
        }
    }
}
fn surface_points2(r: &mut Report, isos: &[I2]) {
    let sps = [SurfacePoint2::new(p2(0.5, -1.0), u2(0.0, 1.0)), SurfacePoint2::new(p2(0.0, 0.0), u2(3.0, 4.0)), SurfacePoint2::new(p2(-2.0, 0.75), u2(1.0, -1.0))];
    for (i, it) in isos.iter().enumerate() { let t = &it.t; let s = &isos[partner(i, isos.len())].t;
        for sp in sps.iter() {
            r.case();
            let d = || format!("SurfacePoint2 {{ point: {:?}, normal: {:?} }} {}", sp.point.coords.as_slice(), sp.normal.as_slice(), it.name);
            let m = sp.transformed(t);
            r.check(cp2(&m.point, &(t * sp.point)) && cv2(&m.normal.into_inner(), &(t * sp.normal.into_inner())), "SurfacePoint2::transformed: the point moves by T, the normal only rotates", d);
            let m2 = t * sp; let m3 = t * *sp;
            r.check(cp2(&m2.point, &m.point) && cv2(&m2.normal, &m.normal) && cp2(&m3.point, &m.point) && cv2(&m3.normal, &m.normal), "&Iso2 * SurfacePoint2 equals SurfacePoint2::transformed", d);
            for q in queries2().iter() { let tq = t * q;
                let dq = || format!("{} query {:?}", d(), q.coords.as_slice());
                r.check(close(m.scalar_projection(&tq), sp.scalar_projection(q)), "SurfacePoint2::scalar_projection is invariant", dq);
                r.check(cp2(&m.projection(&tq), &(t * sp.projection(q))), "SurfacePoint2::projection commutes with T", dq);
                r.check(close(m.planar_distance(&tq), sp.planar_distance(q)), "SurfacePoint2::planar_distance is invariant", dq);
            }
            for l in [-1.5, 0.0, 2.0] {
                r.check(cp2(&m.at_distance(l), &(t * sp.at_distance(l))), "SurfacePoint2::at_distance commutes with T", || format!("{} distance {}", d(), l));
            }
            let back = m.transformed(&t.inverse());
            r.check(cp2(&back.point, &sp.point) && cv2(&back.normal, &sp.normal), "SurfacePoint2: T then T^-1 restores the surface point", d);
            let c1 = sp.transformed(&(t * s)); let c2 = sp.transformed(s).transformed(t);
            r.check(cp2(&c1.point, &c2.point) && cv2(&c1.normal, &c2.normal), "SurfacePoint2: transforming by a composition equals transforming in sequence", d);
        }
    }
}

// ------------------------------------------------------------------------------------------------ planes
fn plane_same(a: &Plane3, b: &Plane3) -> bool { cv3(&a.normal, &b.normal) && close(a.d, b.d) }
fn planes(r: &mut Report, isos: &[I3]) {
    let pls = [Plane3::new(u3(0.0, 0.0, 1.0), 0.0), Plane3::new(u3(1.0, 2.0, 2.0), 1.5), Plane3::new(u3(2.0, -1.0, 2.0), -2.0), Plane3::new(u3(1.0, 1.0, 0.0), 0.75)];
    let sps = [SurfacePoint3::new(p3(0.5, -1.0, 2.0), u3(0.0, 0.0, 1.0)), SurfacePoint3::new(p3(1.0, 0.0, -1.0), u3(1.0, 2.0, 2.0)), SurfacePoint3::new(p3(-2.0, 0.75, 1.0), u3(1.0, -1.0, 0.0))];
    for (i, it) in isos.iter().enumerate() { let t = &it.t; let s = &isos[partner(i, isos.len())].t;
        for pl in pls.iter() {
            r.case();
            let d = || format!("Plane3 {{ normal: {:?}, d: {} }} {}", pl.normal.as_slice(), pl.d, it.name);
            let m = pl.transform_by(t);
            r.check(cv3(&m.normal.into_inner(), &(t * pl.normal.into_inner())), "Plane3::transform_by: the normal only rotates", d);
            r.check(close(m.normal.norm(), 1.0), "Plane3::transform_by: the normal stays a unit vector", d);
            for q in queries3().iter() { let tq = t * q;
                let dq = || format!("{} query {:?}", d(), q.coords.as_slice());
                r.check(close(m.signed_distance_to_point(&tq), pl.signed_distance_to_point(q)), "Plane3::transform_by: T.p is as far (signed) from T.plane as p from the plane", dq);
                r.check(close(m.distance_to_point(&tq), pl.distance_to_point(q)), "Plane3::distance_to_point is invariant", dq);
                r.check(cp3(&m.project_point(&tq), &(t * pl.project_point(q))), "Plane3::project_point commutes with T", dq);
            }
            // a point of the plane stays on the moved plane
            let on = pl.project_point(&p3(1.0, 2.0, 3.0));
            r.check(m.signed_distance_to_point(&(t * on)).abs() <= 1e-9 * (1.0 + (t * on).coords.norm()), "Plane3::transform_by: points of the plane move onto the moved plane", d);
            for sp in sps.iter() {
                let ds = || format!("{} surface point ({:?}, {:?})", d(), sp.point.coords.as_slice(), sp.normal.as_slice());
                r.check(opt_close(m.intersection_distance(&sp.transformed(t)), pl.intersection_distance(sp)), "Plane3::intersection_distance is invariant", ds);
            }
            r.check(plane_same(&m.transform_by(&t.inverse()), pl), "Plane3: T then T^-1 restores the plane", d);
            r.check(plane_same(&pl.transform_by(&(t * s)), &pl.transform_by(s).transform_by(t)), "Plane3: transforming by a composition equals transforming in sequence", || format!("{} after {}", d(), isos[partner(i, isos.len())].name));
        }
    }
}

// ------------------------------------------------------------------------------------------------ segments, point lists
fn segments(r: &mut Report, isos: &[I2]) {
    let segs = [Segment2 { a: p2(0.0, 0.0), b: p2(2.0, 0.0) }, Segment2 { a: p2(-1.0, 0.5), b: p2(2.0, 4.5) }, Segment2 { a: p2(1.0, 1.0), b: p2(1.0, -2.5) }];
    for (i, it) in isos.iter().enumerate() { let t = &it.t; let s = &isos[partner(i, isos.len())].t;
        for sg in segs.iter() {
            r.case();
            let d = || format!("Segment2 {{ a: {:?}, b: {:?} }} {}", sg.a.coords.as_slice(), sg.b.coords.as_slice(), it.name);
            let m = sg.transform_by(t);
            r.check(cp2(&m.a, &(t * sg.a)) && cp2(&m.b, &(t * sg.b)), "Segment2::transform_by moves both end points by T", d);
            r.check(close(dist(&m.a, &m.b), dist(&sg.a, &sg.b)), "Segment2: length is invariant", d);
            r.check(cv2(&m.dir(), &(t * sg.dir())) && cp2(&m.origin(), &(t * sg.origin())), "Segment2: origin moves, direction only rotates", d);
            for f in [0.0, 0.25, 0.5, 1.0, 1.5] { r.check(cp2(&m.at(f), &(t * sg.at(f))), "Segment2::at commutes with T", || format!("{} parameter {}", d(), f)); }
            // clearly inside / clearly outside the diameter disk (never on its boundary)
            for f in [0.25, 0.5, 0.75, -0.5, 1.5] { let q = sg.at(f); r.check(m.is_on(&(t * q)) == sg.is_on(&q), "Segment2::is_on is invariant", || format!("{} point at parameter {}", d(), f)); }
            r.check(cp2(&mid_point(&m.a, &m.b), &(t * mid_point(&sg.a, &sg.b))), "mid_point commutes with T", d);
            let back = m.transform_by(&t.inverse());
            r.check(cp2(&back.a, &sg.a) && cp2(&back.b, &sg.b), "Segment2: T then T^-1 restores the segment", d);
            let c1 = sg.transform_by(&(t * s)); let c2 = sg.transform_by(s).transform_by(t);
            r.check(cp2(&c1.a, &c2.a) && cp2(&c1.b, &c2.b), "Segment2: transforming by a composition equals transforming in sequence", d);
        }
    }
}
fn point_lists(r: &mut Report, isos: &[I3]) {
    let pts = vec![p3(0.0, 0.0, 0.0), p3(1.0, 0.5, -2.0), p3(-3.0, 2.25, 1.0), p3(4.0, 4.0, 4.0)];
    let normals = vec![u3(0.0, 0.0, 1.0), u3(1.0, 2.0, 2.0), u3(-1.0, 1.0, 0.0), u3(2.0, 3.0, 6.0)];
    let colors = vec![[1u8, 2, 3], [255, 0, 7], [9, 9, 9], [0, 128, 64]];
    for (i, it) in isos.iter().enumerate() { let t = &it.t; let s = &isos[partner(i, isos.len())].t;
        r.case();
        let d = || format!("points {:?} {}", pts.iter().map(|p| (p.x, p.y, p.z)).collect::<Vec<_>>(), it.name);
        let a = transform_points(&pts, t);
        let b = (&pts[..]).transform_by(t);
        let c = (&pts).transform_by(t);
        r.check(a.len() == pts.len() && b.len() == pts.len() && c.len() == pts.len(), "transform_points / TransformBy keep the number of points", d);
        for k in 0..pts.len().min(a.len()).min(b.len()).min(c.len()) {
            r.check(cp3(&a[k], &(t * pts[k])) && cp3(&b[k], &(t * pts[k])) && cp3(&c[k], &(t * pts[k])), "transform_points / TransformBy move point k by T", d);
        }
        for (has_n, has_c) in [(true, true), (true, false), (false, true), (false, false)] {
            let mut pc = PointCloud::try_new(pts.clone(), if has_n { Some(normals.clone()) } else { None }, if has_c { Some(colors.clone()) } else { None }).unwrap();
            let dc = || format!("PointCloud(normals={}, colors={}) {}", has_n, has_c, d());
            pc.transform(t);
            r.check(pc.points().len() == pts.len() && pc.points().iter().zip(pts.iter()).all(|(m, p)| cp3(m, &(t * p))), "PointCloud::transform: every point moves by T", dc);
            r.check(pc.normals().is_some() == has_n && pc.normals().map_or(true, |ns| ns.len() == normals.len() && ns.iter().zip(normals.iter()).all(|(m, n)| cv3(&m.into_inner(), &(t * n.into_inner())))), "PointCloud::transform: normals only rotate", dc);
            r.check(pc.colors().is_some() == has_c && pc.colors().map_or(true, |cs| cs == &colors[..]), "PointCloud::transform: colours are untouched", dc);
            let mut seq = PointCloud::try_new(pts.clone(), if has_n { Some(normals.clone()) } else { None }, None).unwrap();
            seq.transform(s); seq.transform(t);
            let mut comp = PointCloud::try_new(pts.clone(), if has_n { Some(normals.clone()) } else { None }, None).unwrap();
            comp.transform(&(t * s));
            r.check(seq.points().iter().zip(comp.points().iter()).all(|(x, y)| cp3(x, y)) && seq.normals().map_or(true, |ns| ns.iter().zip(comp.normals().unwrap().iter()).all(|(x, y)| cv3(x, y))), "PointCloud: transforming by a composition equals transforming in sequence", dc);
            pc.transform(&t.inverse());
            r.check(pc.points().iter().zip(pts.iter()).all(|(m, p)| cp3(m, p)) && pc.normals().map_or(true, |ns| ns.iter().zip(normals.iter()).all(|(m, n)| cv3(m, n))), "PointCloud: T then T^-1 restores points and normals", dc);
        }
    }
}

// ------------------------------------------------------------------------------------------------ distances (2D <-> 3D lifting)
fn lift2(s: &Iso2) -> Iso3 { Iso3::from_parts(Translation3::new(s.translation.x, s.translation.y, 0.0), UnitQuaternion::from_axis_angle(&Vector3::z_axis(), s.rotation.angle())) }
fn distances(r: &mut Report, isos: &[I3], isos2: &[I2]) {
    let a = p2(0.5, 1.0); let b = p2(2.0, 3.0);
    let ds: Vec<(&str, Distance2)> = vec![
        ("direction None", Distance2::new(a, b, None)), ("direction +x", Distance2::new(a, b, Some(u2(1.0, 0.0)))),
        ("direction (3,4)/5", Distance2::new(a, b, Some(u2(3.0, 4.0)))), ("direction against a->b", Distance2::new(a, b, Some(u2(-1.5, -2.0)))),
        ("direction -y", Distance2::new(p2(-1.0, 0.25), p2(4.0, 1.0), Some(u2(0.0, -1.0)))),
    ];
    for (i, it) in isos.iter().enumerate() { let t = &it.t;
        for (n, d2) in ds.iter() {
            r.case();
            let d = || format!("Distance2 {{ a: {:?}, b: {:?}, {} }} (value {}) {}", d2.a.coords.as_slice(), d2.b.coords.as_slice(), n, d2.value(), it.name);
            let d3 = d2.to_3d(t);
            r.check(cp3(&d3.a, &(t * d2.a.to_3d())) && cp3(&d3.b, &(t * d2.b.to_3d())), "Distance2::to_3d: the end points are lifted (z = 0) and moved by T", d);
            r.check(cv3(&d3.direction.into_inner(), &(t * d2.direction.into_inner().to_3d())), "Distance2::to_3d: the measurement direction is lifted and only rotated", d);
            r.check(close(d3.value(), d2.value()), "Distance2::to_3d: the measured value is invariant", d);
            let back = d3.to_2d(&t.inverse());
            r.check(cp2(&back.a, &d2.a) && cp2(&back.b, &d2.b) && cv2(&back.direction, &d2.direction) && close(back.value(), d2.value()), "Distance3::to_2d(T^-1) after Distance2::to_3d(T) restores end points, direction and value", d);
            // Distance3::to_2d on its own: a measurement lying in the image of the xy plane under T, brought back by S.T^-1 (S in-plane)
            let s = &isos2[partner(i, isos2.len())];
            let m3 = Distance3::new(t * d2.a.to_3d(), t * d2.b.to_3d(), Some(UnitVec3::new_normalize(t * d2.direction.into_inner().to_3d())));
            let m2 = m3.to_2d(&(lift2(&s.t) * t.inverse()));
            r.check(cp2(&m2.a, &(s.t * d2.a)) && cp2(&m2.b, &(s.t * d2.b)), "Distance3::to_2d: the end points are moved by T and projected to z = 0", || format!("{} in-plane {}", d(), s.name));
            r.check(cv2(&m2.direction.into_inner(), &(s.t * d2.direction.into_inner())), "Distance3::to_2d: the measurement direction only rotates", || format!("{} in-plane {}", d(), s.name));
            r.check(close(m2.value(), d2.value()), "Distance3::to_2d: the measured value is invariant", || format!("{} in-plane {}", d(), s.name));
            let rv = d2.reversed().to_3d(t);
            r.check(close(rv.value(), d2.value()), "Distance2::reversed then to_3d keeps the value", d);
            let c = d3.center(); let c2 = d2.center();
            r.check(cp3(&c.point, &(t * c2.point.to_3d())) && cv3(&c.normal, &(t * c2.normal.into_inner().to_3d())), "Distance::center commutes with the lifting", d);
        }
    }
}

// ------------------------------------------------------------------------------------------------ curves
struct C2Case { name: &'static str, pts: Vec<Point2>, tol: f64, fc: bool }
fn curve2_cases() -> Vec<C2Case> { vec![
    C2Case { name: "open polyline", pts: vec![p2(0.0, 0.0), p2(1.0, 0.0), p2(1.5, 1.0), p2(3.0, 1.25)], tol: 1e-6, fc: false },
    C2Case { name: "closed square", pts: vec![p2(0.0, 0.0), p2(2.0, 0.0), p2(2.0, 2.0), p2(0.0, 2.0), p2(0.0, 0.0)], tol: 1e-6, fc: false },
    C2Case { name: "force-closed triangle", pts: vec![p2(0.0, 0.0), p2(2.0, 0.0), p2(1.0, 1.5)], tol: 1e-6, fc: true },
    C2Case { name: "vertices 0.12 apart along x, tol 0.1 (kept)", pts: vec![p2(0.0, 0.0), p2(1.0, 0.0), p2(1.12, 0.0), p2(2.0, 1.0)], tol: 0.1, fc: false },
    C2Case { name: "vertices 0.085*sqrt(2) apart along the diagonal, tol 0.1 (kept)", pts: vec![p2(0.0, 0.0), p2(1.0, 0.0), p2(1.085, 0.085), p2(2.0, 1.5)], tol: 0.1, fc: false },
    C2Case { name: "vertices 0.08 apart along y, tol 0.1 (merged)", pts: vec![p2(0.0, 0.0), p2(1.0, 0.0), p2(1.0, 0.08), p2(2.0, 1.0)], tol: 0.1, fc: false },
    C2Case { name: "vertices 0.05*sqrt(2) apart along the diagonal, tol 0.1 (merged)", pts: vec![p2(0.0, 0.0), p2(1.0, 0.0), p2(1.05, 0.05), p2(2.0, 1.5)], tol: 0.1, fc: false },
] }
fn curves2(r: &mut Report, isos: &[I2]) {
    let fr = [0.0, 0.125, 0.25, 0.5, 0.8125, 1.0];
    let qs = [p2(0.75, 0.5), p2(2.5, 0.25), p2(1.25, 2.75), p2(-1.0, 0.75)];
    for cs in curve2_cases().iter() {
        let c = Curve2::from_points(&cs.pts, cs.tol, cs.fc).unwrap();
        for (i, it) in isos.iter().enumerate() { let t = &it.t; let s = &isos[partner(i, isos.len())].t;
            r.case();
            let d = || format!("Curve2::from_points({:?}, tol={}, force_closed={}) [{}] {}", cs.pts.iter().map(|p| (p.x, p.y)).collect::<Vec<_>>(), cs.tol, cs.fc, cs.name, it.name);
            let m = c.transformed_by(t);
            r.check(m.count() == c.count(), "Curve2::transformed_by keeps the vertex count", d);
            r.check(m.count() == c.count() && m.points().iter().zip(c.points().iter()).all(|(a, b)| cp2(a, &(t * b))), "Curve2::transformed_by moves every vertex by T", d);
            r.check(close(m.length(), c.length()), "Curve2: length is invariant under transformed_by", d);
            r.check(m.lengths().len() == c.lengths().len() && m.lengths().iter().zip(c.lengths().iter()).all(|(a, b)| close(*a, *b)), "Curve2: cumulative vertex lengths are invariant under transformed_by", d);
            r.check(m.is_closed() == c.is_closed() && m.tol() == c.tol(), "Curve2::transformed_by keeps closedness and tolerance", d);
            // the same points given in another frame build the same curve (count, length)
            let moved: Vec<Point2> = cs.pts.iter().map(|p| t * p).collect();
            match Curve2::from_points(&moved, cs.tol, cs.fc) {
                Ok(f) => {
                    r.check(f.count() == c.count(), "Curve2 built from the points given in another frame has the same vertex count", d);
                    r.check(close(f.length(), c.length()), "Curve2 built from the points given in another frame has the same length", d);
                    r.check(f.is_closed() == c.is_closed(), "Curve2 built from the points given in another frame has the same closedness", d);
                }
                Err(_) => r.check(false, "Curve2 can be built from the points given in another frame", d),
            }
            for f in fr {
                let df = || format!("{} fraction {}", d(), f);
                match (c.at_fraction(f), m.at_fraction(f)) {
                    (Some(a), Some(b)) => {
                        r.check(cp2(&b.point(), &(t * a.point())), "Curve2: the point at a fraction of the length commutes with T", df);
                        r.check(close(b.length_along(), a.length_along()), "Curve2: the station length at a fraction is invariant", df);
                        if f > 0.0 && f < 1.0 && a.fraction() > 1e-6 && a.fraction() < 1.0 - 1e-6 {
                            r.check(cv2(&b.direction().into_inner(), &(t * a.direction().into_inner())), "Curve2: the direction at a station only rotates", df);
                        }
                    }
                    (None, None) => {}
                    _ => r.check(false, "Curve2: a station exists at a fraction in both frames or in neither", df),
                }
            }
            for q in qs.iter() { let tq = t * q;
                let dq = || format!("{} query {:?}", d(), q.coords.as_slice());
                r.check(close(m.dist_to_point(&tq), c.dist_to_point(q)), "Curve2::dist_to_point is invariant", dq);
                let a = c.at_closest_to_point(q); let b = m.at_closest_to_point(&tq);
                r.check(cp2(&b.point(), &(t * a.point())), "Curve2::at_closest_to_point commutes with T", dq);
                if a.fraction() > 1e-6 && a.fraction() < 1.0 - 1e-6 {
                    r.check(b.index() == a.index() && close(b.fraction(), a.fraction()) && close(b.length_along(), a.length_along()), "Curve2::at_closest_to_point: the station (edge, fraction, length) is invariant", dq);
                }
            }
            let back = m.transformed_by(&t.inverse());
            r.check(back.count() == c.count() && back.points().iter().zip(c.points().iter()).all(|(a, b)| cp2(a, b)) && close(back.length(), c.length()), "Curve2: T then T^-1 restores the curve", d);
            let c1 = c.transformed_by(&(t * s)); let c2 = c.transformed_by(s).transformed_by(t);
            r.check(c1.count() == c2.count() && c1.points().iter().zip(c2.points().iter()).all(|(a, b)| cp2(a, b)), "Curve2: transforming by a composition equals transforming in sequence", d);
        }
    }
}
struct C3Case { name: &'static str, pts: Vec<Point3>, tol: f64 }
fn curve3_cases() -> Vec<C3Case> { vec![
    C3Case { name: "open polyline", pts: vec![p3(0.0, 0.0, 0.0), p3(1.0, 0.0, 0.5), p3(1.5, 1.0, 0.5), p3(3.0, 1.25, -1.0)], tol: 1e-6 },
    C3Case { name: "closed loop", pts: vec![p3(0.0, 0.0, 0.0), p3(2.0, 0.0, 0.0), p3(2.0, 2.0, 1.0), p3(0.0, 2.0, 1.0), p3(0.0, 0.0, 0.0)], tol: 1e-6 },
    C3Case { name: "vertices 0.12 apart along x, tol 0.1 (kept)", pts: vec![p3(0.0, 0.0, 0.0), p3(1.0, 0.0, 0.0), p3(1.12, 0.0, 0.0), p3(2.0, 1.0, 1.0)], tol: 0.1 },
    C3Case { name: "vertices 0.07*sqrt(3) apart along (1,1,1), tol 0.1 (kept)", pts: vec![p3(0.0, 0.0, 0.0), p3(1.0, 0.0, 0.0), p3(1.07, 0.07, 0.07), p3(2.0, 1.0, 1.5)], tol: 0.1 },
    C3Case { name: "vertices 0.085*sqrt(2) apart along (0,1,1), tol 0.1 (kept)", pts: vec![p3(0.0, 0.0, 0.0), p3(1.0, 0.0, 0.0), p3(1.0, 0.085, 0.085), p3(2.0, 1.0, 1.5)], tol: 0.1 },
    C3Case { name: "vertices 0.08 apart along z, tol 0.1 (merged)", pts: vec![p3(0.0, 0.0, 0.0), p3(1.0, 0.0, 0.0), p3(1.0, 0.0, 0.08), p3(2.0, 1.0, 1.0)], tol: 0.1 },
    C3Case { name: "vertices 0.05*sqrt(3) apart along (1,1,1), tol 0.1 (merged)", pts: vec![p3(0.0, 0.0, 0.0), p3(1.0, 0.0, 0.0), p3(1.05, 0.05, 0.05), p3(2.0, 1.0, 1.5)], tol: 0.1 },
] }
fn curves3(r: &mut Report, isos: &[I3]) {
    let fr = [0.0, 0.125, 0.25, 0.5, 0.8125, 1.0];
    let qs = [p3(0.75, 0.5, 0.125), p3(2.5, 0.25, -0.5), p3(1.25, 2.75, 1.0), p3(-1.0, 0.75, 2.0)];
    for cs in curve3_cases().iter() {
        let c = Curve3::from_points(&cs.pts, cs.tol).unwrap();
        for (i, it) in isos.iter().enumerate() { let t = &it.t; let s = &isos[partner(i, isos.len())].t;
            r.case();
            let d = || format!("Curve3::from_points({:?}, tol={}) [{}] {}", cs.pts.iter().map(|p| (p.x, p.y, p.z)).collect::<Vec<_>>(), cs.tol, cs.name, it.name);
            let m = c.transformed_by(t);
            r.check(m.count() == c.count(), "Curve3::transformed_by keeps the vertex count", d);
            r.check(m.count() == c.count() && m.points().iter().zip(c.points().iter()).all(|(a, b)| cp3(a, &(t * b))), "Curve3::transformed_by moves every vertex by T", d);
            r.check(close(m.length(), c.length()), "Curve3: length is invariant under transformed_by", d);
            r.check(m.lengths().len() == c.lengths().len() && m.lengths().iter().zip(c.lengths().iter()).all(|(a, b)| close(*a, *b)), "Curve3: cumulative vertex lengths are invariant under transformed_by", d);
            r.check(m.tol() == c.tol(), "Curve3::transformed_by keeps the tolerance", d);
            let moved: Vec<Point3> = cs.pts.iter().map(|p| t * p).collect();
            match Curve3::from_points(&moved, cs.tol) {
                Ok(f) => {
                    r.check(f.count() == c.count(), "Curve3 built from the points given in another frame has the same vertex count", d);
                    r.check(close(f.length(), c.length()), "Curve3 built from the points given in another frame has the same length", d);
                }
                Err(_) => r.check(false, "Curve3 can be built from the points given in another frame", d),
            }
            for f in fr {
                let df = || format!("{} fraction {}", d(), f);
                match (c.at_fraction(f), m.at_fraction(f)) {
                    (Some(a), Some(b)) => {
                        r.check(cp3(&b.point(), &(t * a.point())), "Curve3: the point at a fraction of the length commutes with T", df);
                        r.check(close(b.length_along(), a.length_along()), "Curve3: the station length at a fraction is invariant", df);
                        if f > 0.0 && f < 1.0 && a.fraction() > 1e-6 && a.fraction() < 1.0 - 1e-6 {
                            r.check(cv3(&b.direction().into_inner(), &(t * a.direction().into_inner())), "Curve3: the direction at a station only rotates", df);
                        }
                    }
                    (None, None) => {}
                    _ => r.check(false, "Curve3: a station exists at a fraction in both frames or in neither", df),
                }
            }
            for q in qs.iter() { let tq = t * q;
                let dq = || format!("{} query {:?}", d(), q.coords.as_slice());
                r.check(close(m.dist_to_point(&tq), c.dist_to_point(q)), "Curve3::dist_to_point is invariant", dq);
                let a = c.at_closest_to_point(q); let b = m.at_closest_to_point(&tq);
                r.check(cp3(&b.point(), &(t * a.point())), "Curve3::at_closest_to_point commutes with T", dq);
                if a.fraction() > 1e-6 && a.fraction() < 1.0 - 1e-6 {
                    r.check(b.index() == a.index() && close(b.fraction(), a.fraction()) && close(b.length_along(), a.length_along()), "Curve3::at_closest_to_point: the station (edge, fraction, length) is invariant", dq);
                }
            }
            let back = m.transformed_by(&t.inverse());
            r.check(back.count() == c.count() && back.points().iter().zip(c.points().iter()).all(|(a, b)| cp3(a, b)) && close(back.length(), c.length()), "Curve3: T then T^-1 restores the curve", d);
            let c1 = c.transformed_by(&(t * s)); let c2 = c.transformed_by(s).transformed_by(t);
            r.check(c1.count() == c2.count() && c1.points().iter().zip(c2.points().iter()).all(|(a, b)| cp3(a, b)), "Curve3: transforming by a composition equals transforming in sequence", d);
        }
    }
}

// ------------------------------------------------------------------------------------------------ meshes
// kind: 0 = the closest point is interior to one triangle (no tie), 1 = on an edge / corner of the box at equal angles to
// the adjacent faces (the reported face may differ between frames; distance, closest point and acceptance may not)
struct MQ { q: Point3, kind: u8, name: &'static str }
fn mesh_queries() -> Vec<MQ> { vec![
    MQ { q: p3(0.5, 1.25, 5.5), kind: 0, name: "above the z=4 face" },
    MQ { q: p3(-1.5, 1.0, 1.25), kind: 0, name: "beside the x=0 face" },
    MQ { q: p3(1.0, 4.25, 0.5), kind: 0, name: "beside the y=3 face" },
    MQ { q: p3(0.5, 1.0, 1.25), kind: 0, name: "inside, nearest to the x=0 face" },
    MQ { q: p3(3.0, 4.0, 1.5), kind: 1, name: "off the edge x=2,y=3 along the diagonal" },
    MQ { q: p3(3.0, 4.0, 5.0), kind: 1, name: "off the corner (2,3,4) along the diagonal" },
    MQ { q: p3(0.5, 1.25, 10.0), kind: 0, name: "far above the z=4 face" },
] }
fn meshes(r: &mut Report, isos: &[I3]) {
    let params = [(3.0, 0.5), (3.0, 1.0), (0.75, 0.5), (100.0, 0.125)];
    for solid in [false, true] {
        let base = Mesh::create_box(2.0, 3.0, 4.0, solid);
        for (i, it) in isos.iter().enumerate() { let t = &it.t; let s = &isos[partner(i, isos.len())].t; let ti = t.inverse();
            r.case();
            let d = || format!("Mesh::create_box(2, 3, 4, is_solid={}) {}", solid, it.name);
            let mut moved = base.clone();
            moved.transform(t);
            r.check(moved.vertices().len() == base.vertices().len() && moved.vertices().iter().zip(base.vertices().iter()).all(|(a, b)| cp3(a, &(t * b))), "Mesh::transform moves every vertex by T", d);
            r.check(moved.faces() == base.faces(), "Mesh::transform keeps the faces", d);
            let mut back = moved.clone(); back.transform(&ti);
            r.check(back.vertices().iter().zip(base.vertices().iter()).all(|(a, b)| cp3(a, b)), "Mesh: T then T^-1 restores the vertices", d);
            let mut seq = base.clone(); seq.transform(s); seq.transform(t);
            let mut comp = base.clone(); comp.transform(&(t * s));
            r.check(seq.vertices().iter().zip(comp.vertices().iter()).all(|(a, b)| cp3(a, b)), "Mesh: transforming by a composition equals transforming in sequence", d);
            for mq in mesh_queries().iter() { let q = &mq.q; let tq = t * q;
                let dq = || format!("{} query {:?} ({})", d(), q.coords.as_slice(), mq.name);
                let cl = base.point_closest_to(q);
                r.check(cp3(&moved.point_closest_to(&tq), &(t * cl)), "Mesh::point_closest_to commutes with T", dq);
                r.check(close(dist(&moved.point_closest_to(&tq), &tq), dist(&cl, q)), "point-to-mesh distance is invariant", dq);
                if mq.kind == 0 {
                    let a = base.surf_closest_to(q); let b = moved.surf_closest_to(&tq);
                    r.check(cp3(&b.point, &(t * a.point)) && cv3(&b.normal.into_inner(), &(t * a.normal.into_inner())), "Mesh::surf_closest_to commutes with T (point moves, normal only rotates)", dq);
                }
                for (mode, mname) in [(DistMode::ToPoint, "ToPoint"), (DistMode::ToPlane, "ToPlane")] {
                    if mq.kind != 0 && mname == "ToPlane" { continue; }
                    let dm = || format!("{} mode {}", dq(), mname);
                    let a = base.measure_point_deviation(q, match mname { "ToPoint" => DistMode::ToPoint, _ => DistMode::ToPlane });
                    let b = moved.measure_point_deviation(&tq, mode);
                    r.check(close(b.value(), a.value()), "Mesh::measure_point_deviation: the signed deviation is invariant", dm);
                    r.check(cp3(&b.a, &(t * a.a)) && cp3(&b.b, &(t * a.b)), "Mesh::measure_point_deviation: the end points move by T", dm);
                    if dist(&a.a, &a.b) > 1e-3 { r.check(cv3(&b.direction.into_inner(), &(t * a.direction.into_inner())), "Mesh::measure_point_deviation: the direction only rotates", dm); }
                }
                // the query given in another frame together with the frame-to-mesh isometry
                let q_other = ti * q;
                for (max_dist, max_angle) in params {
                    let dp = || format!("{} max_dist {} max_angle {}", dq(), max_dist, max_angle);
                    let direct = base.project_with_tol(q, max_dist, max_angle, None);
                    let framed = base.project_with_tol(&q_other, max_dist, max_angle, Some(t));
                    r.check(direct.is_some() == framed.is_some(), "Mesh::project_with_tol: a query given in another frame (Some(T)) is accepted exactly when the same point given directly is", dp);
                    if let (Some(a), Some(b)) = (&direct, &framed) {
                        r.check(cp3(&a.0.point, &b.0.point) && (mq.kind != 0 || a.1 == b.1), "Mesh::project_with_tol: a query given in another frame (Some(T)) projects to the same point and face", dp);
                    }
                    let on_moved = moved.project_with_tol(&tq, max_dist, max_angle, None);
                    r.check(direct.is_some() == on_moved.is_some(), "Mesh::project_with_tol: moving mesh and query together does not change acceptance", dp);
                    if let (Some(a), Some(b)) = (&direct, &on_moved) {
                        r.check(cp3(&(t * a.0.point), &b.0.point) && (mq.kind != 0 || a.1 == b.1), "Mesh::project_with_tol: moving mesh and query together moves the projection by T", dp);
                    }
                    let dm = base.project_with_max_dist(q, max_dist); let mm = moved.project_with_max_dist(&tq, max_dist);
                    r.check(dm.is_some() == mm.is_some(), "Mesh::project_with_max_dist: moving mesh and query together does not change the answer", dp);
                }
                let all = [*q, p3(0.5, 1.25, 5.5), p3(3.0, 4.0, 5.0)];
                let all_other: Vec<Point3> = all.iter().map(|p| ti * p).collect();
                r.check(base.indices_in_tol(&all, 3.0, 0.5, None) == base.indices_in_tol(&all_other, 3.0, 0.5, Some(t)), "Mesh::indices_in_tol: points given in another frame (Some(T)) select the same indices", dq);
            }
        }
    }
}


// ------------------------------------------------------------------------------------------------ ill-conditioned measurements
// (a) planar_distance of a point far along the normal (tens of units) and 0 / 1e-6 .. 1e-4 off the normal line
fn planar_far_along_normal(r: &mut Report, isos3: &[I3], isos2: &[I2]) {
    let sps3 = [(SurfacePoint3::new(p3(0.5, -1.0, 2.0), u3(0.0, 0.0, 1.0)), Vector3::new(1.0, 0.0, 0.0)),
        (SurfacePoint3::new(p3(0.0, 0.0, 0.0), u3(1.0, 2.0, 2.0)), Vector3::new(2.0, -2.0, 1.0) / 3.0),
        (SurfacePoint3::new(p3(-2.0, 0.75, 1.0), u3(3.0, -4.0, 0.0)), Vector3::new(0.8, 0.6, 0.0))];
    let sps2 = [(SurfacePoint2::new(p2(0.5, -1.0), u2(0.0, 1.0)), Vector2::new(1.0, 0.0)), (SurfacePoint2::new(p2(0.0, 0.0), u2(3.0, 4.0)), Vector2::new(-0.8, 0.6)),
        (SurfacePoint2::new(p2(-2.0, 0.75), u2(1.0, -1.0)), Vector2::new(1.0, 1.0).normalize())];
    let along = [10.0, 40.0, -75.0];
    let off = [0.0, 1e-6, 1e-5, 1e-4];
    for it in isos3.iter() { let t = &it.t;
        for (sp, w) in sps3.iter() { let m = sp.transformed(t);
            for l in along { for e in off {
                r.case();
                let q = sp.point + sp.normal.into_inner() * l + w * e;
                let (a, b) = (sp.planar_distance(&q), m.planar_distance(&(t * q)));
                let d = || format!("SurfacePoint3 {{ point: {:?}, normal: {:?} }} query {:?} = point + {} * normal + {:?} * {:?} (a unit vector orthogonal to the normal) {}: planar_distance {:?} in the reference frame, {:?} after moving surface point and query by T", sp.point.coords.as_slice(), sp.normal.as_slice(), q.coords.as_slice(), l, e, w.as_slice(), it.name, a, b);
                r.check(close(a, e), "SurfacePoint3::planar_distance of a point far along the normal equals its distance from the normal line (1e-9 absolute)", d);
                r.check(close(b, a), "SurfacePoint3::planar_distance of a point far along the normal is invariant (1e-9 absolute)", d);
                r.check(close(m.scalar_projection(&(t * q)), sp.scalar_projection(&q)), "SurfacePoint3::scalar_projection of a point far along the normal is invariant", d);
            } }
        }
    }
    for it in isos2.iter() { let t = &it.t;
        for (sp, w) in sps2.iter() { let m = sp.transformed(t);
            for l in along { for e in off {
                r.case();
                let q = sp.point + sp.normal.into_inner() * l + w * e;
                let (a, b) = (sp.planar_distance(&q), m.planar_distance(&(t * q)));
                let d = || format!("SurfacePoint2 {{ point: {:?}, normal: {:?} }} query {:?} = point + {} * normal + {:?} * {:?} (a unit vector orthogonal to the normal) {}: planar_distance {:?} in the reference frame, {:?} after moving surface point and query by T", sp.point.coords.as_slice(), sp.normal.as_slice(), q.coords.as_slice(), l, e, w.as_slice(), it.name, a, b);
                r.check(close(a, e), "SurfacePoint2::planar_distance of a point far along the normal equals its distance from the normal line (1e-9 absolute)", d);
                r.check(close(b, a), "SurfacePoint2::planar_distance of a point far along the normal is invariant (1e-9 absolute)", d);
                r.check(close(m.scalar_projection(&(t * q)), sp.scalar_projection(&q)), "SurfacePoint2::scalar_projection of a point far along the normal is invariant", d);
            } }
        }
    }
}

/// an open roof: two 4 x 2.5 rectangles meeting at the ridge y = 1.5, z = 2; UV = the unfolded roof (x, arc length across)
fn roof(with_uv: bool) -> Mesh {
    let v = vec![p3(0.0, 0.0, 0.0), p3(4.0, 0.0, 0.0), p3(0.0, 1.5, 2.0), p3(4.0, 1.5, 2.0), p3(0.0, 3.0, 0.0), p3(4.0, 3.0, 0.0)];
    let f = vec![[0u32, 1, 3], [0, 3, 2], [2, 3, 5], [2, 5, 4]];
    if with_uv {
        let uv = crate::geom3::UvMapping::new(vec![p2(0.0, 0.0), p2(4.0, 0.0), p2(0.0, 2.5), p2(4.0, 2.5), p2(0.0, 5.0), p2(4.0, 5.0)], f.clone()).unwrap();
        Mesh::new_with_uv(v, f, false, Some(uv))
    } else { Mesh::new(v, f, false) }
}

// (b) signed deviations of points 1e-7 .. 1e-2 from the mesh whose closest point is on an edge / corner, offset oblique
// to the face normal.  Below the 1e-6 epsilon of measure_point_deviation only rim edges (one face: no tie between
// face normals); offsets are kept a factor 3 away from that epsilon.
fn deviations_near_edges(r: &mut Report, isos: &[I3]) {
    struct Q { base: Point3, dir: Vector3, rim: bool, name: &'static str }
    let bx = Mesh::create_box(2.0, 3.0, 4.0, false);
    let rf = roof(false);
    let n1 = Vector3::new(0.0, -2.0, 1.5) / 2.5; // normal of the roof side y < 1.5 (faces [0,1,3], [0,3,2]): (1,0,0) x (0,1.5,2) = (0,-2,1.5)
    let qb = vec![
        Q { base: p3(2.0, 3.0, 1.5), dir: Vector3::new(1.0, 2.0, 0.0), rim: false, name: "off the box edge x=2,y=3, oblique" },
        Q { base: p3(2.0, 3.0, 1.5), dir: Vector3::new(3.0, 1.0, 0.0), rim: false, name: "off the box edge x=2,y=3, oblique" },
        Q { base: p3(2.0, 3.0, 4.0), dir: Vector3::new(1.0, 2.0, 3.0), rim: false, name: "off the box corner (2,3,4), oblique" },
        Q { base: p3(0.5, 0.0, 4.0), dir: Vector3::new(0.0, -3.0, 1.0), rim: false, name: "off the box edge y=0,z=4, oblique" },
    ];
    let qr = vec![
        Q { base: p3(1.25, 0.0, 0.0), dir: Vector3::new(0.0, -1.5, -2.0) / 2.5 * 3.0 + n1, rim: true, name: "off the roof rim y=0: 3 parts outward in the face plane, 1 part along the face normal" },
        Q { base: p3(1.25, 0.0, 0.0), dir: Vector3::new(0.0, -1.5, -2.0) / 2.5 - n1 * 2.0, rim: true, name: "off the roof rim y=0: 1 part outward in the face plane, 2 parts against the face normal" },
        Q { base: p3(0.0, 0.75, 1.0), dir: Vector3::new(-4.0, 0.0, 0.0) + n1 * 3.0, rim: true, name: "off the roof rim x=0: 4 parts outward, 3 parts along the face normal" },
        Q { base: p3(4.0, 0.0, 0.0), dir: Vector3::new(2.0, -1.0, -1.0) + n1, rim: true, name: "off the roof rim corner (4,0,0), oblique" },
    ];
    let offsets = [1e-7, 3e-6, 1e-5, 1e-4, 1e-3, 1e-2];
    for (mname, base, qs) in [("Mesh::create_box(2, 3, 4, is_solid=false)", &bx, &qb), ("open roof mesh (ridge y=1.5, z=2)", &rf, &qr)] {
        for it in isos.iter() { let t = &it.t;
            let mut moved = base.clone(); moved.transform(t);
            for q in qs.iter() { for h in offsets {
                if h < 1e-6 && !q.rim { continue; }
                r.case();
                let p = q.base + q.dir.normalize() * h;
                let tp = t * p;
                let a = base.measure_point_deviation(&p, DistMode::ToPoint); let b = moved.measure_point_deviation(&tp, DistMode::ToPoint);
                let d = || format!("{} {} query {:?} = {:?} + {:?} * unit{:?} ({}): deviation {:?} in the reference frame, {:?} after moving mesh and query by T", mname, it.name, p.coords.as_slice(), q.base.coords.as_slice(), h, q.dir.as_slice(), q.name, a.value(), b.value());
                r.check(close(b.value(), a.value()), "Mesh::measure_point_deviation (ToPoint) 1e-7..1e-2 off an edge / corner: the signed deviation is invariant (1e-9 absolute)", d);
                r.check(close(dist(&moved.point_closest_to(&tp), &tp), dist(&base.point_closest_to(&p), &p)), "point-to-mesh distance 1e-7..1e-2 off an edge / corner is invariant (1e-9 absolute)", d);
                if q.rim {
                    let a = base.measure_point_deviation(&p, DistMode::ToPlane); let b = moved.measure_point_deviation(&tp, DistMode::ToPlane);
                    r.check(close(b.value(), a.value()), "Mesh::measure_point_deviation (ToPlane) 1e-7..1e-2 off a rim edge: the signed deviation is invariant (1e-9 absolute)", || format!("{} ToPlane {:?} vs {:?}", d(), a.value(), b.value()));
                }
            } }
        }
    }
}

// (c) UV-mapped mesh: Mesh::uv_with_tol with the query given in another frame (Some(T)), on the moved mesh, and back
// through Mesh::uv_to_3d
fn uv_mapped_mesh(r: &mut Report, isos: &[I3]) {
    let base = roof(true);
    let n1 = Vector3::new(0.0, -2.0, 1.5) / 2.5; let n2 = Vector3::new(0.0, 2.0, 1.5) / 2.5; // (1,0,0) x (0,1.5,-2) = (0,2,1.5)
    // (foot on the mesh, offset): feet inside faces with an offset along the face normal (both sides), and one oblique offset
    let qs: Vec<(Point3, Vector3, &str)> = vec![
        (p3(1.0, 0.375, 0.5), n1 * 0.05, "above face [0,1,3] side"), (p3(3.0, 0.75, 1.0), n1 * -0.125, "below the y<1.5 side"),
        (p3(2.5, 2.25, 1.0), n2 * 0.25, "above the y>1.5 side"), (p3(0.5, 2.625, 0.5), n2 * -0.0625, "below the y>1.5 side"),
        (p3(1.5, 0.0, 0.0), Vector3::new(0.0, -1.5, -2.0) / 2.5 * 0.03 + n1 * 0.04, "off the rim y=0, 3:4 oblique"),
    ];
    let params = [(1.0, 0.5), (1.0, 1.5), (0.1, 0.5)];
    for it in isos.iter() { let t = &it.t; let ti = t.inverse();
        let mut moved = base.clone(); moved.transform(t);
        for (foot, off, qname) in qs.iter() {
            let q = foot + off; let q_other = ti * q; let tq = t * q;
            for (max_dist, max_angle) in params {
                r.case();
                let d = || format!("UV-mapped open roof mesh (ridge y=1.5, z=2; uv = (x, arc length across)) {} query {:?} ({}) max_dist {} max_angle {}", it.name, q.coords.as_slice(), qname, max_dist, max_angle);
                let direct = base.uv_with_tol(&q, max_dist, max_angle, None);
                let framed = base.uv_with_tol(&q_other, max_dist, max_angle, Some(t));
                let on_moved = moved.uv_with_tol(&tq, max_dist, max_angle, None);
                let dd = || format!("{}: direct {:?}, query given in another frame with Some(T) {:?}, mesh and query moved by T {:?}", d(), direct, framed, on_moved);
                let same = |a: &Option<(Point2, f64)>, b: &Option<(Point2, f64)>| match (a, b) { (None, None) => true, (Some(x), Some(y)) => cp2(&x.0, &y.0) && close(x.1, y.1), _ => false };
                r.check(same(&direct, &framed), "Mesh::uv_with_tol: a query given in another frame (Some(T)) gives the same uv AND the same depth as the same point given directly", dd);
                r.check(same(&direct, &on_moved), "Mesh::uv_with_tol: moving mesh and query together changes neither uv nor depth", dd);
                if let Some((uv, depth)) = direct {
                    // expected values from the construction: depth = component of the offset along the face normal
                    let n = if foot.y < 1.5 { n1 } else { n2 };
                    r.check(close(depth, n.dot(off)), "Mesh::uv_with_tol: the depth is the signed distance of the query from the face plane", dd);
                    let s = if foot.y < 1.5 { foot.y / 1.5 * 2.5 } else { 2.5 + (foot.y - 1.5) / 1.5 * 2.5 };
                    r.check(cp2(&uv, &p2(foot.x, s)), "Mesh::uv_with_tol: uv is the image of the closest point in the UV map", dd);
                    match (base.uv_to_3d(&uv), moved.uv_to_3d(&uv)) {
                        (Some(a), Some(b)) => {
                            // own clause names: fails on the unfixed tree for a uv strictly inside a UV triangle (UvMapping::triangle projects with solid = false)
                            r.check(cp3(&a.point, foot) && cv3(&a.normal.into_inner(), &n), "[UvMapping::triangle, uv inside a triangle] Mesh::uv_to_3d of the uv reported for a query returns the query's closest point and the face normal", || format!("{}; uv_to_3d = ({:?}, {:?}), expected ({:?}, {:?})", dd(), a.point.coords.as_slice(), a.normal.as_slice(), foot.coords.as_slice(), n.as_slice()));
                            r.check(cp3(&b.point, &(t * a.point)) && cv3(&b.normal.into_inner(), &(t * a.normal.into_inner())), "Mesh::uv_to_3d commutes with T (point moves, normal only rotates)", dd);
                            if off.cross(&n).norm() < 1e-12 { r.check(cp3(&a.at_distance(depth), &q), "[UvMapping::triangle, uv inside a triangle] Mesh::uv_to_3d + depth reproduces a query that lies on the face normal through its closest point", dd); }
                        }
                        _ => r.check(false, "Mesh::uv_to_3d finds the uv reported by uv_with_tol", dd),
                    }
                }
            }
        }
    }
}


// ------------------------------------------------------------------------------------------------ round 3
/// rotations that are TINY but not zero (1e-7 .. 1e-5 rad: the quaternion's scalar part differs from 1 by less than 1e-10, the
/// rotation matrix from the identity by less than 1e-5) about 3 axes, with and without a translation
pub fn tiny_isos3() -> Vec<I3> {
    let axes = [("z", u3(0.0, 0.0, 1.0)), ("x", u3(1.0, 0.0, 0.0)), ("(1,2,3)", u3(1.0, 2.0, 3.0))];
    let angs = [1.0e-8, 1.0e-7, -1.0e-6, 3.0e-6, 1.0e-5];
    let trans = [(0.0, 0.0, 0.0), (0.5, -0.25, 2.0), (1000.0, -500.0, 250.0)];
    let mut out = vec![];
    for (an, ax) in axes.iter() { for a in angs { for (x, y, z) in trans {
        out.push(I3 { name: format!("T=[rotation by {:?} rad about {} then +({},{},{})]", a, an, x, y, z), t: Iso3::from_parts(Translation3::new(x, y, z), UnitQuaternion::from_axis_angle(ax, a)), exact: false });
    } } }
    // motions that are close to the identity in BOTH parts: no rotation / 1e-8 rad with a translation of 1e-8 (visible on data near
    // the origin: 1e-8 against a tolerance of 1e-9 * (1 + size))
    for (x, y, z) in [(1.0e-8, 0.0, 0.0), (0.0, -1.0e-8, 1.0e-8)] {
        out.push(I3 { name: format!("T=[no rotation, +({:?},{:?},{:?})]", x, y, z), t: Iso3::from_parts(Translation3::new(x, y, z), UnitQuaternion::identity()), exact: false });
        out.push(I3 { name: format!("T=[rotation by 1e-8 rad about (1,2,3) then +({:?},{:?},{:?})]", x, y, z), t: Iso3::from_parts(Translation3::new(x, y, z), UnitQuaternion::from_axis_angle(&u3(1.0, 2.0, 3.0), 1.0e-8)), exact: false });
    }
    out
}
fn tiny_isos2() -> Vec<I2> {
    let mut out = vec![];
    for a in [1.0e-8, 1.0e-7, -1.0e-6, 3.0e-6, 1.0e-5] { for (x, y) in [(0.0, 0.0), (1.0e-8, -1.0e-8), (3.0, -1.5), (1000.0, -250.0)] {
        out.push(I2 { name: format!("T=[rotation by {:?} rad then +({},{})]", a, x, y), t: Iso2::from_parts(Translation2::new(x, y), UnitComplex::new(a)) });
    } }
    out
}
fn shifted_box(w: f64, h: f64, d: f64, at: Vector3, solid: bool) -> Mesh {
    let b = Mesh::create_box(w, h, d, solid);
    Mesh::new(b.vertices().iter().map(|p| p + at).collect(), b.faces().to_vec(), solid)
}
/// the same surface as `m` as a triangle soup: every face owns its three vertices (coincident positions, 3 * faces vertices)
fn soup(m: &Mesh) -> Mesh {
    let mut v = vec![]; let mut f = vec![];
    for t in m.faces() { let b = v.len() as u32; for k in 0..3 { v.push(m.vertices()[t[k] as usize]); } f.push([b, b + 1, b + 2]); }
    Mesh::new(v, f, m.is_solid())
}
fn mesh_moves(r: &mut Report, mname: &str, base: &Mesh, it: &I3, s: &Iso3) {
    let t = &it.t;
    r.case();
    let d = || format!("{} ({} vertices, {} faces) {}", mname, base.vertices().len(), base.faces().len(), it.name);
    let mut moved = base.clone(); moved.transform(t);
    r.check(moved.vertices().len() == base.vertices().len(), "Mesh::transform keeps the number of vertices (coincident vertices are not merged)", d);
    let bad = moved.vertices().iter().zip(base.vertices().iter()).position(|(a, b)| !cp3(a, &(t * b)));
    r.check(moved.vertices().len() == base.vertices().len() && bad.is_none(), "Mesh::transform: vertex i of the moved mesh is T * vertex i (full isometry: rotation and translation)", || { let k = bad.unwrap_or(0); format!("{}: vertex {} {:?} became {:?}, T * vertex = {:?}", d(), k, base.vertices()[k].coords.as_slice(), moved.vertices().get(k).map(|p| p.coords.as_slice().to_vec()), (t * base.vertices()[k]).coords.as_slice()) });
    r.check(moved.faces() == base.faces() && moved.is_solid() == base.is_solid(), "Mesh::transform keeps the faces (same index triples in the same order) and the solid flag", d);
    let mut back = moved.clone(); back.transform(&t.inverse());
    r.check(back.vertices().len() == base.vertices().len() && back.vertices().iter().zip(base.vertices().iter()).all(|(a, b)| cp3(a, b)), "Mesh: T then T^-1 restores the vertices", d);
    let mut seq = base.clone(); seq.transform(s); seq.transform(t);
    let mut comp = base.clone(); comp.transform(&(t * s));
    r.check(seq.vertices().len() == comp.vertices().len() && seq.vertices().iter().zip(comp.vertices().iter()).all(|(a, b)| cp3(a, b)), "Mesh: transforming by a composition equals transforming in sequence", d);
}

/// (a) every bulk transform under TINY rotations, on data far from the origin (radius 1e3) as well as near it
fn tiny_rotations_far_data(r: &mut Report) {
    let isos = tiny_isos3();
    let pts = vec![p3(1000.0, 0.0, 0.0), p3(0.0, 1000.0, 0.0), p3(600.0, 800.0, 0.0), p3(0.0, -600.0, 800.0), p3(360.0, 480.0, 800.0), p3(-640.0, 0.0, -768.0), p3(1.0, 0.5, -2.0)];
    let normals = vec![u3(0.0, 0.0, 1.0), u3(1.0, 2.0, 2.0), u3(-1.0, 1.0, 0.0), u3(2.0, 3.0, 6.0), u3(1.0, 0.0, 0.0), u3(0.0, -3.0, 4.0), u3(0.0, 1.0, 0.0)];
    let far_box = shifted_box(2.0, 3.0, 4.0, Vector3::new(600.0, 0.0, 800.0), false);
    let mut touching = shifted_box(2.0, 3.0, 4.0, Vector3::new(-640.0, 0.0, -768.0), false);
    touching.append(&shifted_box(1.0, 3.0, 4.0, Vector3::new(-638.0, 0.0, -768.0), false)).unwrap();
    let meshes: Vec<(&str, Mesh)> = vec![
        ("box 2x3x4 at (600,0,800)", far_box.clone()), ("triangle soup of the box 2x3x4 at (600,0,800)", soup(&far_box)),
        ("box 2x3x4 at (-640,0,-768) + appended box 1x3x4 sharing its x = -638 face", touching),
        ("Mesh::create_box(2, 3, 4, is_solid=true)", Mesh::create_box(2.0, 3.0, 4.0, true)),
    ];
    let c3 = Curve3::from_points(&[p3(1000.0, 0.0, 0.0), p3(1000.0, 3.0, 1.0), p3(996.0, 3.0, 4.0), p3(990.0, -5.0, 4.0)], 1e-6).unwrap();
    let pls = [Plane3::new(u3(0.0, 0.0, 1.0), 800.0), Plane3::new(u3(1.0, 2.0, 2.0), 1.5), Plane3::new(u3(3.0, -4.0, 0.0), -1000.0)];
    for (i, it) in isos.iter().enumerate() { let t = &it.t; let s = &isos[partner(i, isos.len())].t;
        r.case();
        let d = || format!("points {:?} {}", pts.iter().map(|p| (p.x, p.y, p.z)).collect::<Vec<_>>(), it.name);
        let a = transform_points(&pts, t); let b = (&pts).transform_by(t);
        r.check(a.len() == pts.len() && b.len() == pts.len() && (0..pts.len()).all(|k| cp3(&a[k], &(t * pts[k])) && cp3(&b[k], &(t * pts[k]))), "transform_points / TransformBy move point k by T", d);
        for has_n in [true, false] {
            let mut pc = PointCloud::try_new(pts.clone(), if has_n { Some(normals.clone()) } else { None }, None).unwrap();
            let dc = || format!("PointCloud(normals={}) {}", has_n, d());
            pc.transform(t);
            let bad = pc.points().iter().zip(pts.iter()).position(|(m, p)| !cp3(m, &(t * p)));
            r.check(pc.points().len() == pts.len() && bad.is_none(), "PointCloud::transform: every point moves by T", || { let k = bad.unwrap_or(0); format!("{}: point {} became {:?}, T * point = {:?}", dc(), k, pc.points()[k].coords.as_slice(), (t * pts[k]).coords.as_slice()) });
            r.check(pc.normals().is_some() == has_n && pc.normals().map_or(true, |ns| ns.len() == normals.len() && ns.iter().zip(normals.iter()).all(|(m, n)| cv3(&m.into_inner(), &(t * n.into_inner())))), "PointCloud::transform: normals only rotate", dc);
            let mut seq = PointCloud::try_new(pts.clone(), if has_n { Some(normals.clone()) } else { None }, None).unwrap();
            seq.transform(s); seq.transform(t);
            let mut comp = PointCloud::try_new(pts.clone(), if has_n { Some(normals.clone()) } else { None }, None).unwrap();
            comp.transform(&(t * s));
            r.check(seq.points().iter().zip(comp.points().iter()).all(|(x, y)| cp3(x, y)) && seq.normals().map_or(true, |ns| ns.iter().zip(comp.normals().unwrap().iter()).all(|(x, y)| cv3(x, y))), "PointCloud: transforming by a composition equals transforming in sequence", dc);
            pc.transform(&t.inverse());
            r.check(pc.points().iter().zip(pts.iter()).all(|(m, p)| cp3(m, p)) && pc.normals().map_or(true, |ns| ns.iter().zip(normals.iter()).all(|(m, n)| cv3(m, n))), "PointCloud: T then T^-1 restores points and normals", dc);
        }
        for (p, n) in pts.iter().zip(normals.iter()) {
            let sp = SurfacePoint3::new(*p, *n); let m = sp.transformed(t); let m2 = t * sp;
            r.check(cp3(&m.point, &(t * sp.point)) && cv3(&m.normal.into_inner(), &(t * sp.normal.into_inner())) && cp3(&m2.point, &m.point) && cv3(&m2.normal, &m.normal), "SurfacePoint3::transformed: the point moves by T, the normal only rotates", || format!("SurfacePoint3 {{ point: {:?}, normal: {:?} }} {}", p.coords.as_slice(), n.as_slice(), it.name));
        }
        for pl in pls.iter() {
            let dp = || format!("Plane3 {{ normal: {:?}, d: {} }} {}", pl.normal.as_slice(), pl.d, it.name);
            let m = pl.transform_by(t);
            r.check(cv3(&m.normal.into_inner(), &(t * pl.normal.into_inner())), "Plane3::transform_by: the normal only rotates", dp);
            for q in pts.iter() {
                let on = pl.project_point(q); let ton = t * on;
                r.check(m.signed_distance_to_point(&ton).abs() <= 1e-9 * (1.0 + ton.coords.norm()), "Plane3::transform_by: points of the plane move onto the moved plane", || format!("{} point of the plane {:?}", dp(), on.coords.as_slice()));
                r.check(close(m.signed_distance_to_point(&(t * q)), pl.signed_distance_to_point(q)), "Plane3::transform_by: T.p is as far (signed) from T.plane as p from the plane", || format!("{} query {:?}", dp(), q.coords.as_slice()));
            }
        }
        let mc = c3.transformed_by(t);
        r.check(mc.count() == c3.count() && mc.points().iter().zip(c3.points().iter()).all(|(a, b)| cp3(a, &(t * b))), "Curve3::transformed_by moves every vertex by T", || format!("Curve3 {:?} {}", c3.points().iter().map(|p| (p.x, p.y, p.z)).collect::<Vec<_>>(), it.name));
        for (mname, base) in meshes.iter() {
            mesh_moves(r, mname, base, it, s);
            // closest points on the moved mesh (queries 1.5 .. 3 from the surface; tie-free: the closest point is interior to a
            // face of ONE box - never over the seam of the touching boxes - or on the diagonal of one rectangular face)
            let mut moved = base.clone(); moved.transform(t);
            let c = base.vertices().iter().fold(Vector3::zeros(), |a, p| a + p.coords) / base.vertices().len() as f64;
            for off in [Vector3::new(0.4375, 0.5, 4.0), Vector3::new(-3.5, 0.25, -0.5), Vector3::new(0.4375, 4.0, 0.75)] {
                let q = Point3::from(c + off); let tq = t * q;
                let dq = || format!("{} {} query {:?}", mname, it.name, q.coords.as_slice());
                r.check(cp3(&moved.point_closest_to(&tq), &(t * base.point_closest_to(&q))), "Mesh::point_closest_to commutes with T", dq);
                let (a, b) = (base.surf_closest_to(&q), moved.surf_closest_to(&tq));
                r.check(cv3(&b.normal.into_inner(), &(t * a.normal.into_inner())), "Mesh::surf_closest_to commutes with T (point moves, normal only rotates)", dq);
            }
        }
    }
    let isos = tiny_isos2();
    let pts2 = vec![p2(1000.0, 0.0), p2(996.0, 3.0), p2(600.0, 800.0), p2(590.0, 790.0)];
    let c2 = Curve2::from_points(&pts2, 1e-6, false).unwrap();
    for it in isos.iter() { let t = &it.t;
        r.case();
        let d = || format!("Curve2 / Segment2 / SurfacePoint2 on points {:?} {}", pts2.iter().map(|p| (p.x, p.y)).collect::<Vec<_>>(), it.name);
        let m = c2.transformed_by(t);
        r.check(m.count() == c2.count() && m.points().iter().zip(c2.points().iter()).all(|(a, b)| cp2(a, &(t * b))), "Curve2::transformed_by moves every vertex by T", d);
        let sg = Segment2 { a: pts2[0], b: pts2[2] }; let ms = sg.transform_by(t);
        r.check(cp2(&ms.a, &(t * sg.a)) && cp2(&ms.b, &(t * sg.b)), "Segment2::transform_by moves both end points by T", d);
        let sp = SurfacePoint2::new(pts2[1], u2(3.0, 4.0)); let msp = sp.transformed(t);
        r.check(cp2(&msp.point, &(t * sp.point)) && cv2(&msp.normal.into_inner(), &(t * sp.normal.into_inner())), "SurfacePoint2::transformed: the point moves by T, the normal only rotates", d);
    }
}

/// (a') Mesh::transform on meshes with coincident vertices under the general isometry family
fn meshes_with_coincident_vertices(r: &mut Report, isos: &[I3]) {
    let bx = Mesh::create_box(2.0, 3.0, 4.0, false);
    let mut touching = Mesh::create_box(2.0, 3.0, 4.0, false);
    touching.append(&shifted_box(1.0, 3.0, 4.0, Vector3::new(2.0, 0.0, 0.0), false)).unwrap();
    let mut twice = Mesh::create_box(2.0, 3.0, 4.0, true);
    twice.append(&Mesh::create_box(2.0, 3.0, 4.0, true)).unwrap();
    let meshes: Vec<(&str, Mesh)> = vec![("triangle soup of Mesh::create_box(2, 3, 4)", soup(&bx)), ("box 2x3x4 + appended box 1x3x4 at (2,0,0) sharing the x = 2 face", touching),
        ("box 2x3x4 appended to itself (every vertex twice)", twice), ("triangle soup of the open roof", soup(&roof(false)))];
    for (i, it) in isos.iter().enumerate() { let s = &isos[partner(i, isos.len())].t;
        for (mname, base) in meshes.iter() { mesh_moves(r, mname, base, it, s); }
    }
}

/// (b) 2D signed deviations (metrology::line_profiles) of points 1e-7 .. 1e-2 off a curve: off OUTSIDE CORNERS and open ends with
/// offsets strictly inside the cone of the two edge normals (never parallel to an edge normal), and off edge interiors along
/// the normal (either side); rotations x translations up to 1e3.  Below the 1e-6 epsilon only edge interiors.
fn deviations2_near_corners(r: &mut Report) {
    use crate::metrology::line_profiles::{line_surface_deviations, point_curve2_deviation};
    struct Q { base: Point2, dir: Vector2, sign: f64, vertex: bool, name: &'static str }
    let v = |x: f64, y: f64| Vector2::new(x, y);
    let square = Curve2::from_points(&[p2(0.0, 0.0), p2(2.0, 0.0), p2(2.0, 2.0), p2(0.0, 2.0), p2(0.0, 0.0)], 1e-6, false).unwrap();
    let qs_square = vec![
        Q { base: p2(2.0, 0.0), dir: v(1.0, -2.0), sign: 1.0, vertex: true, name: "off the outside corner (2,0)" },
        Q { base: p2(2.0, 0.0), dir: v(3.0, -1.0), sign: 1.0, vertex: true, name: "off the outside corner (2,0)" },
        Q { base: p2(2.0, 2.0), dir: v(1.0, 1.0), sign: 1.0, vertex: true, name: "off the outside corner (2,2) along the bisector" },
        Q { base: p2(0.0, 2.0), dir: v(-1.0, 3.0), sign: 1.0, vertex: true, name: "off the outside corner (0,2)" },
        Q { base: p2(0.0, 0.0), dir: v(-2.0, -1.0), sign: 1.0, vertex: true, name: "off the outside corner (0,0) where the closed curve starts and ends" },
        Q { base: p2(1.25, 0.0), dir: v(0.0, -1.0), sign: 1.0, vertex: false, name: "off the edge y=0, outside" },
        Q { base: p2(2.0, 0.75), dir: v(-1.0, 0.0), sign: -1.0, vertex: false, name: "off the edge x=2, inside" },
    ];
    let open = Curve2::from_points(&[p2(0.0, 0.0), p2(3.0, 0.0), p2(3.0, 2.0), p2(5.0, 3.5)], 1e-6, false).unwrap();
    let qs_open = vec![
        Q { base: p2(3.0, 0.0), dir: v(2.0, -1.0), sign: 1.0, vertex: true, name: "off the outside corner (3,0)" },
        Q { base: p2(3.0, 0.0), dir: v(1.0, -3.0), sign: 1.0, vertex: true, name: "off the outside corner (3,0)" },
        Q { base: p2(0.0, 0.0), dir: v(-2.0, -1.0), sign: 1.0, vertex: true, name: "beyond the open end (0,0), on the normal side" },
        Q { base: p2(5.0, 3.5), dir: v(3.0, 1.0), sign: 1.0, vertex: true, name: "beyond the open end (5,3.5), on the normal side" },
        Q { base: p2(4.0, 2.75), dir: v(-3.0, 4.0), sign: -1.0, vertex: false, name: "off the edge (3,2)-(5,3.5), against the normal" },
        Q { base: p2(1.5, 0.0), dir: v(0.0, 1.0), sign: -1.0, vertex: false, name: "off the edge y=0, against the normal" },
    ];
    let mut isos: Vec<I2> = vec![];
    for (n, a) in [("0", 0.0), ("90", FRAC_PI_2), ("30", FRAC_PI_6), ("-45", -FRAC_PI_4), ("2rad", 2.0), ("1e-5rad", 1.0e-5), ("180", PI)] {
        for (tx, ty) in [(0.0, 0.0), (1000.0, -250.0), (-600.0, 800.0), (0.0, 1000.0)] {
            isos.push(I2 { name: format!("T=[rot {} then +({},{})]", n, tx, ty), t: Iso2::from_parts(Translation2::new(tx, ty), UnitComplex::new(a)) });
        }
    }
    let offsets = [1e-7, 3e-6, 1e-5, 1e-4, 1e-3, 1e-2];
    for (cname, c, qs) in [("closed square (0,0),(2,0),(2,2),(0,2)", &square, &qs_square), ("open polyline (0,0),(3,0),(3,2),(5,3.5)", &open, &qs_open)] {
        for it in isos.iter() { let t = &it.t;
            let m = c.transformed_by(t);
            for q in qs.iter() { for h in offsets {
                if h < 1e-6 && q.vertex { continue; }
                r.case();
                let p = q.base + q.dir.normalize() * h;
                let tp = t * p;
                let a = point_curve2_deviation(&c.at_closest_to_point(&p), &p);
                let b = point_curve2_deviation(&m.at_closest_to_point(&tp), &tp);
                let d = || format!("{} {} query {:?} = {:?} + {:?} * unit{:?} ({}): deviation {:?} (reference point {:?}, direction {:?}) in the reference frame, {:?} (reference point {:?}, direction {:?}) after moving curve and query by T", cname, it.name, p.coords.as_slice(), q.base.coords.as_slice(), h, q.dir.as_slice(), q.name, a.deviation, a.surface.point.coords.as_slice(), a.surface.normal.as_slice(), b.deviation, b.surface.point.coords.as_slice(), b.surface.normal.as_slice());
                r.check(close(b.deviation, a.deviation), "point_curve2_deviation 1e-7..1e-2 off a corner / edge: the signed deviation is invariant (1e-9 absolute)", d);
                r.check(close(a.deviation, q.sign * h) && close(b.deviation, q.sign * h), "point_curve2_deviation 1e-7..1e-2 off a corner / edge: the signed deviation is the signed distance from the curve in every frame (1e-9 absolute)", d);
                r.check(cp2(&b.surface.point, &(t * a.surface.point)), "point_curve2_deviation: the reference point moves with T", d);
                // the direction of an offset of size h between coordinates of size |T p| is known to rounding / h only
                let tol = 1e-9 + 2e-12 * (1.0 + tp.coords.norm()) / h;
                r.check(h < 1e-6 || (b.surface.normal.into_inner() - t * a.surface.normal.into_inner()).norm() <= tol, "point_curve2_deviation: the measurement direction only rotates", d);
                let set = line_surface_deviations(&m, &[tp], None);
                r.check(set.len() == 1 && close(set[0].deviation, a.deviation), "line_surface_deviations 1e-7..1e-2 off a corner / edge: the signed deviation is invariant (1e-9 absolute)", d);
            } }
        }
    }
}

/// (c) capped projections for queries just outside the extreme corners / edges of the mesh's bounding box, caps small against
/// the mesh size: the query is corner (edge midpoint) + h * u with u strictly inside the cone of the adjacent face normals, so
/// the closest point is that corner (midpoint) and the distance is h by construction
fn capped_queries_near_bbox_corners(r: &mut Report, isos: &[I3]) {
    struct Q { foot: Point3, dir: Vector3, name: String }
    let boxq = |w: f64, h: f64, d: f64| -> Vec<Q> {
        let mut out = vec![];
        for sx in [0.0, 1.0] { for sy in [0.0, 1.0] { for sz in [0.0, 1.0] {
            let s = Vector3::new(2.0 * sx - 1.0, 2.0 * sy - 1.0, 2.0 * sz - 1.0);
            let c = p3(sx * w, sy * h, sz * d);
            for u in [Vector3::new(1.0, 1.0, 1.0), Vector3::new(1.0, 2.0, 3.0), Vector3::new(3.0, 1.0, 2.0)] {
                out.push(Q { foot: c, dir: Vector3::new(u.x * s.x, u.y * s.y, u.z * s.z), name: format!("off the corner ({},{},{})", c.x, c.y, c.z) });
            }
        } } }
        // the 4 edges parallel to z at their midpoint, the 4 parallel to x at a quarter
        for sx in [0.0, 1.0] { for sy in [0.0, 1.0] {
            let (a, b) = (2.0 * sx - 1.0, 2.0 * sy - 1.0);
            out.push(Q { foot: p3(sx * w, sy * h, d * 0.5), dir: Vector3::new(a, 2.0 * b, 0.0), name: format!("off the edge x={},y={}", sx * w, sy * h) });
            out.push(Q { foot: p3(w * 0.25, sx * h, sy * d), dir: Vector3::new(0.0, 3.0 * a, b), name: format!("off the edge y={},z={}", sx * h, sy * d) });
        } }
        out
    };
    let meshes: Vec<(String, Mesh, Vec<Q>)> = vec![
        ("Mesh::create_box(2, 3, 4, is_solid=false)".to_string(), Mesh::create_box(2.0, 3.0, 4.0, false), boxq(2.0, 3.0, 4.0)),
        ("Mesh::create_box(2, 3, 4, is_solid=true)".to_string(), Mesh::create_box(2.0, 3.0, 4.0, true), boxq(2.0, 3.0, 4.0)),
        ("Mesh::create_box(16, 1, 0.5, is_solid=false)".to_string(), Mesh::create_box(16.0, 1.0, 0.5, false), boxq(16.0, 1.0, 0.5)),
        ("Mesh::create_box(3, 3, 3, is_solid=false)".to_string(), Mesh::create_box(3.0, 3.0, 3.0, false), boxq(3.0, 3.0, 3.0)),
    ];
    let hs = [0.01, 0.05, 0.2];
    let caps = [0.025, 0.1, 0.5];
    for (mname, base, qs) in meshes.iter() {
        for it in isos.iter() { let t = &it.t; let ti = t.inverse();
            let mut moved = base.clone(); moved.transform(t);
            for q in qs.iter() { for h in hs {
                r.case();
                let p = q.foot + q.dir.normalize() * h; let tp = t * p; let p_other = ti * p;
                for cap in caps {
                    let want = h <= cap;
                    let a = base.project_with_max_dist(&p, cap); let b = moved.project_with_max_dist(&tp, cap);
                    let d = || format!("{} {} query {:?} = {:?} + {:?} * unit{:?} ({}), max_dist {:?}: {} in the reference frame, {} after moving mesh and query by T", mname, it.name, p.coords.as_slice(), q.foot.coords.as_slice(), h, q.dir.as_slice(), q.name, cap,
                        a.as_ref().map_or("no projection".to_string(), |x| format!("projection {:?}", x.0.point.coords.as_slice())), b.as_ref().map_or("no projection".to_string(), |x| format!("projection {:?}", x.0.point.coords.as_slice())));
                    r.check(a.is_some() == b.is_some(), "Mesh::project_with_max_dist near an extreme corner / edge of the bounding box: moving mesh and query together does not change whether a projection is found", d);
                    r.check(a.is_some() == want && b.is_some() == want, "Mesh::project_with_max_dist near an extreme corner / edge of the bounding box: a projection is found exactly when the distance is within the cap, in every frame", d);
                    if let (Some(x), Some(y)) = (&a, &b) {
                        r.check(cp3(&y.0.point, &(t * x.0.point)) && close(dist(&y.0.point, &tp), dist(&x.0.point, &p)) && close(dist(&x.0.point, &p), h), "Mesh::project_with_max_dist near an extreme corner / edge of the bounding box: the closest point moves by T, the distance is the same", d);
                    }
                    let direct = base.project_with_tol(&p, cap, 1.5, None); let framed = base.project_with_tol(&p_other, cap, 1.5, Some(t)); let on_moved = moved.project_with_tol(&tp, cap, 1.5, None);
                    r.check(direct.is_some() == want && framed.is_some() == want && on_moved.is_some() == want, "Mesh::project_with_tol (max_angle 1.5) near an extreme corner / edge of the bounding box: accepted exactly when the distance is within the cap - directly, given in another frame (Some(T)), and with mesh and query moved together", d);
                    let idx = moved.indices_in_tol(&[tp, t * q.foot], cap, 1.5, None);
                    r.check(idx == if want { vec![0, 1] } else { vec![1] }, "Mesh::indices_in_tol near an extreme corner / edge of the bounding box selects exactly the points within the cap", d);
                }
            } }
        }
    }
}


// ------------------------------------------------------------------------------------------------ wave 5
// Parameter-space audit (notes/w5_audit_C03.md): (i) a third isometry family - motions FAR from the origin: rotations (quarter /
// half turns, 30 degrees, 0.7 rad, 1e-6 and 1e-8 rad) about pivots at radius 500, i.e. a long lever arm and a translation part of
// up to 1e3 - under which every entity check of the file is repeated; (ii) the entity types / APIs of the anchored files that had
// no clause so far: SurfacePoint2 helpers, 2D <-> 3D lifting of surface points and point lists, Plane3 constructors and
// inverted_normal, Line2 methods / Segment2::offsetted / rays / intersection parameters, point helpers (dist, mid / mean points,
// extreme point, interpolation error), point lists of 0 .. 1001 points with inverse and composition, PointCloud merge / append /
// empty / conversions / sub-selection / bounding box at 0 .. 1001 points, Distance<D>::new given in another frame, curve stations
// (normal, surface point, plane), curve bounding boxes, extreme points, ray intersections, more curve shapes (closed within
// tolerance, hairpin, thin rectangle, reversed numbering, 100 / 1500 vertices), Mesh bounding box / face and vertex normals /
// append / convex hull / UV kept, meshes with > 32, > 1000 and > 4096 faces, line_surface_deviations with Some(interval).
pub fn far_isos3() -> Vec<I3> {
    let x = Vector3::x_axis(); let z = Vector3::z_axis();
    let q = |a: &parry3d_f64::na::Unit<Vector3>, ang: f64| UnitQuaternion::from_axis_angle(a, ang);
    let rots: Vec<(&str, UnitQuaternion<f64>)> = vec![
        ("Rz90", q(&z, FRAC_PI_2)), ("Rx180", q(&x, PI)), ("Rz30", q(&z, FRAC_PI_6)), ("R(1,2,3)0.7", q(&u3(1.0, 2.0, 3.0), 0.7)),
        ("R(1,1,1)->x", UnitQuaternion::rotation_between(&Vector3::new(1.0, 1.0, 1.0), &Vector3::x()).unwrap()),
        ("R(1,2,3)1e-6", q(&u3(1.0, 2.0, 3.0), 1.0e-6)), ("Rz1e-8", q(&z, 1.0e-8)),
    ];
    let pivots = [(500.0, 0.0, 0.0), (0.0, -300.0, 400.0), (180.0, 240.0, 400.0)];
    let mut out = vec![];
    for (n, rt) in rots.iter() { for (a, b, c) in pivots {
        let cv = Vector3::new(a, b, c);
        out.push(I3 { name: format!("T=[{} about the pivot ({},{},{})]", n, a, b, c), t: Iso3::from_parts(Translation3::from(cv - rt * cv), *rt), exact: false });
    } }
    // unusual but legal REPRESENTATIONS of a motion: the identity and a general rotation stored with the negated quaternion (q and -q
    // are the same rotation), a half turn about an oblique axis (scalar part ~ 6e-17), a turn of 2 pi - 1e-7, a shift with -0.0 parts
    let neg = |u: UnitQuaternion<f64>| UnitQuaternion::new_unchecked(-u.into_inner());
    let g = q(&u3(1.0, 2.0, 3.0), 0.7);
    out.push(I3 { name: "T=[identity stored as the quaternion -1, no translation]".to_string(), t: Iso3::from_parts(Translation3::new(0.0, 0.0, 0.0), neg(UnitQuaternion::identity())), exact: false });
    out.push(I3 { name: "T=[identity stored as the quaternion -1 then +(1,-2,3)]".to_string(), t: Iso3::from_parts(Translation3::new(1.0, -2.0, 3.0), neg(UnitQuaternion::identity())), exact: false });
    out.push(I3 { name: "T=[R(1,2,3)0.7 stored with the negated quaternion then +(-4,0.5,2.25)]".to_string(), t: Iso3::from_parts(Translation3::new(-4.0, 0.5, 2.25), neg(g)), exact: false });
    out.push(I3 { name: "T=[half turn about (1,2,3) then +(1,-2,3)]".to_string(), t: Iso3::from_parts(Translation3::new(1.0, -2.0, 3.0), q(&u3(1.0, 2.0, 3.0), PI)), exact: false });
    out.push(I3 { name: "T=[rotation by 2*pi - 1e-7 about (1,2,3) then +(1,-2,3)]".to_string(), t: Iso3::from_parts(Translation3::new(1.0, -2.0, 3.0), q(&u3(1.0, 2.0, 3.0), 2.0 * PI - 1.0e-7)), exact: false });
    out.push(I3 { name: "T=[no rotation, +(-0.0,1000,-0.0)]".to_string(), t: Iso3::from_parts(Translation3::new(-0.0, 1000.0, -0.0), UnitQuaternion::identity()), exact: false });
    out
}
fn far_isos2() -> Vec<I2> {
    let mut out = vec![];
    for (n, a) in [("90", FRAC_PI_2), ("180", PI), ("30", FRAC_PI_6), ("2rad", 2.0), ("1e-6rad", 1.0e-6), ("1e-8rad", 1.0e-8)] { for (px, py) in [(500.0, 0.0), (-300.0, 400.0)] {
        let rt = UnitComplex::new(a); let cv = Vector2::new(px, py);
        out.push(I2 { name: format!("T=[rot {} about the pivot ({},{})]", n, px, py), t: Iso2::from_parts(Translation2::from(cv - rt * cv), rt) });
    } }
    for (n, a) in [("-180", -PI), ("2*pi - 1e-7", 2.0 * PI - 1.0e-7), ("-1e-7", -1.0e-7)] {
        out.push(I2 { name: format!("T=[rot {} then +(3,-1.5)]", n), t: Iso2::from_parts(Translation2::new(3.0, -1.5), UnitComplex::new(a)) });
    }
    out.push(I2 { name: "T=[no rotation, +(-0.0,1000)]".to_string(), t: Iso2::from_parts(Translation2::new(-0.0, 1000.0), UnitComplex::identity()) });
    out
}
fn sp3_same(a: &SurfacePoint3, b: &SurfacePoint3) -> bool { cp3(&a.point, &b.point) && cv3(&a.normal, &b.normal) }
fn sp2_same(a: &SurfacePoint2, b: &SurfacePoint2) -> bool { cp2(&a.point, &b.point) && cv2(&a.normal, &b.normal) }
/// deterministic point lists with dyadic coordinates (no two consecutive points equal)
fn gen3(n: usize) -> Vec<Point3> { (0..n).map(|k| p3(((k * 7) % 16) as f64 * 0.25 - 2.0, ((k * 5) % 11) as f64 * 0.5 - 2.5, ((k * 3) % 13) as f64 * 0.125 + (k / 13) as f64 * 0.0625)).collect() }
fn gen2(n: usize) -> Vec<Point2> { (0..n).map(|k| p2(((k * 7) % 16) as f64 * 0.25 - 2.0 + (k / 16) as f64 * 0.03125, ((k * 5) % 11) as f64 * 0.5 - 2.5)).collect() }
fn gen_n3(n: usize) -> Vec<UnitVec3> { (0..n).map(|k| u3(1.0 + (k % 3) as f64, (k % 5) as f64 - 2.0, 1.0 + (k % 2) as f64)).collect() }
fn gen_c(n: usize) -> Vec<[u8; 3]> { (0..n).map(|k| [(k % 251) as u8, (k % 7) as u8, (k / 7 % 256) as u8]).collect() }

fn w5_surface_points(r: &mut Report, isos3: &[I3], isos2: &[I2]) {
    use crate::{AngleDir, To2D};
    let sps = [SurfacePoint2::new(p2(0.5, -1.0), u2(0.0, 1.0)), SurfacePoint2::new(p2(0.0, 0.0), u2(3.0, 4.0)), SurfacePoint2::new(p2(-2.0, 0.75), u2(1.0, -1.0))];
    let sps3 = [SurfacePoint3::new(p3(0.5, -1.0, 2.0), u3(1.0, 0.0, 1.0)), SurfacePoint3::new(p3(0.0, 0.0, 0.0), u3(1.0, 2.0, 2.0)), SurfacePoint3::new(p3(-2.0, 0.75, 1.0), u3(1.0, -1.0, 0.0))];
    for it in isos2.iter() { let t = &it.t; let l = lift2(t);
        for sp in sps.iter() {
            r.case();
            let d = || format!("SurfacePoint2 {{ point: {:?}, normal: {:?} }} {}", sp.point.coords.as_slice(), sp.normal.as_slice(), it.name);
            let m = sp.transformed(t);
            for h in [-1.5, 0.0, 2.0] {
                r.check(sp2_same(&sp.shift(h).transformed(t), &m.shift(h)), "SurfacePoint2::shift commutes with T", || format!("{} offset {}", d(), h));
                r.check(sp2_same(&sp.shift_orthogonal(h).transformed(t), &m.shift_orthogonal(h)), "SurfacePoint2::shift_orthogonal commutes with T", || format!("{} distance {}", d(), h));
                r.check(sp2_same(&sp.rot_normal(h).transformed(t), &m.rot_normal(h)), "SurfacePoint2::rot_normal commutes with T", || format!("{} angle {}", d(), h));
            }
            r.check(sp2_same(&sp.reversed().transformed(t), &m.reversed()), "SurfacePoint2::reversed commutes with T", d);
            r.check(sp2_same(&sp.rot_normal_90(AngleDir::Cw).transformed(t), &m.rot_normal_90(AngleDir::Cw)) && sp2_same(&sp.rot_normal_90(AngleDir::Ccw).transformed(t), &m.rot_normal_90(AngleDir::Ccw)), "SurfacePoint2::rot_normal_90 commutes with T", d);
            // lifting to 3D commutes with an in-plane motion and its lift
            r.check(sp3_same(&m.to_3d(), &sp.to_3d().transformed(&l)), "SurfacePoint2::to_3d commutes with an in-plane motion (the lifted surface point moves by the lifted T)", d);
        }
        for sp in sps3.iter() {
            r.case();
            let d = || format!("SurfacePoint3 {{ point: {:?}, normal: {:?} }} in-plane {}", sp.point.coords.as_slice(), sp.normal.as_slice(), it.name);
            r.check(sp2_same(&sp.transformed(&l).to_2d(), &sp.to_2d().transformed(t)), "SurfacePoint3::to_2d commutes with an in-plane motion (rotation about z, translation)", d);
            r.check(cp2(&(l * sp.point).to_2d(), &(t * sp.point.to_2d())) && cv2(&(l * sp.normal.into_inner()).to_2d(), &(t * sp.normal.into_inner().to_2d())), "Point3 / Vector3::to_2d commute with an in-plane motion", d);
        }
        let pts2 = gen2(9); let pts3 = gen3(9);
        r.case();
        let up = (&pts2[..]).to_3d(); let moved2: Vec<Point2> = pts2.iter().map(|p| t * p).collect(); let up_m = (&moved2[..]).to_3d();
        r.check(up.len() == 9 && up_m.len() == 9 && (0..9).all(|k| cp3(&up_m[k], &(l * up[k])) && up[k].z == 0.0), "&[Point2]::to_3d commutes with an in-plane motion", || format!("9 points {}", it.name));
        let moved3: Vec<Point3> = pts3.iter().map(|p| l * p).collect();
        let (dn_a, dn_b) = ((&moved3[..]).to_2d(), moved3.to_2d()); let dn = (&pts3[..]).to_2d();
        r.check(dn_a.len() == 9 && dn_b.len() == 9 && (0..9).all(|k| cp2(&dn_a[k], &(t * dn[k])) && cp2(&dn_b[k], &(t * dn[k]))), "&[Point3] / Vec<Point3>::to_2d commute with an in-plane motion", || format!("9 points {}", it.name));
        let spl: Vec<SurfacePoint3> = sps3.iter().map(|s| s.transformed(&l)).collect();
        let (fa, fb) = ((&spl[..]).to_2d(), (&spl).to_2d());
        r.check(fa.len() == 3 && fb.len() == 3 && (0..3).all(|k| sp2_same(&fa[k], &sps3[k].to_2d().transformed(t)) && sp2_same(&fb[k], &fa[k])), "&[SurfacePoint3] / &Vec<SurfacePoint3>::to_2d commute with an in-plane motion", || format!("3 surface points {}", it.name));
    }
    // the owned-value operator forms under the 3D family: T then T^-1, composition (the reference forms are covered by surface_points3)
    for (i, it) in isos3.iter().enumerate() { let t = &it.t; let s = &isos3[partner(i, isos3.len())].t; let ti = t.inverse(); let ts = t * s;
        for sp in sps3.iter() {
            r.case();
            let d = || format!("SurfacePoint3 {{ point: {:?}, normal: {:?} }} {}", sp.point.coords.as_slice(), sp.normal.as_slice(), it.name);
            r.check(sp3_same(&(&ti * (t * sp)), sp), "&Iso3 * SurfacePoint3: T then T^-1 restores the surface point", d);
            r.check(sp3_same(&(&ts * sp), &(t * (s * sp))), "&Iso3 * SurfacePoint3: a composition equals the sequence", d);
        }
    }
}

fn w5_planes(r: &mut Report, isos: &[I3]) {
    let tris = [(p3(0.0, 0.0, 0.0), p3(2.0, 0.0, 0.0), p3(0.0, 3.0, 0.0)), (p3(1.0, 0.5, -2.0), p3(3.0, 2.5, -1.0), p3(-1.0, 2.0, 2.0)), (p3(-2.0, 0.75, 1.0), p3(-2.0, 2.75, 1.0), p3(-2.0, 0.0, 4.0))];
    let pls = [Plane3::new(u3(0.0, 0.0, 1.0), 0.0), Plane3::new(u3(1.0, 2.0, 2.0), 1.5), Plane3::new(u3(2.0, -1.0, 2.0), -2.0)];
    for it in isos.iter() { let t = &it.t;
        for pl in pls.iter() {
            r.case();
            let d = || format!("Plane3 {{ normal: {:?}, d: {} }} {}", pl.normal.as_slice(), pl.d, it.name);
            r.check(plane_same(&pl.inverted_normal().transform_by(t), &pl.transform_by(t).inverted_normal()), "Plane3::inverted_normal commutes with T", d);
            let m = pl.transform_by(t).inverted_normal();
            for q in queries3().iter() { r.check(close(m.signed_distance_to_point(&(t * q)), -pl.signed_distance_to_point(q)), "Plane3::inverted_normal: the signed distance changes sign only, in every frame", || format!("{} query {:?}", d(), q.coords.as_slice())); }
        }
        for (a, b, c) in tris.iter() {
            r.case();
            let d = || format!("plane through {:?}, {:?}, {:?} {}", a.coords.as_slice(), b.coords.as_slice(), c.coords.as_slice(), it.name);
            let base = Plane3::from((a, b, c));
            let framed = Plane3::from((&(t * a), &(t * b), &(t * c)));
            r.check(plane_same(&framed, &base.transform_by(t)), "Plane3 through three points given in another frame is the moved plane", d);
            let n = base.normal;
            let framed = Plane3::from((&(t * n), &(t * b)));
            r.check(plane_same(&framed, &base.transform_by(t)), "Plane3 from a normal and a point given in another frame is the moved plane", d);
            let sp = SurfacePoint3::new(*c, n);
            r.check(plane_same(&Plane3::from(&sp.transformed(t)), &base.transform_by(t)), "Plane3 from a surface point given in another frame is the moved plane", d);
            for q in queries3().iter() { r.check(close(framed.signed_distance_to_point(&(t * q)), base.signed_distance_to_point(q)), "Plane3 built in another frame: the signed point-to-plane distance is invariant", || format!("{} query {:?}", d(), q.coords.as_slice())); }
        }
    }
}

fn w5_lines(r: &mut Report, isos: &[I2]) {
    use crate::geom2::{intersect_rays, intersection_param, Ray2};
    let segs = [Segment2 { a: p2(0.0, 0.0), b: p2(2.0, 0.0) }, Segment2 { a: p2(-1.0, 0.5), b: p2(2.0, 4.5) }, Segment2 { a: p2(1.0, 1.0), b: p2(1.0, -2.5) }];
    for it in isos.iter() { let t = &it.t;
        for (k, sg) in segs.iter().enumerate() {
            r.case();
            let d = || format!("Segment2 {{ a: {:?}, b: {:?} }} {}", sg.a.coords.as_slice(), sg.b.coords.as_slice(), it.name);
            let m = sg.transform_by(t);
            for h in [-1.5, 0.25, 2.0] { let (x, y) = (sg.offsetted(h).transform_by(t), m.offsetted(h));
                r.check(cp2(&x.a, &y.a) && cp2(&x.b, &y.b), "Segment2::offsetted commutes with T", || format!("{} offset {}", d(), h)); }
            let (x, y) = (sg.reversed().transform_by(t), m.reversed());
            r.check(cp2(&x.a, &y.a) && cp2(&x.b, &y.b), "Segment2::reversed commutes with T", d);
            r.check(cv2(&m.orthogonal(), &(t * sg.orthogonal())), "Line2::orthogonal only rotates", d);
            r.check(Segment2::try_new(t * sg.a, t * sg.b).is_ok(), "Segment2::try_new accepts the end points given in another frame", d);
            let ray = Ray2::new(sg.a, sg.b - sg.a); let mray = Ray2::new(t * sg.a, t * (sg.b - sg.a));
            for q in queries2().iter() { let tq = t * q;
                let dq = || format!("{} query {:?}", d(), q.coords.as_slice());
                r.check(close(m.projected_parameter(&tq), sg.projected_parameter(q)) && close(mray.projected_parameter(&tq), sg.projected_parameter(q)), "Line2::projected_parameter is invariant", dq);
                r.check(cp2(&m.projected_point(&tq), &(t * sg.projected_point(q))) && cp2(&mray.projected_point(&tq), &(t * ray.projected_point(q))), "Line2::projected_point commutes with T", dq);
                r.check(close(dist(&m.projected_point(&tq), &tq), dist(&sg.projected_point(q), q)), "point-to-line distance is invariant", dq);
            }
            for f in [0.0, 0.5, 1.5] { r.check(cp2(&mray.at(f), &(t * ray.at(f))) && cp2(&mray.origin(), &(t * ray.origin())) && cv2(&mray.dir(), &(t * ray.dir())), "Ray2 (Line2): origin and points move, the direction only rotates", || format!("{} parameter {}", d(), f)); }
            // intersection parameters of two (non-parallel) lines are scalar results
            let other = &segs[(k + 1) % segs.len()]; let mo = other.transform_by(t);
            let a = intersection_param(&sg.a, &sg.dir(), &other.a, &other.dir()); let b = intersection_param(&m.a, &m.dir(), &mo.a, &mo.dir());
            let c = intersect_rays(&mray, &Ray2::new(mo.a, mo.dir()));
            let same = |x: &Option<(f64, f64)>, y: &Option<(f64, f64)>| match (x, y) { (Some(x), Some(y)) => close(x.0, y.0) && close(x.1, y.1), (None, None) => true, _ => false };
            r.check(a.is_some() && same(&a, &b) && same(&a, &c), "intersection_param / intersect_rays: the intersection parameters of two lines are invariant", || format!("{} with Segment2 {{ a: {:?}, b: {:?} }}: {:?} vs {:?} / {:?}", d(), other.a.coords.as_slice(), other.b.coords.as_slice(), a, b, c));
            // exactly parallel lines (a translated copy): no intersection in either frame for the exactly representable quarter turns; elsewhere None or a far-away parameter is a rounding matter and not judged
        }
    }
}

fn w5_points(r: &mut Report, isos3: &[I3], isos2: &[I2]) {
    use crate::common::points::{linear_interpolation_error, max_point_in_direction, mean_point, mean_point_weighted};
    for (i, it) in isos3.iter().enumerate() { let t = &it.t; let s = &isos3[partner(i, isos3.len())].t; let ti = t.inverse(); let ts = t * s;
        for n in [0usize, 1, 2, 33, 65, 1001] {
            r.case();
            let pts = gen3(n);
            let d = || format!("{} points (k -> ((7k mod 16)/4 - 2, (5k mod 11)/2 - 2.5, (3k mod 13)/8 + (k div 13)/16)) {}", n, it.name);
            let a = transform_points(&pts, t); let b = (&pts[..]).transform_by(t); let c = (&pts).transform_by(t);
            r.check(a.len() == n && b.len() == n && c.len() == n, "transform_points / TransformBy keep the number of points", d);
            let bad = (0..n.min(a.len()).min(b.len()).min(c.len())).find(|&k| !(cp3(&a[k], &(t * pts[k])) && cp3(&b[k], &(t * pts[k])) && cp3(&c[k], &(t * pts[k]))));
            r.check(bad.is_none(), "transform_points / TransformBy move point k by T", || format!("{} point {:?}", d(), bad));
            let back = transform_points(&a, &ti); let back2 = (&b).transform_by(&ti);
            r.check(back.len() == n && back2.len() == n && (0..n.min(back.len()).min(back2.len())).all(|k| cp3(&back[k], &pts[k]) && cp3(&back2[k], &pts[k])), "transform_points / TransformBy: T then T^-1 restores the points", d);
            let seq = transform_points(&transform_points(&pts, s), t); let comp = transform_points(&pts, &ts);
            let seq2 = (&(&pts).transform_by(s)).transform_by(t); let comp2 = (&pts[..]).transform_by(&ts);
            r.check(seq.len() == n && comp.len() == n && seq2.len() == n && comp2.len() == n && (0..n.min(seq.len()).min(comp.len()).min(seq2.len()).min(comp2.len())).all(|k| cp3(&seq[k], &comp[k]) && cp3(&seq2[k], &comp2[k])), "transform_points / TransformBy: a composition equals the sequence", d);
            if n >= 2 && n <= 65 {
                let mv = &a;
                r.check(cp3(&mean_point(mv), &(t * mean_point(&pts))), "mean_point commutes with T", d);
                let w: Vec<f64> = (0..n).map(|k| 0.5 + (k % 4) as f64 * 0.25).collect();
                r.check(cp3(&mean_point_weighted(mv, &w), &(t * mean_point_weighted(&pts, &w))), "mean_point_weighted commutes with T", d);
                r.check(close(dist(&mv[0], &mv[n - 1]), dist(&pts[0], &pts[n - 1])) && cp3(&mid_point(&mv[0], &mv[n - 1]), &(t * mid_point(&pts[0], &pts[n - 1]))), "dist is invariant, mid_point commutes with T (3D)", d);
                r.check(close(linear_interpolation_error(&mv[0], &mv[1], &mv[n - 1]), linear_interpolation_error(&pts[0], &pts[1], &pts[n - 1])), "linear_interpolation_error (distance of a point from the line through two others) is invariant", d);
                for v in [Vector3::new(1.0, 0.375, 0.21875), Vector3::new(-0.40625, 1.0, -0.3125), Vector3::new(0.15625, -0.28125, -1.0)] {
                    // judged only when the extreme point is unique with a margin
                    let mut pr: Vec<f64> = pts.iter().map(|p| p.coords.dot(&v)).collect(); pr.sort_by(|x, y| y.partial_cmp(x).unwrap());
                    if pr[0] - pr[1] < 1e-3 { continue; }
                    let (x, y) = (max_point_in_direction(&pts, &v), max_point_in_direction(mv, &(t * v)));
                    r.check(match (&x, &y) { (Some(x), Some(y)) => x.0 == y.0 && cp3(&y.1, &(t * x.1)), _ => false }, "max_point_in_direction: the extreme point commutes with T (the direction only rotates)", || format!("{} direction {:?}: {:?} vs {:?}", d(), v.as_slice(), x.map(|e| e.0), y.map(|e| e.0)));
                }
            }
        }
    }
    for (i, it) in isos2.iter().enumerate() { let t = &it.t; let s = &isos2[partner(i, isos2.len())].t; let ti = t.inverse(); let ts = t * s;
        for n in [0usize, 1, 2, 33, 1001] {
            r.case();
            let pts = gen2(n);
            let d = || format!("{} 2D points (k -> ((7k mod 16)/4 - 2 + (k div 16)/32, (5k mod 11)/2 - 2.5)) {}", n, it.name);
            let a = transform_points(&pts, t);
            let bad = (0..n.min(a.len())).find(|&k| !cp2(&a[k], &(t * pts[k])));
            r.check(a.len() == n && bad.is_none(), "transform_points (2D) moves point k by T and keeps the number of points", || format!("{} point {:?}", d(), bad));
            let back = transform_points(&a, &ti);
            r.check(back.len() == n && (0..n.min(back.len())).all(|k| cp2(&back[k], &pts[k])), "transform_points (2D): T then T^-1 restores the points", d);
            let seq = transform_points(&transform_points(&pts, s), t); let comp = transform_points(&pts, &ts);
            r.check(seq.len() == n && comp.len() == n && (0..n.min(seq.len()).min(comp.len())).all(|k| cp2(&seq[k], &comp[k])), "transform_points (2D): a composition equals the sequence", d);
            if n >= 2 && n <= 33 {
                r.check(cp2(&mean_point(&a), &(t * mean_point(&pts))), "mean_point commutes with T", d);
                let w: Vec<f64> = (0..n).map(|k| 0.5 + (k % 4) as f64 * 0.25).collect();
                r.check(cp2(&mean_point_weighted(&a, &w), &(t * mean_point_weighted(&pts, &w))), "mean_point_weighted commutes with T", d);
                r.check(close(linear_interpolation_error(&a[0], &a[1], &a[n - 1]), linear_interpolation_error(&pts[0], &pts[1], &pts[n - 1])), "linear_interpolation_error (distance of a point from the line through two others) is invariant", d);
            }
        }
    }
}

fn cloud_is(pc: &PointCloud, pts: &[Point3], ns: Option<&[UnitVec3]>, cs: Option<&[[u8; 3]]>, t: &Iso3) -> bool {
    pc.points().len() == pts.len() && pc.len() == pts.len() && pc.is_empty() == pts.is_empty() && pc.points().iter().zip(pts.iter()).all(|(m, p)| cp3(m, &(t * p)))
        && match (pc.normals(), ns) { (None, None) => true, (Some(a), Some(b)) => a.len() == b.len() && a.iter().zip(b.iter()).all(|(m, n)| cv3(&m.into_inner(), &(t * n.into_inner()))), _ => false }
        && match (pc.colors(), cs) { (None, None) => true, (Some(a), Some(b)) => a == b, _ => false }
}
fn w5_clouds(r: &mut Report, isos: &[I3]) {
    let id = Iso3::identity();
    for (i, it) in isos.iter().enumerate() { let t = &it.t; let s = &isos[partner(i, isos.len())].t; let ti = t.inverse();
        for n in [0usize, 1, 2, 33, 65, 1001] { for (has_n, has_c) in [(true, true), (false, false), (true, false)] {
            r.case();
            let (pts, ns, cs) = (gen3(n), gen_n3(n), gen_c(n));
            let d = || format!("PointCloud of {} points (normals={}, colors={}) {}", n, has_n, has_c, it.name);
            let mk = || PointCloud::try_new(pts.clone(), if has_n { Some(ns.clone()) } else { None }, if has_c { Some(cs.clone()) } else { None }).unwrap();
            let (on, oc) = (if has_n { Some(&ns[..]) } else { None }, if has_c { Some(&cs[..]) } else { None });
            let mut pc = mk(); pc.transform(t);
            r.check(cloud_is(&pc, &pts, on, oc, t), "PointCloud::transform: every point moves by T, normals only rotate, colours and counts are kept", d);
            // bounding box of the moved cloud: the box of the moved points
            if n > 0 { let bb = pc.aabb(); let mv: Vec<Point3> = pts.iter().map(|p| t * p).collect();
                let lo = mv.iter().fold(mv[0], |a, p| a.inf(p)); let hi = mv.iter().fold(mv[0], |a, p| a.sup(p));
                r.check(cp3(&bb.mins, &lo) && cp3(&bb.maxs, &hi), "PointCloud::aabb of the moved cloud is the box of the moved points", d); }
            let mut back = pc.clone(); back.transform(&ti);
            r.check(cloud_is(&back, &pts, on, oc, &id), "PointCloud: T then T^-1 restores points and normals", d);
            let mut tw = mk(); tw.transform(t); tw.transform(t);
            r.check(cloud_is(&tw, &pts, on, oc, &(t * t)), "PointCloud: transforming twice by T equals transforming by the composition T.T", d);
            let mut seq = mk(); seq.transform(s); seq.transform(t); let mut comp = mk(); comp.transform(&(t * s));
            r.check(seq.len() == comp.len() && seq.points().iter().zip(comp.points().iter()).all(|(x, y)| cp3(x, y)) && match (seq.normals(), comp.normals()) { (None, None) => true, (Some(a), Some(b)) => a.len() == b.len() && a.iter().zip(b.iter()).all(|(x, y)| cv3(x, y)), _ => false }, "PointCloud: transforming by a composition equals transforming in sequence", d);
            if n == 0 || n > 65 { continue; }
            // merge: moving the merged cloud == merging the moved clouds; the same for append, sub-selection and the conversions
            let k = n / 2 + 1; let k = k.min(n);
            let part = |a: usize, b: usize| PointCloud::try_new(pts[a..b].to_vec(), if has_n { Some(ns[a..b].to_vec()) } else { None }, if has_c { Some(cs[a..b].to_vec()) } else { None }).unwrap();
            let mut m0 = part(0, k); let ok1 = m0.merge(part(k, n)).is_ok(); let mut m1 = m0.clone(); m1.transform(t);
            let mut m2 = part(0, k); m2.transform(t); let mut m2b = part(k, n); m2b.transform(t); let ok2 = m2.merge(m2b).is_ok();
            r.check(ok1 && ok2 && m0.len() == n && cloud_is(&m1, m0.points(), m0.normals(), m0.colors(), t) && cloud_is(&m2, m0.points(), m0.normals(), m0.colors(), t), "PointCloud::merge commutes with T (merge then move == move both then merge: points move, normals only rotate, colours kept)", d);
            let mut a0 = PointCloud::empty(has_n, has_c); let mut a2 = PointCloud::empty(has_n, has_c); a2.transform(t);
            let mut ok = a2.is_empty();
            for j in 0..n {
                ok &= a0.append(pts[j], if has_n { Some(ns[j]) } else { None }, if has_c { Some(cs[j]) } else { None }).is_ok();
                ok &= a2.append(t * pts[j], if has_n { Some(t * ns[j]) } else { None }, if has_c { Some(cs[j]) } else { None }).is_ok();
            }
            let mut a1 = a0.clone(); a1.transform(t);
            r.check(ok && a0.len() == n && cloud_is(&a1, a0.points(), a0.normals(), a0.colors(), t) && cloud_is(&a2, a0.points(), a0.normals(), a0.colors(), t), "PointCloud::empty / append commute with T (append then move == move then append the moved points)", d);
            let idx: Vec<usize> = (0..n).rev().step_by(2).collect();
            let sel = pc.create_from_indices(&idx); let mut sel0 = mk().create_from_indices(&idx); sel0.transform(t);
            r.check(sel.len() == idx.len() && sel.points().iter().zip(sel0.points().iter()).all(|(x, y)| cp3(x, y)) && sel.normals().is_some() == has_n && sel.normals().map_or(true, |a| a.iter().zip(sel0.normals().unwrap().iter()).all(|(x, y)| cv3(x, y))) && sel.colors() == sel0.colors(), "PointCloud::create_from_indices commutes with T", d);
            if has_n && !has_c {
                let sps: Vec<SurfacePoint3> = pts.iter().zip(ns.iter()).map(|(p, n)| SurfacePoint3::new(*p, *n)).collect();
                let moved: Vec<SurfacePoint3> = sps.iter().map(|sp| t * sp).collect();
                let c1 = PointCloud::from(&moved[..]);
                let mp: Vec<Point3> = pts.iter().map(|p| t * p).collect(); let mn: Vec<UnitVec3> = ns.iter().map(|n| t * n).collect();
                let c2 = PointCloud::try_from((&mp[..], &mn[..]));
                let c0 = PointCloud::from(&sps[..]); let c00 = PointCloud::try_from((&pts[..], &ns[..])).unwrap();
                r.check(cloud_is(&c1, c0.points(), c0.normals(), c0.colors(), t) && c2.as_ref().map_or(false, |c| cloud_is(c, c00.points(), c00.normals(), c00.colors(), t)), "PointCloud built from surface points / (points, normals) given in another frame is the moved cloud", d);
            }
            if !has_n && !has_c {
                let mp: Vec<Point3> = pts.iter().map(|p| t * p).collect();
                let c0 = PointCloud::from(&pts[..]);
                r.check(cloud_is(&PointCloud::from(&mp[..]), c0.points(), c0.normals(), c0.colors(), t), "PointCloud built from points given in another frame is the moved cloud", d);
            }
        } }
    }
}

fn w5_distances(r: &mut Report, isos3: &[I3], isos2: &[I2]) {
    let ab3 = [(p3(0.5, 1.0, -2.0), p3(2.0, 3.0, 0.25)), (p3(-1.0, 0.25, 4.0), p3(4.0, 1.0, 4.0))];
    let dirs3 = [None, Some(u3(1.0, 0.0, 0.0)), Some(u3(1.0, 2.0, 2.0)), Some(u3(-3.0, -4.0, 0.0))];
    for it in isos3.iter() { let t = &it.t;
        for (a, b) in ab3.iter() { for dir in dirs3.iter() {
            r.case();
            let d = || format!("Distance3::new({:?}, {:?}, {:?}) {}", a.coords.as_slice(), b.coords.as_slice(), dir.map(|u| u.as_slice().to_vec()), it.name);
            let base = Distance3::new(*a, *b, *dir); let m = Distance3::new(t * a, t * b, dir.map(|u| t * u));
            r.check(close(m.value(), base.value()), "Distance3 given in another frame: the measured value is invariant", d);
            r.check(cv3(&m.direction.into_inner(), &(t * base.direction.into_inner())) && cp3(&m.a, &(t * base.a)) && cp3(&m.b, &(t * base.b)), "Distance3 given in another frame: end points move, the direction only rotates", d);
            let (c, c0) = (m.center(), base.center());
            r.check(cp3(&c.point, &(t * c0.point)) && cv3(&c.normal.into_inner(), &(t * c0.normal.into_inner())), "Distance3::center commutes with T", d);
            let (rv, rv0) = (m.reversed(), base.reversed());
            r.check(close(rv.value(), rv0.value()) && close(rv0.value(), base.value()) && cv3(&rv.direction.into_inner(), &(t * rv0.direction.into_inner())) && cp3(&rv.a, &(t * rv0.a)), "Distance3::reversed commutes with T and keeps the value", d);
        } }
    }
    let ab2 = [(p2(0.5, 1.0), p2(2.0, 3.0)), (p2(-1.0, 0.25), p2(4.0, 1.0))];
    let dirs2 = [None, Some(u2(1.0, 0.0)), Some(u2(3.0, 4.0)), Some(u2(-1.5, -2.0))];
    for it in isos2.iter() { let t = &it.t;
        for (a, b) in ab2.iter() { for dir in dirs2.iter() {
            r.case();
            let d = || format!("Distance2::new({:?}, {:?}, {:?}) {}", a.coords.as_slice(), b.coords.as_slice(), dir.map(|u| u.as_slice().to_vec()), it.name);
            let base = Distance2::new(*a, *b, *dir); let m = Distance2::new(t * a, t * b, dir.map(|u| t * u));
            r.check(close(m.value(), base.value()), "Distance2 given in another frame: the measured value is invariant", d);
            r.check(cv2(&m.direction.into_inner(), &(t * base.direction.into_inner())), "Distance2 given in another frame: the direction only rotates", d);
            let (c, c0) = (m.center(), base.center());
            r.check(cp2(&c.point, &(t * c0.point)) && cv2(&c.normal.into_inner(), &(t * c0.normal.into_inner())), "Distance2::center commutes with T", d);
            // lifting commutes with an in-plane motion: to_3d(L) of the base == to_3d(identity) of the moved
            let l = lift2(t); let (x, y) = (base.to_3d(&l), m.to_3d(&Iso3::identity()));
            r.check(cp3(&x.a, &y.a) && cp3(&x.b, &y.b) && cv3(&x.direction, &y.direction) && close(x.value(), y.value()), "Distance2::to_3d commutes with an in-plane motion", d);
        } }
    }
}

fn bbox2(pts: &[Point2]) -> (Point2, Point2) { (pts.iter().fold(pts[0], |a, p| a.inf(p)), pts.iter().fold(pts[0], |a, p| a.sup(p))) }
fn w5_curve2_cases() -> Vec<C2Case> {
    let zig = |n: usize| -> Vec<Point2> { (0..n).map(|k| p2(k as f64 * 0.25, ((k * k) % 17) as f64 * 0.125 + if k % 2 == 0 { 0.0 } else { 1.0 })).collect() };
    vec![
        C2Case { name: "closed within the tolerance (ends 0.05 apart, tol 0.1)", pts: vec![p2(0.0, 0.0), p2(3.0, 0.0), p2(3.0, 2.0), p2(0.0, 2.0), p2(0.03, 0.04)], tol: 0.1, fc: false },
        C2Case { name: "hairpin (two legs 0.25 apart)", pts: vec![p2(0.0, 0.0), p2(6.0, 0.0), p2(6.25, 0.125), p2(6.0, 0.25), p2(0.5, 0.25)], tol: 1e-6, fc: false },
        C2Case { name: "thin closed rectangle 8 x 0.5", pts: vec![p2(0.0, 0.0), p2(8.0, 0.0), p2(8.0, 0.5), p2(0.0, 0.5), p2(0.0, 0.0)], tol: 1e-6, fc: false },
        C2Case { name: "open polyline numbered backwards", pts: vec![p2(3.0, 1.25), p2(1.5, 1.0), p2(1.0, 0.0), p2(0.0, 0.0)], tol: 1e-6, fc: false },
        C2Case { name: "force-closed scalene quadrilateral, tol 0.01", pts: vec![p2(0.0, 0.0), p2(4.0, 0.5), p2(3.0, 2.5), p2(-0.5, 1.5)], tol: 0.01, fc: true },
        C2Case { name: "zigzag of 100 vertices", pts: zig(100), tol: 1e-6, fc: false },
        C2Case { name: "zigzag of 1500 vertices", pts: zig(1500), tol: 1e-6, fc: false },
    ]
}
fn w5_curves2(r: &mut Report, isos: &[I2], with_long: bool) {
    use crate::geom2::Ray2;
    let fr = [0.0625, 0.3125, 0.59375, 0.9375];
    for cs in w5_curve2_cases().iter() {
        if cs.pts.len() > 1000 && !with_long { continue; }
        let c = Curve2::from_points(&cs.pts, cs.tol, cs.fc).unwrap();
        for (i, it) in isos.iter().enumerate() { let t = &it.t; let s = &isos[partner(i, isos.len())].t;
            r.case();
            let d = || format!("Curve2 [{}] from {} points starting {:?}, tol={}, force_closed={} {}", cs.name, cs.pts.len(), cs.pts.iter().take(5).map(|p| (p.x, p.y)).collect::<Vec<_>>(), cs.tol, cs.fc, it.name);
            let m = c.transformed_by(t);
            r.check(m.count() == c.count(), "Curve2::transformed_by keeps the vertex count", d);
            r.check(m.count() == c.count() && m.points().iter().zip(c.points().iter()).all(|(a, b)| cp2(a, &(t * b))), "Curve2::transformed_by moves every vertex by T", d);
            r.check(close(m.length(), c.length()) && m.lengths().len() == c.lengths().len() && m.lengths().iter().zip(c.lengths().iter()).all(|(a, b)| close(*a, *b)), "Curve2: cumulative vertex lengths are invariant under transformed_by", d);
            r.check(m.is_closed() == c.is_closed() && m.tol() == c.tol(), "Curve2::transformed_by keeps closedness and tolerance", d);
            let mv: Vec<Point2> = c.points().iter().map(|p| t * p).collect(); let (lo, hi) = bbox2(&mv);
            r.check(cp2(&m.aabb().mins, &lo) && cp2(&m.aabb().maxs, &hi), "Curve2::transformed_by: the bounding box of the moved curve is the box of the moved vertices", d);
            let moved: Vec<Point2> = cs.pts.iter().map(|p| t * p).collect();
            match Curve2::from_points(&moved, cs.tol, cs.fc) {
                Ok(f) => r.check(f.count() == c.count() && close(f.length(), c.length()) && f.is_closed() == c.is_closed(), "Curve2 built from the points given in another frame has the same vertex count, length and closedness", d),
                Err(_) => r.check(false, "Curve2 can be built from the points given in another frame", d),
            }
            for f in fr {
                let df = || format!("{} fraction {}", d(), f);
                match (c.at_fraction(f), m.at_fraction(f)) {
                    (Some(a), Some(b)) => {
                        r.check(cp2(&b.point(), &(t * a.point())) && close(b.length_along(), a.length_along()), "Curve2: the point at a fraction of the length commutes with T", df);
                        if a.fraction() > 1e-6 && a.fraction() < 1.0 - 1e-6 {
                            r.check(b.index() == a.index() && cv2(&b.direction().into_inner(), &(t * a.direction().into_inner())) && cv2(&b.normal().into_inner(), &(t * a.normal().into_inner())), "Curve2: direction and normal at a station only rotate", df);
                            r.check(sp2_same(&b.surface_point(), &a.surface_point().transformed(t)) && sp2_same(&b.direction_point(), &a.direction_point().transformed(t)), "Curve2: the surface point / direction point of a station commute with T", df);
                        }
                    }
                    _ => r.check(false, "Curve2: a station exists at a fraction in both frames or in neither", df),
                }
            }
            for v in [Vector2::new(1.0, 0.34375), Vector2::new(-0.28125, 1.0), Vector2::new(-1.0, -0.40625)] {
                let mut pr: Vec<f64> = c.points().iter().map(|p| p.coords.dot(&v)).collect(); pr.sort_by(|x, y| y.partial_cmp(x).unwrap());
                if pr[0] - pr[1] < 1e-3 { continue; }
                let (x, y) = (c.max_point_in_direction(&v), m.max_point_in_direction(&(t * v)));
                r.check(match (&x, &y) { (Some(x), Some(y)) => x.0 == y.0 && cp2(&y.1, &(t * x.1)), _ => false }, "Curve2::max_point_in_direction commutes with T (the direction only rotates)", || format!("{} direction {:?}", d(), v.as_slice()));
                let sp = SurfacePoint2::new(p2(0.5, -0.25), UnitVec2::new_normalize(v));
                r.check(close(m.max_dist_in_direction(&sp.transformed(t)), c.max_dist_in_direction(&sp)), "Curve2::max_dist_in_direction is invariant", || format!("{} direction {:?}", d(), v.as_slice()));
            }
            if cs.pts.len() <= 5 {
                // rays that cross edges away from every vertex (judged only when every hit is at least 1e-3 of the edge length from the edge ends in the reference frame)
                for (o, dv) in [(p2(-1.0, -0.71875), Vector2::new(1.0, 0.53125)), (p2(7.0, 3.0), Vector2::new(-1.0, -0.59375)), (p2(1.28125, -3.0), Vector2::new(0.0625, 1.0))] {
                    let ray = Ray2::new(o, dv); let mray = Ray2::new(t * o, t * dv);
                    let mut a = c.ray_intersections(&ray); let mut b = m.ray_intersections(&mray);
                    a.sort_by(|x, y| x.0.partial_cmp(&y.0).unwrap()); b.sort_by(|x, y| x.0.partial_cmp(&y.0).unwrap());
                    let safe = a.iter().all(|(tt, e)| { let p = ray.point_at(*tt); let (v0, v1) = (c.vtx(*e), c.vtx(*e + 1)); let el = dist(&v0, &v1); dist(&p, &v0) > 1e-3 * el && dist(&p, &v1) > 1e-3 * el }) && a.windows(2).all(|w| (w[1].0 - w[0].0).abs() > 1e-6);
                    if !safe { continue; }
                    r.check(a.len() == b.len() && a.iter().zip(b.iter()).all(|(x, y)| x.1 == y.1 && close(x.0, y.0)), "Curve2::ray_intersections: ray parameters and edges are invariant when curve and ray move together", || format!("{} ray {:?} + s * {:?}: {:?} vs {:?}", d(), o.coords.as_slice(), dv.as_slice(), a, b));
                }
            }
            let back = m.transformed_by(&t.inverse());
            r.check(back.count() == c.count() && back.points().iter().zip(c.points().iter()).all(|(a, b)| cp2(a, b)) && close(back.length(), c.length()) && back.is_closed() == c.is_closed(), "Curve2: T then T^-1 restores the curve", d);
            let c1 = c.transformed_by(&(t * s)); let c2 = c.transformed_by(s).transformed_by(t);
            r.check(c1.count() == c2.count() && c1.points().iter().zip(c2.points().iter()).all(|(a, b)| cp2(a, b)) && c1.is_closed() == c2.is_closed(), "Curve2: transforming by a composition equals transforming in sequence", d);
        }
    }
}
fn w5_curve3_cases() -> Vec<C3Case> {
    let zig = |n: usize| -> Vec<Point3> { (0..n).map(|k| p3(k as f64 * 0.25, ((k * k) % 17) as f64 * 0.125 + if k % 2 == 0 { 0.0 } else { 1.0 }, ((k * 3) % 7) as f64 * 0.5)).collect() };
    vec![
        C3Case { name: "closed within the tolerance (ends 0.05 apart, tol 0.1)", pts: vec![p3(0.0, 0.0, 0.0), p3(3.0, 0.0, 1.0), p3(3.0, 2.0, 1.0), p3(0.0, 2.0, 0.0), p3(0.03, 0.04, 0.0)], tol: 0.1 },
        C3Case { name: "hairpin (two legs 0.25 apart)", pts: vec![p3(0.0, 0.0, 0.0), p3(6.0, 0.0, 2.0), p3(6.25, 0.125, 2.0), p3(6.0, 0.25, 2.0), p3(0.5, 0.25, 0.0)], tol: 1e-6 },
        C3Case { name: "open polyline numbered backwards", pts: vec![p3(3.0, 1.25, -1.0), p3(1.5, 1.0, 0.5), p3(1.0, 0.0, 0.5), p3(0.0, 0.0, 0.0)], tol: 1e-6 },
        C3Case { name: "zigzag of 100 vertices", pts: zig(100), tol: 1e-6 },
        C3Case { name: "zigzag of 1500 vertices", pts: zig(1500), tol: 1e-6 },
    ]
}
fn w5_curves3(r: &mut Report, isos: &[I3], with_long: bool) {
    let fr = [0.0625, 0.3125, 0.59375, 0.9375];
    for cs in w5_curve3_cases().iter() {
        if cs.pts.len() > 1000 && !with_long { continue; }
        let c = Curve3::from_points(&cs.pts, cs.tol).unwrap();
        for (i, it) in isos.iter().enumerate() { let t = &it.t; let s = &isos[partner(i, isos.len())].t;
            r.case();
            let d = || format!("Curve3 [{}] from {} points starting {:?}, tol={} {}", cs.name, cs.pts.len(), cs.pts.iter().take(5).map(|p| (p.x, p.y, p.z)).collect::<Vec<_>>(), cs.tol, it.name);
            let m = c.transformed_by(t);
            r.check(m.count() == c.count(), "Curve3::transformed_by keeps the vertex count", d);
            r.check(m.count() == c.count() && m.points().iter().zip(c.points().iter()).all(|(a, b)| cp3(a, &(t * b))), "Curve3::transformed_by moves every vertex by T", d);
            r.check(close(m.length(), c.length()) && m.lengths().len() == c.lengths().len() && m.lengths().iter().zip(c.lengths().iter()).all(|(a, b)| close(*a, *b)), "Curve3: cumulative vertex lengths are invariant under transformed_by", d);
            r.check(m.tol() == c.tol(), "Curve3::transformed_by keeps the tolerance", d);
            let moved: Vec<Point3> = cs.pts.iter().map(|p| t * p).collect();
            match Curve3::from_points(&moved, cs.tol) {
                Ok(f) => r.check(f.count() == c.count() && close(f.length(), c.length()), "Curve3 built from the points given in another frame has the same vertex count and length", d),
                Err(_) => r.check(false, "Curve3 can be built from the points given in another frame", d),
            }
            for f in fr {
                let df = || format!("{} fraction {}", d(), f);
                match (c.at_fraction(f), m.at_fraction(f)) {
                    (Some(a), Some(b)) => {
                        r.check(cp3(&b.point(), &(t * a.point())) && close(b.length_along(), a.length_along()), "Curve3: the point at a fraction of the length commutes with T", df);
                        if a.fraction() > 1e-6 && a.fraction() < 1.0 - 1e-6 {
                            r.check(b.index() == a.index() && sp3_same(&b.direction_point(), &a.direction_point().transformed(t)), "Curve3: the direction point of a station commutes with T (the direction only rotates)", df);
                            r.check(plane_same(&b.plane(), &a.plane().transform_by(t)), "Curve3: the plane of a station commutes with T", df);
                        }
                    }
                    _ => r.check(false, "Curve3: a station exists at a fraction in both frames or in neither", df),
                }
            }
            let back = m.transformed_by(&t.inverse());
            r.check(back.count() == c.count() && back.points().iter().zip(c.points().iter()).all(|(a, b)| cp3(a, b)) && close(back.length(), c.length()), "Curve3: T then T^-1 restores the curve", d);
            let c1 = c.transformed_by(&(t * s)); let c2 = c.transformed_by(s).transformed_by(t);
            r.check(c1.count() == c2.count() && c1.points().iter().zip(c2.points().iter()).all(|(a, b)| cp3(a, b)), "Curve3: transforming by a composition equals transforming in sequence", d);
        }
    }
}

fn w5_meshes(r: &mut Report, isos: &[I3], with_large: bool) {
    let mut meshes: Vec<(String, Mesh, bool)> = vec![
        ("Mesh::create_box(2, 3, 4, is_solid=false)".to_string(), Mesh::create_box(2.0, 3.0, 4.0, false), true),
        ("Mesh::create_box(16, 1, 0.5, is_solid=true)".to_string(), Mesh::create_box(16.0, 1.0, 0.5, true), true),
        ("Mesh::create_cylinder(1.5, 4, 24) (48 faces)".to_string(), Mesh::create_cylinder(1.5, 4.0, 24), false),
    ];
    if with_large {
        meshes.push(("Mesh::create_cylinder(1.5, 4, 520) (1040 faces)".to_string(), Mesh::create_cylinder(1.5, 4.0, 520), false));
        meshes.push(("Mesh::create_cylinder(1.5, 4, 2100) (4200 faces)".to_string(), Mesh::create_cylinder(1.5, 4.0, 2100), false));
        meshes.push(("triangle soup of Mesh::create_cylinder(1.5, 4, 520) (3120 vertices, every position 3 to 6 times)".to_string(), soup(&Mesh::create_cylinder(1.5, 4.0, 520)), false));
    }
    let extra = shifted_box(1.0, 1.0, 1.0, Vector3::new(5.0, -2.0, 0.5), false);
    for (mname, base, is_box) in meshes.iter() {
        let fnorm = base.get_face_normals().unwrap(); let vnorm = base.get_vertex_normals();
        let nf = base.faces().len();
        for (i, it) in isos.iter().enumerate() { let t = &it.t; let s = &isos[partner(i, isos.len())].t;
            mesh_moves(r, mname, base, it, s);
            let d = || format!("{} {}", mname, it.name);
            let mut moved = base.clone(); moved.transform(t);
            let mv: Vec<Point3> = base.vertices().iter().map(|p| t * p).collect();
            let lo = mv.iter().fold(mv[0], |a, p| a.inf(p)); let hi = mv.iter().fold(mv[0], |a, p| a.sup(p));
            r.check(cp3(&moved.aabb().mins, &lo) && cp3(&moved.aabb().maxs, &hi), "Mesh::transform: the bounding box of the moved mesh is the box of the moved vertices", d);
            let mf = moved.get_face_normals();
            r.check(mf.as_ref().map_or(false, |m| m.len() == nf && m.iter().zip(fnorm.iter()).all(|(a, b)| cv3(&a.into_inner(), &(t * b.into_inner())))), "Mesh::get_face_normals of the moved mesh: face normals only rotate", d);
            let mvn = moved.get_vertex_normals();
            r.check(mvn.len() == vnorm.len() && mvn.iter().zip(vnorm.iter()).all(|(a, b)| cv3(a, &(t * b))), "Mesh::get_vertex_normals of the moved mesh: vertex normals only rotate", d);
            // the same mutator twice == the composition T.T; after T then T^-1 the mesh answers queries as before
            let mut tw = base.clone(); tw.transform(t); tw.transform(t); let mut sq = base.clone(); sq.transform(&(t * t));
            r.check(tw.vertices().len() == sq.vertices().len() && tw.vertices().iter().zip(sq.vertices().iter()).all(|(x, y)| cp3(x, y)) && tw.faces() == sq.faces(), "Mesh: transforming twice by T equals transforming by the composition T.T", d);
            let mut back = moved.clone(); back.transform(&t.inverse());
            // append commutes with T
            let mut a1 = base.clone(); let ok1 = a1.append(&extra).is_ok(); a1.transform(t);
            let mut e2 = extra.clone(); e2.transform(t); let mut a2 = moved.clone(); let ok2 = a2.append(&e2).is_ok();
            r.check(ok1 && ok2 && a1.vertices().len() == a2.vertices().len() && a1.vertices().len() == base.vertices().len() + extra.vertices().len() && a1.vertices().iter().zip(a2.vertices().iter()).all(|(x, y)| cp3(x, y)) && a1.faces() == a2.faces() && a1.faces().len() == nf + extra.faces().len(), "Mesh::append commutes with T (append then move == move both then append: vertices move, faces kept)", d);
            // closest points: queries 0.25 outside the centroid of a few faces (convex shapes: the closest point is that centroid)
            let c = base.vertices().iter().fold(Vector3::zeros(), |a, p| a + p.coords) / base.vertices().len() as f64;
            for f in [0usize, nf / 3, nf / 2 + 1, nf - 1] {
                let tri = base.faces()[f]; let (v0, v1, v2) = (base.vertices()[tri[0] as usize], base.vertices()[tri[1] as usize], base.vertices()[tri[2] as usize]);
                let g = Point3::from((v0.coords + v1.coords + v2.coords) / 3.0);
                let n = fnorm[f].into_inner(); let out = if n.dot(&(g.coords - c)) >= 0.0 { n } else { -n };
                let q = g + out * 0.25; let tq = t * q;
                let dq = || format!("{} query {:?} = centroid of face {} + 0.25 * outward normal", d(), q.coords.as_slice(), f);
                let cp = base.point_closest_to(&q);
                r.check(cp3(&cp, &g), "Mesh::point_closest_to: 0.25 outside a face centroid of a convex mesh the closest point is that centroid", dq);
                r.check(cp3(&moved.point_closest_to(&tq), &(t * cp)) && close(dist(&moved.point_closest_to(&tq), &tq), 0.25), "Mesh::point_closest_to commutes with T", dq);
                r.check(cp3(&back.point_closest_to(&q), &cp) && cv3(&back.surf_closest_to(&q).normal, &base.surf_closest_to(&q).normal), "Mesh: after T then T^-1 closest-point queries answer as on the original mesh", dq);
                let (a, b) = (base.surf_closest_to(&q), moved.surf_closest_to(&tq));
                r.check(cp3(&b.point, &(t * a.point)) && cv3(&b.normal.into_inner(), &(t * a.normal.into_inner())), "Mesh::surf_closest_to commutes with T (point moves, normal only rotates)", dq);
                let (a, b) = (base.measure_point_deviation(&q, DistMode::ToPlane), moved.measure_point_deviation(&tq, DistMode::ToPlane));
                r.check(close(b.value(), a.value()) && close(b.value().abs(), 0.25), "Mesh::measure_point_deviation: the signed deviation is invariant", dq);
                let ti = t.inverse();
                let (a, b, e) = (base.project_with_tol(&q, 0.5, 0.5, None), base.project_with_tol(&(ti * q), 0.5, 0.5, Some(t)), moved.project_with_tol(&tq, 0.5, 0.5, None));
                r.check(match (&a, &b, &e) { (Some(a), Some(b), Some(e)) => a.1 == b.1 && a.1 == e.1 && a.1 as usize == f && cp3(&a.0.point, &b.0.point) && cp3(&e.0.point, &(t * a.0.point)), _ => false }, "Mesh::project_with_tol: a query given in another frame (Some(T)) projects to the same point and face", dq);
            }
            if *is_box {
                let (h0, h1) = (base.convex_hull(), moved.convex_hull());
                let each = h0.vertices().iter().all(|p| h1.vertices().iter().any(|x| cp3(x, &(t * p))));
                r.check(h0.vertices().len() == h1.vertices().len() && each && h0.faces().len() == h1.faces().len(), "Mesh::convex_hull commutes with T (the hull of the moved mesh has the moved hull vertices)", d);
            }
        }
    }
    // a UV-mapped mesh keeps its UV map when it is moved
    for it in isos.iter() { let mut m = roof(true); m.transform(&it.t); r.case();
        r.check(m.uv().is_some(), "Mesh::transform keeps the UV mapping", || format!("UV-mapped open roof mesh {}", it.name)); }
}

/// line_surface_deviations with Some(interval): the same points are selected in every frame (station lengths are invariant)
fn w5_line_deviation_interval(r: &mut Report, isos: &[I2]) {
    use crate::common::Interval;
    use crate::metrology::line_profiles::line_surface_deviations;
    let open = Curve2::from_points(&[p2(0.0, 0.0), p2(3.0, 0.0), p2(3.0, 2.0), p2(5.0, 3.5)], 1e-6, false).unwrap(); // lengths 0, 3, 5, 7.5
    // feet at lengths 0.75, 2.25, 4.0, 6.25 (edge interiors), offsets along the edge normals
    let pts = [p2(0.75, -0.125), p2(2.25, 0.25), p2(3.0625, 1.0), p2(4.0 - 0.075, 2.75 + 0.1)];
    let feet = [0.75, 2.25, 4.0, 6.25];
    let ivs = [None, Some((0.0, 7.5)), Some((1.0, 5.0)), Some((4.5, 7.0)), Some((2.5, 3.5)), Some((0.8, 2.2))];
    for it in isos.iter() { let t = &it.t;
        let m = open.transformed_by(t); let mp: Vec<Point2> = pts.iter().map(|p| t * p).collect();
        for iv in ivs.iter() {
            r.case();
            let i = iv.map(|(a, b)| Interval::new(a, b));
            let want: Vec<usize> = (0..4).filter(|k| iv.map_or(true, |(a, b)| a <= feet[*k] && feet[*k] <= b)).collect();
            let (x, y) = (line_surface_deviations(&open, &pts, i), line_surface_deviations(&m, &mp, i));
            let d = || format!("open polyline (0,0),(3,0),(3,2),(5,3.5) {} interval {:?}: {} deviations in the reference frame, {} after moving curve and points by T (expected {})", it.name, iv, x.len(), y.len(), want.len());
            r.check(x.len() == want.len() && y.len() == want.len(), "line_surface_deviations with Some(interval) selects the same points in every frame", d);
            if x.len() == y.len() { for k in 0..x.len() {
                r.check(close(x[k].deviation, y[k].deviation) && cp2(&y[k].surface.point, &(t * x[k].surface.point)) && cv2(&y[k].surface.normal.into_inner(), &(t * x[k].surface.normal.into_inner())), "line_surface_deviations with Some(interval): deviations are invariant, reference points move, directions only rotate", d);
            } }
        }
    }
}

fn wave5(r: &mut Report) {
    let (g3, g2) = (isos3(), isos2()); let (n3, n2) = (tiny_isos3(), tiny_isos2()); let (f3, f2) = (far_isos3(), far_isos2());
    // (i) the existing entity checks under the FAR family
    surface_points3(r, &f3); surface_points2(r, &f2); planes(r, &f3); segments(r, &f2); point_lists(r, &f3); distances(r, &f3, &f2);
    curves2(r, &f2); curves3(r, &f3); meshes(r, &f3); planar_far_along_normal(r, &f3, &f2); deviations_near_edges(r, &f3); uv_mapped_mesh(r, &f3);
    meshes_with_coincident_vertices(r, &f3); capped_queries_near_bbox_corners(r, &f3);
    // (ii) the new entity checks under all three families
    for (i3, i2) in [(&g3, &g2), (&n3, &n2), (&f3, &f2)] {
        w5_surface_points(r, i3, i2); w5_planes(r, i3); w5_lines(r, i2); w5_points(r, i3, i2); w5_clouds(r, i3); w5_distances(r, i3, i2);
        w5_curves2(r, i2, true); w5_curves3(r, i3, true); w5_meshes(r, i3, true); w5_line_deviation_interval(r, i2);
    }
}

pub fn run() -> Option<Report> {
    let mut r = Report::new("isometries: 19 rotations (identity, quarter turns about x/y/z, 3 more cube-group elements, 30/45 degrees about an axis, 0.7 rad about (1,2,3), (1,1,1)->x) x 4 translations (up to (1000,-500,250)) in 3D, 8 rotations x 3 translations in 2D; entities with small integer / dyadic coordinates: 3 surface points per dimension, 4 planes, 3 segments, a 4-point cloud (with/without normals and colours), 5 Distance2 (direction None / explicit / against a->b), 7 Curve2 and 7 Curve3 point lists (open, closed, force-closed, vertices spaced 0.7..1.2 tol along axes and diagonals), a 2x3x4 box mesh (solid and not) with 7 tie-free queries; 3-4 query points per entity; all comparisons to 1e-9 relative; ILL-CONDITIONED: planar_distance / scalar_projection of points 10, 40, -75 along the normal and 0, 1e-6, 1e-5, 1e-4 off the normal line (3 surface points per dimension); signed deviations (ToPoint; ToPlane on rim edges) of points 1e-7, 3e-6, 1e-5, 1e-4, 1e-3, 1e-2 off box edges / a box corner / rim edges and a rim corner of an open roof mesh with offsets oblique to the face normal (below 1e-6 only rim edges); a UV-mapped open roof mesh with 5 queries x 3 (max_dist, max_angle): uv_with_tol with Some(T), on the moved mesh, and back through uv_to_3d; all under the same 76 isometries, 1e-9 absolute; ROUND 3: 49 isometries close to the identity: TINY non-zero rotations (1e-8, 1e-7, -1e-6, 3e-6, 1e-5 rad about z / x / (1,2,3) x translations none, (0.5,-0.25,2), (1000,-500,250)) plus translations of 1e-8 with no rotation / 1e-8 rad, and 20 such in 2D, on data far from the origin (7 points with normals at radius 1e3 and one near it, a Curve3 / Curve2 there, 3 planes, meshes: box 2x3x4 at (600,0,800), its triangle soup, two touching appended boxes at (-640,0,-768), a solid box at the origin): every bulk transform (points move by the full isometry, normals only rotate, T^-1 restores, composition) and closest points on the moved mesh; all entity checks of the first part repeated under these tiny isometries; Mesh::transform on meshes with coincident vertices (triangle soups of the box and of the open roof, touching appended boxes, a box appended to itself) under all 76 isometries: vertex count kept, vertex i == T * vertex i, faces and solid flag kept, inverse, composition; point_curve2_deviation / line_surface_deviations of points 1e-7 (edge interiors only), 3e-6, 1e-5, 1e-4, 1e-3, 1e-2 off 5 outside corners / 2 open ends (offsets strictly inside the cone of the edge normals) and 4 edge interiors of a closed square and an open polyline under 7 rotations x 4 translations (up to 1e3): deviation invariant and equal to the signed distance (1e-9 absolute), reference point moves, direction rotates (1e-9 + rounding of the offset direction); Mesh::project_with_max_dist / project_with_tol (direct, Some(T), moved) / indices_in_tol for queries 0.01, 0.05, 0.2 outside the 8 corners (3 directions inside the normal cone) and 8 edges of 4 boxes (2x3x4 solid and not, 16x1x0.5, 3x3x3) with caps 0.025, 0.1, 0.5 under all 76 isometries: found exactly when the distance is within the cap, in every frame; WAVE 5: a third family of 27 motions FAR from the origin / in unusual representations (Rz90, Rx180, Rz30, 0.7 rad about (1,2,3), (1,1,1)->x, 1e-6 and 1e-8 rad about pivots at radius 500: lever arm, translation part up to 1e3; identity and a general rotation stored with the negated quaternion, an oblique half turn, 2 pi - 1e-7, a shift with -0.0 parts; 16 such in 2D) under which every entity check above is repeated; under all three families (general, near-identity, far): SurfacePoint2 shift / reversed / shift_orthogonal / rot_normal / rot_normal_90, 2D <-> 3D lifting of surface points, points, vectors and lists with an in-plane motion and its lift, owned-value operator forms (inverse, composition); Plane3::inverted_normal and the three From constructors given in another frame; Segment2 offsetted / reversed / try_new, Line2 projected_parameter / projected_point / orthogonal for segments and rays, intersection_param / intersect_rays of 3 non-parallel pairs; point lists of 0, 1, 2, 33, 65, 1001 points (2D and 3D: moved, inverse, composition), dist, mid_point, mean_point, mean_point_weighted (weights with mean 0.875), max_point_in_direction (unique extreme point, margin 1e-3), linear_interpolation_error; PointCloud of 0, 1, 2, 33, 65, 1001 points x 3 normal / colour combinations: transform, bounding box, inverse, composition, twice == T.T, merge / empty+append / create_from_indices / the three conversions commute with T; Distance2 / Distance3::new given in another frame (direction None and 3 explicit), center, reversed, Distance2::to_3d with an in-plane motion; 7 more Curve2 and 5 more Curve3 shapes (closed within the tolerance, hairpin, thin 8 x 0.5 rectangle, numbered backwards, force-closed scalene with tol 0.01, zigzags of 100 and 1500 vertices): transformed_by (count, vertices, lengths, closedness, tolerance, bounding box), from_points in another frame, stations at 4 fractions (point, length, edge, direction, normal, surface / direction point, plane), max_point_in_direction, max_dist_in_direction, ray_intersections with 3 rays (judged only when every hit is interior to an edge), inverse, composition; meshes: box 2x3x4, box 16x1x0.5 (solid), cylinders of 48, 1040 and 4200 faces, the triangle soup of the 1040-face cylinder (3120 coincident vertices): Mesh::transform (vertex i, faces, flag, inverse, composition, twice == T.T, bounding box of the moved mesh, face and vertex normals only rotate, UV map kept), append and convex_hull commute with T, queries 0.25 outside 4 face centroids (closed-form closest point) through point_closest_to / surf_closest_to / measure_point_deviation / project_with_tol (direct, Some(T), moved) and on the mesh moved back by T^-1; line_surface_deviations with None and 5 Some(interval) on 4 points: same selection and deviations in every frame");
    let i3 = isos3(); let i2 = isos2();
    surface_points3(&mut r, &i3);
    surface_points2(&mut r, &i2);
    planes(&mut r, &i3);
    segments(&mut r, &i2);
    point_lists(&mut r, &i3);
    distances(&mut r, &i3, &i2);
    curves2(&mut r, &i2);
    curves3(&mut r, &i3);
    meshes(&mut r, &i3);
    planar_far_along_normal(&mut r, &i3, &i2);
    deviations_near_edges(&mut r, &i3);
    uv_mapped_mesh(&mut r, &i3);
    tiny_rotations_far_data(&mut r);
    // the entity checks above once more under the TINY rotations (near-origin data)
    let (t3, t2) = (tiny_isos3(), tiny_isos2());
    surface_points3(&mut r, &t3);
    surface_points2(&mut r, &t2);
    planes(&mut r, &t3);
    segments(&mut r, &t2);
    point_lists(&mut r, &t3);
    distances(&mut r, &t3, &t2);
    curves2(&mut r, &t2);
    curves3(&mut r, &t3);
    meshes(&mut r, &t3);
    meshes_with_coincident_vertices(&mut r, &i3);
    deviations2_near_corners(&mut r);
    capped_queries_near_bbox_corners(&mut r, &i3);
    wave5(&mut r);
    Some(r)
}
