//! C15 bounded: spatial search, sampling and hulls against exhaustive computation.
//!
//! Input space (enumerated; the only randomness is the RNG INSIDE Mesh::sample_uniform / sample_poisson, and every
//! clause evaluated on their output holds for every draw):
//! * k-d trees: a 7x7 integer grid in 2D (+4 exact duplicates) and a 4x4x3 integer grid in 3D (+3 duplicates) -- more
//!   points than one kiddo leaf bucket (32) --, and a 3x3 grid (+1 duplicate); query points: every data point, cell
//!   centres (4-/8-way ties), off-grid points with a unique nearest neighbour, points outside the cloud; k in {1,2,5};
//!   radii 0.3, 0.75, 1.2, 1.5, 2.1, 2.5 (never a distance that occurs exactly: kiddo's behaviour ON the boundary is
//!   not pinned) and 0 (soundness only). PartialKdTree over: every 2nd index, every 3rd index in descending order, a
//!   permuted full-length list, the reversed full list, one index.
//! * within(r) at EXACT ties (wave 3): the 7x7, 3x3 and 5x5x2 unit grids queried at every data point with r in
//!   {1, 2, 5} / {1, 2} / {1, 2, 3} (3-4-5 and 1-2-2 triples), KdTree and PartialKdTree over the 5 index lists: the
//!   answer is the open ball -- brute force d < r, a point at distance exactly r is NOT reported (this is what the
//!   unchanged KdTree::within answers on all of these inputs).
//! * sample_poisson_disk: the same clouds, working lists: all in order, reversed, permuted, every 2nd, a list that
//!   names an index twice; radii 0.5, 1.2, 1.5, 2.1.
//! * hulls: 3x3 grid, scattered integer points (with interior, collinear and duplicated points), convex and non-convex
//!   simple polygons in both orientations; point_order_direction additionally on 6 outlines whose hull has exactly 3
//!   (triangle, three-pointed star), 4 (square, dented square) and 5 (pentagon, L-shape) vertices, for every rotation
//!   of the start vertex and both orientations (hull index lists starting on and off their lowest index).
//! * mesh sampling: unit box, 1x2x3 box, three separate triangles, and the same three with an exactly zero-area sliver
//!   face in the middle / at the end of the face list; sample_dense / sample_poisson additionally on 4 meshes holding
//!   a sliver face of POSITIVE area but without a computable normal (|ab x ac| = 2^-54 <= f64::EPSILON) placed first,
//!   second, third (twice, both windings) and fourth among faces with normals +z, +x, +y, -z.
//! * ball pivoting: 12 points on a circle of radius 5 (ball radius 2), plus one extra point reached after a pivot of
//!   0.05, 1e-2 and 3e-4 rad; start on an index with a direction / on the convex hull.
//! * ROUND 4: hulls / order direction of outlines with CONSECUTIVE repeated points in the middle of the list; ball pivoting
//!   around a ring with a DENSE cluster (8 / 40 / 80 points) closer to a ring vertex than the point the ball touches next.
use super::{close, Report};
use crate::common::kd_tree::{KdTree, KdTreeSearch, PartialKdTree};
use crate::common::poisson_disk::sample_poisson_disk;
use crate::common::AngleDir;
use crate::geom2::hull::{ball_pivot_with_centers_2d, convex_hull_2d, farthest_pair_indices, point_order_direction, BallPivotEnd, BallPivotStart};
use crate::geom2::{Iso2, Point2, Vector2};
use crate::{Mesh, Point3, SurfacePoint3, Vector3};
use parry2d_f64::shape::ConvexPolygon;
use parry3d_f64::na::Point;
use std::collections::BTreeSet;
use std::num::NonZero;
use std::panic::{catch_unwind, AssertUnwindSafe};

const KIDDO: &str = "[kiddo ImmutableKdTree leaf > 32 items] ";

fn d<const D: usize>(a: &Point<f64, D>, b: &Point<f64, D>) -> f64 { (a - b).norm() }
fn show<const D: usize>(p: &Point<f64, D>) -> String { format!("{:?}", p.coords.as_slice()) }

// ------------------------------------------------------------------------------------------------ k-d trees
/// `cand`: the original indices the tree was built over; `all`: the full point list
fn check_search<const D: usize, T: KdTreeSearch<D>>(r: &mut Report, tag: &str, name: &str, tree: &T, all: &[Point<f64, D>], cand: &[usize], queries: &[Point<f64, D>]) {
    let cset: BTreeSet<usize> = cand.iter().copied().collect();
    r.check(tree.len() == cand.len(), &format!("{}len() is the number of indexed points", tag), || format!("{}: len {} vs {}", name, tree.len(), cand.len()));
    for q in queries.iter() {
        r.case();
        let mut bf: Vec<f64> = cand.iter().map(|&i| d(&all[i], q)).collect();
        bf.sort_by(|a, b| a.partial_cmp(b).unwrap());
        // nearest_one
        let (i1, d1) = tree.nearest_one(q);
        let dq = || format!("{}: nearest_one({}) = ({}, {})", name, show(q), i1, d1);
        r.check(cset.contains(&i1), &format!("{}nearest_one: the index is an original index of an indexed point", tag), dq);
        r.check(close(d1, bf[0]), &format!("{}nearest_one: the distance is the brute-force minimum", tag), dq);
        if i1 < all.len() { r.check(close(d(&all[i1], q), d1), &format!("{}nearest_one: the reported distance is the distance to the reported point", tag), dq); }
        // nearest(k)
        for k in [1usize, 2, 5] {
            let res = tree.nearest(q, NonZero::new(k).unwrap());
            let dk = || format!("{}: nearest({}, {}) = {:?}", name, show(q), k, res);
            let want = k.min(cand.len());
            r.check(res.len() == want, &format!("{}nearest(k): min(k, n) results", tag), dk);
            r.check(res.windows(2).all(|w| w[0].1 <= w[1].1), &format!("{}nearest(k): results are ordered nearest first", tag), dk);
            r.check(res.iter().map(|x| x.0).collect::<BTreeSet<_>>().len() == res.len(), &format!("{}nearest(k): no index twice", tag), dk);
            r.check(res.iter().all(|x| cset.contains(&x.0)), &format!("{}nearest(k): indices are original indices of indexed points", tag), dk);
            r.check(res.iter().all(|x| x.0 < all.len() && close(d(&all[x.0], q), x.1)), &format!("{}nearest(k): each distance is the distance to the reported point", tag), dk);
            r.check(res.len() == want && res.iter().zip(bf.iter()).all(|(x, b)| close(x.1, *b)), &format!("{}nearest(k): the distances are the k smallest brute-force distances", tag), dk);
        }
        // within(r)
        for rad in [0.0, 0.3, 0.75, 1.2, 1.5, 2.1, 2.5] {
            let res = tree.within(q, rad);
            let dw = || format!("{}: within({}, {}) = {:?}", name, show(q), rad, res);
            let got: BTreeSet<usize> = res.iter().map(|x| x.0).collect();
            r.check(got.len() == res.len(), &format!("{}within: no index twice", tag), dw);
            r.check(res.iter().all(|x| x.0 < all.len() && cset.contains(&x.0) && close(d(&all[x.0], q), x.1)), &format!("{}within: each result is an indexed point with its distance", tag), dw);
            r.check(res.iter().all(|x| x.1 <= rad + 1e-12), &format!("{}within: every result is within the radius", tag), dw);
            let on_boundary = cand.iter().any(|&i| (d(&all[i], q) - rad).abs() < 1e-9);
            if !on_boundary {
                let want: BTreeSet<usize> = cand.iter().copied().filter(|&i| d(&all[i], q) <= rad).collect();
                r.check(got == want, &format!("{}within: exactly the points within the radius (brute force)", tag), || format!("{} expected {:?}", dw(), want));
            }
        }
    }
}

/// within(r) for radii that occur EXACTLY as a distance (integer grids, integer radii): the query is the open ball
/// d < r, i.e. what the unchanged KdTree::within (kiddo `within` on squared distances) answers -- a point at distance
/// exactly r is not reported.
fn check_ties<const D: usize, T: KdTreeSearch<D>>(r: &mut Report, name: &str, tree: &T, all: &[Point<f64, D>], cand: &[usize], queries: &[Point<f64, D>], radii: &[f64]) -> usize {
    let mut ties = 0;
    for q in queries.iter() {
        for &rad in radii.iter() {
            r.case();
            let res = tree.within(q, rad);
            let dw = || format!("{}: within({}, {}) = {:?}", name, show(q), rad, res);
            let got: BTreeSet<usize> = res.iter().map(|x| x.0).collect();
            // every distance here is the square root of a small integer: d < r, d == r, d > r are decided exactly
            let want: BTreeSet<usize> = cand.iter().copied().filter(|&i| d(&all[i], q) < rad).collect();
            ties += cand.iter().filter(|&&i| d(&all[i], q) == rad).count();
            r.check(res.iter().all(|x| x.1 < rad), "within at exact ties: a reported distance is < r (a point exactly on the radius is not reported)", dw);
            r.check(got == want && got.len() == res.len(), "within at exact ties: agrees with brute force d < r", || format!("{} expected {:?}", dw(), want));
            r.check(res.iter().all(|x| x.0 < all.len() && d(&all[x.0], q) == x.1), "within at exact ties: each reported distance is the distance to the reported point", dw);
        }
    }
    ties
}
fn tie_checks<const D: usize>(r: &mut Report, cname: &str, pts: &[Point<f64, D>], radii: &[f64]) {
    let n = pts.len();
    let all: Vec<usize> = (0..n).collect();
    let mut ties = check_ties(r, &format!("KdTree over {}", cname), &KdTree::new(pts), pts, &all, pts, radii);
    for (lname, list) in index_lists(n) {
        let pt = PartialKdTree::new(pts, &list);
        ties += check_ties(r, &format!("PartialKdTree over {} / {} {:?}", cname, lname, if list.len() <= 12 { list.clone() } else { list[..12].to_vec() }), &pt, pts, &list, pts, radii);
    }
    r.check(ties > 0, "input space: the tie inputs contain points exactly on the radius", || format!("{}: no exact tie", cname));
}

fn index_lists(n: usize) -> Vec<(&'static str, Vec<usize>)> {
    // 7 is coprime to every n used here (53, 51, 10)
    let perm: Vec<usize> = (0..n).map(|i| (i * 7 + 3) % n).collect();
    vec![
        ("every 2nd index", (0..n).step_by(2).collect()),
        ("every 3rd index, descending", (0..n).step_by(3).rev().collect()),
        ("permuted full-length list", perm),
        ("reversed full list", (0..n).rev().collect()),
        ("one index", vec![n / 2]),
    ]
}

fn cloud2(w: usize, h: usize, dups: &[usize]) -> Vec<Point2> {
    let mut v = Vec::new();
    for i in 0..w { for j in 0..h { v.push(Point2::new(i as f64, j as f64)); } }
    for &k in dups { let p = v[k]; v.push(p); }
    v
}
fn cloud3(w: usize, h: usize, l: usize, dups: &[usize]) -> Vec<Point3> {
    let mut v = Vec::new();
    for i in 0..w { for j in 0..h { for k in 0..l { v.push(Point3::new(i as f64, j as f64, k as f64)); } } }
    for &k in dups { let p = v[k]; v.push(p); }
    v
}
fn queries2(pts: &[Point2], w: usize, h: usize) -> Vec<Point2> {
    let mut q = pts.to_vec();
    for i in 0..w - 1 { for j in 0..h - 1 { q.push(Point2::new(i as f64 + 0.5, j as f64 + 0.5)); } }
    for i in 0..w { q.push(Point2::new(i as f64 + 0.25, (i % h) as f64 + 0.125)); }
    q.extend([Point2::new(-1.5, -0.75), Point2::new(w as f64 + 1.25, 1.0625), Point2::new(2.0625, h as f64 + 2.0), Point2::new(-3.0, h as f64 + 3.5)]);
    q
}
fn queries3(pts: &[Point3], w: usize, h: usize, l: usize) -> Vec<Point3> {
    let mut q = pts.to_vec();
    for i in 0..w - 1 { for j in 0..h - 1 { for k in 0..l - 1 { q.push(Point3::new(i as f64 + 0.5, j as f64 + 0.5, k as f64 + 0.5)); } } }
    for i in 0..w { q.push(Point3::new(i as f64 + 0.25, (i % h) as f64 + 0.125, (i % l) as f64 - 0.0625)); }
    q.extend([Point3::new(-1.5, -0.75, 0.25), Point3::new(w as f64 + 1.25, 1.0625, 5.0)]);
    q
}

fn search_checks<const D: usize>(r: &mut Report, tag: &str, cname: &str, pts: &[Point<f64, D>], queries: &[Point<f64, D>]) {
    let n = pts.len();
    let all: Vec<usize> = (0..n).collect();
    let tree = KdTree::new(pts);
    check_search(r, tag, &format!("KdTree over {}", cname), &tree, pts, &all, queries);
    for (lname, list) in index_lists(n) {
        let pt = PartialKdTree::new(pts, &list);
        check_search(r, tag, &format!("PartialKdTree over {} / {} {:?}", cname, lname, if list.len() <= 12 { list.clone() } else { list[..12].to_vec() }), &pt, pts, &list, queries);
    }
}

// ------------------------------------------------------------------------------------------------ Poisson disk
fn poisson_checks<const D: usize>(r: &mut Report, tag: &str, cname: &str, pts: &[Point<f64, D>]) {
    let n = pts.len();
    let mut lists: Vec<(&str, Vec<usize>)> = vec![
        ("all in order", (0..n).collect()),
        ("reversed", (0..n).rev().collect()),
        ("permuted", (0..n).map(|i| (i * 7 + 3) % n).collect()),
        ("every 2nd", (0..n).step_by(2).collect()),
        ("an index named twice", vec![3, 3, n - 1, 0, n - 1]),
    ];
    lists.push(("the duplicated points last to first", (n.saturating_sub(6)..n).rev().chain(0..n.saturating_sub(6)).collect()));
    for (lname, work) in lists.iter() {
        for rad in [0.5, 1.2, 1.5, 2.1] {
            r.case();
            let keep = sample_poisson_disk(pts, work, rad);
            let dsc = || format!("sample_poisson_disk({}, working = {} {:?}, radius {}) = {:?}", cname, lname, if work.len() <= 12 { work.clone() } else { work[..12].to_vec() }, rad, keep);
            let wset: BTreeSet<usize> = work.iter().copied().collect();
            r.check(keep.iter().all(|i| wset.contains(i)), &format!("{}Poisson disk: the result is a subset of the working indices", tag), dsc);
            r.check(keep.iter().collect::<BTreeSet<_>>().len() == keep.len(), &format!("{}Poisson disk: no index is kept twice", tag), dsc);
            let mut sep = true;
            for a in 0..keep.len() { for b in a + 1..keep.len() {
                if keep[a] < n && keep[b] < n && d(&pts[keep[a]], &pts[keep[b]]) <= rad { sep = false; }
            } }
            r.check(sep, &format!("{}Poisson disk: no two kept points are within the radius of each other", tag), dsc);
            let cov = work.iter().all(|&w| keep.iter().any(|&k| k < n && d(&pts[w], &pts[k]) <= rad));
            r.check(cov, &format!("{}Poisson disk: every working point is within the radius of a kept point", tag), dsc);
        }
    }
}

// ------------------------------------------------------------------------------------------------ hulls
fn cross2(a: &Point2, b: &Point2, c: &Point2) -> f64 { (b.x - a.x) * (c.y - a.y) - (b.y - a.y) * (c.x - a.x) }
fn signed_area(p: &[Point2]) -> f64 { (0..p.len()).map(|i| { let j = (i + 1) % p.len(); p[i].x * p[j].y - p[j].x * p[i].y }).sum::<f64>() * 0.5 }

fn hull_checks(r: &mut Report, name: &str, pts: &[Point2]) {
    r.case();
    let hull = convex_hull_2d(pts);
    let dsc = || format!("convex_hull_2d({}: {:?}) = {:?}", name, pts.iter().map(|p| (p.x, p.y)).collect::<Vec<_>>(), hull);
    r.check(hull.iter().all(|&i| i < pts.len()) && hull.iter().collect::<BTreeSet<_>>().len() == hull.len(), "convex hull: distinct indices of input points", dsc);
    if hull.len() < 3 || hull.iter().any(|&i| i >= pts.len()) { r.check(false, "convex hull: at least 3 hull points for a point set that is not collinear", dsc); return; }
    let hp: Vec<Point2> = hull.iter().map(|&i| pts[i]).collect();
    r.check(signed_area(&hp) > 0.0, "convex hull: the indices run counter-clockwise (positive signed area)", dsc);
    let h = hp.len();
    r.check((0..h).all(|i| cross2(&hp[i], &hp[(i + 1) % h], &hp[(i + 2) % h]) >= -1e-9), "convex hull: every turn is a left turn", dsc);
    r.check(pts.iter().all(|p| (0..h).all(|i| cross2(&hp[i], &hp[(i + 1) % h], p) >= -1e-9)), "convex hull: every input point is inside or on the hull", dsc);
    // farthest pair on the parry polygon of the same points
    if let Some(poly) = ConvexPolygon::from_convex_hull(pts) {
        let (a, b) = farthest_pair_indices(&poly);
        let pp = poly.points();
        let dfp = || format!("farthest_pair_indices(hull of {}: {:?}) = ({}, {})", name, pp.iter().map(|p| (p.x, p.y)).collect::<Vec<_>>(), a, b);
        r.check(a < pp.len() && b < pp.len(), "farthest pair: indices of hull points", dfp);
        if a < pp.len() && b < pp.len() {
            let mut diam: f64 = 0.0;
            for i in 0..pp.len() { for j in 0..pp.len() { diam = diam.max(d(&pp[i], &pp[j])); } }
            r.check(close(d(&pp[a], &pp[b]), diam), "farthest pair: the distance is the brute-force diameter of the hull", dfp);
            let mut diam_all: f64 = 0.0;
            for i in 0..pts.len() { for j in 0..pts.len() { diam_all = diam_all.max(d(&pts[i], &pts[j])); } }
            r.check(close(d(&pp[a], &pp[b]), diam_all), "farthest pair: the distance is the diameter of all input points", dfp);
        }
    }
}

fn direction_checks(r: &mut Report, name: &str, poly: &[Point2]) {
    for rev in [false, true] {
        r.case();
        let p: Vec<Point2> = if rev { poly.iter().rev().copied().collect() } else { poly.to_vec() };
        let area = signed_area(&p);
        let got = point_order_direction(&p);
        let ccw = matches!(got, AngleDir::Ccw);
        r.check(ccw == (area > 0.0), "point_order_direction matches the sign of the signed area (simple polygon)", || format!("{}{}: {:?}, signed area {}, got {:?}", name, if rev { " reversed" } else { "" }, p.iter().map(|q| (q.x, q.y)).collect::<Vec<_>>(), area, got));
    }
}

/// outlines whose hull has exactly `hull_n` vertices: every rotation of the start vertex, both orientations
fn direction_rotation_checks(r: &mut Report, name: &str, poly: &[Point2], hull_n: usize) {
    let n = poly.len();
    let mut starts = BTreeSet::new();
    for rev in [false, true] {
        for rot in 0..n {
            r.case();
            let mut p: Vec<Point2> = (0..n).map(|k| poly[(k + rot) % n]).collect();
            if rev { p.reverse(); }
            let area = signed_area(&p);
            let hull = convex_hull_2d(&p);
            let dsc = || format!("{} started at vertex {}{}: {:?}, hull {:?}, signed area {}", name, rot, if rev { ", reversed" } else { "" }, p.iter().map(|q| (q.x, q.y)).collect::<Vec<_>>(), hull, area);
            r.check(hull.len() == hull_n, "input space: the hull of the outline has the stated number of vertices", dsc);
            if !hull.is_empty() { starts.insert((area > 0.0, hull[0] == *hull.iter().min().unwrap())); }
            let got = point_order_direction(&p);
            r.check(matches!(got, AngleDir::Ccw) == (area > 0.0), "point_order_direction matches the sign of the signed area (every start vertex, both orientations)", || format!("{}: got {:?}", dsc(), got));
        }
    }
    // among the counter-clockwise rotations the hull index list starts on its lowest index for some and elsewhere for others
    r.check(starts.contains(&(true, true)) && starts.contains(&(true, false)) && starts.iter().any(|s| !s.0), "input space: counter-clockwise outlines whose hull index list starts on and off its lowest index, and clockwise ones, occur", || format!("{}: {:?}", name, starts));
}

// ------------------------------------------------------------------------------------------------ mesh sampling
fn tri_of(m: &Mesh, f: usize) -> (Point3, Point3, Point3) {
    let t = m.faces()[f];
    (m.vertices()[t[0] as usize], m.vertices()[t[1] as usize], m.vertices()[t[2] as usize])
}
fn tri_normal(a: &Point3, b: &Point3, c: &Point3) -> Option<Vector3> {
    let n = (b - a).cross(&(c - a));
    if n.norm() < 1e-12 { None } else { Some(n / n.norm()) }
}
fn tri_area(a: &Point3, b: &Point3, c: &Point3) -> f64 { (b - a).cross(&(c - a)).norm() * 0.5 }
fn tri_contains(a: &Point3, b: &Point3, c: &Point3, p: &Point3) -> bool {
    let n = match tri_normal(a, b, c) { Some(n) => n, None => return false };
    if (p - a).dot(&n).abs() > 1e-9 { return false; }
    let area = |u: &Point3, v: &Point3, w: &Point3| (v - u).cross(&(w - u)).dot(&n);
    let total = area(a, b, c);
    area(p, b, c) / total >= -1e-9 && area(a, p, c) / total >= -1e-9 && area(a, b, p) / total >= -1e-9
}
/// faces (with a normal) that contain the point
fn faces_at(m: &Mesh, p: &Point3) -> Vec<usize> {
    (0..m.faces().len()).filter(|&f| { let (a, b, c) = tri_of(m, f); tri_contains(&a, &b, &c, p) }).collect()
}
fn check_samples<F: Fn() -> String + Copy>(r: &mut Report, m: &Mesh, s: &[SurfacePoint3], what: &str, dsc: F) -> Vec<usize> {
    let mut hits = vec![0usize; m.faces().len()];
    let mut on = true;
    let mut nrm = true;
    let mut bad = String::new();
    for sp in s.iter() {
        let fs = faces_at(m, &sp.point);
        if fs.is_empty() { on = false; bad = format!("{:?}", sp.point.coords.as_slice()); continue; }
        let ok = fs.iter().any(|&f| { let (a, b, c) = tri_of(m, f); (tri_normal(&a, &b, &c).unwrap() - sp.normal.into_inner()).norm() < 1e-9 });
        if !ok { nrm = false; bad = format!("{:?} normal {:?} (faces {:?})", sp.point.coords.as_slice(), sp.normal.as_slice(), fs); }
        hits[fs[0]] += 1;
    }
    r.check(on, &format!("{}: every sample lies on a face of the mesh", what), || format!("{} offending sample {}", dsc(), bad));
    r.check(nrm, &format!("{}: every sample carries the normal of the face it lies on", what), || format!("{} offending sample {}", dsc(), bad));
    hits
}

fn sampling_meshes() -> Vec<(&'static str, Mesh, bool)> {
    let v = vec![
        Point3::new(0.0, 0.0, 0.0), Point3::new(1.0, 0.0, 0.0), Point3::new(0.0, 1.0, 0.0), // z = 0, area 0.5
        Point3::new(0.5, 0.0, 0.0),                                                          // midpoint of the first edge
        Point3::new(5.0, 0.0, 0.0), Point3::new(5.0, 2.0, 0.0), Point3::new(5.0, 0.0, 2.0), // x = 5, area 2
        Point3::new(0.0, -3.0, 0.0), Point3::new(0.0, -3.0, 2.0), Point3::new(1.0, -3.0, 0.0), // y = -3, area 1
    ];
    vec![
        ("unit box", Mesh::create_box(1.0, 1.0, 1.0, false), false),
        ("1x2x3 box", Mesh::create_box(1.0, 2.0, 3.0, false), false),
        ("three triangles (areas 0.5, 2, 1)", Mesh::new(v.clone(), vec![[0, 1, 2], [4, 5, 6], [7, 8, 9]], false), false),
        ("three triangles with a zero-area face in the middle of the face list", Mesh::new(v.clone(), vec![[0, 1, 2], [0, 3, 1], [4, 5, 6], [7, 8, 9]], false), true),
        ("three triangles with a zero-area face at the end of the face list", Mesh::new(v, vec![[0, 1, 2], [4, 5, 6], [7, 8, 9], [0, 3, 1]], false), true),
    ]
}

/// meshes with a sliver face of POSITIVE area (parry Triangle::area, Kahan's formula) but without a computable normal
/// (|ab x ac| = 2^-54 <= f64::EPSILON), placed away from the other faces and before faces of a different orientation
fn tiny_sliver_meshes() -> Vec<(&'static str, Mesh, usize)> {
    let e = (2.0_f64).powi(-27);
    let v = vec![
        Point3::new(0.0, 0.0, 0.0), Point3::new(1.0, 0.0, 0.0), Point3::new(0.0, 1.0, 0.0),       // z = 0, normal +z
        Point3::new(8.0, 8.0, 8.0), Point3::new(8.0 + e, 8.0, 8.0), Point3::new(8.0, 8.0 + e, 8.0), // the sliver (edge 2^-27)
        Point3::new(5.0, 0.0, 0.0), Point3::new(5.0, 2.0, 0.0), Point3::new(5.0, 0.0, 2.0),       // x = 5, normal +x
        Point3::new(0.0, -3.0, 0.0), Point3::new(0.0, -3.0, 2.0), Point3::new(1.0, -3.0, 0.0),    // y = -3, normal +y
        Point3::new(0.0, 0.0, 4.0), Point3::new(0.0, 2.0, 4.0), Point3::new(2.0, 0.0, 4.0),       // z = 4, normal -z
    ];
    vec![
        ("sliver (positive area, no normal) first, then faces with normals +z, +x, +y, -z", Mesh::new(v.clone(), vec![[3, 4, 5], [0, 1, 2], [6, 7, 8], [9, 10, 11], [12, 13, 14]], false), 0),
        ("faces +z, sliver (positive area, no normal), +x, +y, -z", Mesh::new(v.clone(), vec![[0, 1, 2], [3, 4, 5], [6, 7, 8], [9, 10, 11], [12, 13, 14]], false), 1),
        ("faces +z, +x, sliver (positive area, no normal), sliver reversed, +y, -z", Mesh::new(v.clone(), vec![[0, 1, 2], [6, 7, 8], [3, 4, 5], [3, 5, 4], [9, 10, 11], [12, 13, 14]], false), 2),
        ("faces +z, +x, +y, sliver (positive area, no normal), -z", Mesh::new(v, vec![[0, 1, 2], [6, 7, 8], [9, 10, 11], [3, 4, 5], [12, 13, 14]], false), 3),
    ]
}

fn tiny_sliver_checks(r: &mut Report) {
    for (name, m, at) in tiny_sliver_meshes().iter() {
        r.case();
        let t = m.tri_mesh().triangle(*at as u32);
        r.check(t.area() > 0.0 && t.normal().is_none(), "input space: the sliver face has positive area and no computable normal", || format!("{}: area {:e}, normal {:?}", name, t.area(), t.normal()));
        let proper = m.faces().len() - (0..m.faces().len()).filter(|&f| m.tri_mesh().triangle(f as u32).normal().is_none()).count();
        for spacing in [0.3, 0.45, 4.0] {
            r.case();
            let dd = || format!("{}: sample_dense({})", name, spacing);
            match catch_unwind(AssertUnwindSafe(|| m.sample_dense(spacing))) {
                Err(_) => r.check(false, "sample_dense does not panic on a mesh with a sliver face", dd),
                Ok(s) => {
                    let hits = check_samples(r, m, &s, "sample_dense", dd);
                    r.check(hits.iter().filter(|&&h| h > 0).count() == proper, "sample_dense: every face with a normal is sampled", || format!("{} hits per face {:?}", dd(), hits));
                }
            }
        }
        for radius in [0.4, 0.9] {
            r.case();
            let dp = || format!("{}: sample_poisson({})", name, radius);
            match catch_unwind(AssertUnwindSafe(|| m.sample_poisson(radius))) {
                Err(_) => r.check(false, "sample_poisson does not panic on a mesh with a sliver face", dp),
                Ok(s) => { r.check(!s.is_empty(), "sample_poisson returns samples", dp); check_samples(r, m, &s, "sample_poisson", dp); }
            }
        }
    }
}

fn sampling_checks(r: &mut Report) {
    tiny_sliver_checks(r);
    for (name, m, has_sliver) in sampling_meshes().iter() {
        let nf = m.faces().len();
        // uniform
        let n = 3000usize;
        r.case();
        let du = || format!("{}: sample_uniform({})", name, n);
        match catch_unwind(AssertUnwindSafe(|| m.sample_uniform(n))) {
            Err(_) => r.check(false, "sample_uniform does not panic", du),
            Ok(s) => {
                r.check(s.len() == n, "sample_uniform returns n samples", du);
                let hits = check_samples(r, m, &s, "sample_uniform", du);
                // proportion to area: 8 standard deviations (a fair sampler fails this with probability < 1e-14 per face);
                // only where every sample sits on exactly one face (the separate-triangle meshes)
                if name.starts_with("three") {
                    let areas: Vec<f64> = (0..nf).map(|f| { let (a, b, c) = tri_of(m, f); tri_area(&a, &b, &c) }).collect();
                    let total: f64 = areas.iter().sum();
                    for f in 0..nf {
                        let p = areas[f] / total;
                        let dev = (hits[f] as f64 - p * n as f64).abs();
                        r.check(dev <= 8.0 * (n as f64 * p * (1.0 - p)).sqrt() + 1.0, "sample_uniform hits faces in proportion to their area (8 sigma)", || format!("{} face {} (area share {}) hit {} times", du(), f, p, hits[f]));
                    }
                }
            }
        }
        // dense / Poisson
        for spacing in [0.3, 0.45, 4.0] {
            r.case();
            let dd = || format!("{}: sample_dense({})", name, spacing);
            match catch_unwind(AssertUnwindSafe(|| m.sample_dense(spacing))) {
                Err(_) => r.check(false, if *has_sliver { "sample_dense does not panic on a mesh with a zero-area face" } else { "sample_dense does not panic" }, dd),
                Ok(s) => {
                    r.check(!s.is_empty(), "sample_dense returns samples", dd);
                    check_samples(r, m, &s, "sample_dense", dd);
                }
            }
        }
        for radius in [0.4, 0.9] {
            r.case();
            let dp = || format!("{}: sample_poisson({})", name, radius);
            match catch_unwind(AssertUnwindSafe(|| (m.sample_poisson(radius), m.sample_dense(radius * 0.5)))) {
                Err(_) => r.check(false, if *has_sliver { "sample_poisson does not panic on a mesh with a zero-area face" } else { "sample_poisson does not panic" }, dp),
                Ok((s, dense)) => {
                    check_samples(r, m, &s, "sample_poisson", dp);
                    let mut sep = true;
                    for a in 0..s.len() { for b in a + 1..s.len() { if d(&s[a].point, &s[b].point) <= radius { sep = false; } } }
                    r.check(sep, &format!("{}sample_poisson: no two samples within the radius of each other", KIDDO), dp);
                    r.check(dense.iter().all(|q| s.iter().any(|k| d(&q.point, &k.point) <= radius)), &format!("{}sample_poisson: every dense candidate is within the radius of a kept sample", KIDDO), dp);
                }
            }
        }
    }
}

// ------------------------------------------------------------------------------------------------ ball pivoting
const BALL: f64 = 2.0;
fn circle12() -> Vec<Point2> { (0..12).map(|i| { let a = (i as f64 * 30.0).to_radians(); Point2::new(5.0 * a.cos(), 5.0 * a.sin()) }).collect() }
fn outer_center(a: &Point2, b: &Point2) -> Point2 {
    let mid = Point2::from((a.coords + b.coords) * 0.5);
    let half = (b - a).norm() * 0.5;
    mid + mid.coords.normalize() * (BALL * BALL - half * half).sqrt()
}
/// a point that the ball resting on polygon vertices 5 and 6 touches after pivoting counter-clockwise about vertex 6 by `delta`
fn extra_point(points: &[Point2], delta: f64) -> Point2 {
    let b = points[6];
    let o = outer_center(&points[5], &b);
    let o2 = b + Iso2::rotation(delta) * (o - b);
    let to_b = (b - o2).normalize();
    o2 + Iso2::rotation((-40.0_f64).to_radians()) * to_b * BALL
}
fn pivot_checks(r: &mut Report) {
    let mut sets: Vec<(String, Vec<Point2>)> = vec![("12 points on a circle of radius 5".to_string(), circle12())];
    for delta in [0.05, 1.0e-2, 3.0e-4] {
        let mut p = circle12();
        let e = extra_point(&p, delta);
        p.push(e);
        sets.push((format!("12 points on a circle of radius 5 + a point touched after a pivot of {} rad about point 6", delta), p));
    }
    for (name, pts) in sets.iter() {
        for (sname, start) in [("StartOnIndexDir(0, +x)", BallPivotStart::StartOnIndexDir(0, Vector2::new(1.0, 0.0))), ("StartOnConvex", BallPivotStart::StartOnConvex)] {
            r.case();
            let dsc = || format!("ball_pivot_with_centers_2d({}, {}, EndOnRepeat, Ccw, radius {})", name, sname, BALL);
            match catch_unwind(AssertUnwindSafe(|| ball_pivot_with_centers_2d(pts, start, BallPivotEnd::EndOnRepeat, AngleDir::Ccw, BALL))) {
                Err(_) => r.check(false, "ball pivot does not panic", dsc),
                Ok(Err(_)) => r.check(false, "ball pivot completes on a closed ring of points", dsc),
                Ok(Ok((idx, centers))) => {
                    r.check(centers.len() + 1 == idx.len() && idx.iter().all(|&i| i < pts.len()), "ball pivot: one centre per pair of consecutive hull indices", dsc);
                    if centers.len() + 1 != idx.len() || idx.iter().any(|&i| i >= pts.len()) { continue; }
                    for (k, c) in centers.iter().enumerate() {
                        let d0 = d(&pts[idx[k]], c);
                        let d1 = d(&pts[idx[k + 1]], c);
                        r.check((d0 - BALL).abs() < 1e-9 && (d1 - BALL).abs() < 1e-9, "ball pivot: the centre is exactly one radius from the two consecutive hull points", || format!("{} step {} ({} -> {}): distances {} and {}", dsc(), k, idx[k], idx[k + 1], d0, d1));
                        for (j, p) in pts.iter().enumerate() {
                            let dj = d(p, c);
                            r.check(dj > BALL - 1e-9, "ball pivot: no input point strictly inside the ball", || format!("{} step {} ({} -> {}): point {} is {} from the centre", dsc(), k, idx[k], idx[k + 1], j, dj));
                        }
                    }
                }
            }
        }
    }
}

// ------------------------------------------------------------------------------------------------ round 4: repeated points, dense clusters
/// outlines in which a vertex is listed twice / three times IN A ROW (a sensor sampling the same spot again, a closed loop
/// repeating a point) somewhere in the middle of the list: the hull clauses and the order direction, both orientations
fn repeated_point_checks(r: &mut Report, name: &str, poly: &[Point2]) {
    let n = poly.len();
    for k in 0..n { for reps in [2usize, 3] { for second in [None, Some((k + n / 2) % n)] { for rev in [false, true] {
        let mut p: Vec<Point2> = Vec::new();
        for (i, q) in poly.iter().enumerate() {
            let m = if i == k { reps } else if Some(i) == second && i != k { 2 } else { 1 };
            for _ in 0..m { p.push(*q); }
        }
        if rev { p.reverse(); }
        let what = format!("{} with vertex {} listed {} times in a row{}{}", name, k, reps, match second { Some(j) if j != k => format!(" and vertex {} twice", j), _ => String::new() }, if rev { ", reversed" } else { "" });
        hull_checks(r, &what, &p);
        r.case();
        let area = signed_area(&p);
        let got = point_order_direction(&p);
        r.check(matches!(got, AngleDir::Ccw) == (area > 0.0), "point_order_direction matches the sign of the signed area (outline with consecutive repeated points)", || format!("{}: {:?}, signed area {}, got {:?}", what, p.iter().map(|q| (q.x, q.y)).collect::<Vec<_>>(), area, got));
    } } } }
}

/// ball pivoting (radius 2) around a ring of 60 points of radius 10 with a DENSE cluster of interior points just behind
/// one ring vertex: `m` points 0.2 .. 0.6 inward of it, i.e. closer to it than its ring neighbours (1.047 away) - so the
/// point the ball touches next is not among the m nearest neighbours of the working point.  All coordinates distinct
/// (no ties on a k-d tree split axis)
fn pivot_dense_checks(r: &mut Report) {
    let rad = 2.0;
    for at in [10usize, 25, 47] { for m in [8usize, 40, 80] { for dir in [AngleDir::Ccw, AngleDir::Cw] {
        let mut pts: Vec<Point2> = (0..60).map(|i| { let a = (i as f64 * 6.0 + 1.0).to_radians(); Point2::new(10.0 * a.cos(), 10.0 * a.sin()) }).collect();
        let a = pts[at];
        let out = a.coords.normalize();
        let tan = Vector2::new(-out.y, out.x);
        for j in 0..m {
            let inward = 0.2 + 0.4 * j as f64 / m as f64;
            let side = 0.1 * (j as f64 * 1.3).sin();
            pts.push(a - out * inward + tan * side);
        }
        let closer = (0..pts.len()).filter(|&j| d(&pts[j], &a) < d(&pts[(at + 1) % 60], &a) - 1e-6).count();
        r.check(closer == m + 1, "input space: the cluster points (and the vertex itself) are closer to the ring vertex than its ring neighbours", || format!("{} of {}", closer, m + 1));
        let starts = [("StartOnConvex", BallPivotStart::StartOnConvex), ("StartOnIndexDir(ring vertex 0, outward)", BallPivotStart::StartOnIndexDir(0, pts[0].coords))];
        for (sname, start) in starts {
            r.case();
            let dsc = || format!("ball_pivot_with_centers_2d(ring of 60 points of radius 10 + {} interior points 0.2 .. 0.6 behind ring vertex {}, {}, EndOnRepeat, {:?}, radius {})", m, at, sname, dir, rad);
            match catch_unwind(AssertUnwindSafe(|| ball_pivot_with_centers_2d(&pts, start, BallPivotEnd::EndOnRepeat, dir, rad))) {
                Err(_) => r.check(false, "ball pivot does not panic", dsc),
                Ok(Err(_)) => r.check(false, "ball pivot completes on a closed ring of points", dsc),
                Ok(Ok((idx, centers))) => {
                    r.check(centers.len() + 1 == idx.len() && idx.iter().all(|&i| i < pts.len()), "ball pivot: one centre per pair of consecutive hull indices", || format!("{} -> {} indices, {} centres", dsc(), idx.len(), centers.len()));
                    r.check(centers.len() >= 30, "ball pivot completes on a closed ring of points (at least 30 steps around the ring of 60 before it meets a visited point)", || format!("{} -> {} indices", dsc(), idx.len()));
                    if centers.len() + 1 != idx.len() || idx.iter().any(|&i| i >= pts.len()) { continue; }
                    for (k, c) in centers.iter().enumerate() {
                        let d0 = d(&pts[idx[k]], c);
                        let d1 = d(&pts[idx[k + 1]], c);
                        r.check((d0 - rad).abs() < 1e-9 && (d1 - rad).abs() < 1e-9, "ball pivot: the centre is exactly one radius from the two consecutive hull points", || format!("{} step {} ({} -> {}): distances {} and {}", dsc(), k, idx[k], idx[k + 1], d0, d1));
                        let inside: Vec<(usize, f64)> = pts.iter().enumerate().map(|(j, q)| (j, d(q, c))).filter(|x| !(x.1 > rad - 1e-9)).collect();
                        r.check(inside.is_empty(), "ball pivot: no input point strictly inside the ball", || format!("{} step {} ({} -> {}), centre ({}, {}): points (index, distance from the centre) {:?}", dsc(), k, idx[k], idx[k + 1], c.x, c.y, &inside[..inside.len().min(4)]));
                    }
                }
            }
        }
    } } }
}

pub fn run() -> Option<Report> {
    let mut r = Report::new("k-d trees: 7x7 2D grid + 4 duplicates, 5x5x2 3D grid + 3 duplicates, and (tagged, known dependency defect) a 5x4x3 and a 33x3 grid, 3x3 grid + 1 duplicate; queries = data points, cell centres, off-grid and outside points; k in {1,2,5}; radii {0,0.3,0.75,1.2,1.5,2.1,2.5} (hits within 1e-9 of the boundary not judged) and, at every data point, the exact-tie radii {1,2,5} (7x7), {1,2} (3x3), {1,2,3} (5x5x2) judged as the open ball d < r; PartialKdTree over 5 index lists (subsets, permuted and reversed full-length lists); Poisson disk over the same clouds, 6 working lists x radii {0.5,1.2,1.5,2.1}; hulls of 6 integer point sets, 4 simple polygons in both orientations, 6 outlines with exactly 3, 4, 5 hull vertices x every start vertex x both orientations; mesh sampling on 5 meshes (2 with a zero-area face), uniform n=3000, dense spacing {0.3,0.45,4}, Poisson radius {0.4,0.9}, dense / Poisson also on 4 meshes with a positive-area sliver face that has no computable normal (|ab x ac| = 2^-54) before faces of other orientations; ball pivot (radius 2) on a 12-point ring + an extra point at pivot angle {0.05,1e-2,3e-4}; ROUND 4: convex_hull_2d / point_order_direction on 8 outlines with every vertex listed 2 / 3 times in a row (alone and with a second doubled vertex), both orientations; ball pivot (radius 2, Ccw and Cw, 2 starts) around a ring of 60 points of radius 10 with a dense cluster of 8 / 40 / 80 interior points 0.2 .. 0.6 behind ring vertex 10 / 25 / 47 (all closer to it than its ring neighbours)");
    // k-d trees
    let c2 = cloud2(7, 7, &[0, 10, 24, 48]);
    search_checks(&mut r, "", "7x7 grid + duplicates of points 0, 10, 24, 48", &c2, &queries2(&c2, 7, 7));
    let c2s = cloud2(3, 3, &[4]);
    search_checks(&mut r, "", "3x3 grid + a duplicate of point 4", &c2s, &queries2(&c2s, 3, 3));
    let c3 = cloud3(5, 5, 2, &[0, 17, 47]);
    search_checks(&mut r, "", "5x5x2 grid + duplicates of points 0, 17, 47", &c3, &queries3(&c3, 5, 5, 2));
    // within(r) with exact ties (unit grids, integer radii; 3-4-5 triples in the 7x7 grid, 1-2-2 triples in the 5x5x2 grid)
    tie_checks(&mut r, "7x7 grid + duplicates of points 0, 10, 24, 48", &c2, &[1.0, 2.0, 5.0]);
    tie_checks(&mut r, "3x3 grid + a duplicate of point 4", &c2s, &[1.0, 2.0]);
    tie_checks(&mut r, "5x5x2 grid + duplicates of points 0, 17, 47", &c3, &[1.0, 2.0, 3.0]);
    // Poisson disk
    poisson_checks(&mut r, "", "7x7 grid + duplicates of points 0, 10, 24, 48", &c2);
    poisson_checks(&mut r, "", "3x3 grid + a duplicate of point 4", &c2s);
    poisson_checks(&mut r, "", "5x5x2 grid + duplicates of points 0, 17, 47", &c3);
    // hulls
    let scattered: Vec<Point2> = (0..17).map(|i| Point2::new(((i * 7) % 11) as f64, ((i * 5) % 13) as f64)).collect();
    let mut with_dups = scattered.clone();
    with_dups.extend([scattered[0], scattered[5], Point2::new(10.0, 12.0), Point2::new(10.0, 12.0)]);
    hull_checks(&mut r, "3x3 grid", &cloud2(3, 3, &[]));
    hull_checks(&mut r, "7x7 grid + duplicates", &c2);
    hull_checks(&mut r, "17 scattered integer points", &scattered);
    hull_checks(&mut r, "scattered integer points with duplicates", &with_dups);
    hull_checks(&mut r, "triangle with interior points", &[Point2::new(0.0, 0.0), Point2::new(8.0, 0.0), Point2::new(0.0, 8.0), Point2::new(1.0, 1.0), Point2::new(2.0, 3.0), Point2::new(4.0, 4.0)]);
    hull_checks(&mut r, "long thin quadrilateral", &[Point2::new(0.0, 0.0), Point2::new(16.0, 1.0), Point2::new(32.0, 0.0), Point2::new(16.0, -1.0), Point2::new(15.0, 0.0)]);
    let hexagon = [Point2::new(2.0, 0.0), Point2::new(4.0, 1.0), Point2::new(4.0, 3.0), Point2::new(2.0, 4.0), Point2::new(0.0, 3.0), Point2::new(0.0, 1.0)];
    let ell = [Point2::new(0.0, 0.0), Point2::new(4.0, 0.0), Point2::new(4.0, 1.0), Point2::new(1.0, 1.0), Point2::new(1.0, 4.0), Point2::new(0.0, 4.0)];
    let star = [Point2::new(0.0, 0.0), Point2::new(3.0, 1.0), Point2::new(6.0, 0.0), Point2::new(5.0, 3.0), Point2::new(6.0, 6.0), Point2::new(3.0, 5.0), Point2::new(0.0, 6.0), Point2::new(1.0, 3.0)];
    let tri = [Point2::new(0.0, 0.0), Point2::new(4.0, 0.0), Point2::new(0.0, 3.0)];
    direction_checks(&mut r, "hexagon", &hexagon);
    direction_checks(&mut r, "L-shape", &ell);
    direction_checks(&mut r, "8-point star", &star);
    direction_checks(&mut r, "triangle", &tri);
    // hulls with exactly 3, 4, 5 vertices: every start vertex, both orientations
    let tri_star = [Point2::new(0.0, 0.0), Point2::new(4.0, 1.0), Point2::new(8.0, 0.0), Point2::new(5.0, 3.0), Point2::new(4.0, 8.0), Point2::new(3.0, 3.0)];
    let square = [Point2::new(0.0, 0.0), Point2::new(4.0, 0.0), Point2::new(4.0, 4.0), Point2::new(0.0, 4.0)];
    let dented = [Point2::new(0.0, 0.0), Point2::new(4.0, 0.0), Point2::new(4.0, 4.0), Point2::new(2.0, 3.0), Point2::new(0.0, 4.0)];
    let pentagon = [Point2::new(0.0, 0.0), Point2::new(4.0, 0.0), Point2::new(5.0, 3.0), Point2::new(2.0, 5.0), Point2::new(-1.0, 3.0)];
    direction_rotation_checks(&mut r, "triangle", &tri, 3);
    direction_rotation_checks(&mut r, "three-pointed star (6 vertices, 3 on the hull)", &tri_star, 3);
    direction_rotation_checks(&mut r, "square", &square, 4);
    direction_rotation_checks(&mut r, "square with a dent (5 vertices, 4 on the hull)", &dented, 4);
    direction_rotation_checks(&mut r, "convex pentagon", &pentagon, 5);
    direction_rotation_checks(&mut r, "L-shape (6 vertices, 5 on the hull)", &ell, 5);
    // round 4: consecutive repeated points
    repeated_point_checks(&mut r, "hexagon", &hexagon);
    repeated_point_checks(&mut r, "L-shape", &ell);
    repeated_point_checks(&mut r, "8-point star", &star);
    repeated_point_checks(&mut r, "triangle", &tri);
    repeated_point_checks(&mut r, "square", &square);
    repeated_point_checks(&mut r, "square with a dent", &dented);
    repeated_point_checks(&mut r, "convex pentagon", &pentagon);
    repeated_point_checks(&mut r, "three-pointed star", &tri_star);
    // mesh sampling
    sampling_checks(&mut r);
    // ball pivoting
    pivot_checks(&mut r);
    pivot_dense_checks(&mut r);
    // LAST (so that these listed failures cannot crowd out others):
    // point sets on which kiddo 5.0.3 builds a leaf with more than 32 items (ties on the split axis push the pivot):
    // its nearest_n_within leaf code then reports the item ids of the first chunk for the items of the remainder.
    // Clauses evaluated on them carry the KIDDO tag so that this dependency defect is one separately listed finding.
    let g3 = cloud3(5, 4, 3, &[]);
    search_checks(&mut r, KIDDO, "5x4x3 grid", &g3, &queries3(&g3, 5, 4, 3));
    let g2 = cloud2(33, 3, &[]);
    search_checks(&mut r, KIDDO, "33x3 grid", &g2, &g2.clone());
    poisson_checks(&mut r, KIDDO, "5x4x3 grid", &g3);
    Some(r)
}
