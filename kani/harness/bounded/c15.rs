//! C15 bounded: spatial search, sampling and hulls against exhaustive computation.
//!
//! Input space (enumerated; the only randomness is the RNG INSIDE Mesh::sample_uniform / sample_poisson, and every
//! clause evaluated on their output holds for every draw):
//! * k-d trees: a 7x7 integer grid in 2D (+4 exact duplicates) and a 4x4x3 integer grid in 3D (+3 duplicates) -- more
//!   points than one kiddo leaf bucket (32) --, and a 3x3 grid (+1 duplicate); query points: every data point, cell
//!   centres (4-/8-way ties), off-grid points with a unique nearest neighbour, points outside the cloud; k in {1,2,5};
//!   radii 0.3, 0.75, 1.2, 1.5, 2.1, 2.5 (never a distance that occurs exactly: kiddo's behaviour ON the boundary is
//!   not pinned) and 0 (soundness only). PartialKdTree over: every 2nd index, every 3rd index in descending order, a
//!   permuted full-length list, the reversed full list, one index.
//! * within(r) at EXACT ties (wave 3): the 7x7, 3x3 and 5x5x2 unit grids queried at every data point with r in
//!   {1, 2, 5} / {1, 2} / {1, 2, 3} (3-4-5 and 1-2-2 triples), KdTree and PartialKdTree over the 5 index lists: the
//!   answer is the open ball -- brute force d < r, a point at distance exactly r is NOT reported (this is what the
//!   unchanged KdTree::within answers on all of these inputs).
//! * sample_poisson_disk: the same clouds, working lists: all in order, reversed, permuted, every 2nd, a list that
//!   names an index twice; radii 0.5, 1.2, 1.5, 2.1.
//! * hulls: 3x3 grid, scattered integer points (with interior, collinear and duplicated points), convex and non-convex
//!   simple polygons in both orientations; point_order_direction additionally on 6 outlines whose hull has exactly 3
//!   (triangle, three-pointed star), 4 (square, dented square) and 5 (pentagon, L-shape) vertices, for every rotation
//!   of the start vertex and both orientations (hull index lists starting on and off their lowest index).
//! * mesh sampling: unit box, 1x2x3 box, three separate triangles, and the same three with an exactly zero-area sliver
//!   face in the middle / at the end of the face list; sample_dense / sample_poisson additionally on 4 meshes holding
//!   a sliver face of POSITIVE area but without a computable normal (|ab x ac| = 2^-54 <= f64::EPSILON) placed first,
//!   second, third (twice, both windings) and fourth among faces with normals +z, +x, +y, -z.
//! * ball pivoting: 12 points on a circle of radius 5 (ball radius 2), plus one extra point reached after a pivot of
//!   0.05, 1e-2 and 3e-4 rad; start on an index with a direction / on the convex hull.
//! * ROUND 4: hulls / order direction of outlines with CONSECUTIVE repeated points in the middle of the list; ball pivoting
//!   around a ring with a DENSE cluster (8 / 40 / 80 points) closer to a ring vertex than the point the ball touches next.
use super::{close, Report};
use crate::common::kd_tree::{KdTree, KdTreeSearch, PartialKdTree};
use crate::common::poisson_disk::sample_poisson_disk;
use crate::common::AngleDir;
use crate::geom2::hull::{ball_pivot_with_centers_2d, convex_hull_2d, farthest_pair_indices, point_order_direction, BallPivotEnd, BallPivotStart};
use crate::geom2::{Iso2, Point2, Vector2};
use crate::{Mesh, Point3, SurfacePoint3, Vector3};
use parry2d_f64::shape::ConvexPolygon;
use parry3d_f64::na::Point;
use std::collections::BTreeSet;
use std::num::NonZero;
use std::panic::{catch_unwind, AssertUnwindSafe};

const KIDDO: &str = "[kiddo ImmutableKdTree leaf > 32 items] ";

fn d<const D: usize>(a: &Point<f64, D>, b: &Point<f64, D>) -> f64 { (a - b).norm() }
fn show<const D: usize>(p: &Point<f64, D>) -> String { format!("{:?}", p.coords.as_slice()) }

// ------------------------------------------------------------------------------------------------ k-d trees
/// `cand`: the original indices the tree was built over; `all`: the full point list
fn check_search<const D: usize, T: KdTreeSearch<D>>(r: &mut Report, tag: &str, name: &str, tree: &T, all: &[Point<f64, D>], cand: &[usize], queries: &[Point<f64, D>]) {
    let cset: BTreeSet<usize> = cand.iter().copied().collect();
    r.check(tree.len() == cand.len(), &format!("{}len() is the number of indexed points", tag), || format!("{}: len {} vs {}", name, tree.len(), cand.len()));
    for q in queries.iter() {
        r.case();
        let mut bf: Vec<f64> = cand.iter().map(|&i| d(&all[i], q)).collect();
        bf.sort_by(|a, b| a.partial_cmp(b).unwrap());
        // nearest_one
        let (i1, d1) = tree.nearest_one(q);
        let dq = || format!("{}: nearest_one({}) = ({}, {})", name, show(q), i1, d1);
        r.check(cset.contains(&i1), &format!("{}nearest_one: the index is an original index of an indexed point", tag), dq);
        r.check(close(d1, bf[0]), &format!("{}nearest_one: the distance is the brute-force minimum", tag), dq);
        if i1 < all.len() { r.check(close(d(&all[i1], q), d1), &format!("{}nearest_one: the reported distance is the distance to the reported point", tag), dq); }
        // nearest(k)
        for k in [1usize, 2, 5] {
            let res = tree.nearest(q, NonZero::new(k).unwrap());
            let dk = || format!("{}: nearest({}, {}) = {:?}", name, show(q), k, res);
            let want = k.min(cand.len());
            r.check(res.len() == want, &format!("{}nearest(k): min(k, n) results", tag), dk);
            r.check(res.windows(2).all(|w| w[0].1 <= w[1].1), &format!("{}nearest(k): results are ordered nearest first", tag), dk);
            r.check(res.iter().map(|x| x.0).collect::<BTreeSet<_>>().len() == res.len(), &format!("{}nearest(k): no index twice", tag), dk);
            r.check(res.iter().all(|x| cset.contains(&x.0)), &format!("{}nearest(k): indices are original indices of indexed points", tag), dk);
            r.check(res.iter().all(|x| x.0 < all.len() && close(d(&all[x.0], q), x.1)), &format!("{}nearest(k): each distance is the distance to the reported point", tag), dk);
            r.check(res.len() == want && res.iter().zip(bf.iter()).all(|(x, b)| close(x.1, *b)), &format!("{}nearest(k): the distances are the k smallest brute-force distances", tag), dk);
        }
        // within(r)
        for rad in [0.0, 0.3, 0.75, 1.2, 1.5, 2.1, 2.5] {
            let res = tree.within(q, rad);
            let dw = || format!("{}: within({}, {}) = {:?}", name, show(q), rad, res);
            let got: BTreeSet<usize> = res.iter().map(|x| x.0).collect();
            r.check(got.len() == res.len(), &format!("{}within: no index twice", tag), dw);
            r.check(res.iter().all(|x| x.0 < all.len() && cset.contains(&x.0) && close(d(&all[x.0], q), x.1)), &format!("{}within: each result is an indexed point with its distance", tag), dw);
            r.check(res.iter().all(|x| x.1 <= rad + 1e-12), &format!("{}within: every result is within the radius", tag), dw);
            let on_boundary = cand.iter().any(|&i| (d(&all[i], q) - rad).abs() < 1e-9);
            if !on_boundary {
                let want: BTreeSet<usize> = cand.iter().copied().filter(|&i| d(&all[i], q) <= rad).collect();
                r.check(got == want, &format!("{}within: exactly the points within the radius (brute force)", tag), || format!("{} expected {:?}", dw(), want));
            }
        }
    }
}

/// within(r) for radii that occur EXACTLY as a distance (integer grids, integer radii): the query is the open ball
/// d < r, i.e. what the unchanged KdTree::within (kiddo `within` on squared distances) answers -- a point at distance
/// exactly r is not reported.
fn check_ties<const D: usize, T: KdTreeSearch<D>>(r: &mut Report, name: &str, tree: &T, all: &[Point<f64, D>], cand: &[usize], queries: &[Point<f64, D>], radii: &[f64]) -> usize {
    let mut ties = 0;
    for q in queries.iter() {
        for &rad in radii.iter() {
            r.case();
            let res = tree.within(q, rad);
            let dw = || format!("{}: within({}, {}) = {:?}", name, show(q), rad, res);
            let got: BTreeSet<usize> = res.iter().map(|x| x.0).collect();
            // every distance here is the square root of a small integer: d < r, d == r, d > r are decided exactly
            let want: BTreeSet<usize> = cand.iter().copied().filter(|&i| d(&all[i], q) < rad).collect();
            ties += cand.iter().filter(|&&i| d(&all[i], q) == rad).count();
            r.check(res.iter().all(|x| x.1 < rad), "within at exact ties: a reported distance is < r (a point exactly on the radius is not reported)", dw);
            r.check(got == want && got.len() == res.len(), "within at exact ties: agrees with brute force d < r", || format!("{} expected {:?}", dw(), want));
            r.check(res.iter().all(|x| x.0 < all.len() && d(&all[x.0], q) == x.1), "within at exact ties: each reported distance is the distance to the reported point", dw);
        }
    }
    ties
}
fn tie_checks<const D: usize>(r: &mut Report, cname: &str, pts: &[Point<f64, D>], radii: &[f64]) {
    let n = pts.len();
    let all: Vec<usize> = (0..n).collect();
    let mut ties = check_ties(r, &format!("KdTree over {}", cname), &KdTree::new(pts), pts, &all, pts, radii);
    for (lname, list) in index_lists(n) {
        let pt = PartialKdTree::new(pts, &list);
        ties += check_ties(r, &format!("PartialKdTree over {} / {} {:?}", cname, lname, if list.len() <= 12 { list.clone() } else { list[..12].to_vec() }), &pt, pts, &list, pts, radii);
    }
    r.check(ties > 0, "input space: the tie inputs contain points exactly on the radius", || format!("{}: no exact tie", cname));
}

fn index_lists(n: usize) -> Vec<(&'static str, Vec<usize>)> {
    // 7 is coprime to every n used here (53, 51, 10)
    let perm: Vec<usize> = (0..n).map(|i| (i * 7 + 3) % n).collect();
    vec![
        ("every 2nd index", (0..n).step_by(2).collect()),
        ("every 3rd index, descending", (0..n).step_by(3).rev().collect()),
        ("permuted full-length list", perm),
        ("reversed full list", (0..n).rev().collect()),
        ("one index", vec![n / 2]),
    ]
}

fn cloud2(w: usize, h: usize, dups: &[usize]) -> Vec<Point2> {
    let mut v = Vec::new();
    for i in 0..w { for j in 0..h { v.push(Point2::new(i as f64, j as f64)); } }
    for &k in dups { let p = v[k]; v.push(p); }
    v
}
fn cloud3(w: usize, h: usize, l: usize, dups: &[usize]) -> Vec<Point3> {
    let mut v = Vec::new();
    for i in 0..w { for j in 0..h { for k in 0..l { v.push(Point3::new(i as f64, j as f64, k as f64)); } } }
    for &k in dups { let p = v[k]; v.push(p); }
    v
}
fn queries2(pts: &[Point2], w: usize, h: usize) -> Vec<Point2> {
    let mut q = pts.to_vec();
    for i in 0..w - 1 { for j in 0..h - 1 { q.push(Point2::new(i as f64 + 0.5, j as f64 + 0.5)); } }
    for i in 0..w { q.push(Point2::new(i as f64 + 0.25, (i % h) as f64 + 0.125)); }
    q.extend([Point2::new(-1.5, -0.75), Point2::new(w as f64 + 1.25, 1.0625), Point2::new(2.0625, h as f64 + 2.0), Point2::new(-3.0, h as f64 + 3.5)]);
    q
}
fn queries3(pts: &[Point3], w: usize, h: usize, l: usize) -> Vec<Point3> {
    let mut q = pts.to_vec();
    for i in 0..w - 1 { for j in 0..h - 1 { for k in 0..l - 1 { q.push(Point3::new(i as f64 + 0.5, j as f64 + 0.5, k as f64 + 0.5)); } } }
    for i in 0..w { q.push(Point3::new(i as f64 + 0.25, (i % h) as f64 + 0.125, (i % l) as f64 - 0.0625)); }
    q.extend([Point3::new(-1.5, -0.75, 0.25), Point3::new(w as f64 + 1.25, 1.0625, 5.0)]);
    q
}

fn search_checks<const D: usize>(r: &mut Report, tag: &str, cname: &str, pts: &[Point<f64, D>], queries: &[Point<f64, D>]) {
    let n = pts.len();
    let all: Vec<usize> = (0..n).collect();
    let tree = KdTree::new(pts);
    check_search(r, tag, &format!("KdTree over {}", cname), &tree, pts, &all, queries);
    for (lname, list) in index_lists(n) {
        let pt = PartialKdTree::new(pts, &list);
        check_search(r, tag, &format!("PartialKdTree over {} / {} {:?}", cname, lname, if list.len() <= 12 { list.clone() } else { list[..12].to_vec() }), &pt, pts, &list, queries);
    }
}

// ------------------------------------------------------------------------------------------------ Poisson disk
fn poisson_checks<const D: usize>(r: &mut Report, tag: &str, cname: &str, pts: &[Point<f64, D>]) {
    let n = pts.len();
    let mut lists: Vec<(&str, Vec<usize>)> = vec![
        ("all in order", (0..n).collect()),
        ("reversed", (0..n).rev().collect()),
        ("permuted", (0..n).map(|i| (i * 7 + 3) % n).collect()),
        ("every 2nd", (0..n).step_by(2).collect()),
        ("an index named twice", vec![3, 3, n - 1, 0, n - 1]),
    ];
    lists.push(("the duplicated points last to first", (n.saturating_sub(6)..n).rev().chain(0..n.saturating_sub(6)).collect()));
    for (lname, work) in lists.iter() {
        for rad in [0.5, 1.2, 1.5, 2.1] {
            r.case();
            let keep = sample_poisson_disk(pts, work, rad);
            let dsc = || format!("sample_poisson_disk({}, working = {} {:?}, radius {}) = {:?}", cname, lname, if work.len() <= 12 { work.clone() } else { work[..12].to_vec() }, rad, keep);
            let wset: BTreeSet<usize> = work.iter().copied().collect();
            r.check(keep.iter().all(|i| wset.contains(i)), &format!("{}Poisson disk: the result is a subset of the working indices", tag), dsc);
            r.check(keep.iter().collect::<BTreeSet<_>>().len() == keep.len(), &format!("{}Poisson disk: no index is kept twice", tag), dsc);
            let mut sep = true;
            for a in 0..keep.len() { for b in a + 1..keep.len() {
                if keep[a] < n && keep[b] < n && d(&pts[keep[a]], &pts[keep[b]]) <= rad { sep = false; }
            } }
            r.check(sep, &format!("{}Poisson disk: no two kept points are within the radius of each other", tag), dsc);
            let cov = work.iter().all(|&w| keep.iter().any(|&k| k < n && d(&pts[w], &pts[k]) <= rad));
            r.check(cov, &format!("{}Poisson disk: every working point is within the radius of a kept point", tag), dsc);
        }
    }
}

// ------------------------------------------------------------------------------------------------ hulls
fn cross2(a: &Point2, b: &Point2, c: &Point2) -> f64 { (b.x - a.x) * (c.y - a.y) - (b.y - a.y) * (c.x - a.x) }
fn signed_area(p: &[Point2]) -> f64 { (0..p.len()).map(|i| { let j = (i + 1) % p.len(); p[i].x * p[j].y - p[j].x * p[i].y }).sum::<f64>() * 0.5 }

fn hull_checks(r: &mut Report, name: &str, pts: &[Point2]) {
    r.case();
    let hull = convex_hull_2d(pts);
    let dsc = || format!("convex_hull_2d({}: {:?}) = {:?}", name, pts.iter().map(|p| (p.x, p.y)).collect::<Vec<_>>(), hull);
    r.check(hull.iter().all(|&i| i < pts.len()) && hull.iter().collect::<BTreeSet<_>>().len() == hull.len(), "convex hull: distinct indices of input points", dsc);
    if hull.len() < 3 || hull.iter().any(|&i| i >= pts.len()) { r.check(false, "convex hull: at least 3 hull points for a point set that is not collinear", dsc); return; }
    let hp: Vec<Point2> = hull.iter().map(|&i| pts[i]).collect();
    r.check(signed_area(&hp) > 0.0, "convex hull: the indices run counter-clockwise (positive signed area)", dsc);
    let h = hp.len();
    r.check((0..h).all(|i| cross2(&hp[i], &hp[(i + 1) % h], &hp[(i + 2) % h]) >= -1e-9), "convex hull: every turn is a left turn", dsc);
    r.check(pts.iter().all(|p| (0..h).all(|i| cross2(&hp[i], &hp[(i + 1) % h], p) >= -1e-9)), "convex hull: every input point is inside or on the hull", dsc);
    // farthest pair on the parry polygon of the same points
    if let Some(poly) = ConvexPolygon::from_convex_hull(pts) {
        let (a, b) = farthest_pair_indices(&poly);
        let pp = poly.points();
        let dfp = || format!("farthest_pair_indices(hull of {}: {:?}) = ({}, {})", name, pp.iter().map(|p| (p.x, p.y)).collect::<Vec<_>>(), a, b);
        r.check(a < pp.len() && b < pp.len(), "farthest pair: indices of hull points", dfp);
        if a < pp.len() && b < pp.len() {
            let mut diam: f64 = 0.0;
            for i in 0..pp.len() { for j in 0..pp.len() { diam = diam.max(d(&pp[i], &pp[j])); } }
            r.check(close(d(&pp[a], &pp[b]), diam), "farthest pair: the distance is the brute-force diameter of the hull", dfp);
            let mut diam_all: f64 = 0.0;
            for i in 0..pts.len() { for j in 0..pts.len() { diam_all = diam_all.max(d(&pts[i], &pts[j])); } }
            r.check(close(d(&pp[a], &pp[b]), diam_all), "farthest pair: the distance is the diameter of all input points", dfp);
        }
    }
}

fn direction_checks(r: &mut Report, name: &str, poly: &[Point2]) {
    for rev in [false, true] {
        r.case();
        let p: Vec<Point2> = if rev { poly.iter().rev().copied().collect() } else { poly.to_vec() };
        let area = signed_area(&p);
        let got = point_order_direction(&p);
        let ccw = matches!(got, AngleDir::Ccw);
        r.check(ccw == (area > 0.0), "point_order_direction matches the sign of the signed area (simple polygon)", || format!("{}{}: {:?}, signed area {}, got {:?}", name, if rev { " reversed" } else { "" }, p.iter().map(|q| (q.x, q.y)).collect::<Vec<_>>(), area, got));
    }
}

/// outlines whose hull has exactly `hull_n` vertices: every rotation of the start vertex, both orientations
fn direction_rotation_checks(r: &mut Report, name: &str, poly: &[Point2], hull_n: usize) {
    let n = poly.len();
    let mut starts = BTreeSet::new();
    for rev in [false, true] {
        for rot in 0..n {
            r.case();
            let mut p: Vec<Point2> = (0..n).map(|k| poly[(k + rot) % n]).collect();
            if rev { p.reverse(); }
            let area = signed_area(&p);
            let hull = convex_hull_2d(&p);
            let dsc = || format!("{} started at vertex {}{}: {:?}, hull {:?}, signed area {}", name, rot, if rev { ", reversed" } else { "" }, p.iter().map(|q| (q.x, q.y)).collect::<Vec<_>>(), hull, area);
            r.check(hull.len() == hull_n, "input space: the hull of the outline has the stated number of vertices", dsc);
            if !hull.is_empty() { starts.insert((area > 0.0, hull[0] == *hull.iter().min().unwrap())); }
            let got = point_order_direction(&p);
            r.check(matches!(got, AngleDir::Ccw) == (area > 0.0), "point_order_direction matches the sign of the signed area (every start vertex, both orientations)", || format!("{}: got {:?}", dsc(), got));
        }
    }
    // among the counter-clockwise rotations the hull index list starts on its lowest index for some and elsewhere for others
    r.check(starts.contains(&(true, true)) && starts.contains(&(true, false)) && starts.iter().any(|s| !s.0), "input space: counter-clockwise outlines whose hull index list starts on and off its lowest index, and clockwise ones, occur", || format!("{}: {:?}", name, starts));
}

// ------------------------------------------------------------------------------------------------ mesh sampling
fn tri_of(m: &Mesh, f: usize) -> (Point3, Point3, Point3) {
    let t = m.faces()[f];
    (m.vertices()[t[0] as usize], m.vertices()[t[1] as usize], m.vertices()[t[2] as usize])
}
fn tri_normal(a: &Point3, b: &Point3, c: &Point3) -> Option<Vector3> {
    let n = (b - a).cross(&(c - a));
    if n.norm() < 1e-12 { None } else { Some(n / n.norm()) }
}
fn tri_area(a: &Point3, b: &Point3, c: &Point3) -> f64 { (b - a).cross(&(c - a)).norm() * 0.5 }
fn tri_contains(a: &Point3, b: &Point3, c: &Point3, p: &Point3) -> bool {
    let n = match tri_normal(a, b, c) { Some(n) => n, None => return false };
    if (p - a).dot(&n).abs() > 1e-9 { return false; }
    let area = |u: &Point3, v: &Point3, w: &Point3| (v - u).cross(&(w - u)).dot(&n);
    let total = area(a, b, c);
    area(p, b, c) / total >= -1e-9 && area(a, p, c) / total >= -1e-9 && area(a, b, p) / total >= -1e-9
}
/// faces (with a normal) that contain the point
fn faces_at(m: &Mesh, p: &Point3) -> Vec<usize> {
    (0..m.faces().len()).filter(|&f| { let (a, b, c) = tri_of(m, f); tri_contains(&a, &b, &c, p) }).collect()
}
fn check_samples<F: Fn() -> String + Copy>(r: &mut Report, m: &Mesh, s: &[SurfacePoint3], what: &str, dsc: F) -> Vec<usize> {
    let mut hits = vec![0usize; m.faces().len()];
    let mut on = true;
    let mut nrm = true;
    let mut bad = String::new();
    for sp in s.iter() {
        let fs = faces_at(m, &sp.point);
        if fs.is_empty() { on = false; bad = format!("{:?}", sp.point.coords.as_slice()); continue; }
        let ok = fs.iter().any(|&f| { let (a, b, c) = tri_of(m, f); (tri_normal(&a, &b, &c).unwrap() - sp.normal.into_inner()).norm() < 1e-9 });
        if !ok { nrm = false; bad = format!("{:?} normal {:?} (faces {:?})", sp.point.coords.as_slice(), sp.normal.as_slice(), fs); }
        hits[fs[0]] += 1;
    }
    r.check(on, &format!("{}: every sample lies on a face of the mesh", what), || format!("{} offending sample {}", dsc(), bad));
    r.check(nrm, &format!("{}: every sample carries the normal of the face it lies on", what), || format!("{} offending sample {}", dsc(), bad));
    hits
}

fn sampling_meshes() -> Vec<(&'static str, Mesh, bool)> {
    let v = vec![
        Point3::new(0.0, 0.0, 0.0), Point3::new(1.0, 0.0, 0.0), Point3::new(0.0, 1.0, 0.0), // z = 0, area 0.5
        Point3::new(0.5, 0.0, 0.0),                                                          // midpoint of the first edge
        Point3::new(5.0, 0.0, 0.0), Point3::new(5.0, 2.0, 0.0), Point3::new(5.0, 0.0, 2.0), // x = 5, area 2
        Point3::new(0.0, -3.0, 0.0), Point3::new(0.0, -3.0, 2.0), Point3::new(1.0, -3.0, 0.0), // y = -3, area 1
    ];
    vec![
        ("unit box", Mesh::create_box(1.0, 1.0, 1.0, false), false),
        ("1x2x3 box", Mesh::create_box(1.0, 2.0, 3.0, false), false),
        ("three triangles (areas 0.5, 2, 1)", Mesh::new(v.clone(), vec![[0, 1, 2], [4, 5, 6], [7, 8, 9]], false), false),
        ("three triangles with a zero-area face in the middle of the face list", Mesh::new(v.clone(), vec![[0, 1, 2], [0, 3, 1], [4, 5, 6], [7, 8, 9]], false), true),
        ("three triangles with a zero-area face at the end of the face list", Mesh::new(v, vec![[0, 1, 2], [4, 5, 6], [7, 8, 9], [0, 3, 1]], false), true),
    ]
}

/// meshes with a sliver face of POSITIVE area (parry Triangle::area, Kahan's formula) but without a computable normal
/// (|ab x ac| = 2^-54 <= f64::EPSILON), placed away from the other faces and before faces of a different orientation
fn tiny_sliver_meshes() -> Vec<(&'static str, Mesh, usize)> {
    let e = (2.0_f64).powi(-27);
    let v = vec![
        Point3::new(0.0, 0.0, 0.0), Point3::new(1.0, 0.0, 0.0), Point3::new(0.0, 1.0, 0.0),       // z = 0, normal +z
        Point3::new(8.0, 8.0, 8.0), Point3::new(8.0 + e, 8.0, 8.0), Point3::new(8.0, 8.0 + e, 8.0), // the sliver (edge 2^-27)
        Point3::new(5.0, 0.0, 0.0), Point3::new(5.0, 2.0, 0.0), Point3::new(5.0, 0.0, 2.0),       // x = 5, normal +x
        Point3::new(0.0, -3.0, 0.0), Point3::new(0.0, -3.0, 2.0), Point3::new(1.0, -3.0, 0.0),    // y = -3, normal +y
        Point3::new(0.0, 0.0, 4.0), Point3::new(0.0, 2.0, 4.0), Point3::new(2.0, 0.0, 4.0),       // z = 4, normal -z
    ];
    vec![
        ("sliver (positive area, no normal) first, then faces with normals +z, +x, +y, -z", Mesh::new(v.clone(), vec![[3, 4, 5], [0, 1, 2], [6, 7, 8], [9, 10, 11], [12, 13, 14]], false), 0),
        ("faces +z, sliver (positive area, no normal), +x, +y, -z", Mesh::new(v.clone(), vec![[0, 1, 2], [3, 4, 5], [6, 7, 8], [9, 10, 11], [12, 13, 14]], false), 1),
        ("faces +z, +x, sliver (positive area, no normal), sliver reversed, +y, -z", Mesh::new(v.clone(), vec![[0, 1, 2], [6, 7, 8], [3, 4, 5], [3, 5, 4], [9, 10, 11], [12, 13, 14]], false), 2),
        ("faces +z, +x, +y, sliver (positive area, no normal), -z", Mesh::new(v, vec![[0, 1, 2], [6, 7, 8], [9, 10, 11], [3, 4, 5], [12, 13, 14]], false), 3),
    ]
}

fn tiny_sliver_checks(r: &mut Report) {
    for (name, m, at) in tiny_sliver_meshes().iter() {
        r.case();
        let t = m.tri_mesh().triangle(*at as u32);
        r.check(t.area() > 0.0 && t.normal().is_none(), "input space: the sliver face has positive area and no computable normal", || format!("{}: area {:e}, normal {:?}", name, t.area(), t.normal()));
        let proper = m.faces().len() - (0..m.faces().len()).filter(|&f| m.tri_mesh().triangle(f as u32).normal().is_none()).count();
        for spacing in [0.3, 0.45, 4.0] {
            r.case();
            let dd = || format!("{}: sample_dense({})", name, spacing);
            match catch_unwind(AssertUnwindSafe(|| m.sample_dense(spacing))) {
                Err(_) => r.check(false, "sample_dense does not panic on a mesh with a sliver face", dd),
                Ok(s) => {
                    let hits = check_samples(r, m, &s, "sample_dense", dd);
                    r.check(hits.iter().filter(|&&h| h > 0).count() == proper, "sample_dense: every face with a normal is sampled", || format!("{} hits per face {:?}", dd(), hits));
                }
            }
        }
        for radius in [0.4, 0.9] {
            r.case();
            let dp = || format!("{}: sample_poisson({})", name, radius);
            match catch_unwind(AssertUnwindSafe(|| m.sample_poisson(radius))) {
                Err(_) => r.check(false, "sample_poisson does not panic on a mesh with a sliver face", dp),
                Ok(s) => { r.check(!s.is_empty(), "sample_poisson returns samples", dp); check_samples(r, m, &s, "sample_poisson", dp); }
            }
        }
    }
}

fn sampling_checks(r: &mut Report) {
    tiny_sliver_checks(r);
    for (name, m, has_sliver) in sampling_meshes().iter() {
        let nf = m.faces().len();
        // uniform
        let n = 3000usize;
        r.case();
        let du = || format!("{}: sample_uniform({})", name, n);
        match catch_unwind(AssertUnwindSafe(|| m.sample_uniform(n))) {
            Err(_) => r.check(false, "sample_uniform does not panic", du),
            Ok(s) => {
                r.check(s.len() == n, "sample_uniform returns n samples", du);
                let hits = check_samples(r, m, &s, "sample_uniform", du);
                // proportion to area: 8 standard deviations (a fair sampler fails this with probability < 1e-14 per face);
                // only where every sample sits on exactly one face (the separate-triangle meshes)
                if name.starts_with("three") {
                    let areas: Vec<f64> = (0..nf).map(|f| { let (a, b, c) = tri_of(m, f); tri_area(&a, &b, &c) }).collect();
                    let total: f64 = areas.iter().sum();
                    for f in 0..nf {
                        let p = areas[f] / total;
                        let dev = (hits[f] as f64 - p * n as f64).abs();
                        r.check(dev <= 8.0 * (n as f64 * p * (1.0 - p)).sqrt() + 1.0, "sample_uniform hits faces in proportion to their area (8 sigma)", || format!("{} face {} (area share {}) hit {} times", du(), f, p, hits[f]));
                    }
                }
            }
        }
        // dense / Poisson
        for spacing in [0.3, 0.45, 4.0] {
            r.case();
            let dd = || format!("{}: sample_dense({})", name, spacing);
            match catch_unwind(AssertUnwindSafe(|| m.sample_dense(spacing))) {
                Err(_) => r.check(false, if *has_sliver { "sample_dense does not panic on a mesh with a zero-area face" } else { "sample_dense does not panic" }, dd),
                Ok(s) => {
                    r.check(!s.is_empty(), "sample_dense returns samples", dd);
                    check_samples(r, m, &s, "sample_dense", dd);
                }
            }
        }
        for radius in [0.4, 0.9] {
            r.case();
            let dp = || format!("{}: sample_poisson({})", name, radius);
            match catch_unwind(AssertUnwindSafe(|| (m.sample_poisson(radius), m.sample_dense(radius * 0.5)))) {
                Err(_) => r.check(false, if *has_sliver { "sample_poisson does not panic on a mesh with a zero-area face" } else { "sample_poisson does not panic" }, dp),
                Ok((s, dense)) => {
                    check_samples(r, m, &s, "sample_poisson", dp);
                    let mut sep = true;
                    for a in 0..s.len() { for b in a + 1..s.len() { if d(&s[a].point, &s[b].point) <= radius { sep = false; } } }
                    r.check(sep, &format!("{}sample_poisson: no two samples within the radius of each other", KIDDO), dp);
                    r.check(dense.iter().all(|q| s.iter().any(|k| d(&q.point, &k.point) <= radius)), &format!("{}sample_poisson: every dense candidate is within the radius of a kept sample", KIDDO), dp);
                }
            }
        }
    }
}

// ------------------------------------------------------------------------------------------------ ball pivoting
const BALL: f64 = 2.0;
fn circle12() -> Vec<Point2> { (0..12).map(|i| { let a = (i as f64 * 30.0).to_radians(); Point2::new(5.0 * a.cos(), 5.0 * a.sin()) }).collect() }
fn outer_center(a: &Point2, b: &Point2) -> Point2 {
    let mid = Point2::from((a.coords + b.coords) * 0.5);
    let half = (b - a).norm() * 0.5;
    mid + mid.coords.normalize() * (BALL * BALL - half * half).sqrt()
}
/// a point that the ball resting on polygon vertices 5 and 6 touches after pivoting counter-clockwise about vertex 6 by `delta`
fn extra_point(points: &[Point2], delta: f64) -> Point2 {
    let b = points[6];
    let o = outer_center(&points[5], &b);
    let o2 = b + Iso2::rotation(delta) * (o - b);
    let to_b = (b - o2).normalize();
    o2 + Iso2::rotation((-40.0_f64).to_radians()) * to_b * BALL
}
fn pivot_checks(r: &mut Report) {
    let mut sets: Vec<(String, Vec<Point2>)> = vec![("12 points on a circle of radius 5".to_string(), circle12())];
    for delta in [0.05, 1.0e-2, 3.0e-4] {
        let mut p = circle12();
        let e = extra_point(&p, delta);
        p.push(e);
        sets.push((format!("12 points on a circle of radius 5 + a point touched after a pivot of {} rad about point 6", delta), p));
    }
    for (name, pts) in sets.iter() {
        for (sname, start) in [("StartOnIndexDir(0, +x)", BallPivotStart::StartOnIndexDir(0, Vector2::new(1.0, 0.0))), ("StartOnConvex", BallPivotStart::StartOnConvex)] {
            r.case();
            let dsc = || format!("ball_pivot_with_centers_2d({}, {}, EndOnRepeat, Ccw, radius {})", name, sname, BALL);
            match catch_unwind(AssertUnwindSafe(|| ball_pivot_with_centers_2d(pts, start, BallPivotEnd::EndOnRepeat, AngleDir::Ccw, BALL))) {
                Err(_) => r.check(false, "ball pivot does not panic", dsc),
                Ok(Err(_)) => r.check(false, "ball pivot completes on a closed ring of points", dsc),
                Ok(Ok((idx, centers))) => {
                    r.check(centers.len() + 1 == idx.len() && idx.iter().all(|&i| i < pts.len()), "ball pivot: one centre per pair of consecutive hull indices", dsc);
                    if centers.len() + 1 != idx.len() || idx.iter().any(|&i| i >= pts.len()) { continue; }
                    for (k, c) in centers.iter().enumerate() {
                        let d0 = d(&pts[idx[k]], c);
                        let d1 = d(&pts[idx[k + 1]], c);
                        r.check((d0 - BALL).abs() < 1e-9 && (d1 - BALL).abs() < 1e-9, "ball pivot: the centre is exactly one radius from the two consecutive hull points", || format!("{} step {} ({} -> {}): distances {} and {}", dsc(), k, idx[k], idx[k + 1], d0, d1));
                        for (j, p) in pts.iter().enumerate() {
                            let dj = d(p, c);
                            r.check(dj > BALL - 1e-9, "ball pivot: no input point strictly inside the ball", || format!("{} step {} ({} -> {}): point {} is {} from the centre", dsc(), k, idx[k], idx[k + 1], j, dj));
                        }
                    }
                }
            }
        }
    }
}

// ------------------------------------------------------------------------------------------------ round 4: repeated points, dense clusters
/// outlines in which a vertex is listed twice / three times IN A ROW (a sensor sampling the same spot again, a closed loop
/// repeating a point) somewhere in the middle of the list: the hull clauses and the order direction, both orientations
fn repeated_point_checks(r: &mut Report, name: &str, poly: &[Point2]) {
    let n = poly.len();
    for k in 0..n { for reps in [2usize, 3] { for second in [None, Some((k + n / 2) % n)] { for rev in [false, true] {
        let mut p: Vec<Point2> = Vec::new();
        for (i, q) in poly.iter().enumerate() {
            let m = if i == k { reps } else if Some(i) == second && i != k { 2 } else { 1 };
            for _ in 0..m { p.push(*q); }
        }
        if rev { p.reverse(); }
        let what = format!("{} with vertex {} listed {} times in a row{}{}", name, k, reps, match second { Some(j) if j != k => format!(" and vertex {} twice", j), _ => String::new() }, if rev { ", reversed" } else { "" });
        hull_checks(r, &what, &p);
        r.case();
        let area = signed_area(&p);
        let got = point_order_direction(&p);
        r.check(matches!(got, AngleDir::Ccw) == (area > 0.0), "point_order_direction matches the sign of the signed area (outline with consecutive repeated points)", || format!("{}: {:?}, signed area {}, got {:?}", what, p.iter().map(|q| (q.x, q.y)).collect::<Vec<_>>(), area, got));
    } } } }
}

/// ball pivoting (radius 2) around a ring of 60 points of radius 10 with a DENSE cluster of interior points just behind
/// one ring vertex: `m` points 0.2 .. 0.6 inward of it, i.e. closer to it than its ring neighbours (1.047 away) - so the
/// point the ball touches next is not among the m nearest neighbours of the working point.  All coordinates distinct
/// (no ties on a k-d tree split axis)
fn pivot_dense_checks(r: &mut Report) {
    let rad = 2.0;
    for at in [10usize, 25, 47] { for m in [8usize, 40, 80] { for dir in [AngleDir::Ccw, AngleDir::Cw] {
        let mut pts: Vec<Point2> = (0..60).map(|i| { let a = (i as f64 * 6.0 + 1.0).to_radians(); Point2::new(10.0 * a.cos(), 10.0 * a.sin()) }).collect();
        let a = pts[at];
        let out = a.coords.normalize();
        let tan = Vector2::new(-out.y, out.x);
        for j in 0..m {
            let inward = 0.2 + 0.4 * j as f64 / m as f64;
            let side = 0.1 * (j as f64 * 1.3).sin();
            pts.push(a - out * inward + tan * side);
        }
        let closer = (0..pts.len()).filter(|&j| d(&pts[j], &a) < d(&pts[(at + 1) % 60], &a) - 1e-6).count();
        r.check(closer == m + 1, "input space: the cluster points (and the vertex itself) are closer to the ring vertex than its ring neighbours", || format!("{} of {}", closer, m + 1));
        let starts = [("StartOnConvex", BallPivotStart::StartOnConvex), ("StartOnIndexDir(ring vertex 0, outward)", BallPivotStart::StartOnIndexDir(0, pts[0].coords))];
        for (sname, start) in starts {
            r.case();
            let dsc = || format!("ball_pivot_with_centers_2d(ring of 60 points of radius 10 + {} interior points 0.2 .. 0.6 behind ring vertex {}, {}, EndOnRepeat, {:?}, radius {})", m, at, sname, dir, rad);
            match catch_unwind(AssertUnwindSafe(|| ball_pivot_with_centers_2d(&pts, start, BallPivotEnd::EndOnRepeat, dir, rad))) {
                Err(_) => r.check(false, "ball pivot does not panic", dsc),
                Ok(Err(_)) => r.check(false, "ball pivot completes on a closed ring of points", dsc),
                Ok(Ok((idx, centers))) => {
                    r.check(centers.len() + 1 == idx.len() && idx.iter().all(|&i| i < pts.len()), "ball pivot: one centre per pair of consecutive hull indices", || format!("{} -> {} indices, {} centres", dsc(), idx.len(), centers.len()));
                    r.check(centers.len() >= 30, "ball pivot completes on a closed ring of points (at least 30 steps around the ring of 60 before it meets a visited point)", || format!("{} -> {} indices", dsc(), idx.len()));
                    if centers.len() + 1 != idx.len() || idx.iter().any(|&i| i >= pts.len()) { continue; }
                    for (k, c) in centers.iter().enumerate() {
                        let d0 = d(&pts[idx[k]], c);
                        let d1 = d(&pts[idx[k + 1]], c);
                        r.check((d0 - rad).abs() < 1e-9 && (d1 - rad).abs() < 1e-9, "ball pivot: the centre is exactly one radius from the two consecutive hull points", || format!("{} step {} ({} -> {}): distances {} and {}", dsc(), k, idx[k], idx[k + 1], d0, d1));
                        let inside: Vec<(usize, f64)> = pts.iter().enumerate().map(|(j, q)| (j, d(q, c))).filter(|x| !(x.1 > rad - 1e-9)).collect();
                        r.check(inside.is_empty(), "ball pivot: no input point strictly inside the ball", || format!("{} step {} ({} -> {}), centre ({}, {}): points (index, distance from the centre) {:?}", dsc(), k, idx[k], idx[k + 1], c.x, c.y, &inside[..inside.len().min(4)]));
                    }
                }
            }
        }
    } } }
}

pub fn run() -> Option<Report> {
    let mut r = Report::new("k-d trees: 7x7 2D grid + 4 duplicates, 5x5x2 3D grid + 3 duplicates, and (tagged, known dependency defect) a 5x4x3 and a 33x3 grid, 3x3 grid + 1 duplicate; queries = data points, cell centres, off-grid and outside points; k in {1,2,5}; radii {0,0.3,0.75,1.2,1.5,2.1,2.5} (hits within 1e-9 of the boundary not judged) and, at every data point, the exact-tie radii {1,2,5} (7x7), {1,2} (3x3), {1,2,3} (5x5x2) judged as the open ball d < r; PartialKdTree over 5 index lists (subsets, permuted and reversed full-length lists); Poisson disk over the same clouds, 6 working lists x radii {0.5,1.2,1.5,2.1}; hulls of 6 integer point sets, 4 simple polygons in both orientations, 6 outlines with exactly 3, 4, 5 hull vertices x every start vertex x both orientations; mesh sampling on 5 meshes (2 with a zero-area face), uniform n=3000, dense spacing {0.3,0.45,4}, Poisson radius {0.4,0.9}, dense / Poisson also on 4 meshes with a positive-area sliver face that has no computable normal (|ab x ac| = 2^-54) before faces of other orientations; ball pivot (radius 2) on a 12-point ring + an extra point at pivot angle {0.05,1e-2,3e-4}; ROUND 4: convex_hull_2d / point_order_direction on 8 outlines with every vertex listed 2 / 3 times in a row (alone and with a second doubled vertex), both orientations; ball pivot (radius 2, Ccw and Cw, 2 starts) around a ring of 60 points of radius 10 with a dense cluster of 8 / 40 / 80 interior points 0.2 .. 0.6 behind ring vertex 10 / 25 / 47 (all closer to it than its ring neighbours); WAVE 5: rank-1 lattices without equal coordinates (37, 67, 131, 1009, 4099 points in 2D and 3D; 131 points scaled by 1e-9 .. 1e3 at offsets up to 1e8): KdTree and PartialKdTree over 9 index lists (none, identity, halves, unsorted subsets, one, two, repeated indices), len / is_empty / nearest_one / nearest(k in {1,2,5,33,n-1,n,n+1,2n+7}) / within(6 radii up to 1e160), within one ulp above / below a stored distance (exact integer offsets of length 1, 3, 4, 5, 7, 13); Poisson disk on the same clouds, 9 visiting orders x 11 radii (0, half / exactly / one ulp above the smallest spacing, exactly a pairwise distance, the diameter, 1e160) and exact-tie radii on the unit grids; mesh sampling on 13 disjoint rotated triangles (right / obtuse / sharp angle at each vertex, equilateral, sliver, needle) at 6 scales / offsets, uniform n in {0,1,2,20000}, area proportion (8 sigma + 8) also on faces with area shares 0.9 / 1e-9 / 1e-3 / 0.1 (n = 200000), Poisson separation / coverage on tie-free candidates; convex_hull_2d on 11 point sets (grids, 1009-point lattice, 1000 points on an ellipse, collinear, 2 and 3 points) x 7 scales / offsets; farthest_pair_indices on 16 convex polygons (blunt-nosed wedges, triangles, parallel edges, ties, 1000 vertices) x every start vertex x 4 scales / offsets; point_order_direction and Curve2::from_points_ccw (tol, force_closed) on 7 outlines x every start vertex x both orientations x 6 scales / offsets, gears / ellipses of 1000 and 70000 points; ball pivot: every BallPivotStart / BallPivotEnd variant, both directions, ball_pivot_2d, ball_pivot_fill_gaps_2d on a ring, an uneven ellipse, a ring with a doubled point, a rotated L-shaped outline at 6 scales / offsets, radii 1.4 .. 50, an open chain (end to end, and round its dead end), a filled 7x7 grid");
    // k-d trees
    let c2 = cloud2(7, 7, &[0, 10, 24, 48]);
    search_checks(&mut r, "", "7x7 grid + duplicates of points 0, 10, 24, 48", &c2, &queries2(&c2, 7, 7));
    let c2s = cloud2(3, 3, &[4]);
    search_checks(&mut r, "", "3x3 grid + a duplicate of point 4", &c2s, &queries2(&c2s, 3, 3));
    let c3 = cloud3(5, 5, 2, &[0, 17, 47]);
    search_checks(&mut r, "", "5x5x2 grid + duplicates of points 0, 17, 47", &c3, &queries3(&c3, 5, 5, 2));
    // within(r) with exact ties (unit grids, integer radii; 3-4-5 triples in the 7x7 grid, 1-2-2 triples in the 5x5x2 grid)
    tie_checks(&mut r, "7x7 grid + duplicates of points 0, 10, 24, 48", &c2, &[1.0, 2.0, 5.0]);
    tie_checks(&mut r, "3x3 grid + a duplicate of point 4", &c2s, &[1.0, 2.0]);
    tie_checks(&mut r, "5x5x2 grid + duplicates of points 0, 17, 47", &c3, &[1.0, 2.0, 3.0]);
    // Poisson disk
    poisson_checks(&mut r, "", "7x7 grid + duplicates of points 0, 10, 24, 48", &c2);
    poisson_checks(&mut r, "", "3x3 grid + a duplicate of point 4", &c2s);
    poisson_checks(&mut r, "", "5x5x2 grid + duplicates of points 0, 17, 47", &c3);
    // hulls
    let scattered: Vec<Point2> = (0..17).map(|i| Point2::new(((i * 7) % 11) as f64, ((i * 5) % 13) as f64)).collect();
    let mut with_dups = scattered.clone();
    with_dups.extend([scattered[0], scattered[5], Point2::new(10.0, 12.0), Point2::new(10.0, 12.0)]);
    hull_checks(&mut r, "3x3 grid", &cloud2(3, 3, &[]));
    hull_checks(&mut r, "7x7 grid + duplicates", &c2);
    hull_checks(&mut r, "17 scattered integer points", &scattered);
    hull_checks(&mut r, "scattered integer points with duplicates", &with_dups);
    hull_checks(&mut r, "triangle with interior points", &[Point2::new(0.0, 0.0), Point2::new(8.0, 0.0), Point2::new(0.0, 8.0), Point2::new(1.0, 1.0), Point2::new(2.0, 3.0), Point2::new(4.0, 4.0)]);
    hull_checks(&mut r, "long thin quadrilateral", &[Point2::new(0.0, 0.0), Point2::new(16.0, 1.0), Point2::new(32.0, 0.0), Point2::new(16.0, -1.0), Point2::new(15.0, 0.0)]);
    let hexagon = [Point2::new(2.0, 0.0), Point2::new(4.0, 1.0), Point2::new(4.0, 3.0), Point2::new(2.0, 4.0), Point2::new(0.0, 3.0), Point2::new(0.0, 1.0)];
    let ell = [Point2::new(0.0, 0.0), Point2::new(4.0, 0.0), Point2::new(4.0, 1.0), Point2::new(1.0, 1.0), Point2::new(1.0, 4.0), Point2::new(0.0, 4.0)];
    let star = [Point2::new(0.0, 0.0), Point2::new(3.0, 1.0), Point2::new(6.0, 0.0), Point2::new(5.0, 3.0), Point2::new(6.0, 6.0), Point2::new(3.0, 5.0), Point2::new(0.0, 6.0), Point2::new(1.0, 3.0)];
    let tri = [Point2::new(0.0, 0.0), Point2::new(4.0, 0.0), Point2::new(0.0, 3.0)];
    direction_checks(&mut r, "hexagon", &hexagon);
    direction_checks(&mut r, "L-shape", &ell);
    direction_checks(&mut r, "8-point star", &star);
    direction_checks(&mut r, "triangle", &tri);
    // hulls with exactly 3, 4, 5 vertices: every start vertex, both orientations
    let tri_star = [Point2::new(0.0, 0.0), Point2::new(4.0, 1.0), Point2::new(8.0, 0.0), Point2::new(5.0, 3.0), Point2::new(4.0, 8.0), Point2::new(3.0, 3.0)];
    let square = [Point2::new(0.0, 0.0), Point2::new(4.0, 0.0), Point2::new(4.0, 4.0), Point2::new(0.0, 4.0)];
    let dented = [Point2::new(0.0, 0.0), Point2::new(4.0, 0.0), Point2::new(4.0, 4.0), Point2::new(2.0, 3.0), Point2::new(0.0, 4.0)];
    let pentagon = [Point2::new(0.0, 0.0), Point2::new(4.0, 0.0), Point2::new(5.0, 3.0), Point2::new(2.0, 5.0), Point2::new(-1.0, 3.0)];
    direction_rotation_checks(&mut r, "triangle", &tri, 3);
    direction_rotation_checks(&mut r, "three-pointed star (6 vertices, 3 on the hull)", &tri_star, 3);
    direction_rotation_checks(&mut r, "square", &square, 4);
    direction_rotation_checks(&mut r, "square with a dent (5 vertices, 4 on the hull)", &dented, 4);
    direction_rotation_checks(&mut r, "convex pentagon", &pentagon, 5);
    direction_rotation_checks(&mut r, "L-shape (6 vertices, 5 on the hull)", &ell, 5);
    // round 4: consecutive repeated points
    repeated_point_checks(&mut r, "hexagon", &hexagon);
    repeated_point_checks(&mut r, "L-shape", &ell);
    repeated_point_checks(&mut r, "8-point star", &star);
    repeated_point_checks(&mut r, "triangle", &tri);
    repeated_point_checks(&mut r, "square", &square);
    repeated_point_checks(&mut r, "square with a dent", &dented);
    repeated_point_checks(&mut r, "convex pentagon", &pentagon);
    repeated_point_checks(&mut r, "three-pointed star", &tri_star);
    // mesh sampling
    sampling_checks(&mut r);
    // ball pivoting
    pivot_checks(&mut r);
    pivot_dense_checks(&mut r);
    wave5(&mut r);
    // LAST (so that these listed failures cannot crowd out others):
    // point sets on which kiddo 5.0.3 builds a leaf with more than 32 items (ties on the split axis push the pivot):
    // its nearest_n_within leaf code then reports the item ids of the first chunk for the items of the remainder.
    // Clauses evaluated on them carry the KIDDO tag so that this dependency defect is one separately listed finding.
    let g3 = cloud3(5, 4, 3, &[]);
    search_checks(&mut r, KIDDO, "5x4x3 grid", &g3, &queries3(&g3, 5, 4, 3));
    let g2 = cloud2(33, 3, &[]);
    search_checks(&mut r, KIDDO, "33x3 grid", &g2, &g2.clone());
    poisson_checks(&mut r, KIDDO, "5x4x3 grid", &g3);
    Some(r)
}

// ================================================================================================ WAVE 5
// parameter-space audit (notes/w5_audit_C15.md): sizes past 32 / 64 / 1000 / 4096 on clouds WITHOUT equal coordinates on
// any axis (so that the kiddo leaf defect cannot interfere), coordinates far from the origin and tiny / huge extents,
// k up to and past n, radius 0 / one ulp either side of a stored distance / huge, empty / single / duplicated / unsorted
// index lists, every BallPivotStart / BallPivotEnd variant, ball_pivot_2d, ball_pivot_fill_gaps_2d, Curve2::from_points_ccw.
fn rclose(a: f64, b: f64) -> bool { a == b || (a - b).abs() <= 1e-9 * a.abs().max(b.abs()) }
fn ulp_up(x: f64) -> f64 { f64::from_bits(x.to_bits() + 1) }
fn ulp_down(x: f64) -> f64 { f64::from_bits(x.to_bits() - 1) }
fn short(v: &[usize]) -> String { if v.len() <= 10 { format!("{:?}", v) } else { format!("{:?}.. ({} indices)", &v[..10], v.len()) } }

/// rank-1 lattice: point i = off + scale * (i, i*a mod n, i*b mod n); n prime, so on every axis all n coordinates are
/// DISTINCT (no two points share a coordinate: every kiddo leaf stays within its 32 items)
fn lattice<const D: usize>(n: usize, scale: f64, off: [f64; D]) -> Vec<Point<f64, D>> {
    let mult = [1usize, ((n as f64) * 0.6180339887) as usize, ((n as f64) * 0.4142135624) as usize];
    (0..n).map(|i| { let mut c = [0.0; D]; for k in 0..D { c[k] = off[k] + scale * (((i * mult[k]) % n) as f64); } Point::from(c) }).collect()
}
fn with_repeats<const D: usize>(p: &[Point<f64, D>]) -> Vec<Point<f64, D>> {
    let mut v = Vec::new();
    for (i, q) in p.iter().enumerate() { for _ in 0..(if i == 5 || i == p.len() - 1 { 2 } else if i == 20 { 3 } else { 1 }) { v.push(*q); } }
    v
}
fn max_axis_multiplicity<const D: usize>(pts: &[Point<f64, D>]) -> usize {
    let mut worst = 0;
    for k in 0..D {
        let mut v: Vec<u64> = pts.iter().map(|p| p[k].to_bits()).collect();
        v.sort();
        let mut run = 1;
        for w in 1..v.len() { if v[w] == v[w - 1] { run += 1; } else { worst = worst.max(run); run = 1; } }
        worst = worst.max(run);
    }
    worst
}

const W5: &str = "large / scaled / offset clouds: ";

/// `cand` may name an index more than once (then results are compared as multisets and "no index twice" is not demanded)
fn check_search_w5<const D: usize, T: KdTreeSearch<D>>(r: &mut Report, name: &str, tree: &T, all: &[Point<f64, D>], cand: &[usize], queries: &[Point<f64, D>], ks: &[usize], radii: &[f64]) {
    let cset: BTreeSet<usize> = cand.iter().copied().collect();
    let dup_free = cset.len() == cand.len();
    r.check(tree.len() == cand.len(), &format!("{}len() is the number of indexed points", W5), || format!("{}: len {} vs {}", name, tree.len(), cand.len()));
    r.check(tree.is_empty() == cand.is_empty(), &format!("{}is_empty() iff no point is indexed", W5), || format!("{}: is_empty {} for {} points", name, tree.is_empty(), cand.len()));
    for q in queries.iter() {
        r.case();
        let mut bf: Vec<(f64, usize)> = cand.iter().map(|&i| (d(&all[i], q), i)).collect();
        bf.sort_by(|a, b| a.partial_cmp(b).unwrap());
        if !cand.is_empty() {
            let Ok((i1, d1)) = catch_unwind(AssertUnwindSafe(|| tree.nearest_one(q))) else { r.check(false, &format!("{}the queries do not panic", W5), || format!("{}: nearest_one({})", name, show(q))); continue; };
            let dq = || format!("{}: nearest_one({}) = ({}, {:e}), brute force {:?}", name, show(q), i1, d1, bf[0]);
            r.check(cset.contains(&i1), &format!("{}nearest_one: the index is an original index of an indexed point", W5), dq);
            r.check(rclose(d1, bf[0].0), &format!("{}nearest_one: the distance is the brute-force minimum", W5), dq);
            r.check(i1 < all.len() && rclose(d(&all[i1], q), d1), &format!("{}nearest_one: the reported distance is the distance to the reported point", W5), dq);
        }
        for &k in ks.iter() {
            let Ok(res) = catch_unwind(AssertUnwindSafe(|| tree.nearest(q, NonZero::new(k).unwrap()))) else { r.check(false, &format!("{}the queries do not panic", W5), || format!("{}: nearest({}, {})", name, show(q), k)); continue; };
            let dk = || format!("{}: nearest({}, {}) = {} results, first {:?}", name, show(q), k, res.len(), &res[..res.len().min(6)]);
            let want = k.min(cand.len());
            r.check(res.len() == want, &format!("{}nearest(k): min(k, n) results", W5), dk);
            r.check(res.windows(2).all(|w| w[0].1 <= w[1].1), &format!("{}nearest(k): results are ordered nearest first", W5), dk);
            if dup_free { r.check(res.iter().map(|x| x.0).collect::<BTreeSet<_>>().len() == res.len(), &format!("{}nearest(k): no index twice", W5), dk); }
            r.check(res.iter().all(|x| cset.contains(&x.0)), &format!("{}nearest(k): indices are original indices of indexed points", W5), dk);
            r.check(res.iter().all(|x| x.0 < all.len() && rclose(d(&all[x.0], q), x.1)), &format!("{}nearest(k): each distance is the distance to the reported point", W5), dk);
            r.check(res.len() == want && res.iter().zip(bf.iter()).all(|(x, b)| rclose(x.1, b.0)), &format!("{}nearest(k): the distances are the k smallest brute-force distances", W5), dk);
        }
        for &rad in radii.iter() {
            let Ok(res) = catch_unwind(AssertUnwindSafe(|| tree.within(q, rad))) else { r.check(false, &format!("{}the queries do not panic", W5), || format!("{}: within({}, {:e})", name, show(q), rad)); continue; };
            let dw = || format!("{}: within({}, {:e}) = {} results, first {:?}", name, show(q), rad, res.len(), &res[..res.len().min(6)]);
            let mut got: Vec<usize> = res.iter().map(|x| x.0).collect();
            got.sort();
            if dup_free { r.check(got.windows(2).all(|w| w[0] != w[1]), &format!("{}within: no index twice", W5), dw); }
            r.check(res.iter().all(|x| x.0 < all.len() && cset.contains(&x.0) && rclose(d(&all[x.0], q), x.1)), &format!("{}within: each result is an indexed point with its distance", W5), dw);
            r.check(res.iter().all(|x| x.1 <= rad * (1.0 + 1e-12)), &format!("{}within: every result is within the radius", W5), dw);
            let on_boundary = bf.iter().any(|b| (b.0 - rad).abs() <= 1e-9 * rad);
            if !on_boundary {
                let mut want: Vec<usize> = bf.iter().filter(|b| b.0 <= rad).map(|b| b.1).collect();
                want.sort();
                r.check(got == want, &format!("{}within: exactly the points within the radius (brute force)", W5), || format!("{} expected {} results {}", dw(), want.len(), short(&want)));
            }
        }
    }
}

fn index_lists_w5(n: usize) -> Vec<(&'static str, Vec<usize>)> {
    let perm = |i: usize| (i * 7 + 3) % n; // n prime > 7
    vec![
        ("no index", vec![]),
        ("the identity list", (0..n).collect()),
        ("the first half in order", (0..n / 2).collect()),
        ("the second half in order", (n / 2..n).collect()),
        ("an unsorted strict subset", (0..n / 2).map(perm).collect()),
        ("an unsorted strict subset of the high indices", (0..n).map(perm).filter(|&i| i >= n - n / 3).collect()),
        ("two indices, descending", vec![n - 1, 1]),
        ("one index", vec![n - 2]),
        ("a list naming indices twice and three times", vec![n - 1, 4, 4, 2, n - 1, 4, n / 2]),
    ]
}

/// queries for a cloud: some data points, points between consecutive data points, points far outside
fn queries_w5<const D: usize>(pts: &[Point<f64, D>], unit: f64) -> Vec<Point<f64, D>> {
    let n = pts.len();
    let step = (n / 12).max(1);
    let mut q: Vec<Point<f64, D>> = (0..n).step_by(step).map(|i| pts[i]).collect();
    for i in (0..n - 1).step_by(step) { q.push(Point::from((pts[i].coords * 0.625 + pts[i + 1].coords * 0.375) + pts[0].coords * 0.0)); }
    let mut far = pts[0].coords;
    far[0] -= 3.7 * unit * n as f64;
    q.push(Point::from(far));
    let mut far2 = pts[n / 2].coords;
    far2[D - 1] += 1.0e6 * unit;
    q.push(Point::from(far2));
    q
}

fn search_family<const D: usize>(r: &mut Report, cname: &str, pts: &[Point<f64, D>], unit: f64) {
    let n = pts.len();
    r.check(max_axis_multiplicity(pts) <= 3, "input space: no two DIFFERENT points of the large / scaled clouds share a coordinate on any axis (a point is listed at most 3 times)", || format!("{}: {}", cname, max_axis_multiplicity(pts)));
    let sp = unit * (n as f64).powf(1.0 - 1.0 / D as f64); // typical spacing of n lattice points in a box of side n
    let queries = queries_w5(pts, unit);
    let ks = [1usize, 2, 5, 33, n - 1, n, n + 1, 2 * n + 7];
    let radii = [0.37 * sp, 0.81 * sp, 1.53 * sp, 2.57 * sp, 1.0e4 * sp * n as f64, 1.0e160];
    let all: Vec<usize> = (0..n).collect();
    check_search_w5(r, &format!("KdTree over {}", cname), &KdTree::new(pts), pts, &all, &queries, &ks, &radii);
    for (lname, list) in index_lists_w5(n) {
        // the full query set on the small clouds; on the large ones every third query keeps the cost down
        let qs: Vec<Point<f64, D>> = if n <= 200 { queries.clone() } else { queries.iter().step_by(3).copied().collect() };
        let m = list.len();
        let ks: Vec<usize> = [1usize, 2, 5, m.saturating_sub(1), m, m + 1, 2 * m + 7].iter().copied().filter(|&k| k > 0).collect();
        check_search_w5(r, &format!("PartialKdTree over {} / {} {}", cname, lname, short(&list)), &PartialKdTree::new(pts, &list), pts, &list, &qs, &ks, &radii);
    }
}

/// within(r) for r = a stored distance exactly (open ball: not reported), one ulp above it (reported), one ulp below
/// it (not reported) and r = 0.  The cloud has integer coordinates times a power of two, the query is a data point
/// plus `s` times an integer vector of integer length, so every squared distance is computed exactly.
fn ulp_checks<const D: usize>(r: &mut Report, cname: &str, pts: &[Point<f64, D>], s: f64, offsets: &[([f64; D], f64)], judge_ties: bool) {
    let n = pts.len();
    let lists: Vec<(&str, Vec<usize>)> = vec![("", (0..n).collect()), (" / PartialKdTree over an unsorted strict subset", (0..n).map(|i| (i * 7 + 3) % n).filter(|i| i % 3 != 1).collect())];
    let mut tied = 0usize;
    for (lname, list) in lists.iter() {
        let full = KdTree::new(pts);
        let part = PartialKdTree::new(pts, list);
        for &i in list.iter().step_by((list.len() / 16).max(1)) {
            for (v, len) in offsets.iter() {
                let mut c = pts[i].coords;
                for k in 0..D { c[k] += s * v[k]; }
                let q: Point<f64, D> = Point::from(c);
                let l = s * len;
                let d2: Vec<f64> = list.iter().map(|&j| (pts[j] - q).norm_squared()).collect();
                r.check(*len == 0.0 || d2.iter().any(|&x| x == l * l), "input space: the ulp inputs hold a point at exactly the stated distance from the query", || format!("{}: point {} + {:?} * {:e}", cname, i, v, s));
                let mut kinds: Vec<(&str, f64)> = if *len == 0.0 { vec![("0", 0.0)] } else { vec![("exactly a stored distance", l), ("one ulp above a stored distance", ulp_up(l)), ("one ulp below a stored distance", ulp_down(l))] };
                // kiddo answers a point EXACTLY on the radius differently on different leaf paths (props/C15.json, assumptions):
                // the exact tie is judged (open ball) only on the small clouds of wave 3
                if !judge_ties { kinds.retain(|k| k.0.starts_with("one ulp")); }
                for (kind, rad) in kinds {
                    r.case();
                    let res = if lname.is_empty() { full.within(&q, rad) } else { part.within(&q, rad) };
                    let mut got: Vec<usize> = res.iter().map(|x| x.0).collect();
                    got.sort();
                    let above = rad > l;
                    let mut want: Vec<usize> = list.iter().zip(d2.iter()).filter(|(_, &x)| x < l * l || (above && x == l * l)).map(|(&j, _)| j).collect();
                    want.sort();
                    tied += d2.iter().filter(|&&x| x == l * l).count();
                    let dw = || format!("KdTree over {}{}: within({}, {:e} = {}) = {:?}, expected {}", cname, lname, show(&q), rad, kind, &res[..res.len().min(8)], short(&want));
                    match kind {
                        "one ulp above a stored distance" => r.check(got == want, "within one ulp above a stored distance: the points at that distance are reported (brute force on exact squared distances)", dw),
                        "one ulp below a stored distance" => r.check(got == want, "within one ulp below a stored distance: the points at that distance are not reported (brute force on exact squared distances)", dw),
                        _ => r.check(got == want, "within at exact ties: agrees with brute force d < r", dw),
                    }
                    r.check(res.iter().all(|x| x.0 < n && d(&pts[x.0], &q) == x.1), "within at exact ties: each reported distance is the distance to the reported point", dw);
                }
            }
        }
    }
    r.check(tied > 0, "input space: the tie inputs contain points exactly on the radius", || format!("{}: no exact tie", cname));
}

// ------------------------------------------------------------------------------------------------ wave 5: Poisson disk
/// `exact`: integer (times a power of two) coordinates - distances that matter are exact, so the clauses are evaluated
/// with plain comparisons: separation is violated by two kept points STRICTLY closer than the radius, coverage is
/// satisfied by a kept point at distance <= radius (the two readings of "within the radius" that hold whichever way a
/// point exactly on the radius is treated).  Otherwise a relative slack of 1e-12 is used.
fn poisson_family<const D: usize>(r: &mut Report, cname: &str, pts: &[Point<f64, D>], lists: &[(String, Vec<usize>)], radii: &[(String, f64)], exact: bool) {
    let n = pts.len();
    let slack = if exact { 0.0 } else { 1e-12 };
    for (lname, work) in lists.iter() {
        for (rname, rad) in radii.iter() {
            r.case();
            let keep = match catch_unwind(AssertUnwindSafe(|| sample_poisson_disk(pts, work, *rad))) {
                Ok(k) => k,
                Err(_) => { r.check(false, "Poisson disk (large / scaled / offset clouds, all visiting orders): does not panic", || format!("sample_poisson_disk({}, working = {} {}, radius {:e} = {})", cname, lname, short(work), rad, rname)); continue; }
            };
            let dsc = || format!("sample_poisson_disk({}, working = {} {}, radius {:e} = {}) = {}", cname, lname, short(work), rad, rname, short(&keep));
            let wset: BTreeSet<usize> = work.iter().copied().collect();
            r.check(keep.iter().all(|i| wset.contains(i)), "Poisson disk (large / scaled / offset clouds, all visiting orders): the result is a subset of the working indices", dsc);
            r.check(keep.iter().collect::<BTreeSet<_>>().len() == keep.len(), "Poisson disk (large / scaled / offset clouds, all visiting orders): no index is kept twice", dsc);
            if keep.iter().any(|&k| k >= n) { continue; }
            let mut bad = None;
            'o: for a in 0..keep.len() { for b in a + 1..keep.len() {
                if d(&pts[keep[a]], &pts[keep[b]]) < rad * (1.0 - slack) { bad = Some((keep[a], keep[b])); break 'o; }
            } }
            r.check(bad.is_none(), "Poisson disk (large / scaled / offset clouds, all visiting orders): no two kept points are strictly closer than the radius", || format!("{}: kept {:?} are {:e} apart", dsc(), bad, bad.map(|x| d(&pts[x.0], &pts[x.1])).unwrap_or(0.0)));
            let unc = work.iter().find(|&&w| !keep.iter().any(|&k| d(&pts[w], &pts[k]) <= rad * (1.0 + slack)));
            r.check(unc.is_none(), "Poisson disk (large / scaled / offset clouds, all visiting orders): every working point is within the radius of a kept point", || format!("{}: working point {:?} has no kept point within the radius", dsc(), unc));
        }
    }
}
fn working_lists(n: usize) -> Vec<(String, Vec<usize>)> {
    let perm = |i: usize| (i * 7 + 3) % n;
    let mut inter = Vec::new();
    for i in 0..n / 2 { inter.push(i); inter.push(n - 1 - i); }
    if n % 2 == 1 { inter.push(n / 2); }
    vec![
        ("no index".to_string(), vec![]),
        ("one index".to_string(), vec![n / 3]),
        ("two indices".to_string(), vec![1, 0]),
        ("three indices, two of them the same point set apart".to_string(), vec![n - 1, 0, n / 2]),
        ("all in order".to_string(), (0..n).collect()),
        ("reversed".to_string(), (0..n).rev().collect()),
        ("interleaved from both ends".to_string(), inter),
        ("even indices then odd indices".to_string(), (0..n).step_by(2).chain((1..n).step_by(2)).collect()),
        ("permuted".to_string(), (0..n).map(perm).collect()),
        ("an unsorted strict subset".to_string(), (0..n).map(perm).filter(|i| i % 3 != 1).collect()),
        ("the high third, descending".to_string(), (n - n / 3..n).rev().collect()),
    ]
}
fn poisson_w5<const D: usize>(r: &mut Report, cname: &str, pts: &[Point<f64, D>], unit: f64, exact: bool) {
    let n = pts.len();
    r.check(max_axis_multiplicity(pts) <= 8, "input space: at most 8 points of a Poisson-disk cloud share a coordinate on an axis", || format!("{}: {}", cname, max_axis_multiplicity(pts)));
    // the smallest, one arbitrary and the largest pairwise distance (brute force)
    let mut dmin = f64::MAX;
    let mut dmax: f64 = 0.0;
    for a in 0..n { for b in a + 1..n { let x = d(&pts[a], &pts[b]); if x > 0.0 { dmin = dmin.min(x); } dmax = dmax.max(x); } }
    let dsome = d(&pts[0], &pts[n / 2]);
    let sp = unit * (n as f64).powf(1.0 - 1.0 / D as f64);
    let radii = vec![
        ("0".to_string(), 0.0),
        ("half the smallest spacing".to_string(), 0.5 * dmin),
        ("exactly the smallest pairwise distance".to_string(), dmin),
        ("one ulp above the smallest pairwise distance".to_string(), ulp_up(dmin)),
        ("0.81 typical spacings".to_string(), 0.81 * sp),
        ("2.57 typical spacings".to_string(), 2.57 * sp),
        ("exactly the distance between points 0 and n/2".to_string(), dsome),
        ("one ulp below the largest pairwise distance".to_string(), ulp_down(dmax)),
        ("exactly the largest pairwise distance".to_string(), dmax),
        ("twice the largest pairwise distance".to_string(), 2.0 * dmax),
        ("1e160".to_string(), 1.0e160),
    ];
    // radii that are a pairwise distance (or an ulp from it) are judged with the slack / strict forms only
    poisson_family(r, cname, pts, &working_lists(n), &radii, exact);
}

// ------------------------------------------------------------------------------------------------ wave 5: mesh sampling
/// scale-aware point-on-triangle test: within `tol` of the plane, barycentric coordinates >= -(tol / smallest altitude)
fn tri_contains_tol(a: &Point3, b: &Point3, c: &Point3, p: &Point3, labs: f64) -> bool {
    let n = (b - a).cross(&(c - a));
    let n2 = n.norm_squared();
    if n2 == 0.0 { return false; }
    let h = (b - a).norm().max((c - a).norm()).max((c - b).norm());
    let tol = 1e-9 * h + 64.0 * f64::EPSILON * labs;
    if ((p - a).dot(&n)).abs() > tol * n2.sqrt() { return false; }
    let tb = 1e-9 + tol * h / n2.sqrt();
    let wa = (b - p).cross(&(c - p)).dot(&n) / n2;
    let wb = (c - p).cross(&(a - p)).dot(&n) / n2;
    let wc = (a - p).cross(&(b - p)).dot(&n) / n2;
    wa >= -tb && wb >= -tb && wc >= -tb
}
/// per face: number of samples on it; clauses: on a face, carries that face's normal.  Faces are pairwise disjoint here.
fn check_samples_w5<F: Fn() -> String + Copy>(r: &mut Report, m: &Mesh, s: &[SurfacePoint3], what: &str, dsc: F) -> Vec<usize> {
    let nf = m.faces().len();
    let labs = m.vertices().iter().map(|v| v.coords.amax()).fold(0.0, f64::max);
    let tris: Vec<(Point3, Point3, Point3)> = (0..nf).map(|f| tri_of(m, f)).collect();
    let mut hits = vec![0usize; nf];
    let mut off = None;
    let mut wrong = None;
    for sp in s.iter() {
        match (0..nf).find(|&f| tri_contains_tol(&tris[f].0, &tris[f].1, &tris[f].2, &sp.point, labs)) {
            None => { if off.is_none() { off = Some(sp.point); } }
            Some(f) => {
                hits[f] += 1;
                let n = (tris[f].1 - tris[f].0).cross(&(tris[f].2 - tris[f].0)).normalize();
                if !((n - sp.normal.into_inner()).norm() < 1e-9) && wrong.is_none() { wrong = Some((f, sp.point, sp.normal.into_inner())); }
            }
        }
    }
    r.check(off.is_none(), &format!("{} (tiny / huge / sliver / far-from-origin faces of every orientation): every sample lies on a face of the mesh", what), || format!("{}: {} samples, offending sample {:?}", dsc(), s.len(), off.map(|p| [p.x, p.y, p.z])));
    r.check(wrong.is_none(), &format!("{} (tiny / huge / sliver / far-from-origin faces of every orientation): every sample carries the normal of the face it lies on", what), || format!("{}: offending (face, point, normal) {:?}", dsc(), wrong.map(|w| (w.0, [w.1.x, w.1.y, w.1.z], [w.2.x, w.2.y, w.2.z]))));
    hits
}
fn shape_triangles() -> Vec<(&'static str, [[f64; 3]; 3])> {
    let h = 3.0_f64.sqrt();
    vec![
        ("right angle at the first vertex", [[0.0, 0.0, 0.0], [4.0, 0.0, 0.0], [0.0, 3.0, 0.0]]),
        ("right angle at the second vertex", [[4.0, 0.0, 0.0], [0.0, 0.0, 0.0], [0.0, 3.0, 0.0]]),
        ("right angle at the third vertex", [[4.0, 0.0, 0.0], [0.0, 3.0, 0.0], [0.0, 0.0, 0.0]]),
        ("obtuse at the first vertex", [[0.0, 0.0, 0.0], [4.0, 0.0, 0.0], [-2.0, 1.0, 0.0]]),
        ("obtuse at the second vertex", [[-2.0, 1.0, 0.0], [0.0, 0.0, 0.0], [4.0, 0.0, 0.0]]),
        ("obtuse at the third vertex", [[4.0, 0.0, 0.0], [-2.0, 1.0, 0.0], [0.0, 0.0, 0.0]]),
        ("equilateral", [[0.0, 0.0, 0.0], [2.0, 0.0, 0.0], [1.0, h, 0.0]]),
        ("sharp at the first vertex", [[0.0, 0.0, 0.0], [9.0, 1.0, 0.0], [9.0, -1.0, 0.0]]),
        ("sharp at the second vertex", [[9.0, -1.0, 0.0], [0.0, 0.0, 0.0], [9.0, 1.0, 0.0]]),
        ("sharp at the third vertex", [[9.0, 1.0, 0.0], [9.0, -1.0, 0.0], [0.0, 0.0, 0.0]]),
        ("sliver 100 x 0.01 (with a normal)", [[0.0, 0.0, 0.0], [100.0, 0.0, 0.0], [50.0, 0.01, 0.0]]),
        ("needle 0.01 x 100", [[0.0, 0.0, 0.0], [0.01, 0.0, 0.0], [0.0, 100.0, 0.0]]),
        ("scalene", [[0.1, 0.2, 0.0], [7.3, 1.1, 0.0], [1.4, 6.2, 0.0]]),
    ]
}
/// one mesh of pairwise disjoint triangles, triangle k rotated by 0.7 k rad about (1, 2, 3) and moved to z = 250 k,
/// then everything scaled by `s` and moved by `o`
fn shapes_mesh(tris: &[[[f64; 3]; 3]], s: f64, o: f64) -> Mesh {
    let axis = parry3d_f64::na::Unit::new_normalize(Vector3::new(1.0, 2.0, 3.0));
    let mut v = Vec::new();
    let mut f = Vec::new();
    for (k, t) in tris.iter().enumerate() {
        let rot = parry3d_f64::na::Rotation3::from_axis_angle(&axis, 0.7 * k as f64 + 0.3);
        for c in t.iter() {
            let p = rot * Vector3::new(c[0], c[1], c[2]) + Vector3::new(0.0, 0.0, 250.0 * k as f64);
            v.push(Point3::from(p * s + Vector3::new(o, -2.0 * o, 0.5 * o)));
        }
        f.push([3 * k as u32, 3 * k as u32 + 1, 3 * k as u32 + 2]);
    }
    Mesh::new(v, f, false)
}
fn proportion_check(r: &mut Report, m: &Mesh, hits: &[usize], n: usize, dsc: &dyn Fn() -> String) {
    let nf = m.faces().len();
    let areas: Vec<f64> = (0..nf).map(|f| { let (a, b, c) = tri_of(m, f); tri_area(&a, &b, &c) }).collect();
    let total: f64 = areas.iter().sum();
    for f in 0..nf {
        let p = areas[f] / total;
        let dev = (hits[f] as f64 - p * n as f64).abs();
        // 8 standard deviations + 8 (the additive term covers the Poisson tail of faces with a tiny expected count):
        // a fair sampler fails this with probability < 1e-13 per face
        r.check(dev <= 8.0 * (n as f64 * p * (1.0 - p)).sqrt() + 8.0, "sample_uniform hits faces in proportion to their area (8 sigma + 8; very unequal areas, tiny / huge / far meshes)", || format!("{}: face {} (area {:e}, share {:e}, expected {:.1}) was hit {} times", dsc(), f, areas[f], p, p * n as f64, hits[f]));
    }
}
fn sampling_w5(r: &mut Report) {
    let shapes = shape_triangles();
    let tris: Vec<[[f64; 3]; 3]> = shapes.iter().map(|s| s.1).collect();
    let mut anchors = BTreeSet::new();
    for (vi, (s, o)) in [(1.0, 0.0), (1.0e-6, 0.0), (1.0e4, 0.0), (1.0, 1.0e6), (1.0e-3, 1.0e3), (1.0, -1.0e5)].iter().enumerate() {
        let m = shapes_mesh(&tris, *s, *o);
        let mname = format!("{} disjoint triangles of every shape and orientation (right / obtuse / sharp angle at each vertex, equilateral, sliver, needle, scalene), scaled by {:e}, moved by {:e}", tris.len(), s, o);
        let spacings: &[f64] = if vi == 0 { &[0.45, 0.8, 1.7, 4.0, 30.0, 500.0] } else { &[0.8, 4.0, 30.0] };
        for sp in spacings.iter() {
            r.case();
            let dd = || format!("{}: sample_dense({:e})", mname, sp * s);
            match catch_unwind(AssertUnwindSafe(|| m.sample_dense(sp * s))) {
                Err(_) => r.check(false, "sample_dense (tiny / huge / sliver / far-from-origin faces of every orientation): does not panic", dd),
                Ok(smp) => {
                    let hits = check_samples_w5(r, &m, &smp, "sample_dense", dd);
                    // which corner the lattice of a face starts on (the corner itself is its first sample)
                    let labs = m.vertices().iter().map(|v| v.coords.amax()).fold(0.0, f64::max);
                    for f in 0..m.faces().len() { if hits[f] > 1 {
                        let t = tri_of(&m, f);
                        for (c, corner) in [t.0, t.1, t.2].iter().enumerate() { if smp.iter().any(|x| (x.point - corner).norm() <= 64.0 * f64::EPSILON * labs) { anchors.insert(c); } }
                    } }
                }
            }
        }
        // uniform
        let n = 20001usize;
        r.case();
        let du = || format!("{}: sample_uniform({})", mname, n);
        match catch_unwind(AssertUnwindSafe(|| m.sample_uniform(n))) {
            Err(_) => r.check(false, "sample_uniform (tiny / huge / sliver / far-from-origin faces of every orientation): does not panic", du),
            Ok(smp) => {
                r.check(smp.len() == n, "sample_uniform returns n samples", du);
                let hits = check_samples_w5(r, &m, &smp, "sample_uniform", du);
                if hits.iter().sum::<usize>() == n { proportion_check(r, &m, &hits, n, &du); }
            }
        }
        for n in [0usize, 1, 2] {
            r.case();
            let du = || format!("{}: sample_uniform({})", mname, n);
            match catch_unwind(AssertUnwindSafe(|| m.sample_uniform(n))) {
                Err(_) => r.check(false, "sample_uniform (tiny / huge / sliver / far-from-origin faces of every orientation): does not panic", du),
                Ok(smp) => { r.check(smp.len() == n, "sample_uniform returns n samples", du); check_samples_w5(r, &m, &smp, "sample_uniform", du); }
            }
        }
        // Poisson: separation and coverage over the dense candidates (which share no coordinates: rotated faces)
        for rad in [0.9, 3.0, 50.0, 5000.0] {
            r.case();
            let dp = || format!("{}: sample_poisson({:e})", mname, rad * s);
            match catch_unwind(AssertUnwindSafe(|| (m.sample_poisson(rad * s), m.sample_dense(rad * s * 0.5)))) {
                Err(_) => r.check(false, "sample_poisson (tiny / huge / sliver / far-from-origin faces of every orientation): does not panic", dp),
                Ok((smp, dense)) => {
                    check_samples_w5(r, &m, &smp, "sample_poisson", dp);
                    let cand: Vec<Point3> = dense.iter().map(|x| x.point).collect();
                    let mult = max_axis_multiplicity(&cand);
                    // more than 32 candidates sharing a coordinate: the known kiddo leaf defect applies, the clause carries its tag
                    let tag = if mult > 32 { KIDDO } else { "" };
                    let rr = rad * s;
                    let mut bad = None;
                    'o: for a in 0..smp.len() { for b in a + 1..smp.len() { if d(&smp[a].point, &smp[b].point) < rr * (1.0 - 1e-12) { bad = Some((a, b)); break 'o; } } }
                    r.check(bad.is_none(), &format!("{}sample_poisson (rotated disjoint faces): no two samples are strictly closer than the radius", tag), || format!("{}: {} samples, samples {:?} are {:e} apart", dp(), smp.len(), bad, bad.map(|x| d(&smp[x.0].point, &smp[x.1].point)).unwrap_or(0.0)));
                    let unc = cand.iter().find(|q| !smp.iter().any(|k| d(q, &k.point) <= rr * (1.0 + 1e-12)));
                    r.check(unc.is_none(), &format!("{}sample_poisson (rotated disjoint faces): every dense candidate is within the radius of a kept sample", tag), || format!("{}: {} samples, candidate {:?}", dp(), smp.len(), unc.map(|p| [p.x, p.y, p.z])));
                    r.check(smp.iter().all(|k| cand.iter().any(|q| *q == k.point)), "sample_poisson (rotated disjoint faces): every sample is one of the dense candidates", dp);
                }
            }
        }
    }
    // on the unchanged tree the lattices start on the first, the second and the third corner of some face (all three
    // branches of sample_dense are taken); not a clause: a lattice that leaves the corner out is still on the face
    let _ = anchors;
    // very unequal face areas: legs 30, 1e-3, 1, 10 (area shares 0.899, 1e-9, 1e-3, 0.0999), each face in its own orientation
    let legs = [30.0, 1.0e-3, 1.0, 10.0];
    let uneq: Vec<[[f64; 3]; 3]> = legs.iter().map(|&l| [[0.0, 0.0, 0.0], [l, 0.0, 0.0], [0.0, l, 0.0]]).collect();
    for (s, o) in [(1.0, 0.0), (1.0e-6, 0.0), (1.0, 1.0e6)] {
        let m = shapes_mesh(&uneq, s, o);
        let n = 200000usize;
        r.case();
        let du = || format!("right triangles with legs 30, 1e-3, 1, 10 (in this face order, each rotated), scaled by {:e}, moved by {:e}: sample_uniform({})", s, o, n);
        match catch_unwind(AssertUnwindSafe(|| m.sample_uniform(n))) {
            Err(_) => r.check(false, "sample_uniform (tiny / huge / sliver / far-from-origin faces of every orientation): does not panic", du),
            Ok(smp) => {
                r.check(smp.len() == n, "sample_uniform returns n samples", du);
                let hits = check_samples_w5(r, &m, &smp, "sample_uniform", du);
                if hits.iter().sum::<usize>() == n { proportion_check(r, &m, &hits, n, &du); }
            }
        }
    }
}

// ------------------------------------------------------------------------------------------------ wave 5: hulls
/// shoelace area with coordinates taken relative to the first point (exact for integer outlines far from the origin)
fn signed_area_rel(p: &[Point2]) -> f64 {
    let o = p[0];
    (0..p.len()).map(|i| { let a = p[i] - o; let b = p[(i + 1) % p.len()] - o; a.x * b.y - b.x * a.y }).sum::<f64>() * 0.5
}
fn xf(p: &[Point2], s: f64, ox: f64, oy: f64) -> Vec<Point2> { p.iter().map(|q| Point2::new(q.x * s + ox, q.y * s + oy)).collect() }
const HW5: &str = " (far / tiny / large / collinear point sets)";
/// `ext`: extent of the point set (tolerances scale with it)
fn hull_checks_w5(r: &mut Report, name: &str, pts: &[Point2], ext: f64) {
    r.case();
    let hull = match catch_unwind(AssertUnwindSafe(|| convex_hull_2d(pts))) { Ok(h) => h, Err(_) => { r.check(false, &format!("convex hull{}: does not panic", HW5), || name.to_string()); return; } };
    let dsc = || format!("convex_hull_2d({}: {} points, first {:?}) = {}", name, pts.len(), pts.iter().take(6).map(|p| (p.x, p.y)).collect::<Vec<_>>(), short(&hull));
    r.check(hull.iter().all(|&i| i < pts.len()) && hull.iter().collect::<BTreeSet<_>>().len() == hull.len(), &format!("convex hull{}: distinct indices of input points", HW5), dsc);
    if hull.iter().any(|&i| i >= pts.len()) || hull.is_empty() { return; }
    let tol = 1e-9 * ext * ext;
    let collinear = pts.iter().all(|p| cross2(&pts[0], &pts[pts.len() - 1], p).abs() <= tol) && pts.iter().all(|p| cross2(&pts[0], &pts[1], p).abs() <= tol);
    let hp: Vec<Point2> = hull.iter().map(|&i| pts[i]).collect();
    let h = hp.len();
    if collinear {
        // a segment: every input point lies between the reported end points
        let (a, b) = (hp[0], hp[h - 1]);
        r.check(h >= 2 && pts.iter().all(|p| (p - a).dot(&(b - a)) >= -tol && (p - b).dot(&(a - b)) >= -tol), &format!("convex hull{}: every input point is inside or on the hull", HW5), dsc);
        return;
    }
    r.check(h >= 3, &format!("convex hull{}: at least 3 hull points for a point set that is not collinear", HW5), dsc);
    if h < 3 { return; }
    r.check(signed_area_rel(&hp) > 0.0, &format!("convex hull{}: the indices run counter-clockwise (positive signed area)", HW5), dsc);
    r.check((0..h).all(|i| cross2(&hp[i], &hp[(i + 1) % h], &hp[(i + 2) % h]) >= -tol), &format!("convex hull{}: every turn is a left turn", HW5), dsc);
    let out = pts.iter().position(|p| (0..h).any(|i| cross2(&hp[i], &hp[(i + 1) % h], p) < -tol));
    r.check(out.is_none(), &format!("convex hull{}: every input point is inside or on the hull", HW5), || format!("{}: point {:?} is outside", dsc(), out));
}

/// farthest_pair_indices on a convex counter-clockwise polygon given vertex by vertex, for every start vertex
fn farthest_checks(r: &mut Report, name: &str, poly: &[Point2]) {
    let n = poly.len();
    let ext = poly.iter().map(|p| d(p, &poly[0])).fold(0.0, f64::max);
    r.check((0..n).all(|i| cross2(&poly[i], &poly[(i + 1) % n], &poly[(i + 2) % n]) > 1e-9 * ext * ext), "input space: the farthest-pair polygons are strictly convex and counter-clockwise", || format!("{}", name));
    let rots: Vec<usize> = if n <= 70 { (0..n).collect() } else { vec![0, 1, n / 7, n / 3, n / 2, n - 1] };
    for rot in rots {
        r.case();
        let p: Vec<Point2> = (0..n).map(|k| poly[(k + rot) % n]).collect();
        let Some(cp) = ConvexPolygon::from_convex_polyline(p.clone()) else { r.check(false, "input space: parry accepts the farthest-pair polygon", || format!("{} started at vertex {}", name, rot)); continue; };
        let pp = cp.points();
        let (a, b) = farthest_pair_indices(&cp);
        let dfp = || format!("farthest_pair_indices({} started at vertex {}: {} vertices, first {:?}) = ({}, {})", name, rot, pp.len(), pp.iter().take(6).map(|q| (q.x, q.y)).collect::<Vec<_>>(), a, b);
        r.check(a < pp.len() && b < pp.len() && a != b, "farthest pair (every start vertex; wedges, parallel edges, ties, thin, large, far, tiny): two different indices of hull points", dfp);
        if a >= pp.len() || b >= pp.len() { continue; }
        let mut diam: f64 = 0.0;
        for i in 0..pp.len() { for j in i + 1..pp.len() { diam = diam.max(d(&pp[i], &pp[j])); } }
        r.check(rclose(d(&pp[a], &pp[b]), diam), "farthest pair (every start vertex; wedges, parallel edges, ties, thin, large, far, tiny): the distance is the brute-force diameter of the hull", || format!("{}: {:e} vs diameter {:e}", dfp(), d(&pp[a], &pp[b]), diam));
    }
}
fn on_ellipse(n: usize, a: f64, b: f64, wobble: f64) -> Vec<Point2> {
    (0..n).map(|k| { let t = (k as f64 + wobble * (k as f64 * 2.4).sin()) / n as f64 * std::f64::consts::TAU; Point2::new(a * t.cos(), b * t.sin()) }).collect()
}

/// point_order_direction and Curve2::from_points_ccw against the signed area
fn direction_checks_w5(r: &mut Report, name: &str, poly: &[Point2], rots: &[usize], with_curve: bool) {
    let n = poly.len();
    for rev in [false, true] { for &rot in rots.iter() {
        r.case();
        let mut p: Vec<Point2> = (0..n).map(|k| poly[(k + rot) % n]).collect();
        if rev { p.reverse(); }
        let area = signed_area_rel(&p);
        let dsc = || format!("{} started at vertex {}{}: {} points, first {:?}, signed area {:e}", name, rot, if rev { ", reversed" } else { "" }, n, p.iter().take(5).map(|q| (q.x, q.y)).collect::<Vec<_>>(), area);
        let got = point_order_direction(&p);
        r.check(matches!(got, AngleDir::Ccw) == (area > 0.0), "point_order_direction matches the sign of the signed area (far / tiny / huge outlines, 1000 and 70000 points, every orientation)", || format!("{}: got {:?}", dsc(), got));
        if with_curve {
            let ext = p.iter().map(|q| d(q, &p[0])).fold(0.0, f64::max);
            for force_closed in [false, true] { for tol in [1e-9 * ext, 0.01 * ext] {
                match crate::Curve2::from_points_ccw(&p, tol, force_closed) {
                    Err(_) => r.check(false, "Curve2::from_points_ccw builds a curve from a simple outline", || format!("{} tol {:e} force_closed {}", dsc(), tol, force_closed)),
                    Ok(c) => {
                        let a2 = signed_area_rel(c.points());
                        r.check(a2 > 0.0, "Curve2::from_points_ccw: the curve runs counter-clockwise (positive signed area) whichever way the points were given", || format!("{} tol {:e} force_closed {}: signed area of the curve {:e}", dsc(), tol, force_closed, a2));
                    }
                }
            } }
        }
    } }
}

fn hulls_w5(r: &mut Report) {
    // convex_hull_2d: far offsets, tiny / huge extents, large sets (tie-free and gridded), collinear sets
    let scattered: Vec<Point2> = (0..17).map(|i| Point2::new(((i * 7) % 11) as f64, ((i * 5) % 13) as f64)).collect();
    let mut with_dups = scattered.clone();
    with_dups.extend([scattered[0], scattered[5], Point2::new(10.0, 12.0), Point2::new(10.0, 12.0)]);
    let p20 = (2.0_f64).powi(-20);
    let base: Vec<(&str, Vec<Point2>, f64)> = vec![
        ("3x3 grid", cloud2(3, 3, &[]), 3.0),
        ("7x7 grid + duplicates", cloud2(7, 7, &[0, 10, 24, 48]), 7.0),
        ("40x40 grid", cloud2(40, 40, &[]), 40.0),
        ("scattered integer points with duplicates", with_dups, 13.0),
        ("1009-point lattice", lattice::<2>(1009, 1.0, [0.0, 0.0]), 1009.0),
        ("1000 points on an ellipse 10 x 3", on_ellipse(1000, 10.0, 3.0, 0.3), 20.0),
        ("5 collinear points on a diagonal, unsorted", vec![Point2::new(0.0, 0.0), Point2::new(3.0, 3.0), Point2::new(1.0, 1.0), Point2::new(4.0, 4.0), Point2::new(2.0, 2.0)], 6.0),
        ("3 collinear points", vec![Point2::new(0.0, 0.0), Point2::new(1.0, 0.0), Point2::new(2.0, 0.0)], 2.0),
        ("2 points", vec![Point2::new(0.0, 1.0), Point2::new(1.0, 0.0)], 2.0),
        ("3 points, clockwise", vec![Point2::new(0.0, 0.0), Point2::new(0.0, 2.0), Point2::new(3.0, 0.0)], 3.0),
        ("a square with the centre and edge midpoints", vec![Point2::new(0.0, 0.0), Point2::new(1.0, 0.0), Point2::new(2.0, 0.0), Point2::new(2.0, 1.0), Point2::new(2.0, 2.0), Point2::new(1.0, 2.0), Point2::new(0.0, 2.0), Point2::new(0.0, 1.0), Point2::new(1.0, 1.0)], 2.0),
    ];
    for (name, pts, ext) in base.iter() {
        for (s, ox, oy) in [(1.0, 0.0, 0.0), (1.0, 1.0e6, -3.0e6), (1.0, 1.0e8, 1.0e8), (p20, 0.0, 0.0), (1.0e-6, 0.0, 0.0), (1.0e4, 0.0, 0.0), (p20, 1.0, 1.0)] {
            hull_checks_w5(r, &format!("{} scaled by {:e}, moved by ({:e}, {:e})", name, s, ox, oy), &xf(pts, s, ox, oy), ext * s);
        }
    }
    // farthest pair
    let polys: Vec<(&str, Vec<Point2>)> = vec![
        ("wedge with a blunt nose (distances from the tail go up, down, up)", vec![Point2::new(0.0, 0.0), Point2::new(10.0, -3.0), Point2::new(10.2, 0.0), Point2::new(10.0, 4.0), Point2::new(5.0, 5.0)]),
        ("long wedge with a blunt nose", vec![Point2::new(0.0, 0.0), Point2::new(100.0, -1.0), Point2::new(100.05, 0.0), Point2::new(100.0, 2.0), Point2::new(40.0, 3.0)]),
        ("two blunt noses", vec![Point2::new(-10.2, 0.0), Point2::new(-10.0, -3.5), Point2::new(10.0, -3.0), Point2::new(10.2, 0.0), Point2::new(10.0, 4.0), Point2::new(-10.0, 3.0)]),
        ("acute triangle", vec![Point2::new(0.0, 0.0), Point2::new(4.0, 0.0), Point2::new(1.0, 3.0)]),
        ("obtuse triangle", vec![Point2::new(0.0, 0.0), Point2::new(10.0, 0.0), Point2::new(4.0, 1.0)]),
        ("thin triangle", vec![Point2::new(0.0, 0.0), Point2::new(100.0, 0.5), Point2::new(50.0, 0.75)]),
        ("square (two equal diagonals)", vec![Point2::new(0.0, 0.0), Point2::new(4.0, 0.0), Point2::new(4.0, 4.0), Point2::new(0.0, 4.0)]),
        ("thin rectangle", vec![Point2::new(0.0, 0.0), Point2::new(50.0, 0.0), Point2::new(50.0, 0.25), Point2::new(0.0, 0.25)]),
        ("rhombus", vec![Point2::new(0.0, -1.0), Point2::new(6.0, 0.0), Point2::new(0.0, 1.0), Point2::new(-6.0, 0.0)]),
        ("trapezoid", vec![Point2::new(0.0, 0.0), Point2::new(10.0, 0.0), Point2::new(7.0, 2.0), Point2::new(1.0, 2.0)]),
        ("kite", vec![Point2::new(0.0, 0.0), Point2::new(2.0, -1.0), Point2::new(9.0, 0.0), Point2::new(2.0, 1.0)]),
        ("7 points on an ellipse 10 x 3", on_ellipse(7, 10.0, 3.0, 0.3)),
        ("64 points on a circle", on_ellipse(64, 10.0, 10.0, 0.0)),
        ("65 points on an ellipse 3 x 10, unevenly spaced", on_ellipse(65, 3.0, 10.0, 0.4)),
        ("half disc of 40 points", (0..40).map(|k| { let t = k as f64 / 39.0 * std::f64::consts::PI; Point2::new(10.0 * t.cos(), 10.0 * t.sin()) }).collect()),
        ("1000 points on an ellipse 10 x 9.9", on_ellipse(1000, 10.0, 9.9, 0.3)),
    ];
    for (name, poly) in polys.iter() {
        for (s, ox, oy) in [(1.0, 0.0, 0.0), (1.0, 1.0e6, -3.0e6), (p20, 0.0, 0.0), (1.0e4, 0.0, 0.0)] {
            if poly.len() > 100 && s != 1.0 { continue; }
            farthest_checks(r, &format!("{} scaled by {:e}, moved by ({:e}, {:e})", name, s, ox, oy), &xf(poly, s, ox, oy));
        }
    }
    // order direction / from_points_ccw
    let hexagon = vec![Point2::new(2.0, 0.0), Point2::new(4.0, 1.0), Point2::new(4.0, 3.0), Point2::new(2.0, 4.0), Point2::new(0.0, 3.0), Point2::new(0.0, 1.0)];
    let ell = vec![Point2::new(0.0, 0.0), Point2::new(4.0, 0.0), Point2::new(4.0, 1.0), Point2::new(1.0, 1.0), Point2::new(1.0, 4.0), Point2::new(0.0, 4.0)];
    let star = vec![Point2::new(0.0, 0.0), Point2::new(3.0, 1.0), Point2::new(6.0, 0.0), Point2::new(5.0, 3.0), Point2::new(6.0, 6.0), Point2::new(3.0, 5.0), Point2::new(0.0, 6.0), Point2::new(1.0, 3.0)];
    let tri = vec![Point2::new(0.0, 0.0), Point2::new(4.0, 0.0), Point2::new(0.0, 3.0)];
    let tri_star = vec![Point2::new(0.0, 0.0), Point2::new(4.0, 1.0), Point2::new(8.0, 0.0), Point2::new(5.0, 3.0), Point2::new(4.0, 8.0), Point2::new(3.0, 3.0)];
    let gear = |n: usize| -> Vec<Point2> { (0..n).map(|k| { let t = k as f64 / n as f64 * std::f64::consts::TAU; let rr = if k % 2 == 0 { 10.0 } else { 9.5 }; Point2::new(rr * t.cos(), 0.7 * rr * t.sin()) }).collect() };
    let c_arc: Vec<Point2> = (0..30).map(|k| { let t = 0.4 + k as f64 / 29.0 * 4.7; Point2::new(5.0 * t.cos(), 5.0 * t.sin()) }).collect();
    let small: Vec<(&str, Vec<Point2>)> = vec![("hexagon", hexagon), ("L-shape", ell), ("8-point star", star), ("triangle", tri), ("three-pointed star", tri_star), ("gear of 24 points", gear(24)), ("open three-quarter arc of 30 points", c_arc)];
    for (name, poly) in small.iter() {
        let all_rots: Vec<usize> = (0..poly.len()).collect();
        let rots: &[usize] = if name.starts_with("open") { &[0] } else { &all_rots };
        for (s, ox, oy) in [(1.0, 0.0, 0.0), (1.0, 1.0e6, -3.0e6), (1.0, 1.0e8, 1.0e8), (p20, 0.0, 0.0), (1.0e-6, 0.0, 0.0), (1.0e4, 0.0, 0.0)] {
            direction_checks_w5(r, &format!("{} scaled by {:e}, moved by ({:e}, {:e})", name, s, ox, oy), &xf(poly, s, ox, oy), rots, true);
        }
    }
    direction_checks_w5(r, "gear of 1000 points", &gear(1000), &[0, 1, 333, 999], true);
    direction_checks_w5(r, "1000 points on an ellipse 10 x 3", &on_ellipse(1000, 10.0, 3.0, 0.3), &[0, 500], true);
    direction_checks_w5(r, "gear of 70000 points", &gear(70000), &[0, 12345], false);
    direction_checks_w5(r, "70000 points on an ellipse 10 x 3", &on_ellipse(70000, 10.0, 3.0, 0.0), &[1], false);
}

// ------------------------------------------------------------------------------------------------ wave 5: ball pivoting
const PW5: &str = "ball pivot (every start / end variant, both directions, open chains, non-convex and uneven outlines, far / tiny / huge)";
fn start_name(s: &BallPivotStart) -> String { match s { BallPivotStart::StartOnIndex(i) => format!("StartOnIndex({})", i), BallPivotStart::StartOnIndexDir(i, v) => format!("StartOnIndexDir({}, ({:e}, {:e}))", i, v.x, v.y), BallPivotStart::StartOnConvex => "StartOnConvex".to_string() } }
fn end_name(e: &BallPivotEnd) -> String { match e { BallPivotEnd::EndOnIndex(i) => format!("EndOnIndex({})", i), BallPivotEnd::EndOnRepeat => "EndOnRepeat".to_string() } }
/// the step clauses of the statement; returns false when the result is malformed
fn pivot_step_checks(r: &mut Report, tag: &str, pts: &[Point2], idx: &[usize], centers: &[Point2], rad: f64, dsc: &dyn Fn() -> String) -> bool {
    let labs = pts.iter().map(|p| p.coords.amax()).fold(0.0, f64::max);
    let tol = 1e-9 * rad + 64.0 * f64::EPSILON * labs;
    let ok = centers.len() + 1 == idx.len() && idx.iter().all(|&i| i < pts.len());
    r.check(ok, &format!("{}{}: one centre per pair of consecutive hull indices", tag, PW5), || format!("{} -> {} indices, {} centres", dsc(), idx.len(), centers.len()));
    if !ok { return false; }
    for (k, c) in centers.iter().enumerate() {
        let d0 = d(&pts[idx[k]], c);
        let d1 = d(&pts[idx[k + 1]], c);
        r.check((d0 - rad).abs() <= tol && (d1 - rad).abs() <= tol, &format!("{}{}: the centre is exactly one radius from the two consecutive hull points", tag, PW5), || format!("{} step {} ({} -> {}): distances {:e} and {:e}", dsc(), k, idx[k], idx[k + 1], d0, d1));
        let inside: Vec<(usize, f64)> = pts.iter().enumerate().map(|(j, q)| (j, d(q, c))).filter(|x| !(x.1 >= rad - tol)).collect();
        r.check(inside.is_empty(), &format!("{}{}: no input point strictly inside the ball", tag, PW5), || format!("{} step {} ({} -> {}), centre ({:e}, {:e}): points (index, distance from the centre) {:?}", dsc(), k, idx[k], idx[k + 1], c.x, c.y, &inside[..inside.len().min(4)]));
    }
    true
}
/// for a bare index list (ball_pivot_2d): between consecutive hull points there IS a ball of the radius through both with no
/// input point strictly inside (one of the two circles through both points)
fn pivot_pair_checks(r: &mut Report, tag: &str, pts: &[Point2], idx: &[usize], rad: f64, dsc: &dyn Fn() -> String) {
    let labs = pts.iter().map(|p| p.coords.amax()).fold(0.0, f64::max);
    let tol = 1e-9 * rad + 64.0 * f64::EPSILON * labs;
    for w in idx.windows(2) {
        if w[0] >= pts.len() || w[1] >= pts.len() { r.check(false, &format!("{}ball_pivot_2d: indices of input points", tag), dsc); return; }
        let (a, b) = (pts[w[0]], pts[w[1]]);
        let half = d(&a, &b) * 0.5;
        let mut ok = false;
        if half > 0.0 && half <= rad {
            let mid = Point2::from((a.coords + b.coords) * 0.5);
            let t = (b - a) / (2.0 * half);
            let nrm = Vector2::new(-t.y, t.x);
            let h = (rad * rad - half * half).max(0.0).sqrt();
            for c in [mid + nrm * h, mid - nrm * h] { if pts.iter().all(|q| d(q, &c) >= rad - tol.max(1e-7 * rad)) { ok = true; } }
        }
        r.check(ok, &format!("{}ball_pivot_2d: between consecutive hull points there is a ball of the radius through both with no input point strictly inside", tag), || format!("{}: step {} -> {}", dsc(), w[0], w[1]));
    }
}
fn angle_between(a: &Vector2, b: &Vector2) -> f64 { (a.x * b.y - a.y * b.x).atan2(a.dot(b)).abs() }

/// every start / end / direction combination on one point set.  `tag` is prepended to every clause name evaluated here.
/// A StartOnIndexDir whose ball position is not free (an input point strictly inside) is outside the precondition: skipped.
fn pivot_family(r: &mut Report, tag: &str, name: &str, pts: &[Point2], rad: f64, starts: &[BallPivotStart], ends: &[BallPivotEnd], spacings: &[f64], expect_steps: usize) {
    let pw5 = format!("{}{}", tag, PW5);
    let starts: Vec<BallPivotStart> = starts.iter().copied().filter(|s| match s {
        BallPivotStart::StartOnIndexDir(i, v) => { let c = pts[*i] + v.normalize() * rad; pts.iter().all(|q| d(q, &c) >= rad * (1.0 - 1e-9)) }
        _ => true,
    }).collect();
    for start in starts.iter() { for end in ends.iter() { for dir in [AngleDir::Ccw, AngleDir::Cw] {
        r.case();
        let dsc = || format!("ball_pivot_with_centers_2d({}: {} points, {}, {}, {:?}, radius {:e})", name, pts.len(), start_name(start), end_name(end), dir, rad);
        let res = match catch_unwind(AssertUnwindSafe(|| ball_pivot_with_centers_2d(pts, *start, *end, dir, rad))) {
            Err(_) => { r.check(false, &format!("{}: does not panic", pw5), dsc); continue; }
            Ok(Err(e)) => { r.check(false, &format!("{}: completes on an outline whose gaps are narrower than the ball", pw5), || format!("{}: {}", dsc(), e)); continue; }
            Ok(Ok(x)) => x,
        };
        let (idx, centers) = res;
        if !pivot_step_checks(r, tag, pts, &idx, &centers, rad, &dsc) { continue; }
        r.check(centers.len() >= if matches!(end, BallPivotEnd::EndOnRepeat) { expect_steps } else { 1 }, &format!("{}: completes on an outline whose gaps are narrower than the ball", pw5), || format!("{} -> only {} steps {}", dsc(), centers.len(), short(&idx)));
        if let BallPivotEnd::EndOnIndex(j) = end { r.check(idx.last() == Some(j), &format!("{}: reaches the end index on an outline whose gaps are narrower than the ball", pw5), || format!("{} -> {} steps {}", dsc(), centers.len(), short(&idx))); }
        // the bare-index wrapper
        match catch_unwind(AssertUnwindSafe(|| crate::geom2::hull::ball_pivot_2d(pts, *start, *end, dir, rad))) {
            Ok(Ok(bare)) => pivot_pair_checks(r, tag, pts, &bare, rad, &|| format!("ball_pivot_2d (same arguments as {}) = {}", dsc(), short(&bare))),
            _ => r.check(false, &format!("{}ball_pivot_2d: completes where ball_pivot_with_centers_2d does", tag), dsc),
        }
        // gap filling: hull points in order, fillers on the ball of their step, on the arc between its two hull points
        for &ms in spacings {
            r.case();
            let df = || format!("ball_pivot_fill_gaps_2d (arguments of {}, max_spacing {:e})", dsc(), ms);
            let out = match catch_unwind(AssertUnwindSafe(|| crate::geom2::hull::ball_pivot_fill_gaps_2d(pts, *start, *end, dir, rad, ms))) {
                Ok(Ok(o)) => o,
                _ => { r.check(false, &format!("{}ball_pivot_fill_gaps_2d: completes where ball_pivot_with_centers_2d does", tag), df); continue; }
            };
            let labs = pts.iter().map(|p| p.coords.amax()).fold(0.0, f64::max);
            let tol = 1e-9 * rad + 64.0 * f64::EPSILON * labs;
            let mut pos = 0usize;
            let mut order_ok = true;
            let mut on_ball = true;
            let mut on_arc = true;
            for k in 0..centers.len() {
                if pos >= out.len() || out[pos] != pts[idx[k]] { order_ok = false; break; }
                pos += 1;
                let (v0, v1) = (pts[idx[k]] - centers[k], pts[idx[k + 1]] - centers[k]);
                while pos < out.len() && out[pos] != pts[idx[k + 1]] {
                    let f = out[pos] - centers[k];
                    if (f.norm() - rad).abs() > tol { on_ball = false; }
                    if (angle_between(&v0, &f) + angle_between(&f, &v1) - angle_between(&v0, &v1)).abs() > 1e-6 { on_arc = false; }
                    pos += 1;
                }
            }
            if order_ok && !(pos + 1 == out.len() && out[pos] == pts[idx[idx.len() - 1]]) { order_ok = false; }
            r.check(order_ok, &format!("{}ball_pivot_fill_gaps_2d: the hull points of the pivot appear in order, first and last included", tag), || format!("{} -> {} points for hull {}", df(), out.len(), short(&idx)));
            if order_ok {
                r.check(on_ball, &format!("{}ball_pivot_fill_gaps_2d: every filled-in point lies one radius from the ball centre of its step", tag), df);
                r.check(on_arc, &format!("{}ball_pivot_fill_gaps_2d: every filled-in point lies on the arc between the two hull points of its step", tag), df);
            }
        }
    } } }
}
/// points along a polyline at uneven spacing 0.35 .. 0.6 (times `unit`)
fn along(verts: &[Point2], closed: bool, unit: f64) -> Vec<Point2> {
    let mut out = Vec::new();
    let m = if closed { verts.len() } else { verts.len() - 1 };
    let mut k = 0usize;
    for e in 0..m {
        let (a, b) = (verts[e], verts[(e + 1) % verts.len()]);
        let len = d(&a, &b);
        let mut t = 0.0;
        while t < len - 0.2 * unit { out.push(a + (b - a) * (t / len)); k += 1; t += unit * (0.35 + 0.25 * ((k as f64 * 0.6180339887) % 1.0)); }
    }
    if !closed { out.push(verts[verts.len() - 1]); }
    out
}
/// starts: on the convex hull, and on each listed index with a searched and with a given (outward from `c`) direction
fn starts_of(pts: &[Point2], c: Point2, ids: &[usize]) -> Vec<BallPivotStart> {
    let mut v = vec![BallPivotStart::StartOnConvex];
    for &i in ids { v.push(BallPivotStart::StartOnIndex(i)); v.push(BallPivotStart::StartOnIndexDir(i, pts[i] - c)); }
    v
}
fn ends_of(ids: &[usize]) -> Vec<BallPivotEnd> {
    let mut v = vec![BallPivotEnd::EndOnRepeat];
    for &i in ids { v.push(BallPivotEnd::EndOnIndex(i)); }
    v
}
const DEADEND: &str = "[defect: at a dead end the ball pivot skips the point it came from] ";
fn pivots_w5(r: &mut Report) {
    let rot = Iso2::rotation(0.3);
    let ring = circle12();
    let ellipse = on_ellipse(40, 8.0, 4.0, 0.35);
    let ell_outline: Vec<Point2> = along(&[Point2::new(0.0, 0.0), Point2::new(6.0, 0.0), Point2::new(6.0, 2.0), Point2::new(2.0, 2.0), Point2::new(2.0, 6.0), Point2::new(0.0, 6.0)], true, 1.0).iter().map(|p| rot * p).collect();
    let wave: Vec<Point2> = along(&(0..25).map(|k| Point2::new(k as f64 * 0.5, (k as f64 * 0.5).sin())).collect::<Vec<_>>(), false, 1.0).iter().map(|p| rot * p).collect();
    let mut ring_dup = circle12();
    let p3 = ring_dup[3];
    ring_dup.insert(4, p3);
    for (s, ox, oy) in [(1.0, 0.0, 0.0), (1.0, 1.0e6, -3.0e6), (1.0, 1.0e8, 1.0e8), ((2.0_f64).powi(-10), 0.0, 0.0), (1.0e-4, 0.0, 0.0), (1.0e3, 0.0, 0.0)] {
        let tag = format!(" scaled by {:e}, moved by ({:e}, {:e})", s, ox, oy);
        let c = Point2::new(ox, oy);
        let first = s == 1.0 && ox == 0.0;
        let sp: Vec<f64> = if first { vec![0.3 * s, 1.0 * s, 2.0 * s, 100.0 * s] } else { vec![0.7 * s] };
        let p = xf(&ring, s, ox, oy);
        pivot_family(r, "", &format!("12 points on a circle of radius 5{}", tag), &p, 2.0 * s, &starts_of(&p, c, if first { &[0, 3, 7, 11] } else { &[7] }), &ends_of(if first { &[5, 0] } else { &[5] }), &sp, 12);
        if first { for rad in [1.3, 1.4, 3.5, 50.0] { pivot_family(r, "", &format!("12 points on a circle of radius 5{}", tag), &p, rad * s, &starts_of(&p, c, &[3]), &ends_of(&[8]), &[1.0], 12); } }
        let p = xf(&ellipse, s, ox, oy);
        pivot_family(r, "", &format!("40 unevenly spaced points on an ellipse 8 x 4{}", tag), &p, 1.5 * s, &starts_of(&p, c, if first { &[0, 13, 29] } else { &[13] }), &ends_of(&[20]), &sp, 40);
        let p = xf(&ring_dup, s, ox, oy);
        pivot_family(r, "", &format!("12 points on a circle of radius 5 with point 3 listed twice{}", tag), &p, 2.0 * s, &starts_of(&p, c, &[0]), &ends_of(&[6]), &sp[..1], 12);
        // non-convex outline: the L rotated by 0.3 rad, sampled unevenly; a point inside the lower arm as the centre
        let lc = rot * Point2::new(1.0, 1.0);
        let p = xf(&ell_outline, s, ox, oy);
        pivot_family(r, "", &format!("rotated L-shaped outline sampled at uneven spacing 0.35 .. 0.6{}", tag), &p, 0.8 * s, &starts_of(&p, Point2::new(lc.x * s + ox, lc.y * s + oy), &[0]), &ends_of(&[10]), &sp[..1], 20);
    }
    // a pinched outline (two diamonds sharing the point (0, 0), rotated by 0.3 rad): the ball touches the shared point twice,
    // once in the upper and once in the lower notch (the wall points next to it are 2 apart, the ball is 1.8 wide)
    let lobe = [(1.0, 1.0), (2.0, 2.0), (3.0, 3.0), (4.0, 2.0), (5.0, 1.0), (6.0, 0.0), (5.0, -1.0), (4.0, -2.0), (3.0, -3.0), (2.0, -2.0), (1.0, -1.0)];
    let mut bow: Vec<Point2> = vec![Point2::new(0.0, 0.0)];
    for (x, y) in lobe.iter() { bow.push(Point2::new(*x, *y)); }
    for (x, y) in lobe.iter() { bow.push(Point2::new(-*x, *y)); }
    let bow: Vec<Point2> = bow.iter().map(|p| rot * p).collect();
    // starts on the two far tips (6: right, 17: left); ends on the four lobe flanks (4, 8, 15, 19): before and after the second visit
    pivot_family(r, "", "two diamonds sharing one point (bow-tie), rotated by 0.3 rad", &bow, 0.9, &[BallPivotStart::StartOnIndex(6), BallPivotStart::StartOnIndex(17), BallPivotStart::StartOnConvex], &[BallPivotEnd::EndOnIndex(4), BallPivotEnd::EndOnIndex(8), BallPivotEnd::EndOnIndex(15), BallPivotEnd::EndOnIndex(19)], &[0.5], 1);
    // an open chain walked from one end to the other (both sides)
    let n = wave.len();
    let beyond = wave[1];
    pivot_family(r, "", "open sine-wave chain sampled at uneven spacing 0.35 .. 0.6, rotated by 0.3 rad", &wave, 1.0, &[BallPivotStart::StartOnIndex(0), BallPivotStart::StartOnIndexDir(0, wave[0] - beyond)], &[BallPivotEnd::EndOnIndex(n - 1), BallPivotEnd::EndOnIndex(n / 2)], &[0.4], 1);
    // ... and round its dead end: the ball runs along one side, round the end point and must touch the point it came from again
    // from the other side.  The code as found skipped that point (`*ni == results[len - 2]`) and reports a step with it inside the ball
    // (repaired in /repo by fix: 0ca96ff; the clause reports the violation again if it returns)
    {
    pivot_family(r, DEADEND, "open sine-wave chain sampled at uneven spacing 0.35 .. 0.6, rotated by 0.3 rad", &wave, 1.0, &[BallPivotStart::StartOnConvex, BallPivotStart::StartOnIndex(n / 2)], &[BallPivotEnd::EndOnRepeat], &[0.4], 1);
    let stick: Vec<Point2> = (0..5).map(|k| Point2::new(0.75 * k as f64, 0.0)).collect();
    pivot_family(r, DEADEND, "5 points 0.75 apart on the x axis", &stick, 1.0, &[BallPivotStart::StartOnIndexDir(2, Vector2::new(0.0, 1.0))], &[BallPivotEnd::EndOnRepeat], &[], 1);
    }
    // a ball much larger than the point spacing rolling along a gently curved chain: every pivot is a small angle (spacing / radius
    // + spacing / curvature radius = 1e-4 .. 6e-4 rad), a genuine contact each time (a cut-off on the pivot angle that grows with the
    // radius would roll through these points)
    for (big, rad) in [(5000.0, 1000.0), (5000.0, 4000.0), (2.0e5, 1.0e4)] {
        let step = 0.5 / big;
        let chain: Vec<Point2> = (0..60).map(|k| { let a = 0.3 + step * (k as f64 + 0.13 * ((k * 7) % 5) as f64); Point2::new(big * a.cos(), big * a.sin()) }).collect();
        let out0 = chain[0].coords.normalize();
        pivot_family(r, "", &format!("60 points about 0.5 apart on an arc of radius {:e}", big), &chain, rad, &[BallPivotStart::StartOnIndexDir(0, out0)], &[BallPivotEnd::EndOnIndex(59), BallPivotEnd::EndOnIndex(30)], &[], 1);
    }
    // a filled grid: the ball can rest on a boundary point only; starting on an interior point must not produce a step with points inside the ball
    let g = cloud2(7, 7, &[]);
    for i in [0usize, 3, 6, 24, 8, 48, 45, usize::MAX] { for dir in [AngleDir::Ccw, AngleDir::Cw] {
        r.case();
        let start = if i == usize::MAX { BallPivotStart::StartOnConvex } else { BallPivotStart::StartOnIndex(i) };
        let dsc = || format!("ball_pivot_with_centers_2d(7x7 unit grid, {}, EndOnRepeat, {:?}, radius 2)", start_name(&start), dir);
        match catch_unwind(AssertUnwindSafe(|| ball_pivot_with_centers_2d(&g, start, BallPivotEnd::EndOnRepeat, dir, 2.0))) {
            Err(_) => r.check(false, &format!("{}: does not panic", PW5), dsc),
            Ok(Err(_)) => r.check(i == 24 || i == 8, &format!("{}: completes on an outline whose gaps are narrower than the ball", PW5), dsc),
            Ok(Ok((idx, centers))) => { pivot_step_checks(r, "", &g, &idx, &centers, 2.0, &dsc); }
        }
    } }
}

fn wave5(r: &mut Report) {
    // ---- k-d trees: sizes past 32 / 64 / 128 / 1000 / 4096, far from the origin, tiny and huge extents
    for n in [37usize, 67, 131, 1009, 4099] {
        search_family(r, &format!("{}-point 2D lattice", n), &lattice::<2>(n, 1.0, [0.0, 0.0]), 1.0);
        search_family(r, &format!("{}-point 3D lattice", n), &lattice::<3>(n, 1.0, [0.0, 0.0, 0.0]), 1.0);
    }
    if super::thorough() {
        search_family(r, "16411-point 2D lattice", &lattice::<2>(16411, 1.0, [0.0, 0.0]), 1.0);
        search_family(r, "16411-point 3D lattice", &lattice::<3>(16411, 1.0, [0.0, 0.0, 0.0]), 1.0);
        poisson_w5(r, "4099-point 2D lattice", &lattice::<2>(4099, 1.0, [0.0, 0.0]), 1.0, true);
        poisson_w5(r, "4099-point 3D lattice at offset 1e6", &lattice::<3>(4099, 1.0, [1.0e6, -2.0e6, 5.0e5]), 1.0, true);
        hull_checks_w5(r, "16411-point lattice", &lattice::<2>(16411, 1.0, [0.0, 0.0]), 16411.0);
        hull_checks_w5(r, "200x200 grid", &cloud2(200, 200, &[]), 200.0);
    }
    // the same point listed two / three times IN A ROW (41 = 37 + 4 entries; 41 is prime as the index lists need)
    let rep2 = with_repeats(&lattice::<2>(37, 1.0, [0.0, 0.0]));
    let rep3 = with_repeats(&lattice::<3>(37, 1.0, [0.0, 0.0, 0.0]));
    search_family(r, "37-point 2D lattice with point 5 listed twice, point 20 three times and the last point twice in a row", &rep2, 1.0);
    search_family(r, "37-point 3D lattice with point 5 listed twice, point 20 three times and the last point twice in a row", &rep3, 1.0);
    poisson_w5(r, "37-point 2D lattice with point 5 listed twice, point 20 three times and the last point twice in a row", &rep2, 1.0, true);
    poisson_w5(r, "37-point 3D lattice with point 5 listed twice, point 20 three times and the last point twice in a row", &rep3, 1.0, true);
    for (s, o) in [(1.0, 1.0e6), (1.0, 1.0e8), (1.0e-6, 0.0), (1.0e-9, 0.0), (1.0e3, 0.0), (1.0e-3, 1.0e3), (1.0, -1.0e6)] {
        search_family(r, &format!("131-point 2D lattice scaled by {:e} at offset {:e}", s, o), &lattice::<2>(131, s, [o, -2.0 * o]), s);
        search_family(r, &format!("131-point 3D lattice scaled by {:e} at offset {:e}", s, o), &lattice::<3>(131, s, [o, -2.0 * o, 0.5 * o]), s);
    }
    let t2: Vec<([f64; 2], f64)> = vec![([0.0, 0.0], 0.0), ([3.0, 4.0], 5.0), ([-12.0, 5.0], 13.0), ([0.0, -7.0], 7.0), ([1.0, 0.0], 1.0)];
    let t3: Vec<([f64; 3], f64)> = vec![([0.0, 0.0, 0.0], 0.0), ([1.0, 2.0, 2.0], 3.0), ([-2.0, 3.0, 6.0], 7.0), ([0.0, 0.0, -4.0], 4.0)];
    let p30 = (2.0_f64).powi(-30);
    for (s, o) in [(1.0, 0.0), (1.0, 1.0e8), (p30, 0.0), (1024.0, 0.0)] {
        ulp_checks(r, &format!("131-point 2D lattice scaled by {:e} at offset {:e}", s, o), &lattice::<2>(131, s, [o, -o]), s, &t2, false);
        ulp_checks(r, &format!("131-point 3D lattice scaled by {:e} at offset {:e}", s, o), &lattice::<3>(131, s, [o, -o, o]), s, &t3, false);
    }
    // ---- Poisson disk: 2D and 3D, sizes past 32 / 64 / 1000, far / tiny / huge, all visiting orders, radius relations
    for n in [37usize, 67, 1009] {
        poisson_w5(r, &format!("{}-point 2D lattice", n), &lattice::<2>(n, 1.0, [0.0, 0.0]), 1.0, true);
        poisson_w5(r, &format!("{}-point 3D lattice", n), &lattice::<3>(n, 1.0, [0.0, 0.0, 0.0]), 1.0, true);
    }
    for (s, o, exact) in [(1.0, 1.0e6, true), (1.0, 1.0e8, true), (1.0e-6, 0.0, false), (1.0e-9, 0.0, false), (1.0e3, 0.0, true), (1.0e-3, 1.0e3, false)] {
        poisson_w5(r, &format!("131-point 2D lattice scaled by {:e} at offset {:e}", s, o), &lattice::<2>(131, s, [o, -2.0 * o]), s, exact);
        poisson_w5(r, &format!("131-point 3D lattice scaled by {:e} at offset {:e}", s, o), &lattice::<3>(131, s, [o, -2.0 * o, 0.5 * o]), s, exact);
    }
    // exact duplicates and exact-tie radii on the unit grids (3-4-5 pairs): radius exactly a pairwise distance, one ulp either side
    let tie_radii: Vec<(String, f64)> = [1.0f64, 2.0, 5.0].iter().flat_map(|&x| vec![(format!("exactly {}", x), x), (format!("one ulp above {}", x), ulp_up(x)), (format!("one ulp below {}", x), ulp_down(x))]).chain([("0".to_string(), 0.0), ("1e160".to_string(), 1.0e160)]).collect();
    let g2 = cloud2(7, 7, &[0, 10, 24, 48]);
    poisson_family(r, "7x7 grid + duplicates of points 0, 10, 24, 48", &g2, &working_lists(g2.len()), &tie_radii, true);
    let g3 = cloud3(5, 5, 2, &[0, 17, 47]);
    poisson_family(r, "5x5x2 grid + duplicates of points 0, 17, 47", &g3, &working_lists(g3.len()), &tie_radii, true);
    sampling_w5(r);
    hulls_w5(r);
    pivots_w5(r);
    ulp_checks(r, "1009-point 2D lattice", &lattice::<2>(1009, 1.0, [0.0, 0.0]), 1.0, &t2, false);
    ulp_checks(r, "7x7 grid + duplicates of points 0, 10, 24, 48", &cloud2(7, 7, &[0, 10, 24, 48]), 1.0, &t2, true);
    ulp_checks(r, "5x5x2 grid + duplicates of points 0, 17, 47", &cloud3(5, 5, 2, &[0, 17, 47]), 1.0, &t3, true);
}
