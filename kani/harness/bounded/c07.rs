//! C07 bounded: rigid alignment on the REAL code (levenberg-marquardt driver, parry projections included).
//! 3D reference: box 4x3x2 (non-solid).  Sample sets: (A) 54 points exactly on the six faces (3x3 per face, at least
//! 0.5 from every edge); (B) "measured" set = the same points lifted off their face by deviations 0.02..0.08 varying
//! from point to point, plus 6 points outside the box whose closest mesh point is on an EDGE, plus one point repeated
//! bit-for-bit right after itself.  2D reference: closed L-shaped outline and closed 4x3 rectangle; (A) 7 points per edge
//! strictly inside the edges, (B) the same points offset along the edge normals by varying signed deviations (-0.03..0.03) plus points beyond
//! convex corners plus one repeated point.  Displacements: identity, translations up to 0.05, rotations up to 3 degrees,
//! and a tiny one (3e-5, 4e-6 rad); starting guesses: identity, a small non-identity guess, and (3D) guesses with a pitch
//! of exactly -90 / +90 degrees plus roll (sample set moved so that such a guess is in the basin); both DistMode values.
//! Clauses: (A) the alignment succeeds and transform o displacement == identity within 1e-6; (A and B, every successful
//! alignment) residual i == the mode-specific distance of transform * point i to the reference, recomputed by brute force
//! over all triangles / segments (any of the nearest faces / edges where the closest point is on an edge / vertex), and
//! the residual sum of squares is not larger than at the starting guess.
use super::Report;
use crate::common::DistMode;
use crate::geom2::align2::points_to_curve;
use crate::geom2::{Curve2, Iso2, Point2, Vector2};
use crate::geom3::align3::points_to_mesh;
use crate::geom3::{Iso3, Mesh, Point3, Vector3};
use parry3d_f64::na::{Translation3, UnitQuaternion};
use std::f64::consts::FRAC_PI_2;

const RTOL: f64 = 1e-9;

// ---------------------------------------------------------------------------------------------- brute force
fn seg_closest3(a: &Point3, b: &Point3, q: &Point3) -> Point3 { let ab = b - a; a + ab * ((q - a).dot(&ab) / ab.norm_squared()).clamp(0.0, 1.0) }
fn tri_closest(a: &Point3, b: &Point3, c: &Point3, p: &Point3) -> Point3 {
    let n = (b - a).cross(&(c - a));
    let pp = p - n * ((p - a).dot(&n) / n.norm_squared());
    let s0 = (b - a).cross(&(pp - a)).dot(&n);
    let s1 = (c - b).cross(&(pp - b)).dot(&n);
    let s2 = (a - c).cross(&(pp - c)).dot(&n);
    if s0 >= 0.0 && s1 >= 0.0 && s2 >= 0.0 { return pp; }
    let mut best = seg_closest3(a, b, p);
    for (u, v) in [(b, c), (c, a)] { let x = seg_closest3(u, v, p); if (p - x).norm() < (p - best).norm() { best = x; } }
    best
}
/// the admissible values of the residual of point m: (ToPoint distance, list of ToPlane values over all nearest faces)
fn mesh_residuals(t: &[[Point3; 3]], m: &Point3) -> (f64, Vec<f64>) {
    let cp: Vec<Point3> = t.iter().map(|x| tri_closest(&x[0], &x[1], &x[2], m)).collect();
    let d: Vec<f64> = cp.iter().map(|c| (m - c).norm()).collect();
    let dmin = d.iter().cloned().fold(f64::INFINITY, f64::min);
    let mut planes = vec![];
    for (k, x) in t.iter().enumerate() {
        if d[k] <= dmin + 1e-9 {
            let n = (x[1] - x[0]).cross(&(x[2] - x[0])).normalize();
            planes.push(n.dot(&(m - cp[k])).abs());
        }
    }
    (dmin, planes)
}
/// admissible signed residuals of point m against a closed 2D outline: n_e . (m - cp) over all nearest edges e
fn curve_residuals(v: &[Point2], m: &Point2) -> Vec<f64> {
    let mut cps = vec![];
    for i in 0..v.len() - 1 {
        let ab = v[i + 1] - v[i];
        let cp = v[i] + ab * ((m - v[i]).dot(&ab) / ab.norm_squared()).clamp(0.0, 1.0);
        let e = ab.normalize();
        cps.push(((m - cp).norm(), Vector2::new(e.y, -e.x).dot(&(m - cp))));
    }
    let dmin = cps.iter().map(|x| x.0).fold(f64::INFINITY, f64::min);
    cps.iter().filter(|x| x.0 <= dmin + 1e-9).map(|x| x.1).collect()
}
fn near(a: f64, b: f64) -> bool { (a - b).abs() <= RTOL * (1.0 + a.abs().max(b.abs())) }

// ---------------------------------------------------------------------------------------------- 3D
fn box_samples() -> (Vec<Point3>, Vec<Vector3>) {
    let (w, h, d) = (4.0, 3.0, 2.0);
    let mut pts = vec![];
    let mut nrm = vec![];
    for a in [0.5, 2.0, 3.5] { for b in [0.5, 1.5, 2.5] {
        pts.push(Point3::new(a, b, 0.0)); nrm.push(-Vector3::z());
        pts.push(Point3::new(a, b, d)); nrm.push(Vector3::z());
    } }
    for a in [0.5, 2.0, 3.5] { for c in [0.5, 1.0, 1.5] {
        pts.push(Point3::new(a, 0.0, c)); nrm.push(-Vector3::y());
        pts.push(Point3::new(a, h, c)); nrm.push(Vector3::y());
    } }
    for b in [0.5, 1.5, 2.5] { for c in [0.5, 1.0, 1.5] {
        pts.push(Point3::new(0.0, b, c)); nrm.push(-Vector3::x());
        pts.push(Point3::new(w, b, c)); nrm.push(Vector3::x());
    } }
    (pts, nrm)
}
fn measured3() -> Vec<Point3> {
    let (p, n) = box_samples();
    let mut out: Vec<Point3> = p.iter().zip(n.iter()).enumerate().map(|(k, (p, n))| p + n * (0.02 + 0.01 * ((k * 3) % 7) as f64)).collect();
    // closest mesh point on an edge of the box
    out.extend([Point3::new(-0.0625, -0.0625, 1.0), Point3::new(4.0625, 1.5, 2.03125), Point3::new(2.0, 3.0625, -0.03125),
                Point3::new(-0.03125, 1.0, 2.0625), Point3::new(1.0, -0.0625, 2.0625), Point3::new(4.03125, 3.0625, 0.75)]);
    // two bit-identical consecutive points (in the middle and at the very end)
    let k = 20;
    let rep = out[k];
    out.insert(k, rep);
    let last = *out.last().unwrap();
    out.push(last);
    out
}

fn iso3(t: (f64, f64, f64), e: (f64, f64, f64)) -> Iso3 { Iso3::from_parts(Translation3::new(t.0, t.1, t.2), UnitQuaternion::from_euler_angles(e.0, e.1, e.2)) }
fn id_err3(t: &Iso3) -> f64 { (t.to_homogeneous() - Iso3::identity().to_homogeneous()).amax() }

fn rss3(t: &[[Point3; 3]], pts: &[Point3], tf: &Iso3, to_point: bool) -> f64 {
    pts.iter().map(|p| { let (d, pl) = mesh_residuals(t, &(tf * p)); let x = if to_point { d } else { pl.iter().cloned().fold(0.0, f64::max) }; x * x }).sum()
}

fn run3(r: &mut Report) {
    let mesh = Mesh::create_box(4.0, 3.0, 2.0, false);
    let t: Vec<[Point3; 3]> = mesh.faces().iter().map(|f| [mesh.vertices()[f[0] as usize], mesh.vertices()[f[1] as usize], mesh.vertices()[f[2] as usize]]).collect();
    let (clean, _) = box_samples();
    let meas = measured3();
    let deg = std::f64::consts::PI / 180.0;
    let disps: Vec<(&str, Iso3)> = vec![
        ("identity", Iso3::identity()),
        ("translation (0.05,-0.03,0.04)", iso3((0.05, -0.03, 0.04), (0.0, 0.0, 0.0))),
        ("euler (0.01,-0.02,0.015) + (0.02,0.01,-0.03)", iso3((0.02, 0.01, -0.03), (0.01, -0.02, 0.015))),
        ("3 degrees about (1,1,1)", Iso3::from_parts(Translation3::new(0.0, 0.0, 0.0), UnitQuaternion::from_axis_angle(&crate::geom3::UnitVec3::new_normalize(Vector3::new(1.0, 1.0, 1.0)), 3.0 * deg))),
        ("-3 degrees about z + (-0.05,0.05,0.0)", iso3((-0.05, 0.05, 0.0), (0.0, 0.0, -3.0 * deg))),
        ("tiny: (3e-5,-2e-5,1e-5) + euler (4e-6,0,-3e-6)", iso3((3.0e-5, -2.0e-5, 1.0e-5), (4.0e-6, 0.0, -3.0e-6))),
    ];
    // starting guesses: identity, a small one, and two with a pitch of exactly -/+ 90 degrees plus roll
    let gm = Iso3::from_parts(Translation3::new(3.0, -2.0, 1.0), UnitQuaternion::from_euler_angles(1.5, 0.0, 0.0) * UnitQuaternion::from_euler_angles(0.0, -FRAC_PI_2, 0.0));
    let gp = Iso3::from_parts(Translation3::new(-1.0, 0.5, 2.0), UnitQuaternion::from_euler_angles(-0.75, 0.0, 0.0) * UnitQuaternion::from_euler_angles(0.0, FRAC_PI_2, 0.0));
    let guesses: Vec<(&str, Iso3)> = vec![
        ("identity", Iso3::identity()),
        ("small: euler (0.005,0.005,-0.005) + (0.01,-0.01,0.01)", iso3((0.01, -0.01, 0.01), (0.005, 0.005, -0.005))),
        ("pitch -90 degrees: (3,-2,1) Rx(1.5) Ry(-pi/2)", gm),
        ("pitch +90 degrees: (-1,0.5,2) Rx(-0.75) Ry(pi/2)", gp),
    ];
    for (set, base) in [("A: on the faces", &clean), ("B: measured", &meas)] {
        for (dn, disp) in disps.iter() { for (gi, (gn, guess)) in guesses.iter().enumerate() {
            // a gimbal-lock guess is tried with the sample set moved so that the guess is the exact answer (displacement
            // "identity") or off by the small displacements only
            if gi >= 2 && !(dn.starts_with("identity") || dn.starts_with("tiny") || dn.starts_with("translation")) { continue; }
            // total displacement of the samples: for guess G (gi >= 2) the samples are G^-1 * disp * base
            let total = if gi >= 2 { guess.inverse() * disp } else { *disp };
            let pts: Vec<Point3> = base.iter().map(|p| total * p).collect();
            for to_point in [false, true] {
                r.case();
                let mode = if to_point { DistMode::ToPoint } else { DistMode::ToPlane };
                let d = || format!("3D box 4x3x2, sample set {}, displacement {}, guess {}, mode {}", set, dn, gn, if to_point { "ToPoint" } else { "ToPlane" });
                let res = points_to_mesh(&pts, &mesh, guess, mode);
                let al = match res {
                    Ok(a) => a,
                    Err(_) => { if set.starts_with('A') { r.check(false, "3D: alignment of a displacement inside the basin succeeds", d); } continue; }
                };
                if set.starts_with('A') {
                    let e = id_err3(&(al.transform() * total));
                    // own clause name: ToPoint mode with sample points lying exactly on the mesh at the starting guess (their
                    // jacobian rows are zero; with an in-plane displacement a whole column is zero and the driver stops
                    // "successfully" at the starting guess)
                    let on_at_start = pts.iter().any(|p| mesh_residuals(&t, &(guess * p)).0 < 1e-8);
                    if to_point && on_at_start {
                        r.check(e < 1e-6, "[ToPoint, sample points exactly on the mesh at the starting guess] 3D: returned transform composed with the displacement is the identity within 1e-6", || format!("{}: max |entry of transform*displacement - I| = {:?}", d(), e));
                    } else {
                        r.check(e < 1e-6, "3D: returned transform composed with the displacement is the identity within 1e-6", || format!("{}: max |entry of transform*displacement - I| = {:?}", d(), e));
                    }
                }
                r.check(al.residuals().len() == pts.len(), "3D: one residual per input point", d);
                if al.residuals().len() != pts.len() { continue; }
                let mut ok = true;
                let mut worst = (0usize, 0.0, 0.0);
                for (i, p) in pts.iter().enumerate() {
                    let (dist, planes) = mesh_residuals(&t, &(al.transform() * p));
                    let got = al.residuals()[i];
                    let fine = if to_point { near(got, dist) } else { planes.iter().any(|x| near(got, *x)) };
                    if !fine && ok { ok = false; worst = (i, got, if to_point { dist } else { planes[0] }); }
                }
                r.check(ok, "3D: residual i is the mode-specific distance of (returned transform * input point i) to the mesh", || format!("{}: residual[{}] = {:?}, recomputed {:?}", d(), worst.0, worst.1, worst.2));
                let end: f64 = al.residuals().iter().map(|x| x * x).sum();
                let start = rss3(&t, &pts, guess, to_point);
                r.check(end <= start + 1e-12 * (1.0 + start), "3D: the residual sum of squares is not larger than at the starting guess", || format!("{}: start {:?} end {:?}", d(), start, end));
            }
        } }
    }
}

// ---------------------------------------------------------------------------------------------- 2D
fn outline_samples(v: &[Point2], dev: bool) -> Vec<Point2> {
    let mut out = vec![];
    let mut k = 0usize;
    for i in 0..v.len() - 1 {
        let ab = v[i + 1] - v[i];
        let e = ab.normalize();
        let n = Vector2::new(e.y, -e.x);
        for j in 1..8 {
            k += 1;
            let off = if dev { -0.03 + 0.01 * ((k * 3) % 7) as f64 } else { 0.0 };
            out.push(v[i] + ab * (j as f64 / 8.0) + n * off);
        }
    }
    if dev {
        // beyond convex corners (closest outline point is a vertex), and a bit-identical repeat
        out.extend([v[0] + Vector2::new(-0.0625, -0.03125), v[1] + Vector2::new(0.03125, -0.0625)]);
        let rep = out[10];
        out.insert(10, rep);
        let last = *out.last().unwrap();
        out.push(last);
    }
    out
}
fn id_err2(t: &Iso2) -> f64 { (t.to_homogeneous() - Iso2::identity().to_homogeneous()).amax() }

fn run2(r: &mut Report) {
    let p = |x: f64, y: f64| Point2::new(x, y);
    let shapes: Vec<(&str, Vec<Point2>)> = vec![
        ("closed L outline (0,0),(6,0),(6,2),(3,2),(3,4),(0,4)", vec![p(0.0, 0.0), p(6.0, 0.0), p(6.0, 2.0), p(3.0, 2.0), p(3.0, 4.0), p(0.0, 4.0), p(0.0, 0.0)]),
        ("closed rectangle 4x3", vec![p(0.0, 0.0), p(4.0, 0.0), p(4.0, 3.0), p(0.0, 3.0), p(0.0, 0.0)]),
    ];
    let deg = std::f64::consts::PI / 180.0;
    let disps: Vec<(&str, Iso2)> = vec![
        ("identity", Iso2::identity()),
        ("(0.04,-0.03) + 0.02 rad", Iso2::translation(0.04, -0.03) * Iso2::rotation(0.02)),
        ("(0.05,0.05) + 3 degrees", Iso2::translation(0.05, 0.05) * Iso2::rotation(3.0 * deg)),
        ("(-0.05,0.0) - 3 degrees", Iso2::translation(-0.05, 0.0) * Iso2::rotation(-3.0 * deg)),
        ("tiny: (3e-5,-2e-5) + 4e-6 rad", Iso2::translation(3.0e-5, -2.0e-5) * Iso2::rotation(4.0e-6)),
        ("tiny: (1e-5,1e-5)", Iso2::translation(1.0e-5, 1.0e-5)),
    ];
    let guesses: Vec<(&str, Iso2)> = vec![("identity", Iso2::identity()), ("(0.01,-0.01) + 0.005 rad", Iso2::translation(0.01, -0.01) * Iso2::rotation(0.005))];
    for (sn, verts) in shapes.iter() {
        let curve = Curve2::from_points(verts, 1e-8, true).unwrap();
        let v = curve.points().to_vec();
        for (set, dev) in [("A: on the outline", false), ("B: measured", true)] {
            let base = outline_samples(&v, dev);
            for (dn, disp) in disps.iter() { for (gn, guess) in guesses.iter() {
                r.case();
                let pts: Vec<Point2> = base.iter().map(|q| disp * q).collect();
                let d = || format!("2D {}, sample set {}, displacement {}, guess {}", sn, set, dn, gn);
                let al = match points_to_curve(&pts, &curve, guess) {
                    Ok(a) => a,
                    Err(_) => { if !dev { r.check(false, "2D: alignment of a displacement inside the basin succeeds", d); } continue; }
                };
                if !dev {
                    let e = id_err2(&(al.transform() * disp));
                    r.check(e < 1e-6, "2D: returned transform composed with the displacement is the identity within 1e-6", || format!("{}: max |entry of transform*displacement - I| = {:?}", d(), e));
                }
                r.check(al.residuals().len() == pts.len(), "2D: one residual per input point", d);
                if al.residuals().len() != pts.len() { continue; }
                let mut ok = true;
                let mut worst = (0usize, 0.0, 0.0);
                for (i, q) in pts.iter().enumerate() {
                    let want = curve_residuals(&v, &(al.transform() * q));
                    let got = al.residuals()[i];
                    if !want.iter().any(|x| near(got, *x)) && ok { ok = false; worst = (i, got, want[0]); }
                }
                r.check(ok, "2D: residual i is the signed distance of (returned transform * input point i) to the curve along the edge normal", || format!("{}: residual[{}] = {:?}, recomputed {:?}", d(), worst.0, worst.1, worst.2));
                let end: f64 = al.residuals().iter().map(|x| x * x).sum();
                let start: f64 = pts.iter().map(|q| { let w = curve_residuals(&v, &(guess * q)); let x = w.iter().map(|x| x.abs()).fold(0.0, f64::max); x * x }).sum();
                r.check(end <= start + 1e-12 * (1.0 + start), "2D: the residual sum of squares is not larger than at the starting guess", || format!("{}: start {:?} end {:?}", d(), start, end));
            } }
        }
    }
}

pub fn run() -> Option<Report> {
    let mut r = Report::new("3D: box 4x3x2, sample sets A (54 points on the faces) and B (lifted 0.02..0.08 off the faces + 6 edge-closest points + 2 bit-identical repeats), 6 displacements (translations <= 0.05, rotations <= 3 degrees, one of size 3e-5) x 4 starting guesses (identity, small, pitch exactly -90 / +90 degrees plus roll) x {ToPlane, ToPoint}; 2D: closed L outline and 4x3 rectangle, sets A (7 points per edge) and B (offset -0.03..0.03 along the normal + 2 corner-closest points + 2 repeats), 6 displacements x 2 guesses; recovery tolerance 1e-6, residual tolerance 1e-9 relative");
    run3(&mut r);
    run2(&mut r);
    Some(r)
}
