//! C07 bounded: rigid alignment on the REAL code (levenberg-marquardt driver, parry projections included).
//! 3D reference: box 4x3x2 (non-solid).  Sample sets: (A) 54 points exactly on the six faces (3x3 per face, at least
//! 0.5 from every edge); (B) "measured" set = the same points lifted off their face by deviations 0.02..0.08 varying
//! from point to point, plus 6 points outside the box whose closest mesh point is on an EDGE, plus one point repeated
//! bit-for-bit right after itself.  2D reference: closed L-shaped outline and closed 4x3 rectangle; (A) 7 points per edge
//! strictly inside the edges, (B) the same points offset along the edge normals by varying signed deviations (-0.03..0.03) plus points beyond
//! convex corners plus one repeated point.  Displacements: identity, translations up to 0.05, rotations up to 3 degrees,
//! and a tiny one (3e-5, 4e-6 rad); starting guesses: identity, a small non-identity guess, and (3D) guesses with a pitch
//! of exactly -90 / +90 degrees plus roll (sample set moved so that such a guess is in the basin); both DistMode values.
//! Clauses: (A) the alignment succeeds and transform o displacement == identity within 1e-6; (A and B, every successful
//! alignment) residual i == the mode-specific distance of transform * point i to the reference, recomputed by brute force
//! over all triangles / segments (any of the nearest faces / edges where the closest point is on an edge / vertex), and
//! the residual sum of squares is not larger than at the starting guess.
//! ROUND 2 (run3_round2 / run2_round2, same clauses through eval3 / eval2): starting guesses with large rotations (3D:
//! euler parameters near +-pi and +-pi/2, incl. parameters that cross +-pi during the solve; 2D: part turned by 90..180
//! degrees either way), far-away parts (10x .. 100x the part size, guess within 0.2 units / 3 degrees, both modes),
//! exactly representable configurations whose solve ends on residuals that are exactly 0.0, sample sets of >= 4096 points.
//! ROUND 3 (run_minimal, same clauses + "is accepted"): sample sets with EXACTLY as many points as parameters - 3D: 6 points in
//! the 3-2-1 locating scheme on three mutually orthogonal faces of the box (3 arrangements) and a 7-point control; 2D: 3 points
//! 2-1 on two perpendicular edges (2 arrangements per outline) and a 4-point control; 3 displacements x 2 guesses (x both modes).
//! ROUND 4 (run_open_and_far, same clauses): OPEN reference meshes whose free boundary edges fix a degree of freedom - an L
//! bracket of two plates (ToPoint; slides along the fold line) and a corner of three plates (both modes) with sample grids
//! reaching the free edges; starting guesses carrying a VERY large translation (3.6e5 .. 1.1e6 units), 3D and 2D.
use super::Report;
use crate::common::DistMode;
use crate::geom2::align2::points_to_curve;
use crate::geom2::{Curve2, Iso2, Point2, Vector2};
use crate::geom3::align3::points_to_mesh;
use crate::geom3::{Iso3, Mesh, Point3, Vector3};
use parry3d_f64::na::{Translation3, UnitQuaternion};
use std::f64::consts::FRAC_PI_2;

const RTOL: f64 = 1e-9;

// ---------------------------------------------------------------------------------------------- brute force
fn seg_closest3(a: &Point3, b: &Point3, q: &Point3) -> Point3 { let ab = b - a; a + ab * ((q - a).dot(&ab) / ab.norm_squared()).clamp(0.0, 1.0) }
fn tri_closest(a: &Point3, b: &Point3, c: &Point3, p: &Point3) -> Point3 {
    let n = (b - a).cross(&(c - a));
    let pp = p - n * ((p - a).dot(&n) / n.norm_squared());
    let s0 = (b - a).cross(&(pp - a)).dot(&n);
    let s1 = (c - b).cross(&(pp - b)).dot(&n);
    let s2 = (a - c).cross(&(pp - c)).dot(&n);
    if s0 >= 0.0 && s1 >= 0.0 && s2 >= 0.0 { return pp; }
    let mut best = seg_closest3(a, b, p);
    for (u, v) in [(b, c), (c, a)] { let x = seg_closest3(u, v, p); if (p - x).norm() < (p - best).norm() { best = x; } }
    best
}
/// the admissible values of the residual of point m: (ToPoint distance, list of ToPlane values over all nearest faces)
fn mesh_residuals(t: &[[Point3; 3]], m: &Point3) -> (f64, Vec<f64>) {
    let cp: Vec<Point3> = t.iter().map(|x| tri_closest(&x[0], &x[1], &x[2], m)).collect();
    let d: Vec<f64> = cp.iter().map(|c| (m - c).norm()).collect();
    let dmin = d.iter().cloned().fold(f64::INFINITY, f64::min);
    let mut planes = vec![];
    for (k, x) in t.iter().enumerate() {
        if d[k] <= dmin + 1e-9 {
            let n = (x[1] - x[0]).cross(&(x[2] - x[0])).normalize();
            planes.push(n.dot(&(m - cp[k])).abs());
        }
    }
    (dmin, planes)
}
/// admissible signed residuals of point m against a closed 2D outline: n_e . (m - cp) over all nearest edges e
fn curve_residuals(v: &[Point2], m: &Point2) -> Vec<f64> {
    let mut cps = vec![];
    for i in 0..v.len() - 1 {
        let ab = v[i + 1] - v[i];
        let cp = v[i] + ab * ((m - v[i]).dot(&ab) / ab.norm_squared()).clamp(0.0, 1.0);
        let e = ab.normalize();
        cps.push(((m - cp).norm(), Vector2::new(e.y, -e.x).dot(&(m - cp))));
    }
    let dmin = cps.iter().map(|x| x.0).fold(f64::INFINITY, f64::min);
    cps.iter().filter(|x| x.0 <= dmin + 1e-9).map(|x| x.1).collect()
}
fn near(a: f64, b: f64) -> bool { (a - b).abs() <= RTOL * (1.0 + a.abs().max(b.abs())) }

// ---------------------------------------------------------------------------------------------- 3D
fn box_samples() -> (Vec<Point3>, Vec<Vector3>) {
    let (w, h, d) = (4.0, 3.0, 2.0);
    let mut pts = vec![];
    let mut nrm = vec![];
    for a in [0.5, 2.0, 3.5] { for b in [0.5, 1.5, 2.5] {
        pts.push(Point3::new(a, b, 0.0)); nrm.push(-Vector3::z());
        pts.push(Point3::new(a, b, d)); nrm.push(Vector3::z());
    } }
    for a in [0.5, 2.0, 3.5] { for c in [0.5, 1.0, 1.5] {
        pts.push(Point3::new(a, 0.0, c)); nrm.push(-Vector3::y());
        pts.push(Point3::new(a, h, c)); nrm.push(Vector3::y());
    } }
    for b in [0.5, 1.5, 2.5] { for c in [0.5, 1.0, 1.5] {
        pts.push(Point3::new(0.0, b, c)); nrm.push(-Vector3::x());
        pts.push(Point3::new(w, b, c)); nrm.push(Vector3::x());
    } }
    (pts, nrm)
}
fn measured3() -> Vec<Point3> {
    let (p, n) = box_samples();
    let mut out: Vec<Point3> = p.iter().zip(n.iter()).enumerate().map(|(k, (p, n))| p + n * (0.02 + 0.01 * ((k * 3) % 7) as f64)).collect();
    // closest mesh point on an edge of the box
    out.extend([Point3::new(-0.0625, -0.0625, 1.0), Point3::new(4.0625, 1.5, 2.03125), Point3::new(2.0, 3.0625, -0.03125),
                Point3::new(-0.03125, 1.0, 2.0625), Point3::new(1.0, -0.0625, 2.0625), Point3::new(4.03125, 3.0625, 0.75)]);
    // two bit-identical consecutive points (in the middle and at the very end)
    let k = 20;
    let rep = out[k];
    out.insert(k, rep);
    let last = *out.last().unwrap();
    out.push(last);
    out
}

fn iso3(t: (f64, f64, f64), e: (f64, f64, f64)) -> Iso3 { Iso3::from_parts(Translation3::new(t.0, t.1, t.2), UnitQuaternion::from_euler_angles(e.0, e.1, e.2)) }
fn id_err3(t: &Iso3) -> f64 { (t.to_homogeneous() - Iso3::identity().to_homogeneous()).amax() }

fn rss3(t: &[[Point3; 3]], pts: &[Point3], tf: &Iso3, to_point: bool) -> f64 {
    pts.iter().map(|p| { let (d, pl) = mesh_residuals(t, &(tf * p)); let x = if to_point { d } else { pl.iter().cloned().fold(0.0, f64::max) }; x * x }).sum()
}

fn run3(r: &mut Report) {
    let mesh = Mesh::create_box(4.0, 3.0, 2.0, false);
    let t: Vec<[Point3; 3]> = mesh.faces().iter().map(|f| [mesh.vertices()[f[0] as usize], mesh.vertices()[f[1] as usize], mesh.vertices()[f[2] as usize]]).collect();
    let (clean, _) = box_samples();
    let meas = measured3();
    let deg = std::f64::consts::PI / 180.0;
    let disps: Vec<(&str, Iso3)> = vec![
        ("identity", Iso3::identity()),
        ("translation (0.05,-0.03,0.04)", iso3((0.05, -0.03, 0.04), (0.0, 0.0, 0.0))),
        ("euler (0.01,-0.02,0.015) + (0.02,0.01,-0.03)", iso3((0.02, 0.01, -0.03), (0.01, -0.02, 0.015))),
        ("3 degrees about (1,1,1)", Iso3::from_parts(Translation3::new(0.0, 0.0, 0.0), UnitQuaternion::from_axis_angle(&crate::geom3::UnitVec3::new_normalize(Vector3::new(1.0, 1.0, 1.0)), 3.0 * deg))),
        ("-3 degrees about z + (-0.05,0.05,0.0)", iso3((-0.05, 0.05, 0.0), (0.0, 0.0, -3.0 * deg))),
        ("tiny: (3e-5,-2e-5,1e-5) + euler (4e-6,0,-3e-6)", iso3((3.0e-5, -2.0e-5, 1.0e-5), (4.0e-6, 0.0, -3.0e-6))),
    ];
    // starting guesses: identity, a small one, and two with a pitch of exactly -/+ 90 degrees plus roll
    let gm = Iso3::from_parts(Translation3::new(3.0, -2.0, 1.0), UnitQuaternion::from_euler_angles(1.5, 0.0, 0.0) * UnitQuaternion::from_euler_angles(0.0, -FRAC_PI_2, 0.0));
    let gp = Iso3::from_parts(Translation3::new(-1.0, 0.5, 2.0), UnitQuaternion::from_euler_angles(-0.75, 0.0, 0.0) * UnitQuaternion::from_euler_angles(0.0, FRAC_PI_2, 0.0));
    let guesses: Vec<(&str, Iso3)> = vec![
        ("identity", Iso3::identity()),
        ("small: euler (0.005,0.005,-0.005) + (0.01,-0.01,0.01)", iso3((0.01, -0.01, 0.01), (0.005, 0.005, -0.005))),
        ("pitch -90 degrees: (3,-2,1) Rx(1.5) Ry(-pi/2)", gm),
        ("pitch +90 degrees: (-1,0.5,2) Rx(-0.75) Ry(pi/2)", gp),
    ];
    for (set, base) in [("A: on the faces", &clean), ("B: measured", &meas)] {
        for (dn, disp) in disps.iter() { for (gi, (gn, guess)) in guesses.iter().enumerate() {
            // a gimbal-lock guess is tried with the sample set moved so that the guess is the exact answer (displacement
            // "identity") or off by the small displacements only
            if gi >= 2 && !(dn.starts_with("identity") || dn.starts_with("tiny") || dn.starts_with("translation")) { continue; }
            // total displacement of the samples: for guess G (gi >= 2) the samples are G^-1 * disp * base
            let total = if gi >= 2 { guess.inverse() * disp } else { *disp };
            let pts: Vec<Point3> = base.iter().map(|p| total * p).collect();
            for to_point in [false, true] {
                r.case();
                let mode = if to_point { DistMode::ToPoint } else { DistMode::ToPlane };
                let d = || format!("3D box 4x3x2, sample set {}, displacement {}, guess {}, mode {}", set, dn, gn, if to_point { "ToPoint" } else { "ToPlane" });
                let res = points_to_mesh(&pts, &mesh, guess, mode);
                let al = match res {
                    Ok(a) => a,
                    Err(_) => { if set.starts_with('A') { r.check(false, "3D: alignment of a displacement inside the basin succeeds", d); } continue; }
                };
                if set.starts_with('A') {
                    let e = id_err3(&(al.transform() * total));
                    // own clause name: ToPoint mode with sample points lying exactly on the mesh at the starting guess (their
                    // jacobian rows are zero; with an in-plane displacement a whole column is zero and the driver stops
                    // "successfully" at the starting guess)
                    let on_at_start = pts.iter().any(|p| mesh_residuals(&t, &(guess * p)).0 < 1e-8);
                    if to_point && on_at_start {
                        r.check(e < 1e-6, "[ToPoint, sample points exactly on the mesh at the starting guess] 3D: returned transform composed with the displacement is the identity within 1e-6", || format!("{}: max |entry of transform*displacement - I| = {:?}", d(), e));
                    } else {
                        r.check(e < 1e-6, "3D: returned transform composed with the displacement is the identity within 1e-6", || format!("{}: max |entry of transform*displacement - I| = {:?}", d(), e));
                    }
                }
                r.check(al.residuals().len() == pts.len(), "3D: one residual per input point", d);
                if al.residuals().len() != pts.len() { continue; }
                let mut ok = true;
                let mut worst = (0usize, 0.0, 0.0);
                for (i, p) in pts.iter().enumerate() {
                    let (dist, planes) = mesh_residuals(&t, &(al.transform() * p));
                    let got = al.residuals()[i];
                    let fine = if to_point { near(got, dist) } else { planes.iter().any(|x| near(got, *x)) };
                    if !fine && ok { ok = false; worst = (i, got, if to_point { dist } else { planes[0] }); }
                }
                r.check(ok, "3D: residual i is the mode-specific distance of (returned transform * input point i) to the mesh", || format!("{}: residual[{}] = {:?}, recomputed {:?}", d(), worst.0, worst.1, worst.2));
                let end: f64 = al.residuals().iter().map(|x| x * x).sum();
                let start = rss3(&t, &pts, guess, to_point);
                r.check(end <= start + 1e-12 * (1.0 + start), "3D: the residual sum of squares is not larger than at the starting guess", || format!("{}: start {:?} end {:?}", d(), start, end));
            }
        } }
    }
}

// ---------------------------------------------------------------------------------------------- 2D
fn outline_samples(v: &[Point2], dev: bool) -> Vec<Point2> {
    let mut out = vec![];
    let mut k = 0usize;
    for i in 0..v.len() - 1 {
        let ab = v[i + 1] - v[i];
        let e = ab.normalize();
        let n = Vector2::new(e.y, -e.x);
        for j in 1..8 {
            k += 1;
            let off = if dev { -0.03 + 0.01 * ((k * 3) % 7) as f64 } else { 0.0 };
            out.push(v[i] + ab * (j as f64 / 8.0) + n * off);
        }
    }
    if dev {
        // beyond convex corners (closest outline point is a vertex), and a bit-identical repeat
        out.extend([v[0] + Vector2::new(-0.0625, -0.03125), v[1] + Vector2::new(0.03125, -0.0625)]);
        let rep = out[10];
        out.insert(10, rep);
        let last = *out.last().unwrap();
        out.push(last);
    }
    out
}
fn id_err2(t: &Iso2) -> f64 { (t.to_homogeneous() - Iso2::identity().to_homogeneous()).amax() }

fn run2(r: &mut Report) {
    let p = |x: f64, y: f64| Point2::new(x, y);
    let shapes: Vec<(&str, Vec<Point2>)> = vec![
        ("closed L outline (0,0),(6,0),(6,2),(3,2),(3,4),(0,4)", vec![p(0.0, 0.0), p(6.0, 0.0), p(6.0, 2.0), p(3.0, 2.0), p(3.0, 4.0), p(0.0, 4.0), p(0.0, 0.0)]),
        ("closed rectangle 4x3", vec![p(0.0, 0.0), p(4.0, 0.0), p(4.0, 3.0), p(0.0, 3.0), p(0.0, 0.0)]),
    ];
    let deg = std::f64::consts::PI / 180.0;
    let disps: Vec<(&str, Iso2)> = vec![
        ("identity", Iso2::identity()),
        ("(0.04,-0.03) + 0.02 rad", Iso2::translation(0.04, -0.03) * Iso2::rotation(0.02)),
        ("(0.05,0.05) + 3 degrees", Iso2::translation(0.05, 0.05) * Iso2::rotation(3.0 * deg)),
        ("(-0.05,0.0) - 3 degrees", Iso2::translation(-0.05, 0.0) * Iso2::rotation(-3.0 * deg)),
        ("tiny: (3e-5,-2e-5) + 4e-6 rad", Iso2::translation(3.0e-5, -2.0e-5) * Iso2::rotation(4.0e-6)),
        ("tiny: (1e-5,1e-5)", Iso2::translation(1.0e-5, 1.0e-5)),
    ];
    let guesses: Vec<(&str, Iso2)> = vec![("identity", Iso2::identity()), ("(0.01,-0.01) + 0.005 rad", Iso2::translation(0.01, -0.01) * Iso2::rotation(0.005))];
    for (sn, verts) in shapes.iter() {
        let curve = Curve2::from_points(verts, 1e-8, true).unwrap();
        let v = curve.points().to_vec();
        for (set, dev) in [("A: on the outline", false), ("B: measured", true)] {
            let base = outline_samples(&v, dev);
            for (dn, disp) in disps.iter() { for (gn, guess) in guesses.iter() {
                r.case();
                let pts: Vec<Point2> = base.iter().map(|q| disp * q).collect();
                let d = || format!("2D {}, sample set {}, displacement {}, guess {}", sn, set, dn, gn);
                let al = match points_to_curve(&pts, &curve, guess) {
                    Ok(a) => a,
                    Err(_) => { if !dev { r.check(false, "2D: alignment of a displacement inside the basin succeeds", d); } continue; }
                };
                if !dev {
                    let e = id_err2(&(al.transform() * disp));
                    r.check(e < 1e-6, "2D: returned transform composed with the displacement is the identity within 1e-6", || format!("{}: max |entry of transform*displacement - I| = {:?}", d(), e));
                }
                r.check(al.residuals().len() == pts.len(), "2D: one residual per input point", d);
                if al.residuals().len() != pts.len() { continue; }
                let mut ok = true;
                let mut worst = (0usize, 0.0, 0.0);
                for (i, q) in pts.iter().enumerate() {
                    let want = curve_residuals(&v, &(al.transform() * q));
                    let got = al.residuals()[i];
                    if !want.iter().any(|x| near(got, *x)) && ok { ok = false; worst = (i, got, want[0]); }
                }
                r.check(ok, "2D: residual i is the signed distance of (returned transform * input point i) to the curve along the edge normal", || format!("{}: residual[{}] = {:?}, recomputed {:?}", d(), worst.0, worst.1, worst.2));
                let end: f64 = al.residuals().iter().map(|x| x * x).sum();
                let start: f64 = pts.iter().map(|q| { let w = curve_residuals(&v, &(guess * q)); let x = w.iter().map(|x| x.abs()).fold(0.0, f64::max); x * x }).sum();
                r.check(end <= start + 1e-12 * (1.0 + start), "2D: the residual sum of squares is not larger than at the starting guess", || format!("{}: start {:?} end {:?}", d(), start, end));
            } }
        }
    }
}


// ---------------------------------------------------------------------------------------------- round 2: shared clause evaluation
/// all clauses of one 3D alignment; `total` = displacement of the samples (pts = total * base); recovery is only demanded
/// when `recover` (sample set exactly on the mesh, displacement / guess inside the stated basin)
fn eval3(r: &mut Report, t: &[[Point3; 3]], mesh: &Mesh, pts: &[Point3], total: &Iso3, guess: &Iso3, to_point: bool, recover: bool, d: &dyn Fn() -> String) -> Option<(Iso3, Vec<f64>)> {
    r.case();
    let mode = if to_point { DistMode::ToPoint } else { DistMode::ToPlane };
    let al = match points_to_mesh(pts, mesh, guess, mode) {
        Ok(a) => a,
        Err(_) => { if recover { r.check(false, "3D: alignment of a displacement inside the basin succeeds", d); } return None; }
    };
    if recover {
        let e = id_err3(&(al.transform() * total));
        r.check(e < 1e-6, "3D: returned transform composed with the displacement is the identity within 1e-6", || format!("{}: max |entry of transform*displacement - I| = {:?}", d(), e));
    }
    r.check(al.residuals().len() == pts.len(), "3D: one residual per input point", d);
    if al.residuals().len() != pts.len() { return None; }
    let mut ok = true;
    let mut worst = (0usize, 0.0, 0.0);
    for (i, p) in pts.iter().enumerate() {
        let (dist, planes) = mesh_residuals(t, &(al.transform() * p));
        let got = al.residuals()[i];
        let fine = if to_point { near(got, dist) } else { planes.iter().any(|x| near(got, *x)) };
        if !fine && ok { ok = false; worst = (i, got, if to_point { dist } else { planes[0] }); }
    }
    r.check(ok, "3D: residual i is the mode-specific distance of (returned transform * input point i) to the mesh", || format!("{}: residual[{}] = {:?}, recomputed {:?}", d(), worst.0, worst.1, worst.2));
    let end: f64 = al.residuals().iter().map(|x| x * x).sum();
    let start = rss3(t, pts, guess, to_point);
    r.check(end <= start + 1e-12 * (1.0 + start), "3D: the residual sum of squares is not larger than at the starting guess", || format!("{}: start {:?} end {:?}", d(), start, end));
    Some((*al.transform(), al.residuals().to_vec()))
}
fn eval2(r: &mut Report, v: &[Point2], curve: &Curve2, pts: &[Point2], total: &Iso2, guess: &Iso2, recover: bool, d: &dyn Fn() -> String) -> Option<(Iso2, Vec<f64>)> {
    r.case();
    let al = match points_to_curve(pts, curve, guess) {
        Ok(a) => a,
        Err(_) => { if recover { r.check(false, "2D: alignment of a displacement inside the basin succeeds", d); } return None; }
    };
    if recover {
        let e = id_err2(&(al.transform() * total));
        r.check(e < 1e-6, "2D: returned transform composed with the displacement is the identity within 1e-6", || format!("{}: max |entry of transform*displacement - I| = {:?}", d(), e));
    }
    r.check(al.residuals().len() == pts.len(), "2D: one residual per input point", d);
    if al.residuals().len() != pts.len() { return None; }
    let mut ok = true;
    let mut worst = (0usize, 0.0, 0.0);
    for (i, q) in pts.iter().enumerate() {
        let want = curve_residuals(v, &(al.transform() * q));
        let got = al.residuals()[i];
        if !want.iter().any(|x| near(got, *x)) && ok { ok = false; worst = (i, got, want[0]); }
    }
    r.check(ok, "2D: residual i is the signed distance of (returned transform * input point i) to the curve along the edge normal", || format!("{}: residual[{}] = {:?}, recomputed {:?}", d(), worst.0, worst.1, worst.2));
    let end: f64 = al.residuals().iter().map(|x| x * x).sum();
    let start: f64 = pts.iter().map(|q| { let w = curve_residuals(v, &(guess * q)); let x = w.iter().map(|x| x.abs()).fold(0.0, f64::max); x * x }).sum();
    r.check(end <= start + 1e-12 * (1.0 + start), "2D: the residual sum of squares is not larger than at the starting guess", || format!("{}: start {:?} end {:?}", d(), start, end));
    Some((*al.transform(), al.residuals().to_vec()))
}
fn box_tris(mesh: &Mesh) -> Vec<[Point3; 3]> { mesh.faces().iter().map(|f| [mesh.vertices()[f[0] as usize], mesh.vertices()[f[1] as usize], mesh.vertices()[f[2] as usize]]).collect() }
fn rot3(axis: (f64, f64, f64), angle: f64) -> Iso3 { Iso3::from_parts(Translation3::new(0.0, 0.0, 0.0), UnitQuaternion::from_axis_angle(&crate::geom3::UnitVec3::new_normalize(Vector3::new(axis.0, axis.1, axis.2)), angle)) }
/// the rotation engeom's parameter block stands for: Rx(roll) * Ry(pitch) * Rz(yaw)
fn wpr(t: (f64, f64, f64), e: (f64, f64, f64)) -> Iso3 {
    let q = UnitQuaternion::from_euler_angles(e.0, 0.0, 0.0) * UnitQuaternion::from_euler_angles(0.0, e.1, 0.0) * UnitQuaternion::from_euler_angles(0.0, 0.0, e.2);
    Iso3::from_parts(Translation3::new(t.0, t.1, t.2), q)
}

// ---------------------------------------------------------------------------------------------- round 2: 3D
/// dense grid on the six faces of the 4x3x2 box: n x n points per face, margin 1/64 from the edges (dyadic margin)
fn box_grid(n: usize) -> Vec<Point3> {
    let (w, h, d) = (4.0, 3.0, 2.0);
    let m = 0.015625;
    let f = |k: usize, len: f64| m + (len - 2.0 * m) * k as f64 / (n - 1) as f64;
    let mut pts = vec![];
    for i in 0..n { for j in 0..n {
        pts.push(Point3::new(f(i, w), f(j, h), 0.0)); pts.push(Point3::new(f(i, w), f(j, h), d));
        pts.push(Point3::new(f(i, w), 0.0, f(j, d))); pts.push(Point3::new(f(i, w), h, f(j, d)));
        pts.push(Point3::new(0.0, f(i, h), f(j, d))); pts.push(Point3::new(w, f(i, h), f(j, d)));
    } }
    pts
}

fn run3_round2(r: &mut Report) {
    let mesh = Mesh::create_box(4.0, 3.0, 2.0, false);
    let t = box_tris(&mesh);
    let (clean, _) = box_samples();
    let meas = measured3();
    let deg = std::f64::consts::PI / 180.0;
    let pi = std::f64::consts::PI;
    let modes = [false, true];
    let mname = |tp: bool| if tp { "ToPoint" } else { "ToPlane" };

    // (1) starting guesses with large rotations: roll / pitch / yaw near +-pi and +-pi/2.  The samples are moved so that the
    // exact answer is D * G for a small D (translation <= 0.05, rotation <= 0.05 rad = 2.9 degrees): with D = Rx(+-0.05) /
    // Rz(+-0.05) on a guess of roll / yaw +-(pi - 0.02) the euler parameter has to cross +-pi during the solve
    let guesses: Vec<(&str, Iso3)> = vec![
        ("roll pi-0.02: (3,-2,1) Rx(pi-0.02)", wpr((3.0, -2.0, 1.0), (pi - 0.02, 0.0, 0.0))),
        ("roll -(pi-0.02): (3,-2,1) Rx(-pi+0.02)", wpr((3.0, -2.0, 1.0), (-pi + 0.02, 0.0, 0.0))),
        ("yaw pi-0.02: (-1,0.5,2) Rz(pi-0.02)", wpr((-1.0, 0.5, 2.0), (0.0, 0.0, pi - 0.02))),
        ("yaw -(pi-0.02): (-1,0.5,2) Rz(-pi+0.02)", wpr((-1.0, 0.5, 2.0), (0.0, 0.0, -pi + 0.02))),
        ("roll exactly pi: (0,1,0) Rx(pi)", wpr((0.0, 1.0, 0.0), (pi, 0.0, 0.0))),
        ("yaw exactly -pi: (0,0,1) Rz(-pi)", wpr((0.0, 0.0, 1.0), (0.0, 0.0, -pi))),
        ("pitch pi-0.02 (decodes to roll pi, yaw pi): (1,1,1) Ry(pi-0.02)", wpr((1.0, 1.0, 1.0), (0.0, pi - 0.02, 0.0))),
        ("roll pi/2, yaw -pi/2: (2,0,-1) Rx(pi/2) Rz(-pi/2)", wpr((2.0, 0.0, -1.0), (FRAC_PI_2, 0.0, -FRAC_PI_2))),
        ("roll -pi/2, pitch 1.4, yaw pi/2: (0,-3,0.5) Rx(-pi/2) Ry(1.4) Rz(pi/2)", wpr((0.0, -3.0, 0.5), (-FRAC_PI_2, 1.4, FRAC_PI_2))),
        ("roll 3.1, pitch -1.0, yaw -3.1: (1,2,3) Rx(3.1) Ry(-1) Rz(-3.1)", wpr((1.0, 2.0, 3.0), (3.1, -1.0, -3.1))),
        ("roll -3.0, pitch 0.5, yaw 3.0: (-2,1,0) Rx(-3) Ry(0.5) Rz(3)", wpr((-2.0, 1.0, 0.0), (-3.0, 0.5, 3.0))),
    ];
    let smalls: Vec<(&str, Iso3)> = vec![
        ("identity", Iso3::identity()),
        ("translation (0.05,-0.03,0.04)", iso3((0.05, -0.03, 0.04), (0.0, 0.0, 0.0))),
        ("Rx(+0.05)", rot3((1.0, 0.0, 0.0), 0.05)),
        ("Rx(-0.05)", rot3((1.0, 0.0, 0.0), -0.05)),
        ("Rz(+0.05) + (0.02,0.01,-0.03)", Iso3::from_parts(Translation3::new(0.02, 0.01, -0.03), rot3((0.0, 0.0, 1.0), 0.05).rotation)),
        ("Rz(-0.05)", rot3((0.0, 0.0, 1.0), -0.05)),
        ("Ry(+0.05)", rot3((0.0, 1.0, 0.0), 0.05)),
        ("3 degrees about (1,1,1)", rot3((1.0, 1.0, 1.0), 3.0 * deg)),
    ];
    for (set, base) in [("A: on the faces", &clean), ("B: measured", &meas)] {
        for (gn, guess) in guesses.iter() { for (sn, small) in smalls.iter() {
            // exact answer C = small * guess; the samples are C^-1 * base
            let total = (small * guess).inverse();
            let pts: Vec<Point3> = base.iter().map(|p| total * p).collect();
            for to_point in modes {
                let d = || format!("3D box 4x3x2, sample set {}, samples moved by (D*G)^-1 with D = {}, starting guess G = {}, mode {}", set, sn, gn, mname(to_point));
                eval3(r, &t, &mesh, &pts, &total, guess, to_point, set.starts_with('A'), &d);
            }
        } }
    }

    // (2) far-away parts: the samples sit 10x .. 100x the part size (4) away, the guess brings them back to within 0.2 units
    // and 3 degrees of the answer
    let fars: Vec<(&str, Iso3)> = vec![
        ("(40,-30,20) + axis-angle (0.3,-0.2,0.4)", Iso3::new(Vector3::new(40.0, -30.0, 20.0), Vector3::new(0.3, -0.2, 0.4))),
        ("(100,-50,30) + axis-angle (0.3,-0.2,0.4)", Iso3::new(Vector3::new(100.0, -50.0, 30.0), Vector3::new(0.3, -0.2, 0.4))),
        ("(-400,300,200), no rotation", Iso3::new(Vector3::new(-400.0, 300.0, 200.0), Vector3::zeros())),
        ("(250,0,-400) + axis-angle (-1.0,0.5,2.0)", Iso3::new(Vector3::new(250.0, 0.0, -400.0), Vector3::new(-1.0, 0.5, 2.0))),
    ];
    let offs: Vec<(&str, Iso3)> = vec![
        ("(0.2,-0.1,0.15) + axis-angle (0.03,0.02,-0.03)", Iso3::new(Vector3::new(0.2, -0.1, 0.15), Vector3::new(0.03, 0.02, -0.03))),
        ("(-0.1,0.15,0.05) + axis-angle (-0.02,0.04,0.01)", Iso3::new(Vector3::new(-0.1, 0.15, 0.05), Vector3::new(-0.02, 0.04, 0.01))),
    ];
    for (set, base) in [("A: on the faces", &clean), ("B: measured", &meas)] {
        for (fn_, far) in fars.iter() { for (on, off) in offs.iter() {
            let pts: Vec<Point3> = base.iter().map(|p| far * p).collect();
            let guess = off * far.inverse();
            for to_point in modes {
                let d = || format!("3D box 4x3x2, sample set {}, far-away displacement {}, starting guess = ({}) * displacement^-1, mode {}", set, fn_, on, mname(to_point));
                eval3(r, &t, &mesh, &pts, far, &guess, to_point, set.starts_with('A'), &d);
            }
        } }
    }

    // (3) exactly representable configurations: dyadic sample coordinates on axis-parallel faces, pure dyadic translations,
    // identity / pure dyadic translation guesses (one solver step can land on residuals that are exactly zero: on the
    // reference build 6 of these ToPlane cases and 2 of the far-away ones end with all residuals == 0.0)
    for (sx, sy, sz) in [(0.25, -0.5, 0.125), (-0.125, 0.25, 0.0), (0.5, 0.5, 0.5), (0.0, 0.0, 0.375), (0.0625, 0.0, 0.0)] {
        for (gx, gy, gz) in [(0.0, 0.0, 0.0), (-0.125, 0.25, -0.0625), (-256.0, 128.0, 64.0)] {
            // the samples are displaced by the translation s - g, the guess is the translation g (the answer is g - s)
            let total = iso3((sx - gx, sy - gy, sz - gz), (0.0, 0.0, 0.0));
            let guess = iso3((gx, gy, gz), (0.0, 0.0, 0.0));
            let pts: Vec<Point3> = clean.iter().map(|p| total * p).collect();
            for to_point in modes {
                let d = || format!("3D box 4x3x2, sample set A: on the faces, exactly representable translation ({:?},{:?},{:?}), guess translation ({:?},{:?},{:?}), mode {}", sx - gx, sy - gy, sz - gz, gx, gy, gz, mname(to_point));
                eval3(r, &t, &mesh, &pts, &total, &guess, to_point, true, &d);
            }
        }
    }

    // (4) a large sample set (4374 >= 4096 points): 27 x 27 grid per face up to 1/64 from the edges
    let grid = box_grid(27);
    let total = iso3((0.2, -0.15, 0.1), (0.03, -0.02, 0.04));
    let pts: Vec<Point3> = grid.iter().map(|p| total * p).collect();
    for to_point in modes {
        let d = || format!("3D box 4x3x2, 4374 samples (27x27 grid per face, 1/64 from the edges), displacement (0.2,-0.15,0.1) + euler (0.03,-0.02,0.04), guess identity, mode {}", mname(to_point));
        eval3(r, &t, &mesh, &pts, &total, &Iso3::identity(), to_point, true, &d);
    }
}

// ---------------------------------------------------------------------------------------------- round 2: 2D
fn run2_round2(r: &mut Report) {
    let p = |x: f64, y: f64| Point2::new(x, y);
    let shapes: Vec<(&str, Vec<Point2>)> = vec![
        ("closed L outline (0,0),(6,0),(6,2),(3,2),(3,4),(0,4)", vec![p(0.0, 0.0), p(6.0, 0.0), p(6.0, 2.0), p(3.0, 2.0), p(3.0, 4.0), p(0.0, 4.0), p(0.0, 0.0)]),
        ("closed rectangle 4x3", vec![p(0.0, 0.0), p(4.0, 0.0), p(4.0, 3.0), p(0.0, 3.0), p(0.0, 0.0)]),
    ];
    let deg = std::f64::consts::PI / 180.0;
    let offs: Vec<(&str, Iso2)> = vec![
        ("identity", Iso2::identity()),
        ("(0.05,-0.04) + 3 degrees", Iso2::new(Vector2::new(0.05, -0.04), 3.0 * deg)),
        ("(-0.03,0.02) - 2 degrees", Iso2::new(Vector2::new(-0.03, 0.02), -2.0 * deg)),
    ];
    for (sn, verts) in shapes.iter() {
        let curve = Curve2::from_points(verts, 1e-8, true).unwrap();
        let v = curve.points().to_vec();
        for (set, dev) in [("A: on the outline", false), ("B: measured", true)] {
            let base = outline_samples(&v, dev);
            // (1) starting guesses with large rotations: the part is turned by 90 .. 180 degrees in either direction, the guess
            // is the exact correction disturbed by at most (0.05, 0.04) and 3 degrees
            for turn in [90.0, 120.0, 135.0, 170.0, 175.0, 180.0, -90.0, -120.0, -135.0, -170.0, -175.0] {
                let disp = Iso2::new(Vector2::new(3.0, -2.0), turn * deg);
                let pts: Vec<Point2> = base.iter().map(|q| disp * q).collect();
                for (on, off) in offs.iter() {
                    let guess = off * disp.inverse();
                    let d = || format!("2D {}, sample set {}, part turned by {:?} degrees + (3,-2), starting guess = ({}) * displacement^-1", sn, set, turn, on);
                    eval2(r, &v, &curve, &pts, &disp, &guess, !dev, &d);
                }
            }
            // (2) far-away parts: 10x .. 100x the part size (6) away, the guess within 0.2 units and 3 degrees of the answer
            for (fx, fy, fa) in [(60.0, -40.0, 0.3), (600.0, 400.0, -0.7), (-300.0, 50.0, 0.0), (0.0, 128.0, 2.5)] {
                let disp = Iso2::new(Vector2::new(fx, fy), fa);
                let pts: Vec<Point2> = base.iter().map(|q| disp * q).collect();
                for (on, off) in [("(0.15,-0.1) + 3 degrees", Iso2::new(Vector2::new(0.15, -0.1), 3.0 * deg)), ("(-0.1,0.2) - 2 degrees", Iso2::new(Vector2::new(-0.1, 0.2), -2.0 * deg))] {
                    let guess = off * disp.inverse();
                    let d = || format!("2D {}, sample set {}, far-away displacement ({:?},{:?}) + {:?} rad, starting guess = ({}) * displacement^-1", sn, set, fx, fy, fa, on);
                    eval2(r, &v, &curve, &pts, &disp, &guess, !dev, &d);
                }
            }
        }
        // (3) exactly representable configurations (axis-parallel outline, dyadic sample coordinates, pure dyadic translation,
        // identity guess): one solver step can land on residuals that are exactly zero (on the reference build 4 of these
        // 12 cases and 2 of the far-away ones end with all residuals == 0.0)
        let base = outline_samples(&v, false);
        for (sx, sy) in [(0.25, -0.5), (-0.125, 0.25), (0.5, 0.5), (0.0, 0.375), (0.0625, 0.0), (0.125, 0.125)] {
            let disp = Iso2::translation(sx, sy);
            let pts: Vec<Point2> = base.iter().map(|q| disp * q).collect();
            let d = || format!("2D {}, sample set A: on the outline, exactly representable translation ({:?},{:?}), guess identity", sn, sx, sy);
            eval2(r, &v, &curve, &pts, &disp, &Iso2::identity(), true, &d);
        }
    }
    // (4) a large sample set (>= 4096 points): 700 points per edge of the L outline
    let curve = Curve2::from_points(&shapes[0].1, 1e-8, true).unwrap();
    let v = curve.points().to_vec();
    let mut base = vec![];
    for i in 0..v.len() - 1 { let ab = v[i + 1] - v[i]; for j in 1..=700 { base.push(v[i] + ab * (j as f64 / 701.0)); } }
    let disp = Iso2::new(Vector2::new(0.05, 0.05), 3.0 * deg);
    let pts: Vec<Point2> = base.iter().map(|q| disp * q).collect();
    let d = || format!("2D {}, 4200 samples (700 per edge), displacement (0.05,0.05) + 3 degrees, guess identity", shapes[0].0);
    eval2(r, &v, &curve, &pts, &disp, &Iso2::identity(), true, &d);
}


// ---------------------------------------------------------------------------------------------- round 3: minimal sample sets
/// EXACTLY as many points as parameters: 6 points in the 3-2-1 locating scheme on three mutually orthogonal faces of the box
/// (3D, 6 parameters), 3 points in the 2-1 scheme on two perpendicular edges of the outline (2D, 3 parameters); controls with
/// one more point (7 / 4).  Every point stays at least 0.5 from the edges of its face / 0.75 from the corners of the outline,
/// the displacements are small against that margin: each point keeps its face / edge and the problem is exactly determined.
fn run_minimal(r: &mut Report) {
    let mesh = Mesh::create_box(4.0, 3.0, 2.0, false);
    let t = box_tris(&mesh);
    let p3 = |x: f64, y: f64, z: f64| Point3::new(x, y, z);
    let sets3: Vec<(&str, Vec<Point3>)> = vec![
        ("6 points, 3-2-1: 3 on z=0, 2 on y=0, 1 on x=0", vec![p3(0.5, 0.5, 0.0), p3(3.5, 0.5, 0.0), p3(2.0, 2.5, 0.0), p3(0.5, 0.0, 1.0), p3(3.5, 0.0, 1.0), p3(0.0, 1.5, 1.0)]),
        ("6 points, 3-2-1: 3 on x=4, 2 on z=2, 1 on y=3", vec![p3(4.0, 0.5, 0.5), p3(4.0, 2.5, 0.5), p3(4.0, 1.5, 1.5), p3(0.5, 0.75, 2.0), p3(3.5, 2.25, 2.0), p3(2.0, 3.0, 1.0)]),
        ("6 points, 3-2-1: 3 on y=3, 2 on x=0, 1 on z=2", vec![p3(0.5, 3.0, 0.5), p3(3.5, 3.0, 0.5), p3(2.0, 3.0, 1.5), p3(0.0, 0.5, 0.5), p3(0.0, 2.5, 1.5), p3(2.0, 1.5, 2.0)]),
        ("7 points (control): 3 on z=0, 2 on y=0, 1 on x=0, 1 on z=2", vec![p3(0.5, 0.5, 0.0), p3(3.5, 0.5, 0.0), p3(2.0, 2.5, 0.0), p3(0.5, 0.0, 1.0), p3(3.5, 0.0, 1.0), p3(0.0, 1.5, 1.0), p3(2.0, 1.5, 2.0)]),
    ];
    let disps3: Vec<(&str, Iso3)> = vec![
        ("translation (0.05,-0.03,0.04)", iso3((0.05, -0.03, 0.04), (0.0, 0.0, 0.0))),
        ("euler (0.01,-0.02,0.015) + (0.02,0.01,-0.03)", iso3((0.02, 0.01, -0.03), (0.01, -0.02, 0.015))),
        ("-2 degrees about (1,1,1) + (-0.03,0.02,0.05)", Iso3::from_parts(Translation3::new(-0.03, 0.02, 0.05), rot3((1.0, 1.0, 1.0), -2.0 * std::f64::consts::PI / 180.0).rotation)),
    ];
    let guesses3: Vec<(&str, Iso3)> = vec![("identity", Iso3::identity()), ("small: euler (0.005,0.005,-0.005) + (0.01,-0.01,0.01)", iso3((0.01, -0.01, 0.01), (0.005, 0.005, -0.005)))];
    for (sn, base) in sets3.iter() { for (dn, disp) in disps3.iter() { for (gn, guess) in guesses3.iter() { for to_point in [false, true] {
        let pts: Vec<Point3> = base.iter().map(|p| disp * p).collect();
        let d = || format!("3D box 4x3x2, sample set [{}] {:?}, displacement {}, guess {}, mode {}", sn, base.iter().map(|p| (p.x, p.y, p.z)).collect::<Vec<_>>(), dn, gn, if to_point { "ToPoint" } else { "ToPlane" });
        let mode = if to_point { DistMode::ToPoint } else { DistMode::ToPlane };
        let ok = points_to_mesh(&pts, &mesh, guess, mode).is_ok();
        r.check(ok, "3D: a sample set with exactly as many points as parameters (6 points, 3-2-1 on three faces of the box; 7 as control), displaced inside the basin, is accepted and aligned (Ok)", d);
        eval3(r, &t, &mesh, &pts, disp, guess, to_point, true, &d);
    } } } }
    // 2D: 3 parameters
    let p2 = |x: f64, y: f64| Point2::new(x, y);
    let shapes: Vec<(&str, Vec<Point2>, Vec<(&str, Vec<Point2>)>)> = vec![
        ("closed rectangle 4x3", vec![p2(0.0, 0.0), p2(4.0, 0.0), p2(4.0, 3.0), p2(0.0, 3.0), p2(0.0, 0.0)], vec![
            ("3 points, 2-1: 2 on y=0, 1 on x=0", vec![p2(1.0, 0.0), p2(3.0, 0.0), p2(0.0, 1.5)]),
            ("3 points, 2-1: 2 on x=4, 1 on y=3", vec![p2(4.0, 0.75), p2(4.0, 2.25), p2(2.0, 3.0)]),
            ("4 points (control): 2 on y=0, 1 on x=0, 1 on y=3", vec![p2(1.0, 0.0), p2(3.0, 0.0), p2(0.0, 1.5), p2(2.0, 3.0)]),
        ]),
        ("closed L outline (0,0),(6,0),(6,2),(3,2),(3,4),(0,4)", vec![p2(0.0, 0.0), p2(6.0, 0.0), p2(6.0, 2.0), p2(3.0, 2.0), p2(3.0, 4.0), p2(0.0, 4.0), p2(0.0, 0.0)], vec![
            ("3 points, 2-1: 2 on y=0, 1 on x=6", vec![p2(1.0, 0.0), p2(5.0, 0.0), p2(6.0, 1.0)]),
            ("3 points, 2-1: 2 on x=0, 1 on the inner edge y=2", vec![p2(0.0, 1.0), p2(0.0, 3.0), p2(4.5, 2.0)]),
            ("4 points (control): 2 on y=0, 1 on x=6, 1 on y=4", vec![p2(1.0, 0.0), p2(5.0, 0.0), p2(6.0, 1.0), p2(1.5, 4.0)]),
        ]),
    ];
    let deg = std::f64::consts::PI / 180.0;
    let disps2: Vec<(&str, Iso2)> = vec![
        ("(0.04,-0.03) + 0.02 rad", Iso2::translation(0.04, -0.03) * Iso2::rotation(0.02)),
        ("(0.05,0.05) + 3 degrees", Iso2::translation(0.05, 0.05) * Iso2::rotation(3.0 * deg)),
        ("(-0.05,0.0) - 3 degrees", Iso2::translation(-0.05, 0.0) * Iso2::rotation(-3.0 * deg)),
    ];
    let guesses2: Vec<(&str, Iso2)> = vec![("identity", Iso2::identity()), ("(0.01,-0.01) + 0.005 rad", Iso2::translation(0.01, -0.01) * Iso2::rotation(0.005))];
    for (shn, verts, sets) in shapes.iter() {
        let curve = Curve2::from_points(verts, 1e-8, true).unwrap();
        let v = curve.points().to_vec();
        for (sn, base) in sets.iter() { for (dn, disp) in disps2.iter() { for (gn, guess) in guesses2.iter() {
            let pts: Vec<Point2> = base.iter().map(|q| disp * q).collect();
            let d = || format!("2D {}, sample set [{}] {:?}, displacement {}, guess {}", shn, sn, base.iter().map(|q| (q.x, q.y)).collect::<Vec<_>>(), dn, gn);
            let ok = points_to_curve(&pts, &curve, guess).is_ok();
            r.check(ok, "2D: a sample set with exactly as many points as parameters (3 points, 2-1 on two perpendicular edges; 4 as control), displaced inside the basin, is accepted and aligned (Ok)", d);
            eval2(r, &v, &curve, &pts, disp, guess, true, &d);
        } } }
    }
}

// ---------------------------------------------------------------------------------------------- round 4: open references, very far guesses
/// (a) OPEN reference meshes whose free boundary edges fix a degree of freedom (ToPoint only sees it): an L bracket of two
/// plates (the slide along the fold line is fixed by the plate boundaries alone) and a corner of three plates; sample grids
/// reaching the free edges, displaced by slides along the fold / in the plane of a plate (points slip over a free edge and
/// then lie exactly in the plane of their closest triangle, at a non-zero distance from it) and by small general motions.
/// (b) starting guesses that carry a VERY large translation (the measurement taken 1e5 .. 1e6 units from the nominal part).
fn run_open_and_far(r: &mut Report) {
    let p3 = |x: f64, y: f64, z: f64| Point3::new(x, y, z);
    let bracket = Mesh::new(vec![p3(0.0, 0.0, 0.0), p3(10.0, 0.0, 0.0), p3(10.0, 6.0, 0.0), p3(0.0, 6.0, 0.0), p3(0.0, 0.0, 4.0), p3(0.0, 6.0, 4.0)], vec![[0, 1, 2], [0, 2, 3], [0, 3, 5], [0, 5, 4]], false);
    let mut bs = vec![];
    for j in 0..=12 { let y = j as f64 * 0.5; for i in 1..=10 { bs.push(p3(i as f64, y, 0.0)); } for k in 1..=4 { bs.push(p3(0.0, y, k as f64)); } }
    let corner = Mesh::new(vec![p3(0.0, 0.0, 0.0), p3(8.0, 0.0, 0.0), p3(8.0, 6.0, 0.0), p3(0.0, 6.0, 0.0), p3(0.0, 0.0, 4.0), p3(0.0, 6.0, 4.0), p3(8.0, 0.0, 4.0)],
        vec![[0, 1, 2], [0, 2, 3], [0, 3, 5], [0, 5, 4], [0, 4, 6], [0, 6, 1]], false);
    let mut cs = vec![];
    for i in 1..=8 { for j in 1..=6 { cs.push(p3(i as f64, j as f64, 0.0)); } }
    for j in 1..=6 { for k in 1..=4 { cs.push(p3(0.0, j as f64, k as f64)); } }
    for i in 1..=8 { for k in 1..=4 { cs.push(p3(i as f64, 0.0, k as f64)); } }
    let slides: Vec<(&str, Iso3)> = vec![
        ("slide (0,0.4,0) along the fold line", iso3((0.0, 0.4, 0.0), (0.0, 0.0, 0.0))),
        ("slide (0,-0.25,0) along the fold line", iso3((0.0, -0.25, 0.0), (0.0, 0.0, 0.0))),
        ("(0.05,0.3,-0.04) + euler (0.01,-0.02,0.015)", iso3((0.05, 0.3, -0.04), (0.01, -0.02, 0.015))),
        ("(0.03,-0.02,0.04) + euler (-0.01,0.01,0.02)", iso3((0.03, -0.02, 0.04), (-0.01, 0.01, 0.02))),
    ];
    for (mname, mesh, base, modes) in [("open L bracket: plates 10x6 in z=0 and 4x6 in x=0 sharing the fold x=z=0", &bracket, &bs, vec![true]), ("open corner of three plates 8x6 (z=0), 4x6 (x=0), 8x4 (y=0)", &corner, &cs, vec![false, true])] {
        let t = box_tris(mesh);
        for (dn, disp) in slides.iter() { for to_point in modes.iter() {
            let pts: Vec<Point3> = base.iter().map(|p| disp * p).collect();
            let d = || format!("3D {}, {} samples on a unit / half-unit grid reaching the free edges, displacement {}, guess identity, mode {}", mname, base.len(), dn, if *to_point { "ToPoint" } else { "ToPlane" });
            eval3(r, &t, mesh, &pts, disp, &Iso3::identity(), *to_point, true, &d);
        } }
    }
    // (b) very far guesses
    let boxm = Mesh::create_box(4.0, 3.0, 2.0, false);
    let t = box_tris(&boxm);
    let (clean, _) = box_samples();
    for (fnm, far) in [("(4e5,-3e5,2e5) + axis-angle (0.3,-0.2,0.4)", Iso3::new(Vector3::new(4.0e5, -3.0e5, 2.0e5), Vector3::new(0.3, -0.2, 0.4))), ("(-1e6,0,5e5) + axis-angle (-1.0,0.5,2.0)", Iso3::new(Vector3::new(-1.0e6, 0.0, 5.0e5), Vector3::new(-1.0, 0.5, 2.0)))] {
        for (on, off) in [("(0.2,-0.1,0.15) + axis-angle (0.03,0.02,-0.03)", Iso3::new(Vector3::new(0.2, -0.1, 0.15), Vector3::new(0.03, 0.02, -0.03))), ("(-0.1,0.15,0.05) + axis-angle (-0.02,0.04,0.1)", Iso3::new(Vector3::new(-0.1, 0.15, 0.05), Vector3::new(-0.02, 0.04, 0.1)))] {
            let pts: Vec<Point3> = clean.iter().map(|p| far * p).collect();
            let guess = off * far.inverse();
            for to_point in [false, true] {
                let d = || format!("3D box 4x3x2, sample set A: on the faces, VERY far displacement {}, starting guess = ({}) * displacement^-1, mode {}", fnm, on, if to_point { "ToPoint" } else { "ToPlane" });
                eval3(r, &t, &boxm, &pts, &far, &guess, to_point, true, &d);
            }
        }
    }
    let p2 = |x: f64, y: f64| Point2::new(x, y);
    let deg = std::f64::consts::PI / 180.0;
    for (sn, verts) in [("closed L outline (0,0),(6,0),(6,2),(3,2),(3,4),(0,4)", vec![p2(0.0, 0.0), p2(6.0, 0.0), p2(6.0, 2.0), p2(3.0, 2.0), p2(3.0, 4.0), p2(0.0, 4.0), p2(0.0, 0.0)]), ("closed rectangle 4x3", vec![p2(0.0, 0.0), p2(4.0, 0.0), p2(4.0, 3.0), p2(0.0, 3.0), p2(0.0, 0.0)])] {
        let curve = Curve2::from_points(&verts, 1e-8, true).unwrap();
        let v = curve.points().to_vec();
        let base = outline_samples(&v, false);
        for (fx, fy, fa) in [(3.0e5, -2.0e5, 0.3), (-1.0e6, 4.0e5, -0.7), (2.5e5, 2.5e5, 2.5)] {
            let disp = Iso2::new(Vector2::new(fx, fy), fa);
            let pts: Vec<Point2> = base.iter().map(|q| disp * q).collect();
            for (on, off) in [("(0.15,-0.1) + 3 degrees", Iso2::new(Vector2::new(0.15, -0.1), 3.0 * deg)), ("(-0.1,0.2) - 8 degrees", Iso2::new(Vector2::new(-0.1, 0.2), -8.0 * deg))] {
                let guess = off * disp.inverse();
                let d = || format!("2D {}, sample set A: on the outline, VERY far displacement ({:?},{:?}) + {:?} rad, starting guess = ({}) * displacement^-1", sn, fx, fy, fa, on);
                eval2(r, &v, &curve, &pts, &disp, &guess, true, &d);
            }
        }
    }
}

pub fn run() -> Option<Report> {
    let mut r = Report::new("3D: box 4x3x2, sample sets A (54 points on the faces) and B (lifted 0.02..0.08 off the faces + 6 edge-closest points + 2 bit-identical repeats), 6 displacements (translations <= 0.05, rotations <= 3 degrees, one of size 3e-5) x 4 starting guesses (identity, small, pitch exactly -90 / +90 degrees plus roll) x {ToPlane, ToPoint}; 2D: closed L outline and 4x3 rectangle, sets A (7 points per edge) and B (offset -0.03..0.03 along the normal + 2 corner-closest points + 2 repeats), 6 displacements x 2 guesses; ROUND 2 (same clauses, same shapes): starting guesses with large rotations - 3D: 11 guesses with roll / pitch / yaw near +-pi and +-pi/2 (roll and yaw +-(pi-0.02) with the answer at +-(pi+0.03) so that the euler parameter crosses +-pi during the solve, roll exactly pi, yaw exactly -pi, pitch pi-0.02, quarter turns, mixed) x 8 small corrections (<= 0.05 units, <= 0.05 rad) x both sample sets x both modes; 2D: part turned by +-90, +-120, +-135, +-170, +-175, 180 degrees x 3 guesses within (0.05, 3 degrees) of the correction; far-away parts - 3D: 4 displacements of 54 .. 540 units (10x .. 100x the part size) x 2 guesses within 0.2 units / 3 degrees x both modes, 2D: 4 displacements of 72 .. 720 units x 2 guesses; exactly representable configurations (dyadic samples, pure dyadic translations, identity / dyadic translation guesses; several end with all residuals exactly 0.0 after one solver step): 3D 5 x 3 x both modes, 2D 6 per shape; large sample sets: 3D 4374 points (27x27 grid per face up to 1/64 from the edges) in both modes, 2D 4200 points on the L outline; ROUND 3: MINIMAL sample sets (as many residuals as parameters) - 3D: 6 points in the 3-2-1 locating scheme on three mutually orthogonal faces of the box (3 arrangements, every point >= 0.5 from the edges of its face) and one 7-point control x 3 displacements (<= 0.05 units, <= 2 degrees) x 2 guesses x both modes; 2D: 3 points 2-1 on two perpendicular edges (2 arrangements per outline) and one 4-point control x 3 displacements x 2 guesses: the set is accepted (Ok), recovered within 1e-6 and the residual clauses hold; ROUND 4: OPEN references - L bracket (plates 10x6 and 4x6 sharing a fold; 182 samples incl. points on the free edges; ToPoint) and a corner of three plates (104 samples; both modes) x 4 displacements (slides 0.4 / -0.25 along the fold line = in the plane of both plates, two small general motions), guess identity; VERY far displacements - 3D box: (4e5,-3e5,2e5) and (-1e6,0,5e5) with rotations x 2 guesses within 0.2 units / 6 degrees x both modes, 2D: (3e5,-2e5), (-1e6,4e5), (2.5e5,2.5e5) with rotations x 2 guesses within 0.25 units / 8 degrees on both outlines; recovery tolerance 1e-6, residual tolerance 1e-9 relative");
    run3(&mut r);
    run2(&mut r);
    run3_round2(&mut r);
    run2_round2(&mut r);
    run_minimal(&mut r);
    run_open_and_far(&mut r);
    Some(r)
}
