//! C07 bounded: rigid alignment on the REAL code (levenberg-marquardt driver, parry projections included).
//! 3D reference: box 4x3x2 (non-solid).  Sample sets: (A) 54 points exactly on the six faces (3x3 per face, at least
//! 0.5 from every edge); (B) "measured" set = the same points lifted off their face by deviations 0.02..0.08 varying
//! from point to point, plus 6 points outside the box whose closest mesh point is on an EDGE, plus one point repeated
//! bit-for-bit right after itself.  2D reference: closed L-shaped outline and closed 4x3 rectangle; (A) 7 points per edge
//! strictly inside the edges, (B) the same points offset along the edge normals by varying signed deviations (-0.03..0.03) plus points beyond
//! convex corners plus one repeated point.  Displacements: identity, translations up to 0.05, rotations up to 3 degrees,
//! and a tiny one (3e-5, 4e-6 rad); starting guesses: identity, a small non-identity guess, and (3D) guesses with a pitch
//! of exactly -90 / +90 degrees plus roll (sample set moved so that such a guess is in the basin); both DistMode values.
//! Clauses: (A) the alignment succeeds and transform o displacement == identity within 1e-6; (A and B, every successful
//! alignment) residual i == the mode-specific distance of transform * point i to the reference, recomputed by brute force
//! over all triangles / segments (any of the nearest faces / edges where the closest point is on an edge / vertex), and
//! the residual sum of squares is not larger than at the starting guess.
//! ROUND 2 (run3_round2 / run2_round2, same clauses through eval3 / eval2): starting guesses with large rotations (3D:
//! euler parameters near +-pi and +-pi/2, incl. parameters that cross +-pi during the solve; 2D: part turned by 90..180
//! degrees either way), far-away parts (10x .. 100x the part size, guess within 0.2 units / 3 degrees, both modes),
//! exactly representable configurations whose solve ends on residuals that are exactly 0.0, sample sets of >= 4096 points.
//! ROUND 3 (run_minimal, same clauses + "is accepted"): sample sets with EXACTLY as many points as parameters - 3D: 6 points in
//! the 3-2-1 locating scheme on three mutually orthogonal faces of the box (3 arrangements) and a 7-point control; 2D: 3 points
//! 2-1 on two perpendicular edges (2 arrangements per outline) and a 4-point control; 3 displacements x 2 guesses (x both modes).
//! ROUND 4 (run_open_and_far, same clauses): OPEN reference meshes whose free boundary edges fix a degree of freedom - an L
//! bracket of two plates (ToPoint; slides along the fold line) and a corner of three plates (both modes) with sample grids
//! reaching the free edges; starting guesses carrying a VERY large translation (3.6e5 .. 1.1e6 units), 3D and 2D.
//! WAVE 5 (run_w5_3d / run_w5_2d / run_w5_zero; audit table in notes/w5_audit_C07.md; same clauses, tolerances scaled with the
//! reference: length tolerance = 1e-9 * (part scale + value) + 2e-14 * largest coordinate; recovery is measured AT the sample
//! points: |T*D*p - p| <= tol * part scale and rotation(T*D) == I within tol): REFERENCES that are tiny (x 2^-12, extent 1e-3),
//! large (x 2^10) and far from the origin (3e4, 1e6), a right-angled wedge 6/4/3 with a slanted face (also with reversed and
//! mixed winding), a scalene triangle (CCW and CW) and an OPEN hook polyline; measured sets with deviations on BOTH sides and
//! points diagonally off an edge / beyond a vertex; sample counts 31, 33, 65, 130, 1001, 4099, 16411 (100003 in the thorough
//! tier) clean and measured; every point twice (not neighbours); near-identity displacements (1e-8 about the part centre, 1e-8
//! rad about the ORIGIN with a lever arm of 3e4 / 1e6; tolerance 1e-9) and displacements of 10 .. 15 degrees + 0.3; the exact
//! answer as a non-identity starting guess with all residuals exactly 0.0 (no solver step).  HONESTY ONLY (no recovery is
//! demanded; if the call returns Ok the residual / RSS / finiteness clauses must hold): 0 .. 24 points, starting guesses far
//! outside the basin (50 .. 1e12 units away, quarter / half turns) - two of these make the solver fail (Err).
use super::Report;
use crate::common::DistMode;
use crate::geom2::align2::points_to_curve;
use crate::geom2::{Curve2, Iso2, Point2, Vector2};
use crate::geom3::align3::points_to_mesh;
use crate::geom3::{Iso3, Mesh, Point3, Vector3};
use parry3d_f64::na::{Translation3, UnitQuaternion};
use std::f64::consts::FRAC_PI_2;

const RTOL: f64 = 1e-9;

// ---------------------------------------------------------------------------------------------- brute force
fn seg_closest3(a: &Point3, b: &Point3, q: &Point3) -> Point3 { let ab = b - a; a + ab * ((q - a).dot(&ab) / ab.norm_squared()).clamp(0.0, 1.0) }
fn tri_closest(a: &Point3, b: &Point3, c: &Point3, p: &Point3) -> Point3 {
    let n = (b - a).cross(&(c - a));
    let pp = p - n * ((p - a).dot(&n) / n.norm_squared());
    let s0 = (b - a).cross(&(pp - a)).dot(&n);
    let s1 = (c - b).cross(&(pp - b)).dot(&n);
    let s2 = (a - c).cross(&(pp - c)).dot(&n);
    if s0 >= 0.0 && s1 >= 0.0 && s2 >= 0.0 { return pp; }
    let mut best = seg_closest3(a, b, p);
    for (u, v) in [(b, c), (c, a)] { let x = seg_closest3(u, v, p); if (p - x).norm() < (p - best).norm() { best = x; } }
    best
}
/// the admissible values of the residual of point m: (ToPoint distance, list of ToPlane values over all nearest faces)
fn mesh_residuals(t: &[[Point3; 3]], m: &Point3) -> (f64, Vec<f64>) {
    let cp: Vec<Point3> = t.iter().map(|x| tri_closest(&x[0], &x[1], &x[2], m)).collect();
    let d: Vec<f64> = cp.iter().map(|c| (m - c).norm()).collect();
    let dmin = d.iter().cloned().fold(f64::INFINITY, f64::min);
    let mut planes = vec![];
    for (k, x) in t.iter().enumerate() {
        if d[k] <= dmin + 1e-9 {
            let n = (x[1] - x[0]).cross(&(x[2] - x[0])).normalize();
            planes.push(n.dot(&(m - cp[k])).abs());
        }
    }
    (dmin, planes)
}
/// admissible signed residuals of point m against a closed 2D outline: n_e . (m - cp) over all nearest edges e
fn curve_residuals(v: &[Point2], m: &Point2) -> Vec<f64> {
    let mut cps = vec![];
    for i in 0..v.len() - 1 {
        let ab = v[i + 1] - v[i];
        let cp = v[i] + ab * ((m - v[i]).dot(&ab) / ab.norm_squared()).clamp(0.0, 1.0);
        let e = ab.normalize();
        cps.push(((m - cp).norm(), Vector2::new(e.y, -e.x).dot(&(m - cp))));
    }
    let dmin = cps.iter().map(|x| x.0).fold(f64::INFINITY, f64::min);
    cps.iter().filter(|x| x.0 <= dmin + 1e-9).map(|x| x.1).collect()
}
fn near(a: f64, b: f64) -> bool { (a - b).abs() <= RTOL * (1.0 + a.abs().max(b.abs())) }

// ---------------------------------------------------------------------------------------------- 3D
fn box_samples() -> (Vec<Point3>, Vec<Vector3>) {
    let (w, h, d) = (4.0, 3.0, 2.0);
    let mut pts = vec![];
    let mut nrm = vec![];
    for a in [0.5, 2.0, 3.5] { for b in [0.5, 1.5, 2.5] {
        pts.push(Point3::new(a, b, 0.0)); nrm.push(-Vector3::z());
        pts.push(Point3::new(a, b, d)); nrm.push(Vector3::z());
    } }
    for a in [0.5, 2.0, 3.5] { for c in [0.5, 1.0, 1.5] {
        pts.push(Point3::new(a, 0.0, c)); nrm.push(-Vector3::y());
        pts.push(Point3::new(a, h, c)); nrm.push(Vector3::y());
    } }
    for b in [0.5, 1.5, 2.5] { for c in [0.5, 1.0, 1.5] {
        pts.push(Point3::new(0.0, b, c)); nrm.push(-Vector3::x());
        pts.push(Point3::new(w, b, c)); nrm.push(Vector3::x());
    } }
    (pts, nrm)
}
fn measured3() -> Vec<Point3> {
    let (p, n) = box_samples();
    let mut out: Vec<Point3> = p.iter().zip(n.iter()).enumerate().map(|(k, (p, n))| p + n * (0.02 + 0.01 * ((k * 3) % 7) as f64)).collect();
    // closest mesh point on an edge of the box
    out.extend([Point3::new(-0.0625, -0.0625, 1.0), Point3::new(4.0625, 1.5, 2.03125), Point3::new(2.0, 3.0625, -0.03125),
                Point3::new(-0.03125, 1.0, 2.0625), Point3::new(1.0, -0.0625, 2.0625), Point3::new(4.03125, 3.0625, 0.75)]);
    // two bit-identical consecutive points (in the middle and at the very end)
    let k = 20;
    let rep = out[k];
    out.insert(k, rep);
    let last = *out.last().unwrap();
    out.push(last);
    out
}

fn iso3(t: (f64, f64, f64), e: (f64, f64, f64)) -> Iso3 { Iso3::from_parts(Translation3::new(t.0, t.1, t.2), UnitQuaternion::from_euler_angles(e.0, e.1, e.2)) }
fn id_err3(t: &Iso3) -> f64 { (t.to_homogeneous() - Iso3::identity().to_homogeneous()).amax() }

fn rss3(t: &[[Point3; 3]], pts: &[Point3], tf: &Iso3, to_point: bool) -> f64 {
    pts.iter().map(|p| { let (d, pl) = mesh_residuals(t, &(tf * p)); let x = if to_point { d } else { pl.iter().cloned().fold(0.0, f64::max) }; x * x }).sum()
}

fn run3(r: &mut Report) {
    let mesh = Mesh::create_box(4.0, 3.0, 2.0, false);
    let t: Vec<[Point3; 3]> = mesh.faces().iter().map(|f| [mesh.vertices()[f[0] as usize], mesh.vertices()[f[1] as usize], mesh.vertices()[f[2] as usize]]).collect();
    let (clean, _) = box_samples();
    let meas = measured3();
    let deg = std::f64::consts::PI / 180.0;
    let disps: Vec<(&str, Iso3)> = vec![
        ("identity", Iso3::identity()),
        ("translation (0.05,-0.03,0.04)", iso3((0.05, -0.03, 0.04), (0.0, 0.0, 0.0))),
        ("euler (0.01,-0.02,0.015) + (0.02,0.01,-0.03)", iso3((0.02, 0.01, -0.03), (0.01, -0.02, 0.015))),
        ("3 degrees about (1,1,1)", Iso3::from_parts(Translation3::new(0.0, 0.0, 0.0), UnitQuaternion::from_axis_angle(&crate::geom3::UnitVec3::new_normalize(Vector3::new(1.0, 1.0, 1.0)), 3.0 * deg))),
        ("-3 degrees about z + (-0.05,0.05,0.0)", iso3((-0.05, 0.05, 0.0), (0.0, 0.0, -3.0 * deg))),
        ("tiny: (3e-5,-2e-5,1e-5) + euler (4e-6,0,-3e-6)", iso3((3.0e-5, -2.0e-5, 1.0e-5), (4.0e-6, 0.0, -3.0e-6))),
    ];
    // starting guesses: identity, a small one, and two with a pitch of exactly -/+ 90 degrees plus roll
    let gm = Iso3::from_parts(Translation3::new(3.0, -2.0, 1.0), UnitQuaternion::from_euler_angles(1.5, 0.0, 0.0) * UnitQuaternion::from_euler_angles(0.0, -FRAC_PI_2, 0.0));
    let gp = Iso3::from_parts(Translation3::new(-1.0, 0.5, 2.0), UnitQuaternion::from_euler_angles(-0.75, 0.0, 0.0) * UnitQuaternion::from_euler_angles(0.0, FRAC_PI_2, 0.0));
    let guesses: Vec<(&str, Iso3)> = vec![
        ("identity", Iso3::identity()),
        ("small: euler (0.005,0.005,-0.005) + (0.01,-0.01,0.01)", iso3((0.01, -0.01, 0.01), (0.005, 0.005, -0.005))),
        ("pitch -90 degrees: (3,-2,1) Rx(1.5) Ry(-pi/2)", gm),
        ("pitch +90 degrees: (-1,0.5,2) Rx(-0.75) Ry(pi/2)", gp),
    ];
    for (set, base) in [("A: on the faces", &clean), ("B: measured", &meas)] {
        for (dn, disp) in disps.iter() { for (gi, (gn, guess)) in guesses.iter().enumerate() {
            // a gimbal-lock guess is tried with the sample set moved so that the guess is the exact answer (displacement
            // "identity") or off by the small displacements only
            if gi >= 2 && !(dn.starts_with("identity") || dn.starts_with("tiny") || dn.starts_with("translation")) { continue; }
            // total displacement of the samples: for guess G (gi >= 2) the samples are G^-1 * disp * base
            let total = if gi >= 2 { guess.inverse() * disp } else { *disp };
            let pts: Vec<Point3> = base.iter().map(|p| total * p).collect();
            for to_point in [false, true] {
                r.case();
                let mode = if to_point { DistMode::ToPoint } else { DistMode::ToPlane };
                let d = || format!("3D box 4x3x2, sample set {}, displacement {}, guess {}, mode {}", set, dn, gn, if to_point { "ToPoint" } else { "ToPlane" });
                let res = points_to_mesh(&pts, &mesh, guess, mode);
                let al = match res {
                    Ok(a) => a,
                    Err(_) => { if set.starts_with('A') { r.check(false, "3D: alignment of a displacement inside the basin succeeds", d); } continue; }
                };
                if set.starts_with('A') {
                    let e = id_err3(&(al.transform() * total));
                    // own clause name: ToPoint mode with sample points lying exactly on the mesh at the starting guess (their
                    // jacobian rows are zero; with an in-plane displacement a whole column is zero and the driver stops
                    // "successfully" at the starting guess)
                    let on_at_start = pts.iter().any(|p| mesh_residuals(&t, &(guess * p)).0 < 1e-8);
                    if to_point && on_at_start {
                        r.check(e < 1e-6, "[ToPoint, sample points exactly on the mesh at the starting guess] 3D: returned transform composed with the displacement is the identity within 1e-6", || format!("{}: max |entry of transform*displacement - I| = {:?}", d(), e));
                    } else {
                        r.check(e < 1e-6, "3D: returned transform composed with the displacement is the identity within 1e-6", || format!("{}: max |entry of transform*displacement - I| = {:?}", d(), e));
                    }
                }
                r.check(al.residuals().len() == pts.len(), "3D: one residual per input point", d);
                if al.residuals().len() != pts.len() { continue; }
                let mut ok = true;
                let mut worst = (0usize, 0.0, 0.0);
                for (i, p) in pts.iter().enumerate() {
                    let (dist, planes) = mesh_residuals(&t, &(al.transform() * p));
                    let got = al.residuals()[i];
                    let fine = if to_point { near(got, dist) } else { planes.iter().any(|x| near(got, *x)) };
                    if !fine && ok { ok = false; worst = (i, got, if to_point { dist } else { planes[0] }); }
                }
                r.check(ok, "3D: residual i is the mode-specific distance of (returned transform * input point i) to the mesh", || format!("{}: residual[{}] = {:?}, recomputed {:?}", d(), worst.0, worst.1, worst.2));
                let end: f64 = al.residuals().iter().map(|x| x * x).sum();
                let start = rss3(&t, &pts, guess, to_point);
                r.check(end <= start + 1e-12 * (1.0 + start), "3D: the residual sum of squares is not larger than at the starting guess", || format!("{}: start {:?} end {:?}", d(), start, end));
            }
        } }
    }
}

// ---------------------------------------------------------------------------------------------- 2D
fn outline_samples(v: &[Point2], dev: bool) -> Vec<Point2> {
    let mut out = vec![];
    let mut k = 0usize;
    for i in 0..v.len() - 1 {
        let ab = v[i + 1] - v[i];
        let e = ab.normalize();
        let n = Vector2::new(e.y, -e.x);
        for j in 1..8 {
            k += 1;
            let off = if dev { -0.03 + 0.01 * ((k * 3) % 7) as f64 } else { 0.0 };
            out.push(v[i] + ab * (j as f64 / 8.0) + n * off);
        }
    }
    if dev {
        // beyond convex corners (closest outline point is a vertex), and a bit-identical repeat
        out.extend([v[0] + Vector2::new(-0.0625, -0.03125), v[1] + Vector2::new(0.03125, -0.0625)]);
        let rep = out[10];
        out.insert(10, rep);
        let last = *out.last().unwrap();
        out.push(last);
    }
    out
}
fn id_err2(t: &Iso2) -> f64 { (t.to_homogeneous() - Iso2::identity().to_homogeneous()).amax() }

fn run2(r: &mut Report) {
    let p = |x: f64, y: f64| Point2::new(x, y);
    let shapes: Vec<(&str, Vec<Point2>)> = vec![
        ("closed L outline (0,0),(6,0),(6,2),(3,2),(3,4),(0,4)", vec![p(0.0, 0.0), p(6.0, 0.0), p(6.0, 2.0), p(3.0, 2.0), p(3.0, 4.0), p(0.0, 4.0), p(0.0, 0.0)]),
        ("closed rectangle 4x3", vec![p(0.0, 0.0), p(4.0, 0.0), p(4.0, 3.0), p(0.0, 3.0), p(0.0, 0.0)]),
    ];
    let deg = std::f64::consts::PI / 180.0;
    let disps: Vec<(&str, Iso2)> = vec![
        ("identity", Iso2::identity()),
        ("(0.04,-0.03) + 0.02 rad", Iso2::translation(0.04, -0.03) * Iso2::rotation(0.02)),
        ("(0.05,0.05) + 3 degrees", Iso2::translation(0.05, 0.05) * Iso2::rotation(3.0 * deg)),
        ("(-0.05,0.0) - 3 degrees", Iso2::translation(-0.05, 0.0) * Iso2::rotation(-3.0 * deg)),
        ("tiny: (3e-5,-2e-5) + 4e-6 rad", Iso2::translation(3.0e-5, -2.0e-5) * Iso2::rotation(4.0e-6)),
        ("tiny: (1e-5,1e-5)", Iso2::translation(1.0e-5, 1.0e-5)),
    ];
    let guesses: Vec<(&str, Iso2)> = vec![("identity", Iso2::identity()), ("(0.01,-0.01) + 0.005 rad", Iso2::translation(0.01, -0.01) * Iso2::rotation(0.005))];
    for (sn, verts) in shapes.iter() {
        let curve = Curve2::from_points(verts, 1e-8, true).unwrap();
        let v = curve.points().to_vec();
        for (set, dev) in [("A: on the outline", false), ("B: measured", true)] {
            let base = outline_samples(&v, dev);
            for (dn, disp) in disps.iter() { for (gn, guess) in guesses.iter() {
                r.case();
                let pts: Vec<Point2> = base.iter().map(|q| disp * q).collect();
                let d = || format!("2D {}, sample set {}, displacement {}, guess {}", sn, set, dn, gn);
                let al = match points_to_curve(&pts, &curve, guess) {
                    Ok(a) => a,
                    Err(_) => { if !dev { r.check(false, "2D: alignment of a displacement inside the basin succeeds", d); } continue; }
                };
                if !dev {
                    let e = id_err2(&(al.transform() * disp));
                    r.check(e < 1e-6, "2D: returned transform composed with the displacement is the identity within 1e-6", || format!("{}: max |entry of transform*displacement - I| = {:?}", d(), e));
                }
                r.check(al.residuals().len() == pts.len(), "2D: one residual per input point", d);
                if al.residuals().len() != pts.len() { continue; }
                let mut ok = true;
                let mut worst = (0usize, 0.0, 0.0);
                for (i, q) in pts.iter().enumerate() {
                    let want = curve_residuals(&v, &(al.transform() * q));
                    let got = al.residuals()[i];
                    if !want.iter().any(|x| near(got, *x)) && ok { ok = false; worst = (i, got, want[0]); }
                }
                r.check(ok, "2D: residual i is the signed distance of (returned transform * input point i) to the curve along the edge normal", || format!("{}: residual[{}] = {:?}, recomputed {:?}", d(), worst.0, worst.1, worst.2));
                let end: f64 = al.residuals().iter().map(|x| x * x).sum();
                let start: f64 = pts.iter().map(|q| { let w = curve_residuals(&v, &(guess * q)); let x = w.iter().map(|x| x.abs()).fold(0.0, f64::max); x * x }).sum();
                r.check(end <= start + 1e-12 * (1.0 + start), "2D: the residual sum of squares is not larger than at the starting guess", || format!("{}: start {:?} end {:?}", d(), start, end));
            } }
        }
    }
}


// ---------------------------------------------------------------------------------------------- round 2: shared clause evaluation
/// all clauses of one 3D alignment; `total` = displacement of the samples (pts = total * base); recovery is only demanded
/// when `recover` (sample set exactly on the mesh, displacement / guess inside the stated basin)
fn eval3(r: &mut Report, t: &[[Point3; 3]], mesh: &Mesh, pts: &[Point3], total: &Iso3, guess: &Iso3, to_point: bool, recover: bool, d: &dyn Fn() -> String) -> Option<(Iso3, Vec<f64>)> {
    r.case();
    let mode = if to_point { DistMode::ToPoint } else { DistMode::ToPlane };
    let al = match points_to_mesh(pts, mesh, guess, mode) {
        Ok(a) => a,
        Err(_) => { if recover { r.check(false, "3D: alignment of a displacement inside the basin succeeds", d); } return None; }
    };
    if recover {
        let e = id_err3(&(al.transform() * total));
        r.check(e < 1e-6, "3D: returned transform composed with the displacement is the identity within 1e-6", || format!("{}: max |entry of transform*displacement - I| = {:?}", d(), e));
    }
    r.check(al.residuals().len() == pts.len(), "3D: one residual per input point", d);
    if al.residuals().len() != pts.len() { return None; }
    let mut ok = true;
    let mut worst = (0usize, 0.0, 0.0);
    for (i, p) in pts.iter().enumerate() {
        let (dist, planes) = mesh_residuals(t, &(al.transform() * p));
        let got = al.residuals()[i];
        let fine = if to_point { near(got, dist) } else { planes.iter().any(|x| near(got, *x)) };
        if !fine && ok { ok = false; worst = (i, got, if to_point { dist } else { planes[0] }); }
    }
    r.check(ok, "3D: residual i is the mode-specific distance of (returned transform * input point i) to the mesh", || format!("{}: residual[{}] = {:?}, recomputed {:?}", d(), worst.0, worst.1, worst.2));
    let end: f64 = al.residuals().iter().map(|x| x * x).sum();
    let start = rss3(t, pts, guess, to_point);
    r.check(end <= start + 1e-12 * (1.0 + start), "3D: the residual sum of squares is not larger than at the starting guess", || format!("{}: start {:?} end {:?}", d(), start, end));
    Some((*al.transform(), al.residuals().to_vec()))
}
fn eval2(r: &mut Report, v: &[Point2], curve: &Curve2, pts: &[Point2], total: &Iso2, guess: &Iso2, recover: bool, d: &dyn Fn() -> String) -> Option<(Iso2, Vec<f64>)> {
    r.case();
    let al = match points_to_curve(pts, curve, guess) {
        Ok(a) => a,
        Err(_) => { if recover { r.check(false, "2D: alignment of a displacement inside the basin succeeds", d); } return None; }
    };
    if recover {
        let e = id_err2(&(al.transform() * total));
        r.check(e < 1e-6, "2D: returned transform composed with the displacement is the identity within 1e-6", || format!("{}: max |entry of transform*displacement - I| = {:?}", d(), e));
    }
    r.check(al.residuals().len() == pts.len(), "2D: one residual per input point", d);
    if al.residuals().len() != pts.len() { return None; }
    let mut ok = true;
    let mut worst = (0usize, 0.0, 0.0);
    for (i, q) in pts.iter().enumerate() {
        let want = curve_residuals(v, &(al.transform() * q));
        let got = al.residuals()[i];
        if !want.iter().any(|x| near(got, *x)) && ok { ok = false; worst = (i, got, want[0]); }
    }
    r.check(ok, "2D: residual i is the signed distance of (returned transform * input point i) to the curve along the edge normal", || format!("{}: residual[{}] = {:?}, recomputed {:?}", d(), worst.0, worst.1, worst.2));
    let end: f64 = al.residuals().iter().map(|x| x * x).sum();
    let start: f64 = pts.iter().map(|q| { let w = curve_residuals(v, &(guess * q)); let x = w.iter().map(|x| x.abs()).fold(0.0, f64::max); x * x }).sum();
    r.check(end <= start + 1e-12 * (1.0 + start), "2D: the residual sum of squares is not larger than at the starting guess", || format!("{}: start {:?} end {:?}", d(), start, end));
    Some((*al.transform(), al.residuals().to_vec()))
}
fn box_tris(mesh: &Mesh) -> Vec<[Point3; 3]> { mesh.faces().iter().map(|f| [mesh.vertices()[f[0] as usize], mesh.vertices()[f[1] as usize], mesh.vertices()[f[2] as usize]]).collect() }
fn rot3(axis: (f64, f64, f64), angle: f64) -> Iso3 { Iso3::from_parts(Translation3::new(0.0, 0.0, 0.0), UnitQuaternion::from_axis_angle(&crate::geom3::UnitVec3::new_normalize(Vector3::new(axis.0, axis.1, axis.2)), angle)) }
/// the rotation engeom's parameter block stands for: Rx(roll) * Ry(pitch) * Rz(yaw)
fn wpr(t: (f64, f64, f64), e: (f64, f64, f64)) -> Iso3 {
    let q = UnitQuaternion::from_euler_angles(e.0, 0.0, 0.0) * UnitQuaternion::from_euler_angles(0.0, e.1, 0.0) * UnitQuaternion::from_euler_angles(0.0, 0.0, e.2);
    Iso3::from_parts(Translation3::new(t.0, t.1, t.2), q)
}

// ---------------------------------------------------------------------------------------------- round 2: 3D
/// dense grid on the six faces of the 4x3x2 box: n x n points per face, margin 1/64 from the edges (dyadic margin)
fn box_grid(n: usize) -> Vec<Point3> {
    let (w, h, d) = (4.0, 3.0, 2.0);
    let m = 0.015625;
    let f = |k: usize, len: f64| m + (len - 2.0 * m) * k as f64 / (n - 1) as f64;
    let mut pts = vec![];
    for i in 0..n { for j in 0..n {
        pts.push(Point3::new(f(i, w), f(j, h), 0.0)); pts.push(Point3::new(f(i, w), f(j, h), d));
        pts.push(Point3::new(f(i, w), 0.0, f(j, d))); pts.push(Point3::new(f(i, w), h, f(j, d)));
        pts.push(Point3::new(0.0, f(i, h), f(j, d))); pts.push(Point3::new(w, f(i, h), f(j, d)));
    } }
    pts
}

fn run3_round2(r: &mut Report) {
    let mesh = Mesh::create_box(4.0, 3.0, 2.0, false);
    let t = box_tris(&mesh);
    let (clean, _) = box_samples();
    let meas = measured3();
    let deg = std::f64::consts::PI / 180.0;
    let pi = std::f64::consts::PI;
    let modes = [false, true];
    let mname = |tp: bool| if tp { "ToPoint" } else { "ToPlane" };

    // (1) starting guesses with large rotations: roll / pitch / yaw near +-pi and +-pi/2.  The samples are moved so that the
    // exact answer is D * G for a small D (translation <= 0.05, rotation <= 0.05 rad = 2.9 degrees): with D = Rx(+-0.05) /
    // Rz(+-0.05) on a guess of roll / yaw +-(pi - 0.02) the euler parameter has to cross +-pi during the solve
    let guesses: Vec<(&str, Iso3)> = vec![
        ("roll pi-0.02: (3,-2,1) Rx(pi-0.02)", wpr((3.0, -2.0, 1.0), (pi - 0.02, 0.0, 0.0))),
        ("roll -(pi-0.02): (3,-2,1) Rx(-pi+0.02)", wpr((3.0, -2.0, 1.0), (-pi + 0.02, 0.0, 0.0))),
        ("yaw pi-0.02: (-1,0.5,2) Rz(pi-0.02)", wpr((-1.0, 0.5, 2.0), (0.0, 0.0, pi - 0.02))),
        ("yaw -(pi-0.02): (-1,0.5,2) Rz(-pi+0.02)", wpr((-1.0, 0.5, 2.0), (0.0, 0.0, -pi + 0.02))),
        ("roll exactly pi: (0,1,0) Rx(pi)", wpr((0.0, 1.0, 0.0), (pi, 0.0, 0.0))),
        ("yaw exactly -pi: (0,0,1) Rz(-pi)", wpr((0.0, 0.0, 1.0), (0.0, 0.0, -pi))),
        ("pitch pi-0.02 (decodes to roll pi, yaw pi): (1,1,1) Ry(pi-0.02)", wpr((1.0, 1.0, 1.0), (0.0, pi - 0.02, 0.0))),
        ("roll pi/2, yaw -pi/2: (2,0,-1) Rx(pi/2) Rz(-pi/2)", wpr((2.0, 0.0, -1.0), (FRAC_PI_2, 0.0, -FRAC_PI_2))),
        ("roll -pi/2, pitch 1.4, yaw pi/2: (0,-3,0.5) Rx(-pi/2) Ry(1.4) Rz(pi/2)", wpr((0.0, -3.0, 0.5), (-FRAC_PI_2, 1.4, FRAC_PI_2))),
        ("roll 3.1, pitch -1.0, yaw -3.1: (1,2,3) Rx(3.1) Ry(-1) Rz(-3.1)", wpr((1.0, 2.0, 3.0), (3.1, -1.0, -3.1))),
        ("roll -3.0, pitch 0.5, yaw 3.0: (-2,1,0) Rx(-3) Ry(0.5) Rz(3)", wpr((-2.0, 1.0, 0.0), (-3.0, 0.5, 3.0))),
    ];
    let smalls: Vec<(&str, Iso3)> = vec![
        ("identity", Iso3::identity()),
        ("translation (0.05,-0.03,0.04)", iso3((0.05, -0.03, 0.04), (0.0, 0.0, 0.0))),
        ("Rx(+0.05)", rot3((1.0, 0.0, 0.0), 0.05)),
        ("Rx(-0.05)", rot3((1.0, 0.0, 0.0), -0.05)),
        ("Rz(+0.05) + (0.02,0.01,-0.03)", Iso3::from_parts(Translation3::new(0.02, 0.01, -0.03), rot3((0.0, 0.0, 1.0), 0.05).rotation)),
        ("Rz(-0.05)", rot3((0.0, 0.0, 1.0), -0.05)),
        ("Ry(+0.05)", rot3((0.0, 1.0, 0.0), 0.05)),
        ("3 degrees about (1,1,1)", rot3((1.0, 1.0, 1.0), 3.0 * deg)),
    ];
    for (set, base) in [("A: on the faces", &clean), ("B: measured", &meas)] {
        for (gn, guess) in guesses.iter() { for (sn, small) in smalls.iter() {
            // exact answer C = small * guess; the samples are C^-1 * base
            let total = (small * guess).inverse();
            let pts: Vec<Point3> = base.iter().map(|p| total * p).collect();
            for to_point in modes {
                let d = || format!("3D box 4x3x2, sample set {}, samples moved by (D*G)^-1 with D = {}, starting guess G = {}, mode {}", set, sn, gn, mname(to_point));
                eval3(r, &t, &mesh, &pts, &total, guess, to_point, set.starts_with('A'), &d);
            }
        } }
    }

    // (2) far-away parts: the samples sit 10x .. 100x the part size (4) away, the guess brings them back to within 0.2 units
    // and 3 degrees of the answer
    let fars: Vec<(&str, Iso3)> = vec![
        ("(40,-30,20) + axis-angle (0.3,-0.2,0.4)", Iso3::new(Vector3::new(40.0, -30.0, 20.0), Vector3::new(0.3, -0.2, 0.4))),
        ("(100,-50,30) + axis-angle (0.3,-0.2,0.4)", Iso3::new(Vector3::new(100.0, -50.0, 30.0), Vector3::new(0.3, -0.2, 0.4))),
        ("(-400,300,200), no rotation", Iso3::new(Vector3::new(-400.0, 300.0, 200.0), Vector3::zeros())),
        ("(250,0,-400) + axis-angle (-1.0,0.5,2.0)", Iso3::new(Vector3::new(250.0, 0.0, -400.0), Vector3::new(-1.0, 0.5, 2.0))),
    ];
    let offs: Vec<(&str, Iso3)> = vec![
        ("(0.2,-0.1,0.15) + axis-angle (0.03,0.02,-0.03)", Iso3::new(Vector3::new(0.2, -0.1, 0.15), Vector3::new(0.03, 0.02, -0.03))),
        ("(-0.1,0.15,0.05) + axis-angle (-0.02,0.04,0.01)", Iso3::new(Vector3::new(-0.1, 0.15, 0.05), Vector3::new(-0.02, 0.04, 0.01))),
    ];
    for (set, base) in [("A: on the faces", &clean), ("B: measured", &meas)] {
        for (fn_, far) in fars.iter() { for (on, off) in offs.iter() {
            let pts: Vec<Point3> = base.iter().map(|p| far * p).collect();
            let guess = off * far.inverse();
            for to_point in modes {
                let d = || format!("3D box 4x3x2, sample set {}, far-away displacement {}, starting guess = ({}) * displacement^-1, mode {}", set, fn_, on, mname(to_point));
                eval3(r, &t, &mesh, &pts, far, &guess, to_point, set.starts_with('A'), &d);
            }
        } }
    }

    // (3) exactly representable configurations: dyadic sample coordinates on axis-parallel faces, pure dyadic translations,
    // identity / pure dyadic translation guesses (one solver step can land on residuals that are exactly zero: on the
    // reference build 6 of these ToPlane cases and 2 of the far-away ones end with all residuals == 0.0)
    for (sx, sy, sz) in [(0.25, -0.5, 0.125), (-0.125, 0.25, 0.0), (0.5, 0.5, 0.5), (0.0, 0.0, 0.375), (0.0625, 0.0, 0.0)] {
        for (gx, gy, gz) in [(0.0, 0.0, 0.0), (-0.125, 0.25, -0.0625), (-256.0, 128.0, 64.0)] {
            // the samples are displaced by the translation s - g, the guess is the translation g (the answer is g - s)
            let total = iso3((sx - gx, sy - gy, sz - gz), (0.0, 0.0, 0.0));
            let guess = iso3((gx, gy, gz), (0.0, 0.0, 0.0));
            let pts: Vec<Point3> = clean.iter().map(|p| total * p).collect();
            for to_point in modes {
                let d = || format!("3D box 4x3x2, sample set A: on the faces, exactly representable translation ({:?},{:?},{:?}), guess translation ({:?},{:?},{:?}), mode {}", sx - gx, sy - gy, sz - gz, gx, gy, gz, mname(to_point));
                eval3(r, &t, &mesh, &pts, &total, &guess, to_point, true, &d);
            }
        }
    }

    // (4) a large sample set (4374 >= 4096 points): 27 x 27 grid per face up to 1/64 from the edges
    let grid = box_grid(27);
    let total = iso3((0.2, -0.15, 0.1), (0.03, -0.02, 0.04));
    let pts: Vec<Point3> = grid.iter().map(|p| total * p).collect();
    for to_point in modes {
        let d = || format!("3D box 4x3x2, 4374 samples (27x27 grid per face, 1/64 from the edges), displacement (0.2,-0.15,0.1) + euler (0.03,-0.02,0.04), guess identity, mode {}", mname(to_point));
        eval3(r, &t, &mesh, &pts, &total, &Iso3::identity(), to_point, true, &d);
    }
}

// ---------------------------------------------------------------------------------------------- round 2: 2D
fn run2_round2(r: &mut Report) {
    let p = |x: f64, y: f64| Point2::new(x, y);
    let shapes: Vec<(&str, Vec<Point2>)> = vec![
        ("closed L outline (0,0),(6,0),(6,2),(3,2),(3,4),(0,4)", vec![p(0.0, 0.0), p(6.0, 0.0), p(6.0, 2.0), p(3.0, 2.0), p(3.0, 4.0), p(0.0, 4.0), p(0.0, 0.0)]),
        ("closed rectangle 4x3", vec![p(0.0, 0.0), p(4.0, 0.0), p(4.0, 3.0), p(0.0, 3.0), p(0.0, 0.0)]),
    ];
    let deg = std::f64::consts::PI / 180.0;
    let offs: Vec<(&str, Iso2)> = vec![
        ("identity", Iso2::identity()),
        ("(0.05,-0.04) + 3 degrees", Iso2::new(Vector2::new(0.05, -0.04), 3.0 * deg)),
        ("(-0.03,0.02) - 2 degrees", Iso2::new(Vector2::new(-0.03, 0.02), -2.0 * deg)),
    ];
    for (sn, verts) in shapes.iter() {
        let curve = Curve2::from_points(verts, 1e-8, true).unwrap();
        let v = curve.points().to_vec();
        for (set, dev) in [("A: on the outline", false), ("B: measured", true)] {
            let base = outline_samples(&v, dev);
            // (1) starting guesses with large rotations: the part is turned by 90 .. 180 degrees in either direction, the guess
            // is the exact correction disturbed by at most (0.05, 0.04) and 3 degrees
            for turn in [90.0, 120.0, 135.0, 170.0, 175.0, 180.0, -90.0, -120.0, -135.0, -170.0, -175.0] {
                let disp = Iso2::new(Vector2::new(3.0, -2.0), turn * deg);
                let pts: Vec<Point2> = base.iter().map(|q| disp * q).collect();
                for (on, off) in offs.iter() {
                    let guess = off * disp.inverse();
                    let d = || format!("2D {}, sample set {}, part turned by {:?} degrees + (3,-2), starting guess = ({}) * displacement^-1", sn, set, turn, on);
                    eval2(r, &v, &curve, &pts, &disp, &guess, !dev, &d);
                }
            }
            // (2) far-away parts: 10x .. 100x the part size (6) away, the guess within 0.2 units and 3 degrees of the answer
            for (fx, fy, fa) in [(60.0, -40.0, 0.3), (600.0, 400.0, -0.7), (-300.0, 50.0, 0.0), (0.0, 128.0, 2.5)] {
                let disp = Iso2::new(Vector2::new(fx, fy), fa);
                let pts: Vec<Point2> = base.iter().map(|q| disp * q).collect();
                for (on, off) in [("(0.15,-0.1) + 3 degrees", Iso2::new(Vector2::new(0.15, -0.1), 3.0 * deg)), ("(-0.1,0.2) - 2 degrees", Iso2::new(Vector2::new(-0.1, 0.2), -2.0 * deg))] {
                    let guess = off * disp.inverse();
                    let d = || format!("2D {}, sample set {}, far-away displacement ({:?},{:?}) + {:?} rad, starting guess = ({}) * displacement^-1", sn, set, fx, fy, fa, on);
                    eval2(r, &v, &curve, &pts, &disp, &guess, !dev, &d);
                }
            }
        }
        // (3) exactly representable configurations (axis-parallel outline, dyadic sample coordinates, pure dyadic translation,
        // identity guess): one solver step can land on residuals that are exactly zero (on the reference build 4 of these
        // 12 cases and 2 of the far-away ones end with all residuals == 0.0)
        let base = outline_samples(&v, false);
        for (sx, sy) in [(0.25, -0.5), (-0.125, 0.25), (0.5, 0.5), (0.0, 0.375), (0.0625, 0.0), (0.125, 0.125)] {
            let disp = Iso2::translation(sx, sy);
            let pts: Vec<Point2> = base.iter().map(|q| disp * q).collect();
            let d = || format!("2D {}, sample set A: on the outline, exactly representable translation ({:?},{:?}), guess identity", sn, sx, sy);
            eval2(r, &v, &curve, &pts, &disp, &Iso2::identity(), true, &d);
        }
    }
    // (4) a large sample set (>= 4096 points): 700 points per edge of the L outline
    let curve = Curve2::from_points(&shapes[0].1, 1e-8, true).unwrap();
    let v = curve.points().to_vec();
    let mut base = vec![];
    for i in 0..v.len() - 1 { let ab = v[i + 1] - v[i]; for j in 1..=700 { base.push(v[i] + ab * (j as f64 / 701.0)); } }
    let disp = Iso2::new(Vector2::new(0.05, 0.05), 3.0 * deg);
    let pts: Vec<Point2> = base.iter().map(|q| disp * q).collect();
    let d = || format!("2D {}, 4200 samples (700 per edge), displacement (0.05,0.05) + 3 degrees, guess identity", shapes[0].0);
    eval2(r, &v, &curve, &pts, &disp, &Iso2::identity(), true, &d);
}


// ---------------------------------------------------------------------------------------------- round 3: minimal sample sets
/// EXACTLY as many points as parameters: 6 points in the 3-2-1 locating scheme on three mutually orthogonal faces of the box
/// (3D, 6 parameters), 3 points in the 2-1 scheme on two perpendicular edges of the outline (2D, 3 parameters); controls with
/// one more point (7 / 4).  Every point stays at least 0.5 from the edges of its face / 0.75 from the corners of the outline,
/// the displacements are small against that margin: each point keeps its face / edge and the problem is exactly determined.
fn run_minimal(r: &mut Report) {
    let mesh = Mesh::create_box(4.0, 3.0, 2.0, false);
    let t = box_tris(&mesh);
    let p3 = |x: f64, y: f64, z: f64| Point3::new(x, y, z);
    let sets3: Vec<(&str, Vec<Point3>)> = vec![
        ("6 points, 3-2-1: 3 on z=0, 2 on y=0, 1 on x=0", vec![p3(0.5, 0.5, 0.0), p3(3.5, 0.5, 0.0), p3(2.0, 2.5, 0.0), p3(0.5, 0.0, 1.0), p3(3.5, 0.0, 1.0), p3(0.0, 1.5, 1.0)]),
        ("6 points, 3-2-1: 3 on x=4, 2 on z=2, 1 on y=3", vec![p3(4.0, 0.5, 0.5), p3(4.0, 2.5, 0.5), p3(4.0, 1.5, 1.5), p3(0.5, 0.75, 2.0), p3(3.5, 2.25, 2.0), p3(2.0, 3.0, 1.0)]),
        ("6 points, 3-2-1: 3 on y=3, 2 on x=0, 1 on z=2", vec![p3(0.5, 3.0, 0.5), p3(3.5, 3.0, 0.5), p3(2.0, 3.0, 1.5), p3(0.0, 0.5, 0.5), p3(0.0, 2.5, 1.5), p3(2.0, 1.5, 2.0)]),
        ("7 points (control): 3 on z=0, 2 on y=0, 1 on x=0, 1 on z=2", vec![p3(0.5, 0.5, 0.0), p3(3.5, 0.5, 0.0), p3(2.0, 2.5, 0.0), p3(0.5, 0.0, 1.0), p3(3.5, 0.0, 1.0), p3(0.0, 1.5, 1.0), p3(2.0, 1.5, 2.0)]),
    ];
    let disps3: Vec<(&str, Iso3)> = vec![
        ("translation (0.05,-0.03,0.04)", iso3((0.05, -0.03, 0.04), (0.0, 0.0, 0.0))),
        ("euler (0.01,-0.02,0.015) + (0.02,0.01,-0.03)", iso3((0.02, 0.01, -0.03), (0.01, -0.02, 0.015))),
        ("-2 degrees about (1,1,1) + (-0.03,0.02,0.05)", Iso3::from_parts(Translation3::new(-0.03, 0.02, 0.05), rot3((1.0, 1.0, 1.0), -2.0 * std::f64::consts::PI / 180.0).rotation)),
    ];
    let guesses3: Vec<(&str, Iso3)> = vec![("identity", Iso3::identity()), ("small: euler (0.005,0.005,-0.005) + (0.01,-0.01,0.01)", iso3((0.01, -0.01, 0.01), (0.005, 0.005, -0.005)))];
    for (sn, base) in sets3.iter() { for (dn, disp) in disps3.iter() { for (gn, guess) in guesses3.iter() { for to_point in [false, true] {
        let pts: Vec<Point3> = base.iter().map(|p| disp * p).collect();
        let d = || format!("3D box 4x3x2, sample set [{}] {:?}, displacement {}, guess {}, mode {}", sn, base.iter().map(|p| (p.x, p.y, p.z)).collect::<Vec<_>>(), dn, gn, if to_point { "ToPoint" } else { "ToPlane" });
        let mode = if to_point { DistMode::ToPoint } else { DistMode::ToPlane };
        let ok = points_to_mesh(&pts, &mesh, guess, mode).is_ok();
        r.check(ok, "3D: a sample set with exactly as many points as parameters (6 points, 3-2-1 on three faces of the box; 7 as control), displaced inside the basin, is accepted and aligned (Ok)", d);
        eval3(r, &t, &mesh, &pts, disp, guess, to_point, true, &d);
    } } } }
    // 2D: 3 parameters
    let p2 = |x: f64, y: f64| Point2::new(x, y);
    let shapes: Vec<(&str, Vec<Point2>, Vec<(&str, Vec<Point2>)>)> = vec![
        ("closed rectangle 4x3", vec![p2(0.0, 0.0), p2(4.0, 0.0), p2(4.0, 3.0), p2(0.0, 3.0), p2(0.0, 0.0)], vec![
            ("3 points, 2-1: 2 on y=0, 1 on x=0", vec![p2(1.0, 0.0), p2(3.0, 0.0), p2(0.0, 1.5)]),
            ("3 points, 2-1: 2 on x=4, 1 on y=3", vec![p2(4.0, 0.75), p2(4.0, 2.25), p2(2.0, 3.0)]),
            ("4 points (control): 2 on y=0, 1 on x=0, 1 on y=3", vec![p2(1.0, 0.0), p2(3.0, 0.0), p2(0.0, 1.5), p2(2.0, 3.0)]),
        ]),
        ("closed L outline (0,0),(6,0),(6,2),(3,2),(3,4),(0,4)", vec![p2(0.0, 0.0), p2(6.0, 0.0), p2(6.0, 2.0), p2(3.0, 2.0), p2(3.0, 4.0), p2(0.0, 4.0), p2(0.0, 0.0)], vec![
            ("3 points, 2-1: 2 on y=0, 1 on x=6", vec![p2(1.0, 0.0), p2(5.0, 0.0), p2(6.0, 1.0)]),
            ("3 points, 2-1: 2 on x=0, 1 on the inner edge y=2", vec![p2(0.0, 1.0), p2(0.0, 3.0), p2(4.5, 2.0)]),
            ("4 points (control): 2 on y=0, 1 on x=6, 1 on y=4", vec![p2(1.0, 0.0), p2(5.0, 0.0), p2(6.0, 1.0), p2(1.5, 4.0)]),
        ]),
    ];
    let deg = std::f64::consts::PI / 180.0;
    let disps2: Vec<(&str, Iso2)> = vec![
        ("(0.04,-0.03) + 0.02 rad", Iso2::translation(0.04, -0.03) * Iso2::rotation(0.02)),
        ("(0.05,0.05) + 3 degrees", Iso2::translation(0.05, 0.05) * Iso2::rotation(3.0 * deg)),
        ("(-0.05,0.0) - 3 degrees", Iso2::translation(-0.05, 0.0) * Iso2::rotation(-3.0 * deg)),
    ];
    let guesses2: Vec<(&str, Iso2)> = vec![("identity", Iso2::identity()), ("(0.01,-0.01) + 0.005 rad", Iso2::translation(0.01, -0.01) * Iso2::rotation(0.005))];
    for (shn, verts, sets) in shapes.iter() {
        let curve = Curve2::from_points(verts, 1e-8, true).unwrap();
        let v = curve.points().to_vec();
        for (sn, base) in sets.iter() { for (dn, disp) in disps2.iter() { for (gn, guess) in guesses2.iter() {
            let pts: Vec<Point2> = base.iter().map(|q| disp * q).collect();
            let d = || format!("2D {}, sample set [{}] {:?}, displacement {}, guess {}", shn, sn, base.iter().map(|q| (q.x, q.y)).collect::<Vec<_>>(), dn, gn);
            let ok = points_to_curve(&pts, &curve, guess).is_ok();
            r.check(ok, "2D: a sample set with exactly as many points as parameters (3 points, 2-1 on two perpendicular edges; 4 as control), displaced inside the basin, is accepted and aligned (Ok)", d);
            eval2(r, &v, &curve, &pts, disp, guess, true, &d);
        } } }
    }
}

// ---------------------------------------------------------------------------------------------- round 4: open references, very far guesses
/// (a) OPEN reference meshes whose free boundary edges fix a degree of freedom (ToPoint only sees it): an L bracket of two
/// plates (the slide along the fold line is fixed by the plate boundaries alone) and a corner of three plates; sample grids
/// reaching the free edges, displaced by slides along the fold / in the plane of a plate (points slip over a free edge and
/// then lie exactly in the plane of their closest triangle, at a non-zero distance from it) and by small general motions.
/// (b) starting guesses that carry a VERY large translation (the measurement taken 1e5 .. 1e6 units from the nominal part).
fn run_open_and_far(r: &mut Report) {
    let p3 = |x: f64, y: f64, z: f64| Point3::new(x, y, z);
    let bracket = Mesh::new(vec![p3(0.0, 0.0, 0.0), p3(10.0, 0.0, 0.0), p3(10.0, 6.0, 0.0), p3(0.0, 6.0, 0.0), p3(0.0, 0.0, 4.0), p3(0.0, 6.0, 4.0)], vec![[0, 1, 2], [0, 2, 3], [0, 3, 5], [0, 5, 4]], false);
    let mut bs = vec![];
    for j in 0..=12 { let y = j as f64 * 0.5; for i in 1..=10 { bs.push(p3(i as f64, y, 0.0)); } for k in 1..=4 { bs.push(p3(0.0, y, k as f64)); } }
    let corner = Mesh::new(vec![p3(0.0, 0.0, 0.0), p3(8.0, 0.0, 0.0), p3(8.0, 6.0, 0.0), p3(0.0, 6.0, 0.0), p3(0.0, 0.0, 4.0), p3(0.0, 6.0, 4.0), p3(8.0, 0.0, 4.0)],
        vec![[0, 1, 2], [0, 2, 3], [0, 3, 5], [0, 5, 4], [0, 4, 6], [0, 6, 1]], false);
    let mut cs = vec![];
    for i in 1..=8 { for j in 1..=6 { cs.push(p3(i as f64, j as f64, 0.0)); } }
    for j in 1..=6 { for k in 1..=4 { cs.push(p3(0.0, j as f64, k as f64)); } }
    for i in 1..=8 { for k in 1..=4 { cs.push(p3(i as f64, 0.0, k as f64)); } }
    let slides: Vec<(&str, Iso3)> = vec![
        ("slide (0,0.4,0) along the fold line", iso3((0.0, 0.4, 0.0), (0.0, 0.0, 0.0))),
        ("slide (0,-0.25,0) along the fold line", iso3((0.0, -0.25, 0.0), (0.0, 0.0, 0.0))),
        ("(0.05,0.3,-0.04) + euler (0.01,-0.02,0.015)", iso3((0.05, 0.3, -0.04), (0.01, -0.02, 0.015))),
        ("(0.03,-0.02,0.04) + euler (-0.01,0.01,0.02)", iso3((0.03, -0.02, 0.04), (-0.01, 0.01, 0.02))),
    ];
    for (mname, mesh, base, modes) in [("open L bracket: plates 10x6 in z=0 and 4x6 in x=0 sharing the fold x=z=0", &bracket, &bs, vec![true]), ("open corner of three plates 8x6 (z=0), 4x6 (x=0), 8x4 (y=0)", &corner, &cs, vec![false, true])] {
        let t = box_tris(mesh);
        for (dn, disp) in slides.iter() { for to_point in modes.iter() {
            let pts: Vec<Point3> = base.iter().map(|p| disp * p).collect();
            let d = || format!("3D {}, {} samples on a unit / half-unit grid reaching the free edges, displacement {}, guess identity, mode {}", mname, base.len(), dn, if *to_point { "ToPoint" } else { "ToPlane" });
            eval3(r, &t, mesh, &pts, disp, &Iso3::identity(), *to_point, true, &d);
        } }
    }
    // (b) very far guesses
    let boxm = Mesh::create_box(4.0, 3.0, 2.0, false);
    let t = box_tris(&boxm);
    let (clean, _) = box_samples();
    for (fnm, far) in [("(4e5,-3e5,2e5) + axis-angle (0.3,-0.2,0.4)", Iso3::new(Vector3::new(4.0e5, -3.0e5, 2.0e5), Vector3::new(0.3, -0.2, 0.4))), ("(-1e6,0,5e5) + axis-angle (-1.0,0.5,2.0)", Iso3::new(Vector3::new(-1.0e6, 0.0, 5.0e5), Vector3::new(-1.0, 0.5, 2.0)))] {
        for (on, off) in [("(0.2,-0.1,0.15) + axis-angle (0.03,0.02,-0.03)", Iso3::new(Vector3::new(0.2, -0.1, 0.15), Vector3::new(0.03, 0.02, -0.03))), ("(-0.1,0.15,0.05) + axis-angle (-0.02,0.04,0.1)", Iso3::new(Vector3::new(-0.1, 0.15, 0.05), Vector3::new(-0.02, 0.04, 0.1)))] {
            let pts: Vec<Point3> = clean.iter().map(|p| far * p).collect();
            let guess = off * far.inverse();
            for to_point in [false, true] {
                let d = || format!("3D box 4x3x2, sample set A: on the faces, VERY far displacement {}, starting guess = ({}) * displacement^-1, mode {}", fnm, on, if to_point { "ToPoint" } else { "ToPlane" });
                eval3(r, &t, &boxm, &pts, &far, &guess, to_point, true, &d);
            }
        }
    }
    let p2 = |x: f64, y: f64| Point2::new(x, y);
    let deg = std::f64::consts::PI / 180.0;
    for (sn, verts) in [("closed L outline (0,0),(6,0),(6,2),(3,2),(3,4),(0,4)", vec![p2(0.0, 0.0), p2(6.0, 0.0), p2(6.0, 2.0), p2(3.0, 2.0), p2(3.0, 4.0), p2(0.0, 4.0), p2(0.0, 0.0)]), ("closed rectangle 4x3", vec![p2(0.0, 0.0), p2(4.0, 0.0), p2(4.0, 3.0), p2(0.0, 3.0), p2(0.0, 0.0)])] {
        let curve = Curve2::from_points(&verts, 1e-8, true).unwrap();
        let v = curve.points().to_vec();
        let base = outline_samples(&v, false);
        for (fx, fy, fa) in [(3.0e5, -2.0e5, 0.3), (-1.0e6, 4.0e5, -0.7), (2.5e5, 2.5e5, 2.5)] {
            let disp = Iso2::new(Vector2::new(fx, fy), fa);
            let pts: Vec<Point2> = base.iter().map(|q| disp * q).collect();
            for (on, off) in [("(0.15,-0.1) + 3 degrees", Iso2::new(Vector2::new(0.15, -0.1), 3.0 * deg)), ("(-0.1,0.2) - 8 degrees", Iso2::new(Vector2::new(-0.1, 0.2), -8.0 * deg))] {
                let guess = off * disp.inverse();
                let d = || format!("2D {}, sample set A: on the outline, VERY far displacement ({:?},{:?}) + {:?} rad, starting guess = ({}) * displacement^-1", sn, fx, fy, fa, on);
                eval2(r, &v, &curve, &pts, &disp, &guess, true, &d);
            }
        }
    }
}

// ============================================================================================== WAVE 5
// Parameter-space audit (notes/w5_audit_C07.md): references that are tiny / large / far from the origin, slanted and
// asymmetric shapes (tetrahedral wedge, scalene triangle, open hook), measured sets with deviations on BOTH sides,
// sample counts around 32 / 64 / 1000 / 4096 (not multiples of a batch size), duplicates that are not neighbours,
// sample sets with fewer points than parameters and starting guesses far outside the basin (honesty clauses only),
// near-identity displacements with a long lever arm, displacements towards the edge of the basin.
// Tolerances follow the reference: a length tolerance is RTOL * (part scale s + value) + 2e-14 * (largest coordinate).

struct Ref3 { name: String, mesh: Mesh, tris: Vec<[Point3; 3]>, s: f64, omax: f64, centre: Point3 }
fn ref3(name: &str, verts: &[Point3], faces: &[[u32; 3]], s: f64, o: (f64, f64, f64)) -> Ref3 {
    let ov = Vector3::new(o.0, o.1, o.2);
    let v: Vec<Point3> = verts.iter().map(|p| Point3::from(p.coords * s + ov)).collect();
    let tris: Vec<[Point3; 3]> = faces.iter().map(|f| [v[f[0] as usize], v[f[1] as usize], v[f[2] as usize]]).collect();
    let omax = v.iter().map(|p| p.coords.amax()).fold(0.0, f64::max);
    let mut c = Vector3::zeros();
    for p in v.iter() { c += p.coords; }
    let centre = Point3::from(c / v.len() as f64);
    Ref3 { name: format!("{} x {:?} + {:?}", name, s, o), mesh: Mesh::new(v, faces.to_vec(), false), tris, s, omax, centre }
}
fn box_geom5() -> (Vec<Point3>, Vec<[u32; 3]>) { let m = Mesh::create_box(4.0, 3.0, 2.0, false); (m.vertices().to_vec(), m.faces().to_vec()) }
/// right-angled tetrahedron with legs 6 / 4 / 3: three mutually orthogonal faces and one slanted face, all edges different
fn wedge_geom5() -> (Vec<Point3>, Vec<[u32; 3]>) {
    (vec![Point3::new(0.0, 0.0, 0.0), Point3::new(6.0, 0.0, 0.0), Point3::new(0.0, 4.0, 0.0), Point3::new(0.0, 0.0, 3.0)], vec![[0, 2, 1], [0, 1, 3], [0, 3, 2], [1, 2, 3]])
}
/// n points spread over the triangles of the reference (point k on triangle k % ntri, barycentric coordinates from a fixed
/// integer sequence, at least 1/16 (barycentric) from every edge); `dev`: lifted off the face along its normal by a signed
/// deviation +-(0.02 .. 0.08) * s varying from point to point (every third point on the INNER side; every fifth point sits
/// diagonally off an edge of its triangle)
fn spread3(rf: &Ref3, n: usize, dev: bool) -> Vec<Point3> {
    let nt = rf.tris.len();
    (0..n).map(|k| {
        let t = &rf.tris[k % nt];
        let i = k / nt;
        let u = 0.0625 + 0.40625 * (((i * 37 + 11) % 97) as f64 / 97.0);
        let v = 0.0625 + 0.40625 * (((i * 53 + 29) % 89) as f64 / 89.0);
        let p = t[0] + (t[1] - t[0]) * u + (t[2] - t[0]) * v;
        if !dev { return p; }
        let nrm = (t[1] - t[0]).cross(&(t[2] - t[0])).normalize();
        let sg = if k % 3 == 1 { -1.0 } else { 1.0 };
        if k % 5 == 4 {
            // diagonally off the edge t0-t1 (0.04 s in the plane of the triangle, 0.03 s along its normal): on a real edge of
            // the solid the closest mesh point lies ON that edge and the two distance modes differ
            let e = t[1] - t[0];
            let mut w = e.cross(&nrm).normalize();
            if w.dot(&(t[2] - t[0])) > 0.0 { w = -w; }
            return t[0] + e * (0.25 + 0.5 * (((i * 37 + 11) % 97) as f64 / 97.0)) + w * (0.04 * rf.s) + nrm * (sg * 0.03 * rf.s);
        }
        p + nrm * (sg * (0.02 + 0.01 * ((k * 3) % 7) as f64) * rf.s)
    }).collect()
}
fn about3(c: &Point3, d: &Iso3) -> Iso3 { Iso3::translation(c.x, c.y, c.z) * d * Iso3::translation(-c.x, -c.y, -c.z) }
fn near_s(a: f64, b: f64, s: f64, omax: f64) -> bool { (a - b).abs() <= RTOL * (s + a.abs().max(b.abs())) + 2.0e-14 * omax }
fn mesh_residuals_s(t: &[[Point3; 3]], m: &Point3, eps: f64) -> (f64, Vec<f64>) {
    let cp: Vec<Point3> = t.iter().map(|x| tri_closest(&x[0], &x[1], &x[2], m)).collect();
    let d: Vec<f64> = cp.iter().map(|c| (m - c).norm()).collect();
    let dmin = d.iter().cloned().fold(f64::INFINITY, f64::min);
    let mut planes = vec![];
    for (k, x) in t.iter().enumerate() {
        if d[k] <= dmin + eps { let n = (x[1] - x[0]).cross(&(x[2] - x[0])).normalize(); planes.push(n.dot(&(m - cp[k])).abs()); }
    }
    (dmin, planes)
}
struct Out3 { ok: bool, err: f64, tf: Iso3, res: Vec<f64> }
/// all clauses of one alignment against a scaled / moved reference.  `base`: the sample points before the displacement
/// `total` (pts = total * base); `recover`: Some(tol) demands  |T * total * b - b| <= tol * s for every base point b and
/// rotation(T * total) == identity within tol
fn eval3s(r: &mut Report, rf: &Ref3, base: &[Point3], total: &Iso3, guess: &Iso3, to_point: bool, recover: Option<f64>, d: &dyn Fn() -> String) -> Out3 {
    r.case();
    let pts: Vec<Point3> = base.iter().map(|p| total * p).collect();
    let mode = if to_point { DistMode::ToPoint } else { DistMode::ToPlane };
    let al = match points_to_mesh(&pts, &rf.mesh, guess, mode) {
        Ok(a) => a,
        Err(_) => { if recover.is_some() { r.check(false, "3D: alignment of a displacement inside the basin succeeds", d); } return Out3 { ok: false, err: f64::NAN, tf: Iso3::identity(), res: vec![] }; }
    };
    let tf = *al.transform();
    let back = tf * total;
    let mut e: f64 = 0.0;
    for b in base.iter() { e = e.max((back * b - b).norm() / rf.s); }
    let rot = (back.rotation.to_rotation_matrix().matrix() - parry3d_f64::na::Matrix3::identity()).amax();
    let err = e.max(rot);
    if let Some(tol) = recover {
        r.check(err <= tol, "3D (scaled / moved / slanted references): the returned transform composed with the displacement moves no sample point by more than the stated tolerance x part scale and has the identity rotation", || format!("{}: max |T*D*p - p| / scale = {:?}, max |entry of rotation - I| = {:?}, tolerance {:?}", d(), e, rot, tol));
    }
    r.check(al.residuals().len() == pts.len(), "3D: one residual per input point", d);
    if al.residuals().len() != pts.len() { return Out3 { ok: true, err, tf, res: al.residuals().to_vec() }; }
    let finite = al.residuals().iter().all(|x| x.is_finite()) && tf.to_homogeneous().iter().all(|x| x.is_finite());
    r.check(finite, "3D: a successful alignment reports a finite transform and finite residuals", d);
    if !finite { return Out3 { ok: true, err, tf, res: al.residuals().to_vec() }; }
    let mut ok = true;
    let mut worst = (0usize, 0.0, 0.0);
    let mut start = 0.0;
    for (i, p) in pts.iter().enumerate() {
        // rounding scales with the largest coordinate involved (a solve that ran away can leave the points 1e8 from the reference)
        let m = tf * p;
        let mag = rf.omax.max(m.coords.amax());
        let (dist, planes) = mesh_residuals_s(&rf.tris, &m, RTOL * rf.s + 2.0e-14 * mag);
        let got = al.residuals()[i];
        let fine = if to_point { near_s(got, dist, rf.s, mag) } else { planes.iter().any(|x| near_s(got, *x, rf.s, mag)) };
        if !fine && ok { ok = false; worst = (i, got, if to_point { dist } else { planes[0] }); }
        let m0 = guess * p;
        let (d0, pl0) = mesh_residuals_s(&rf.tris, &m0, RTOL * rf.s + 2.0e-14 * rf.omax.max(m0.coords.amax()));
        let x = if to_point { d0 } else { pl0.iter().cloned().fold(0.0, f64::max) };
        start += x * x;
    }
    r.check(ok, "3D: residual i is the mode-specific distance of (returned transform * input point i) to the mesh", || format!("{}: residual[{}] = {:?}, recomputed {:?}", d(), worst.0, worst.1, worst.2));
    let end: f64 = al.residuals().iter().map(|x| x * x).sum();
    let slack = 1e-12 * (rf.s * rf.s + start) + 1e-13 * rf.omax * (rf.s + start.sqrt());
    r.check(end <= start + slack, "3D: the residual sum of squares is not larger than at the starting guess", || format!("{}: start {:?} end {:?}", d(), start, end));
    Out3 { ok: true, err, tf, res: al.residuals().to_vec() }
}

struct Ref2 { name: String, curve: Curve2, v: Vec<Point2>, s: f64, omax: f64, centre: Point2 }
fn ref2(name: &str, verts: &[(f64, f64)], closed: bool, s: f64, o: (f64, f64)) -> Ref2 {
    let pts: Vec<Point2> = verts.iter().map(|(x, y)| Point2::new(x * s + o.0, y * s + o.1)).collect();
    let curve = Curve2::from_points(&pts, 1e-8 * s, closed).unwrap();
    let v = curve.points().to_vec();
    let omax = v.iter().map(|p| p.coords.amax()).fold(0.0, f64::max);
    let mut c = Vector2::zeros();
    for p in pts.iter() { c += p.coords; }
    let centre = Point2::from(c / pts.len() as f64);
    Ref2 { name: format!("{} {} x {:?} + {:?}", if closed { "closed" } else { "OPEN" }, name, s, o), curve, v, s, omax, centre }
}
/// n points spread over the edges (point k on edge k % nedges, at a fraction 1/8 .. 7/8 of the edge from a fixed integer
/// sequence); `dev`: offset along the edge normal by a signed deviation +-(0.005 .. 0.03) * s (both sides)
fn spread2(rf: &Ref2, n: usize, dev: bool) -> Vec<Point2> {
    let ne = rf.v.len() - 1;
    (0..n).map(|k| {
        let (a, b) = (rf.v[k % ne], rf.v[k % ne + 1]);
        let i = k / ne;
        let f = 0.125 + 0.75 * (((i * 37 + 11) % 97) as f64 / 97.0);
        let p = a + (b - a) * f;
        if !dev { return p; }
        let e = (b - a).normalize();
        let sg = if k % 3 == 1 { -1.0 } else { 1.0 };
        // every fifth point: beyond the end vertex of its edge (0.03 s along the edge, 0.02 s along the normal)
        if k % 5 == 4 { return b + e * (0.03 * rf.s) + Vector2::new(e.y, -e.x) * (sg * 0.02 * rf.s); }
        p + Vector2::new(e.y, -e.x) * (sg * (0.005 + 0.005 * ((k * 3) % 6) as f64) * rf.s)
    }).collect()
}
fn about2(c: &Point2, d: &Iso2) -> Iso2 { Iso2::translation(c.x, c.y) * d * Iso2::translation(-c.x, -c.y) }
fn curve_residuals_s(v: &[Point2], m: &Point2, eps: f64) -> Vec<f64> {
    let mut cps = vec![];
    for i in 0..v.len() - 1 {
        let ab = v[i + 1] - v[i];
        let cp = v[i] + ab * ((m - v[i]).dot(&ab) / ab.norm_squared()).clamp(0.0, 1.0);
        let e = ab.normalize();
        cps.push(((m - cp).norm(), Vector2::new(e.y, -e.x).dot(&(m - cp))));
    }
    let dmin = cps.iter().map(|x| x.0).fold(f64::INFINITY, f64::min);
    cps.iter().filter(|x| x.0 <= dmin + eps).map(|x| x.1).collect()
}
struct Out2 { ok: bool, err: f64, tf: Iso2, res: Vec<f64> }
fn eval2s(r: &mut Report, rf: &Ref2, base: &[Point2], total: &Iso2, guess: &Iso2, recover: Option<f64>, d: &dyn Fn() -> String) -> Out2 {
    r.case();
    let pts: Vec<Point2> = base.iter().map(|p| total * p).collect();
    let al = match points_to_curve(&pts, &rf.curve, guess) {
        Ok(a) => a,
        Err(_) => { if recover.is_some() { r.check(false, "2D: alignment of a displacement inside the basin succeeds", d); } return Out2 { ok: false, err: f64::NAN, tf: Iso2::identity(), res: vec![] }; }
    };
    let tf = *al.transform();
    let back = tf * total;
    let mut e: f64 = 0.0;
    for b in base.iter() { e = e.max((back * b - b).norm() / rf.s); }
    let rot = (back.rotation.to_rotation_matrix().matrix() - parry2d_f64::na::Matrix2::identity()).amax();
    let err = e.max(rot);
    if let Some(tol) = recover {
        r.check(err <= tol, "2D (scaled / moved / slanted / open references): the returned transform composed with the displacement moves no sample point by more than the stated tolerance x part scale and has the identity rotation", || format!("{}: max |T*D*p - p| / scale = {:?}, max |entry of rotation - I| = {:?}, tolerance {:?}", d(), e, rot, tol));
    }
    r.check(al.residuals().len() == pts.len(), "2D: one residual per input point", d);
    if al.residuals().len() != pts.len() { return Out2 { ok: true, err, tf, res: al.residuals().to_vec() }; }
    let finite = al.residuals().iter().all(|x| x.is_finite()) && tf.to_homogeneous().iter().all(|x| x.is_finite());
    r.check(finite, "2D: a successful alignment reports a finite transform and finite residuals", d);
    if !finite { return Out2 { ok: true, err, tf, res: al.residuals().to_vec() }; }
    let mut ok = true;
    let mut worst = (0usize, 0.0, 0.0);
    let mut start = 0.0;
    for (i, q) in pts.iter().enumerate() {
        let m = tf * q;
        let mag = rf.omax.max(m.coords.amax());
        let want = curve_residuals_s(&rf.v, &m, RTOL * rf.s + 2.0e-14 * mag);
        let got = al.residuals()[i];
        if !want.iter().any(|x| near_s(got, *x, rf.s, mag)) && ok { ok = false; worst = (i, got, want[0]); }
        let m0 = guess * q;
        let w = curve_residuals_s(&rf.v, &m0, RTOL * rf.s + 2.0e-14 * rf.omax.max(m0.coords.amax()));
        let x = w.iter().map(|x| x.abs()).fold(0.0, f64::max);
        start += x * x;
    }
    r.check(ok, "2D: residual i is the signed distance of (returned transform * input point i) to the curve along the edge normal", || format!("{}: residual[{}] = {:?}, recomputed {:?}", d(), worst.0, worst.1, worst.2));
    let end: f64 = al.residuals().iter().map(|x| x * x).sum();
    let slack = 1e-12 * (rf.s * rf.s + start) + 1e-13 * rf.omax * (rf.s + start.sqrt());
    r.check(end <= start + slack, "2D: the residual sum of squares is not larger than at the starting guess", || format!("{}: start {:?} end {:?}", d(), start, end));
    Out2 { ok: true, err, tf, res: al.residuals().to_vec() }
}

/// the starting guess IS the answer and every residual is exactly 0.0 at the start (dyadic samples, dyadic translation): the
/// driver makes no step at all; the returned transform must still be the guess (not the identity) and the residuals its own
fn run_w5_zero(r: &mut Report) {
    let mesh = Mesh::create_box(4.0, 3.0, 2.0, false);
    let t = box_tris(&mesh);
    let (clean, _) = box_samples();
    for (gx, gy, gz) in [(-256.0, 128.0, 64.0), (0.5, -0.25, 0.125), (0.0, 0.0, -1024.0)] { for to_point in [false, true] {
        let guess = iso3((gx, gy, gz), (0.0, 0.0, 0.0));
        let total = iso3((-gx, -gy, -gz), (0.0, 0.0, 0.0));
        let pts: Vec<Point3> = clean.iter().map(|p| total * p).collect();
        let d = || format!("3D box 4x3x2, sample set A: on the faces, displaced by the exactly representable translation ({:?},{:?},{:?}), starting guess = exactly the inverse translation (all residuals 0.0 at the start: no solver step), mode {}", -gx, -gy, -gz, if to_point { "ToPoint" } else { "ToPlane" });
        eval3(r, &t, &mesh, &pts, &total, &guess, to_point, true, &d);
    } }
    let p = |x: f64, y: f64| Point2::new(x, y);
    for (sn, verts) in [("closed L outline (0,0),(6,0),(6,2),(3,2),(3,4),(0,4)", vec![p(0.0, 0.0), p(6.0, 0.0), p(6.0, 2.0), p(3.0, 2.0), p(3.0, 4.0), p(0.0, 4.0), p(0.0, 0.0)]), ("closed rectangle 4x3", vec![p(0.0, 0.0), p(4.0, 0.0), p(4.0, 3.0), p(0.0, 3.0), p(0.0, 0.0)])] {
        let curve = Curve2::from_points(&verts, 1e-8, true).unwrap();
        let v = curve.points().to_vec();
        let base = outline_samples(&v, false);
        for (gx, gy) in [(-256.0, 128.0), (0.5, -0.25), (0.0, -1024.0)] {
            let guess = Iso2::translation(gx, gy);
            let total = Iso2::translation(-gx, -gy);
            let pts: Vec<Point2> = base.iter().map(|q| total * q).collect();
            let d = || format!("2D {}, sample set A: on the outline, displaced by the exactly representable translation ({:?},{:?}), starting guess = exactly the inverse translation (all residuals 0.0 at the start: no solver step)", sn, -gx, -gy);
            eval2(r, &v, &curve, &pts, &total, &guess, true, &d);
        }
    }
}

fn run_w5_3d(r: &mut Report) {
    let (bv, bf) = box_geom5();
    let (wv, wf) = wedge_geom5();
    let tiny = 1.0 / 4096.0;
    let modes = [false, true];
    let mname = |tp: bool| if tp { "ToPoint" } else { "ToPlane" };
    // (1) magnitudes of the REFERENCE: tiny (extent 1e-3), large (4e3), far from the origin (3e4, 1e6), slanted faces
    let refs: Vec<Ref3> = vec![
        ref3("box 4x3x2", &bv, &bf, tiny, (0.0, 0.0, 0.0)),
        ref3("box 4x3x2", &bv, &bf, 1024.0, (0.0, 0.0, 0.0)),
        ref3("box 4x3x2", &bv, &bf, 1.0, (16384.0, -32768.0, 8192.0)),
        ref3("box 4x3x2", &bv, &bf, 1024.0, (1048576.0, -524288.0, 262144.0)),
        ref3("wedge (0,0,0),(6,0,0),(0,4,0),(0,0,3)", &wv, &wf, 1.0, (0.0, 0.0, 0.0)),
        ref3("wedge (0,0,0),(6,0,0),(0,4,0),(0,0,3)", &wv, &wf, tiny, (0.0, 0.0, 0.0)),
        ref3("wedge (0,0,0),(6,0,0),(0,4,0),(0,0,3)", &wv, &wf, 1.0, (-8192.0, 4096.0, 16384.0)),
        ref3("wedge (0,0,0),(6,0,0),(0,4,0),(0,0,3) with REVERSED winding (all normals inward)", &wv, &wf.iter().map(|f| [f[0], f[2], f[1]]).collect::<Vec<_>>(), 1.0, (0.0, 0.0, 0.0)),
        ref3("wedge (0,0,0),(6,0,0),(0,4,0),(0,0,3) with MIXED winding (faces 1 and 3 reversed)", &wv, &wf.iter().enumerate().map(|(k, f)| if k % 2 == 1 { [f[0], f[2], f[1]] } else { *f }).collect::<Vec<_>>(), 1.0, (0.0, 0.0, 0.0)),
    ];
    for rf in refs.iter() {
        let s = rf.s;
        let smalls: Vec<(&str, Iso3)> = vec![
            ("identity", Iso3::identity()),
            ("translation (0.05,-0.03,0.04) x scale", iso3((0.05 * s, -0.03 * s, 0.04 * s), (0.0, 0.0, 0.0))),
            ("euler (0.01,-0.02,0.015) about the part centre + (0.02,0.01,-0.03) x scale", iso3((0.02 * s, 0.01 * s, -0.03 * s), (0.01, -0.02, 0.015))),
            ("-3 degrees about (1,1,1) through the part centre", rot3((1.0, 1.0, 1.0), -3.0 * std::f64::consts::PI / 180.0)),
            ("tiny: (3e-5,-2e-5,1e-5) x scale + euler (4e-6,0,-3e-6) about the part centre", iso3((3.0e-5 * s, -2.0e-5 * s, 1.0e-5 * s), (4.0e-6, 0.0, -3.0e-6))),
        ];
        let guesses: Vec<(&str, Iso3)> = vec![
            ("identity", Iso3::identity()),
            ("small: euler (0.005,0.005,-0.005) about the part centre + (0.01,-0.01,0.01) x scale", about3(&rf.centre, &iso3((0.01 * s, -0.01 * s, 0.01 * s), (0.005, 0.005, -0.005)))),
        ];
        let n = 4 * rf.tris.len() + 3;
        for (set, dev) in [("A: on the faces", false), ("B: measured, deviations on both sides", true)] {
            let mut base = spread3(rf, n, dev);
            if dev { let rep = base[5]; base.push(rep); }
            for (dn, dd) in smalls.iter() { for (gn, guess) in guesses.iter() { for to_point in modes {
                let total = about3(&rf.centre, dd);
                let d = || format!("3D {}, sample set {} ({} points), displacement {}, guess {}, mode {}", rf.name, set, base.len(), dn, gn, mname(to_point));
                eval3s(r, rf, &base, &total, guess, to_point, if dev { None } else { Some(1e-6) }, &d);
            } } }
        }
        // near-identity motion with a long lever arm: 1e-8 rad about an axis through the ORIGIN (the part is `omax` away)
        if rf.omax > 1000.0 * s {
            let base = spread3(rf, n, false);
            for (an, ax) in [("z", (0.0, 0.0, 1.0)), ("(1,-1,1)", (1.0, -1.0, 1.0))] { for to_point in modes {
                let total = rot3(ax, 1.0e-8);
                let d = || format!("3D {}, sample set A ({} points), displacement: rotation of 1e-8 rad about the axis {} through the ORIGIN, guess identity, mode {}", rf.name, base.len(), an, mname(to_point));
                eval3s(r, rf, &base, &total, &Iso3::identity(), to_point, Some(1e-9), &d);
            } }
        }
    }
    // (2) sample counts around the usual batch sizes, clean and measured, both modes
    let rb = ref3("box 4x3x2", &bv, &bf, 1.0, (0.0, 0.0, 0.0));
    let rw = ref3("wedge (0,0,0),(6,0,0),(0,4,0),(0,0,3)", &wv, &wf, 1.0, (0.0, 0.0, 0.0));
    let dd = iso3((0.05, -0.03, 0.04), (0.01, -0.02, 0.015));
    for rf in [&rb, &rw] {
        for n in [31usize, 33, 65, 130, 1001, 4099, 16411, 100003] { for dev in [false, true] { for to_point in modes {
            if n > 1000 && !std::ptr::eq(rf, &rb) && !super::thorough() { continue; }
            if n > 100000 && !super::thorough() { continue; }
            let base = spread3(rf, n, dev);
            let total = about3(&rf.centre, &dd);
            let d = || format!("3D {}, {} points spread over the faces ({}), displacement (0.05,-0.03,0.04) + euler (0.01,-0.02,0.015) about the part centre, guess identity, mode {}", rf.name, n, if dev { "measured, deviations on both sides" } else { "on the faces" }, mname(to_point));
            eval3s(r, rf, &base, &total, &Iso3::identity(), to_point, if dev { None } else { Some(1e-6) }, &d);
        } } }
        // (3) duplicates that are not neighbours: the whole set twice, and the set followed by its reverse
        for dev in [false, true] { for to_point in modes { for rev in [false, true] {
            let one = spread3(rf, 41, dev);
            let mut base = one.clone();
            if rev { base.extend(one.iter().rev().cloned()); } else { base.extend(one.iter().cloned()); }
            let total = about3(&rf.centre, &dd);
            let d = || format!("3D {}, 41 points ({}) followed by {} (82 points, every point twice), displacement (0.05,-0.03,0.04) + euler (0.01,-0.02,0.015), guess identity, mode {}", rf.name, if dev { "measured" } else { "on the faces" }, if rev { "the same points in reverse order" } else { "the same points again" }, mname(to_point));
            eval3s(r, rf, &base, &total, &Iso3::identity(), to_point, if dev { None } else { Some(1e-6) }, &d);
        } } }
        // (4) fewer points than parameters (0 .. 5) and garbage guesses: outside the statement's quantifier for recovery, but
        // "every successful alignment" must still be honest: if Ok, residuals describe the returned transform, RSS <= start
        // (6 .. 24 points: no recovery demanded either - such a spread need not fix every degree of freedom - but the measured
        // sets are over-determined, end on non-zero residuals and contain points whose closest mesh point is on an edge)
        for n in [0usize, 1, 2, 3, 5, 6, 7, 8, 9, 11, 12, 13, 17, 24] { for dev in [false, true] { for to_point in modes {
            let base = spread3(rf, n, dev);
            let total = about3(&rf.centre, &dd);
            let d = || format!("3D {}, only {} point(s) ({}), displacement (0.05,-0.03,0.04) + euler (0.01,-0.02,0.015), guess identity, mode {}", rf.name, n, if dev { "measured" } else { "on the faces" }, mname(to_point));
            eval3s(r, rf, &base, &total, &Iso3::identity(), to_point, None, &d);
        } } }
        let garbage: Vec<(&str, Iso3)> = vec![
            ("translation (50,0,0): the part lies far outside the reference", iso3((50.0, 0.0, 0.0), (0.0, 0.0, 0.0))),
            ("translation (1e6,-2e6,5e5)", iso3((1.0e6, -2.0e6, 5.0e5), (0.0, 0.0, 0.0))),
            ("quarter turn about z through the part centre", about3(&rf.centre, &rot3((0.0, 0.0, 1.0), FRAC_PI_2))),
            ("turn of 2 rad about (1,2,3) through the part centre + (1,1,1)", Iso3::translation(1.0, 1.0, 1.0) * about3(&rf.centre, &rot3((1.0, 2.0, 3.0), 2.0))),
            ("translation (1e12,0,0)", iso3((1.0e12, 0.0, 0.0), (0.0, 0.0, 0.0))),
        ];
        for (gn, guess) in garbage.iter() { for dev in [false, true] { for to_point in modes {
            let base = spread3(rf, 45, dev);
            let total = about3(&rf.centre, &dd);
            let d = || format!("3D {}, 45 points ({}), displacement (0.05,-0.03,0.04) + euler (0.01,-0.02,0.015), starting guess FAR OUTSIDE the basin: {}, mode {}", rf.name, if dev { "measured" } else { "on the faces" }, gn, mname(to_point));
            eval3s(r, rf, &base, &total, guess, to_point, None, &d);
        } } }
    }
    // (5) near-identity displacements (1e-8) and displacements towards the edge of the basin, samples on the faces
    for rf in [&rb, &rw] {
        let base = spread3(rf, 60, false);
        for (dn, dd, tol) in [
            ("near-identity: (1e-8,-2e-8,1.5e-8) + 1e-8 rad about (1,1,1) through the part centre", Iso3::translation(1.0e-8, -2.0e-8, 1.5e-8) * rot3((1.0, 1.0, 1.0), 1.0e-8), 1e-9),
            ("near-identity: translation (0,0,1e-8)", Iso3::translation(0.0, 0.0, 1.0e-8), 1e-9),
            ("edge of the basin: (0.3,-0.2,0.25) + euler (0.1,0.2,0.3) about the part centre", iso3((0.3, -0.2, 0.25), (0.1, 0.2, 0.3)), 1e-6),
            ("edge of the basin: (-0.25,0.3,0.2) + 12 degrees about (1,-2,1) through the part centre", Iso3::translation(-0.25, 0.3, 0.2) * rot3((1.0, -2.0, 1.0), 12.0 * std::f64::consts::PI / 180.0), 1e-6),
        ] { for to_point in modes {
            let total = about3(&rf.centre, &dd);
            let d = || format!("3D {}, 60 points on the faces, displacement {}, guess identity, mode {}", rf.name, dn, mname(to_point));
            eval3s(r, rf, &base, &total, &Iso3::identity(), to_point, Some(tol), &d);
        } }
    }
}

fn run_w5_2d(r: &mut Report) {
    let tiny = 1.0 / 4096.0;
    let l: Vec<(f64, f64)> = vec![(0.0, 0.0), (6.0, 0.0), (6.0, 2.0), (3.0, 2.0), (3.0, 4.0), (0.0, 4.0)];
    let tri: Vec<(f64, f64)> = vec![(0.0, 0.0), (7.0, 1.0), (2.0, 5.0)];
    let hook: Vec<(f64, f64)> = vec![(0.0, 0.0), (5.0, 0.0), (5.0, 3.0), (2.0, 4.0)];
    let refs: Vec<Ref2> = vec![
        ref2("L outline (0,0),(6,0),(6,2),(3,2),(3,4),(0,4)", &l, true, tiny, (0.0, 0.0)),
        ref2("L outline (0,0),(6,0),(6,2),(3,2),(3,4),(0,4)", &l, true, 1024.0, (0.0, 0.0)),
        ref2("L outline (0,0),(6,0),(6,2),(3,2),(3,4),(0,4)", &l, true, 1.0, (16384.0, -32768.0)),
        ref2("L outline (0,0),(6,0),(6,2),(3,2),(3,4),(0,4)", &l, true, 1024.0, (1048576.0, -524288.0)),
        ref2("scalene triangle (0,0),(7,1),(2,5)", &tri, true, 1.0, (0.0, 0.0)),
        ref2("scalene triangle (0,0),(7,1),(2,5)", &tri, true, tiny, (0.0, 0.0)),
        ref2("scalene triangle (0,0),(7,1),(2,5)", &tri, true, 1.0, (-8192.0, 4096.0)),
        ref2("hook (0,0),(5,0),(5,3),(2,4)", &hook, false, 1.0, (0.0, 0.0)),
        ref2("hook (0,0),(5,0),(5,3),(2,4)", &hook, false, tiny, (0.0, 0.0)),
        ref2("hook (0,0),(5,0),(5,3),(2,4)", &hook, false, 1.0, (16384.0, 8192.0)),
        ref2("scalene triangle CLOCKWISE (0,0),(2,5),(7,1)", &[(0.0, 0.0), (2.0, 5.0), (7.0, 1.0)], true, 1.0, (0.0, 0.0)),
        ref2("hook REVERSED (2,4),(5,3),(5,0),(0,0)", &[(2.0, 4.0), (5.0, 3.0), (5.0, 0.0), (0.0, 0.0)], false, 1.0, (0.0, 0.0)),
    ];
    let deg = std::f64::consts::PI / 180.0;
    for rf in refs.iter() {
        let s = rf.s;
        let smalls: Vec<(&str, Iso2)> = vec![
            ("identity", Iso2::identity()),
            ("(0.04,-0.03) x scale + 0.02 rad about the part centre", Iso2::new(Vector2::new(0.04 * s, -0.03 * s), 0.02)),
            ("(-0.05,0.0) x scale - 3 degrees about the part centre", Iso2::new(Vector2::new(-0.05 * s, 0.0), -3.0 * deg)),
            ("tiny: (3e-5,-2e-5) x scale + 4e-6 rad about the part centre", Iso2::new(Vector2::new(3.0e-5 * s, -2.0e-5 * s), 4.0e-6)),
        ];
        let guesses: Vec<(&str, Iso2)> = vec![("identity", Iso2::identity()), ("(0.01,-0.01) x scale + 0.005 rad about the part centre", about2(&rf.centre, &Iso2::new(Vector2::new(0.01 * s, -0.01 * s), 0.005)))];
        let n = 7 * (rf.v.len() - 1) + 2;
        for (set, dev) in [("A: on the curve", false), ("B: measured, deviations on both sides", true)] {
            let mut base = spread2(rf, n, dev);
            if dev { let rep = base[4]; base.push(rep); }
            for (dn, dd) in smalls.iter() { for (gn, guess) in guesses.iter() {
                let total = about2(&rf.centre, dd);
                let d = || format!("2D {}, sample set {} ({} points), displacement {}, guess {}", rf.name, set, base.len(), dn, gn);
                eval2s(r, rf, &base, &total, guess, if dev { None } else { Some(1e-6) }, &d);
            } }
        }
        if rf.omax > 1000.0 * s {
            let base = spread2(rf, n, false);
            let total = Iso2::rotation(1.0e-8);
            let d = || format!("2D {}, sample set A ({} points), displacement: rotation of 1e-8 rad about the ORIGIN, guess identity", rf.name, base.len());
            eval2s(r, rf, &base, &total, &Iso2::identity(), Some(1e-9), &d);
        }
    }
    let dd = Iso2::new(Vector2::new(0.04, -0.03), 0.02);
    for rf in [&refs[4], &refs[7], &ref2("L outline (0,0),(6,0),(6,2),(3,2),(3,4),(0,4)", &l, true, 1.0, (0.0, 0.0))] {
        let total = about2(&rf.centre, &dd);
        for n in [31usize, 33, 65, 130, 1001, 4099, 16411, 100003] { for dev in [false, true] {
            if n > 100000 && !super::thorough() { continue; }
            let base = spread2(rf, n, dev);
            let d = || format!("2D {}, {} points spread over the edges ({}), displacement (0.04,-0.03) + 0.02 rad about the part centre, guess identity", rf.name, n, if dev { "measured, deviations on both sides" } else { "on the curve" });
            eval2s(r, rf, &base, &total, &Iso2::identity(), if dev { None } else { Some(1e-6) }, &d);
        } }
        for dev in [false, true] { for rev in [false, true] {
            let one = spread2(rf, 23, dev);
            let mut base = one.clone();
            if rev { base.extend(one.iter().rev().cloned()); } else { base.extend(one.iter().cloned()); }
            let d = || format!("2D {}, 23 points ({}) followed by {} (46 points, every point twice), displacement (0.04,-0.03) + 0.02 rad, guess identity", rf.name, if dev { "measured" } else { "on the curve" }, if rev { "the same points in reverse order" } else { "the same points again" });
            eval2s(r, rf, &base, &total, &Iso2::identity(), if dev { None } else { Some(1e-6) }, &d);
        } }
        for n in [0usize, 1, 2, 3, 4, 5, 7, 9, 12] { for dev in [false, true] {
            let base = spread2(rf, n, dev);
            let d = || format!("2D {}, only {} point(s) ({}), displacement (0.04,-0.03) + 0.02 rad, guess identity", rf.name, n, if dev { "measured" } else { "on the curve" });
            eval2s(r, rf, &base, &total, &Iso2::identity(), None, &d);
        } }
        let garbage: Vec<(&str, Iso2)> = vec![
            ("translation (50,0): the part lies far outside the reference", Iso2::translation(50.0, 0.0)),
            ("translation (1e6,-2e6)", Iso2::translation(1.0e6, -2.0e6)),
            ("quarter turn about the part centre", about2(&rf.centre, &Iso2::rotation(FRAC_PI_2))),
            ("turn of 2.5 rad about the part centre + (1,1)", Iso2::translation(1.0, 1.0) * about2(&rf.centre, &Iso2::rotation(2.5))),
            ("translation (1e12,0)", Iso2::translation(1.0e12, 0.0)),
            ("translation (40,60)", Iso2::translation(40.0, 60.0)),
            ("translation (0,-80) + half turn about the part centre", Iso2::translation(0.0, -80.0) * about2(&rf.centre, &Iso2::rotation(std::f64::consts::PI))),
            ("translation (-30,2)", Iso2::translation(-30.0, 2.0)),
            ("translation (3,3)", Iso2::translation(3.0, 3.0)),
            ("translation (-2,1) + 1 rad about the part centre", Iso2::translation(-2.0, 1.0) * about2(&rf.centre, &Iso2::rotation(1.0))),
        ];
        for (gn, guess) in garbage.iter() { for dev in [false, true] {
            let base = spread2(rf, 30, dev);
            let d = || format!("2D {}, 30 points ({}), displacement (0.04,-0.03) + 0.02 rad, starting guess FAR OUTSIDE the basin: {}", rf.name, if dev { "measured" } else { "on the curve" }, gn);
            eval2s(r, rf, &base, &total, guess, None, &d);
        } }
        let base = spread2(rf, 40, false);
        for (dn, dd, tol) in [
            ("near-identity: (1e-8,-2e-8) + 1e-8 rad about the part centre", Iso2::new(Vector2::new(1.0e-8, -2.0e-8), 1.0e-8), 1e-9),
            ("near-identity: translation (0,1e-8)", Iso2::translation(0.0, 1.0e-8), 1e-9),
            ("edge of the basin: (0.3,-0.2) + 10 degrees about the part centre", Iso2::new(Vector2::new(0.3, -0.2), 10.0 * deg), 1e-6),
            ("edge of the basin: (-0.2,0.3) - 15 degrees about the part centre", Iso2::new(Vector2::new(-0.2, 0.3), -15.0 * deg), 1e-6),
        ] {
            let total = about2(&rf.centre, &dd);
            let d = || format!("2D {}, 40 points on the curve, displacement {}, guess identity", rf.name, dn);
            eval2s(r, rf, &base, &total, &Iso2::identity(), Some(tol), &d);
        }
    }
}

pub fn run() -> Option<Report> {
    let mut r = Report::new("3D: box 4x3x2, sample sets A (54 points on the faces) and B (lifted 0.02..0.08 off the faces + 6 edge-closest points + 2 bit-identical repeats), 6 displacements (translations <= 0.05, rotations <= 3 degrees, one of size 3e-5) x 4 starting guesses (identity, small, pitch exactly -90 / +90 degrees plus roll) x {ToPlane, ToPoint}; 2D: closed L outline and 4x3 rectangle, sets A (7 points per edge) and B (offset -0.03..0.03 along the normal + 2 corner-closest points + 2 repeats), 6 displacements x 2 guesses; ROUND 2 (same clauses, same shapes): starting guesses with large rotations - 3D: 11 guesses with roll / pitch / yaw near +-pi and +-pi/2 (roll and yaw +-(pi-0.02) with the answer at +-(pi+0.03) so that the euler parameter crosses +-pi during the solve, roll exactly pi, yaw exactly -pi, pitch pi-0.02, quarter turns, mixed) x 8 small corrections (<= 0.05 units, <= 0.05 rad) x both sample sets x both modes; 2D: part turned by +-90, +-120, +-135, +-170, +-175, 180 degrees x 3 guesses within (0.05, 3 degrees) of the correction; far-away parts - 3D: 4 displacements of 54 .. 540 units (10x .. 100x the part size) x 2 guesses within 0.2 units / 3 degrees x both modes, 2D: 4 displacements of 72 .. 720 units x 2 guesses; exactly representable configurations (dyadic samples, pure dyadic translations, identity / dyadic translation guesses; several end with all residuals exactly 0.0 after one solver step): 3D 5 x 3 x both modes, 2D 6 per shape; large sample sets: 3D 4374 points (27x27 grid per face up to 1/64 from the edges) in both modes, 2D 4200 points on the L outline; ROUND 3: MINIMAL sample sets (as many residuals as parameters) - 3D: 6 points in the 3-2-1 locating scheme on three mutually orthogonal faces of the box (3 arrangements, every point >= 0.5 from the edges of its face) and one 7-point control x 3 displacements (<= 0.05 units, <= 2 degrees) x 2 guesses x both modes; 2D: 3 points 2-1 on two perpendicular edges (2 arrangements per outline) and one 4-point control x 3 displacements x 2 guesses: the set is accepted (Ok), recovered within 1e-6 and the residual clauses hold; ROUND 4: OPEN references - L bracket (plates 10x6 and 4x6 sharing a fold; 182 samples incl. points on the free edges; ToPoint) and a corner of three plates (104 samples; both modes) x 4 displacements (slides 0.4 / -0.25 along the fold line = in the plane of both plates, two small general motions), guess identity; VERY far displacements - 3D box: (4e5,-3e5,2e5) and (-1e6,0,5e5) with rotations x 2 guesses within 0.2 units / 6 degrees x both modes, 2D: (3e5,-2e5), (-1e6,4e5), (2.5e5,2.5e5) with rotations x 2 guesses within 0.25 units / 8 degrees on both outlines; recovery tolerance 1e-6, residual tolerance 1e-9 relative; WAVE 5 (tolerances scaled with the reference, recovery measured at the sample points): box 4x3x2 and right-angled wedge 6/4/3 (slanted face; also reversed and mixed winding) scaled by 2^-12 / 1 / 2^10 and moved up to (1048576,-524288,262144), L outline / scalene triangle (CCW, CW) / OPEN hook polyline scaled and moved likewise: sets A (on the reference) and B (deviations on both sides, points diagonally off an edge / beyond a vertex, one repeat) x 5 (3D) / 4 (2D) displacements about the part centre x 2 guesses x both modes; rotation of 1e-8 rad about the ORIGIN for the far references (tolerance 1e-9); sample counts 31, 33, 65, 130, 1001, 4099, 16411 (100003: thorough tier) clean and measured; every point twice (same order / reversed); near-identity displacements 1e-8 (tolerance 1e-9) and 10 .. 15 degrees + 0.3 (tolerance 1e-6); exact dyadic translation answer as starting guess (no solver step); honesty only (residual / RSS / finiteness clauses if Ok): 0 .. 24 points, starting guesses far outside the basin (translations 50 .. 1e12, quarter / half turns)");
    run3(&mut r);
    run2(&mut r);
    run3_round2(&mut r);
    run2_round2(&mut r);
    run_minimal(&mut r);
    run_open_and_far(&mut r);
    run_w5_3d(&mut r);
    run_w5_2d(&mut r);
    run_w5_zero(&mut r);
    Some(r)
}
