//! C19 bounded: "basis, frame and plane constructions are orthonormal and right-handed", evaluated on the REAL code.
//! Planes: 6 non-collinear integer point triples, 4 (normal, point) pairs, 4 query points; 7 tilted triangle shapes
//! scaled to edge lengths 1e-3 and 1e-4 at 4 anchors (containment relative to the edge length).  Large clouds:
//! SvdBasis3::from_points on deterministic box clouds (extents 1:5:20) of 2047, 2048, 2049, 4096 points.  Principal axes: 8 point sets
//! in 3D (generic, skew, planar, collinear, coincident; weighted and not) and 4 in 2D, weights from {0.5, 1, 2, 3, 4},
//! weight scale factors {2, 0.5, 8, 1e-6, 1e-18, 1e18}, the 76 (3D) / 24 (2D) isometries of the C03 bounded check for the
//! equivariance clause.  Frame constructors: the six try_from_basis_* on 10 x 11 vector pairs (all signed axis pairs,
//! skew pairs of different lengths, one nearly parallel pair at 1e-3), 3 origins, 12 parallel / zero pairs (6 of them
//! parallel along directions that are not exactly representable, so that the cross product is rounding noise);
//! iso3_from_xyo / iso3_from_basis / iso2_from_basis / Iso3::from(&SvdBasis3) / Iso2::from(&SvdBasis2).
//! Wave 4: rank(tol) with tol exactly on a singular value (hand-set and computed), frames of left- and right-handed basis
//! triples, iso3_from_xyo with a nearly perpendicular second vector (tolerance 1e-12), from_points on point sets far from
//! the origin relative to their extent (exact dyadic coordinates, offset / extent 1e5 .. 3e7).
//! Wave 5 (parameter-space audit, notes/w5_audit_C19.md): exactly rank-deficient point sets of every rank in general
//! orientations with irregular coordinates and 5 .. 4097 points (oracles independent of the reported singular values:
//! projections on the returned axes, total scatter, eigen-structure invariants of the scatter matrix); hand-set singular
//! values and n for variances / stdevs; basis coordinates on hand-set bases; small and medium clouds; power-of-two
//! rescalings; weights all one / mixed magnitude / nearly equal; tied singular values; duplicated points; frame
//! constructors with tiny / huge / unequal lengths, nearly parallel and anti-parallel second arguments, far origins,
//! frames within 1e-11 .. 1e-3 rad of axis-aligned ones; by-value From impls; planes from every order of three exact
//! points with edge 2^-27 .. 2^20 and up to 2^21 from the origin, planes through points up to 1e9 from the origin.
//! Singular vectors are compared up to sign, and only where the singular values are separated (the SVD does not
//! determine them otherwise).  All float comparisons: 1e-9 relative (`close`).
use super::c03::isos3;
use super::{close, Report};
use crate::common::svd_basis::{iso2_from_basis, iso3_from_basis, iso3_from_xyo};
use crate::geom2::{Iso2, Point2, SvdBasis2, Vector2};
use crate::geom3::{Iso3, IsoExtensions3, Plane3, Point3, SurfacePoint3, SvdBasis3, UnitVec3, Vector3};
use parry3d_f64::na::Matrix3;

const E: f64 = 1e-9;
fn p3(x: f64, y: f64, z: f64) -> Point3 { Point3::new(x, y, z) }
fn v3(x: f64, y: f64, z: f64) -> Vector3 { Vector3::new(x, y, z) }
fn cp3(a: &Point3, b: &Point3) -> bool { close(a.x, b.x) && close(a.y, b.y) && close(a.z, b.z) }
fn cv3(a: &Vector3, b: &Vector3) -> bool { close(a.x, b.x) && close(a.y, b.y) && close(a.z, b.z) }
fn cp2(a: &Point2, b: &Point2) -> bool { close(a.x, b.x) && close(a.y, b.y) }
fn cv2(a: &Vector2, b: &Vector2) -> bool { close(a.x, b.x) && close(a.y, b.y) }
fn same_up_to_sign3(a: &Vector3, b: &Vector3) -> bool { cv3(a, b) || cv3(a, &(-b)) }
// clauses about singular VALUES of rank-deficient point sets (collinear, coincident, planar in 3D) carry their own name:
// nalgebra's SVD is inaccurate there (see the known finding), and a failure must not mask the full-rank clauses
fn nm(base: &str, deficient: bool) -> String { if deficient { format!("{} [rank-deficient point set]", base) } else { base.to_string() } }
fn same_up_to_sign2(a: &Vector2, b: &Vector2) -> bool { cv2(a, b) || cv2(a, &(-b)) }

// ------------------------------------------------------------------------------------------------ planes
fn planes(r: &mut Report) {
    let qs = [p3(1.0, 2.0, 3.0), p3(-0.5, 0.25, 4.0), p3(2.0, -3.0, 0.5), p3(0.0, 0.0, 0.0)];
    let scale = |p: &Point3| 1.0 + p.coords.norm();
    let triples = [
        (p3(0.0, 0.0, 0.0), p3(1.0, 0.0, 0.0), p3(0.0, 1.0, 0.0)), (p3(1.0, 2.0, 3.0), p3(4.0, 0.0, 1.0), p3(-2.0, 1.0, 5.0)),
        (p3(0.5, 0.5, 0.5), p3(0.5, 2.5, 0.5), p3(0.5, 0.5, -1.0)), (p3(3.0, -1.0, 2.0), p3(3.0, 4.0, 6.0), p3(-1.0, -1.0, 2.0)),
        (p3(0.0, 0.0, 1.0), p3(0.0, 1.0, 0.0), p3(1.0, 0.0, 0.0)), (p3(10.0, 10.0, 10.0), p3(11.0, 10.0, 10.5), p3(10.0, 12.0, 10.25)),
    ];
    let mut pls: Vec<(String, Plane3)> = vec![];
    for (a, b, c) in triples.iter() {
        r.case();
        let pl = Plane3::from((a, b, c));
        let d = || format!("Plane3::from(({:?}, {:?}, {:?}))", a.coords.as_slice(), b.coords.as_slice(), c.coords.as_slice());
        r.check(close(pl.normal.norm(), 1.0), "plane from three points: the normal is a unit vector", d);
        for p in [a, b, c] { r.check(pl.signed_distance_to_point(p).abs() <= E * scale(p), "plane from three points contains its defining points", d); }
        for p in [a, b, c] { r.check(cp3(&pl.project_point(p), p), "plane from three points projects its defining points onto themselves", d); }
        pls.push((d(), pl));
    }
    let nps = [(v3(0.0, 0.0, 1.0), p3(1.0, 2.0, 3.0)), (v3(1.0, 2.0, 2.0), p3(0.5, -1.0, 2.0)), (v3(2.0, -1.0, 2.0), p3(0.0, 0.0, 0.0)), (v3(1.0, 1.0, 0.0), p3(-3.0, 4.0, 0.25))];
    for (n, p) in nps.iter() {
        r.case();
        let u = UnitVec3::new_normalize(*n);
        let pl = Plane3::from((&u, p));
        let d = || format!("Plane3::from((normalize {:?}, {:?}))", n.as_slice(), p.coords.as_slice());
        r.check(pl.signed_distance_to_point(p).abs() <= E * scale(p), "plane from point and normal contains its defining point", d);
        r.check(cv3(&pl.normal, &u), "plane from point and normal has the given normal", d);
        r.check(cp3(&pl.project_point(p), p), "plane from point and normal projects its defining point onto itself", d);
        let sp = SurfacePoint3::new(*p, u);
        let ps = Plane3::from(&sp);
        r.check(ps.signed_distance_to_point(p).abs() <= E * scale(p) && cv3(&ps.normal, &u), "plane from a surface point contains the point and has its normal", d);
        r.check(cp3(&ps.project_point(p), p), "plane from a surface point projects its defining point onto itself", d);
        for l in [-2.0, 0.5, 3.0] { r.check(close(ps.signed_distance_to_point(&sp.at_distance(l)), l), "plane from a surface point: signed distance of point + l * normal is l", || format!("{} l = {}", d(), l)); }
        pls.push((d(), pl));
    }
    for (name, pl) in pls.iter() {
        let inv = pl.inverted_normal();
        for q in qs.iter() {
            r.case();
            let d = || format!("{} query {:?}", name, q.coords.as_slice());
            let pr = pl.project_point(q);
            r.check(pl.signed_distance_to_point(&pr).abs() <= E * scale(q), "project_point lands on the plane", d);
            r.check(cp3(&pl.project_point(&pr), &pr), "project_point is idempotent", d);
            r.check(close((q - pr).norm(), pl.distance_to_point(q)), "project_point moves the point by exactly its distance to the plane", d);
            r.check(close(pl.distance_to_point(q), pl.signed_distance_to_point(q).abs()), "distance_to_point is the absolute signed distance", d);
            r.check(close(inv.signed_distance_to_point(q), -pl.signed_distance_to_point(q)), "inverted_normal flips the signed distance", d);
            r.check(cp3(&inv.project_point(q), &pr), "inverted_normal keeps the plane in the same position", d);
        }
    }
}

/// small triangles (edge lengths 1e-3, 1e-4; tilted, far from collinear): the plane contains its defining points
/// relative to the size of the triangle -- |signed distance| <= 1e-9 * edge (the cross product of two such edges has
/// norm 1e-6 .. 1e-8: a valid plane, not a degenerate one)
fn small_planes(r: &mut Report) {
    let anchors = [p3(0.0, 0.0, 0.0), p3(1.0, 2.0, 3.0), p3(10.0, 10.0, 10.0), p3(-4.0, 0.5, 2.0)];
    let shapes = [(v3(1.0, 0.0, 0.5), v3(0.0, 1.0, 0.25)), (v3(3.0, -2.0, 2.0), v3(-6.0, -1.0, 4.0)), (v3(0.0, 2.0, 0.0), v3(0.0, 0.0, -1.5)),
        (v3(0.0, 5.0, 4.0), v3(-4.0, 0.0, 0.0)), (v3(0.0, 1.0, -1.0), v3(1.0, 0.0, -1.0)), (v3(1.0, 0.0, 0.5), v3(0.0, 2.0, 0.25)), (v3(0.6, 0.0, 0.8), v3(0.0, 1.0, 0.0))];
    for a in anchors.iter() { for (e1, e2) in shapes.iter() { for edge in [1e-3, 1e-4] {
        r.case();
        let k = edge / e1.norm().max(e2.norm());
        let b = a + e1 * k; let c = a + e2 * k;
        let size = (b - a).norm().max((c - a).norm()).max((c - b).norm());
        let pl = Plane3::from((a, &b, &c));
        let d = || format!("Plane3::from(({:?}, {:?}, {:?})) (edge {:e}, |ab x ac| = {:e}): normal {:?}, d {:e}", a.coords.as_slice(), b.coords.as_slice(), c.coords.as_slice(), size, (b - a).cross(&(c - a)).norm(), pl.normal.as_slice(), pl.d);
        r.check(close(pl.normal.norm(), 1.0), "plane from three points: the normal is a unit vector", d);
        for p in [a, &b, &c] {
            r.check(pl.signed_distance_to_point(p).abs() <= E * size, "plane from three points (small triangle) contains its defining points within 1e-9 of the edge length", d);
            r.check((pl.project_point(p) - p).norm() <= E * size, "plane from three points (small triangle) projects its defining points onto themselves within 1e-9 of the edge length", d);
        }
        let n = (b - a).cross(&(c - a)).normalize();
        r.check((pl.normal.into_inner() - n).norm() <= 1e-6, "plane from three points (small triangle): the normal is along (p2 - p1) x (p3 - p1)", d);
        let q = a + (e1 + e2) * (k / 3.0) + n * (0.5 * edge);
        r.check((pl.signed_distance_to_point(&q) - 0.5 * edge).abs() <= 1e-6 * edge, "plane from three points (small triangle): a point half an edge above the centroid has signed distance half an edge", d);
    } } }
}

// ------------------------------------------------------------------------------------------------ principal axes
struct Set3 { name: &'static str, pts: Vec<Point3>, w: Option<Vec<f64>>, rank: usize }
fn sets3() -> Vec<Set3> {
    let generic = vec![p3(0.0, 0.0, 0.0), p3(4.0, 0.0, 0.0), p3(4.0, 2.0, 0.0), p3(0.0, 2.0, 1.0), p3(1.0, 1.0, 3.0), p3(3.0, -1.0, 0.5)];
    let skew = vec![p3(1.0, 2.0, 3.0), p3(5.0, 4.0, 3.5), p3(-3.0, 0.5, 2.0), p3(2.0, 6.0, 4.0), p3(0.0, -2.0, 1.0)];
    let planar = vec![p3(0.0, 0.0, 0.0), p3(4.0, 0.0, 0.0), p3(4.0, 2.0, 0.0), p3(0.0, 2.0, 0.0), p3(1.0, 1.0, 0.0)];
    let collinear = vec![p3(0.0, 0.0, 0.0), p3(1.0, 2.0, 2.0), p3(2.0, 4.0, 4.0), p3(4.0, 8.0, 8.0)];
    let coincident = vec![p3(1.0, 2.0, 3.0); 4];
    vec![
        Set3 { name: "generic", pts: generic.clone(), w: None, rank: 3 },
        Set3 { name: "generic weighted", pts: generic.clone(), w: Some(vec![1.0, 2.0, 0.5, 4.0, 1.0, 3.0]), rank: 3 },
        Set3 { name: "skew", pts: skew.clone(), w: None, rank: 3 },
        Set3 { name: "skew weighted", pts: skew, w: Some(vec![2.0, 1.0, 1.0, 0.5, 3.0]), rank: 3 },
        Set3 { name: "planar", pts: planar.clone(), w: None, rank: 2 },
        Set3 { name: "planar weighted", pts: planar, w: Some(vec![1.0, 2.0, 3.0, 4.0, 0.5]), rank: 2 },
        Set3 { name: "collinear", pts: collinear, w: None, rank: 1 },
        Set3 { name: "coincident", pts: coincident, w: None, rank: 0 },
    ]
}
fn wmean3(pts: &[Point3], w: Option<&[f64]>) -> Point3 {
    let mut s = Vector3::zeros(); let mut t = 0.0;
    for (i, p) in pts.iter().enumerate() { let wi = w.map_or(1.0, |w| w[i]); s += p.coords * wi; t += wi; }
    Point3::from(s / t)
}
fn sv_separated(sv: &[f64], i: usize) -> bool {
    let top = sv[0].max(1e-300);
    sv[i] > 1e-3 * top && (0..sv.len()).all(|j| j == i || (sv[i] - sv[j]).abs() > 1e-3 * top)
}
fn basis_checks3(r: &mut Report, b: &SvdBasis3, d: &dyn Fn() -> String) {
    for i in 0..3 { for j in i..3 {
        let e = if i == j { 1.0 } else { 0.0 };
        r.check((b.basis[i].dot(&b.basis[j]) - e).abs() <= E, "principal axes: the basis vectors are orthonormal", || format!("{} (b{}.b{} = {})", d(), i, j, b.basis[i].dot(&b.basis[j])));
    } }
    let slack = E * (1.0 + b.sv[0]);
    r.check(b.sv[0] + slack >= b.sv[1] && b.sv[1] + slack >= b.sv[2] && b.sv[2] >= 0.0, "principal axes: singular values are non-negative and non-increasing", || format!("{} sv = {:?}", d(), b.sv));
}
fn svd3(r: &mut Report) {
    let qs = [p3(1.0, 2.0, 3.0), p3(-0.5, 0.25, 4.0), p3(2.0, -3.0, 0.5)];
    let isos = isos3();
    for s in sets3().iter() {
        r.case();
        let w = s.w.as_deref();
        let d = || format!("SvdBasis3::from_points({:?}, weights = {:?}) [{}]", s.pts.iter().map(|p| (p.x, p.y, p.z)).collect::<Vec<_>>(), s.w, s.name);
        let b = SvdBasis3::from_points(&s.pts, w);
        let c = wmean3(&s.pts, w);
        r.check(cp3(&b.center, &c), "principal axes: the centre is the (weighted) mean", d);
        r.check(b.n == s.pts.len(), "principal axes: n is the number of points", d);
        basis_checks3(r, &b, &d);
        // sv_i^2 / n == variance of the points along axis i (unweighted sets; for weighted sets the decomposed rows are w_i (p_i - c))
        let var = b.basis_variances(); let sd = b.basis_stdevs();
        for i in 0..3 {
            let along: f64 = s.pts.iter().enumerate().map(|(k, p)| { let wk = w.map_or(1.0, |w| w[k]); (wk * b.basis[i].dot(&(p - c))).powi(2) }).sum::<f64>() / s.pts.len() as f64;
            r.check((b.sv[i].powi(2) / s.pts.len() as f64 - along).abs() <= E * (1.0 + along) && (var[i] - along).abs() <= E * (1.0 + along), &nm("principal axes: sv^2 / n equals the variance of the (weighted) centred points along each axis", s.rank < 3), || format!("{} axis {}", d(), i));
            r.check((sd[i] - along.sqrt()).abs() <= 1e-7 * (1.0 + along.sqrt()), "principal axes: basis_stdevs is the square root of the variance", || format!("{} axis {}", d(), i));
        }
        r.check(b.rank(1e-9 * (1.0 + b.sv[0])) == s.rank, "principal axes: the rank reflects the dimension of the point set", d);
        // round trip through the basis
        for q in qs.iter().chain(s.pts.iter()) {
            let dq = || format!("{} point {:?}", d(), q.coords.as_slice());
            r.check(cp3(&b.point_from_basis(&b.point_to_basis(q)), q), "principal axes: point_from_basis(point_to_basis(p)) == p", dq);
            r.check(cp3(&b.point_to_basis(&b.point_from_basis(q)), q), "principal axes: point_to_basis(point_from_basis(p)) == p", dq);
            r.check(close(b.point_to_basis(q).coords.norm(), (q - b.center).norm()), "principal axes: point_to_basis keeps the distance to the centre", dq);
            r.check(close(b.vec_to_basis(&q.coords).norm(), q.coords.norm()), "principal axes: vec_to_basis keeps the length", dq);
        }
        r.check(b.point_to_basis(&b.center).coords.norm() <= E, "principal axes: the centre has basis coordinates 0", d);
        if s.rank >= 1 { r.check(cv3(&b.largest().into_inner(), &b.basis[0]) && cv3(&b.smallest().into_inner(), &b.basis[2]), "principal axes: largest / smallest are the first / last basis vector", d); }
        // the frame of the basis: a proper rotation taking the centre to the origin and the first two axes to x and y
        if s.rank == 3 {
            let f = Iso3::from(&b);
            let m: Matrix3<f64> = f.rotation.to_rotation_matrix().into_inner();
            r.check(((m.transpose() * m) - Matrix3::identity()).norm() <= E && close(m.determinant(), 1.0), "Iso3::from(&SvdBasis3) is a proper rotation", d);
            r.check((f * b.center).coords.norm() <= E * (1.0 + b.center.coords.norm()), "Iso3::from(&SvdBasis3) takes the centre to the origin", d);
            r.check(cp3(&(f * (b.center + b.basis[0])), &p3(1.0, 0.0, 0.0)) && cp3(&(f * (b.center + b.basis[1])), &p3(0.0, 1.0, 0.0)), "Iso3::from(&SvdBasis3) takes the first two principal axes to x and y", d);
            r.check(cp3(&(f * (b.center + b.basis[0].cross(&b.basis[1]))), &p3(0.0, 0.0, 1.0)), "Iso3::from(&SvdBasis3) is right-handed (b0 x b1 goes to z)", d);
        }
        // unchanged by uniformly scaling all weights
        for k in [2.0, 0.5, 8.0, 1e-6, 1e-18, 1e18] {
            let w2: Vec<f64> = (0..s.pts.len()).map(|i| k * w.map_or(1.0, |w| w[i])).collect();
            let b2 = SvdBasis3::from_points(&s.pts, Some(&w2));
            let dk = || format!("{} all weights x {}", d(), k);
            r.check(cp3(&b2.center, &b.center), "principal axes: the centre is unchanged by uniformly scaling all weights", dk);
            basis_checks3(r, &b2, &dk);
            for i in 0..3 {
                r.check((b2.sv[i] - k * b.sv[i]).abs() <= E * (1.0 + k * b.sv[0]), "principal axes: scaling all weights by k scales the singular values by k", dk);
                if sv_separated(&b.sv, i) { r.check(same_up_to_sign3(&b2.basis[i], &b.basis[i]), "principal axes: the basis is unchanged (up to sign) by uniformly scaling all weights", || format!("{} axis {}", dk(), i)); }
            }
        }
        // equivariance under rigid motion
        for it in isos.iter() { let t = &it.t;
            let moved: Vec<Point3> = s.pts.iter().map(|p| t * p).collect();
            let bm = SvdBasis3::from_points(&moved, w);
            let dt = || format!("{} {}", d(), it.name);
            r.check(cp3(&bm.center, &(t * b.center)), "principal axes: the centre moves with a rigid motion of the points", dt);
            basis_checks3(r, &bm, &dt);
            let cm = t * c;
            for i in 0..3 {
                r.check((bm.sv[i] - b.sv[i]).abs() <= E * (1.0 + b.sv[0]), &nm("principal axes: singular values are invariant under a rigid motion of the points", s.rank < 3), dt);
                let along: f64 = moved.iter().enumerate().map(|(k, p)| { let wk = w.map_or(1.0, |w| w[k]); (wk * bm.basis[i].dot(&(p - cm))).powi(2) }).sum::<f64>() / moved.len() as f64;
                r.check((bm.sv[i].powi(2) / moved.len() as f64 - along).abs() <= E * (1.0 + along), &nm("principal axes: sv^2 / n equals the variance of the (weighted) centred points along each axis", s.rank < 3), || format!("{} axis {}", dt(), i));
                if sv_separated(&b.sv, i) { r.check(same_up_to_sign3(&bm.basis[i], &(t * b.basis[i])), "principal axes: the basis vectors rotate (up to sign) with a rigid motion of the points", || format!("{} axis {}", dt(), i)); }
            }
            r.check(bm.rank(1e-9 * (1.0 + bm.sv[0])) == s.rank, "principal axes: the rank is invariant under a rigid motion of the points", dt);
        }
    }
}
/// deterministic box clouds: n points uniform (64-bit LCG, top 53 bits) in a box with extents 1 : 5 : 20 along x, y, z
/// (smallest extent FIRST, so that an unsorted decomposition shows) around (3, -2, 7)
fn lcg_cloud(n: usize) -> Vec<Point3> {
    let mut state: u64 = 0x9E37_79B9_7F4A_7C15;
    let mut next = move || { state = state.wrapping_mul(6364136223846793005).wrapping_add(1442695040888963407); (state >> 11) as f64 / (1u64 << 53) as f64 - 0.5 };
    (0..n).map(|_| { let (u, v, w) = (next(), next(), next()); p3(3.0 + u, -2.0 + 5.0 * v, 7.0 + 20.0 * w) }).collect()
}
fn svd_large(r: &mut Report) {
    let isos = isos3();
    for n in [2047usize, 2048, 2049, 4096] {
        let pts = lcg_cloud(n);
        for weighted in [false, true] {
            r.case();
            let wv: Vec<f64> = (0..n).map(|i| [1.0, 2.0, 0.5, 4.0][i % 4]).collect();
            let w: Option<&[f64]> = if weighted { Some(&wv) } else { None };
            let d = || format!("SvdBasis3::from_points(box cloud 1 x 5 x 20, n = {}, {})", n, if weighted { "weights 1, 2, 0.5, 4 repeating" } else { "no weights" });
            let b = SvdBasis3::from_points(&pts, w);
            let c = wmean3(&pts, w);
            r.check(cp3(&b.center, &c), "principal axes: the centre is the (weighted) mean", d);
            r.check(b.n == n, "principal axes: n is the number of points", d);
            basis_checks3(r, &b, &d);
            r.check(b.sv[0] > b.sv[1] && b.sv[1] > b.sv[2], "principal axes (box cloud 1:5:20): singular values strictly decreasing", || format!("{} sv = {:?}", d(), b.sv));
            r.check(same_up_to_sign3(&b.basis[0], &v3(0.0, 0.0, 1.0)) || b.basis[0].z.abs() > 0.99, "principal axes (box cloud 1:5:20): the first axis is the long direction of the box", || format!("{} basis = {:?}", d(), b.basis));
            r.check(b.basis[2].x.abs() > 0.99, "principal axes (box cloud 1:5:20): the last axis is the short direction of the box", || format!("{} basis = {:?}", d(), b.basis));
            let var = b.basis_variances();
            for i in 0..3 {
                let along: f64 = pts.iter().enumerate().map(|(k, p)| { let wk = w.map_or(1.0, |w| w[k]); (wk * b.basis[i].dot(&(p - c))).powi(2) }).sum::<f64>() / n as f64;
                r.check((b.sv[i].powi(2) / n as f64 - along).abs() <= E * (1.0 + along) && (var[i] - along).abs() <= E * (1.0 + along), "principal axes: sv^2 / n equals the variance of the (weighted) centred points along each axis", || format!("{} axis {}: sv^2/n = {}, variance {}", d(), i, b.sv[i].powi(2) / n as f64, along));
            }
            r.check(b.rank(1e-9 * (1.0 + b.sv[0])) == 3, "principal axes: the rank reflects the dimension of the point set", d);
            r.check(cv3(&b.largest().into_inner(), &b.basis[0]) && cv3(&b.smallest().into_inner(), &b.basis[2]), "principal axes: largest / smallest are the first / last basis vector", d);
            for q in [p3(1.0, 2.0, 3.0), pts[0], pts[n - 1]].iter() {
                r.check(cp3(&b.point_from_basis(&b.point_to_basis(q)), q) && cp3(&b.point_to_basis(&b.point_from_basis(q)), q), "principal axes: point_from_basis(point_to_basis(p)) == p", || format!("{} point {:?}", d(), q.coords.as_slice()));
            }
            // equivariance: every 5th isometry of the family (identity, quarter turns, general rotations, translations)
            for it in isos.iter().step_by(if weighted { 15 } else { 5 }) { let t = &it.t;
                let moved: Vec<Point3> = pts.iter().map(|p| t * p).collect();
                let bm = SvdBasis3::from_points(&moved, w);
                let dt = || format!("{} {}", d(), it.name);
                r.check(cp3(&bm.center, &(t * b.center)), "principal axes: the centre moves with a rigid motion of the points", dt);
                basis_checks3(r, &bm, &dt);
                for i in 0..3 {
                    r.check((bm.sv[i] - b.sv[i]).abs() <= E * (1.0 + b.sv[0]), "principal axes: singular values are invariant under a rigid motion of the points", || format!("{}: {:?} vs {:?}", dt(), bm.sv, b.sv));
                    r.check(same_up_to_sign3(&bm.basis[i], &(t * b.basis[i])), "principal axes: the basis vectors rotate (up to sign) with a rigid motion of the points", || format!("{} axis {}", dt(), i));
                }
            }
        }
    }
}
fn svd2(r: &mut Report) {
    let p2 = |x: f64, y: f64| Point2::new(x, y);
    let sets: Vec<(&str, Vec<Point2>, Option<Vec<f64>>, usize)> = vec![
        ("generic", vec![p2(0.0, 0.0), p2(4.0, 0.0), p2(4.0, 2.0), p2(1.0, 3.0)], None, 2),
        ("generic weighted", vec![p2(0.0, 0.0), p2(4.0, 0.0), p2(4.0, 2.0), p2(1.0, 3.0)], Some(vec![1.0, 2.0, 0.5, 4.0]), 2),
        ("collinear", vec![p2(0.0, 0.0), p2(3.0, 4.0), p2(6.0, 8.0)], None, 1),
        ("coincident", vec![p2(1.0, 2.0); 3], None, 0),
    ];
    for (name, pts, w, rank) in sets.iter() {
        r.case();
        let wr = w.as_deref();
        let d = || format!("SvdBasis2::from_points({:?}, weights = {:?}) [{}]", pts.iter().map(|p| (p.x, p.y)).collect::<Vec<_>>(), w, name);
        let b = SvdBasis2::from_points(pts, wr);
        let mut s = Vector2::zeros(); let mut tw = 0.0;
        for (i, p) in pts.iter().enumerate() { let wi = wr.map_or(1.0, |w| w[i]); s += p.coords * wi; tw += wi; }
        let c = Point2::from(s / tw);
        r.check(cp2(&b.center, &c), "principal axes 2D: the centre is the (weighted) mean", d);
        r.check((b.basis[0].dot(&b.basis[0]) - 1.0).abs() <= E && (b.basis[1].dot(&b.basis[1]) - 1.0).abs() <= E && b.basis[0].dot(&b.basis[1]).abs() <= E, "principal axes 2D: the basis vectors are orthonormal", d);
        r.check(b.sv[0] + E * (1.0 + b.sv[0]) >= b.sv[1] && b.sv[1] >= 0.0, "principal axes 2D: singular values are non-negative and non-increasing", d);
        for i in 0..2 {
            let along: f64 = pts.iter().enumerate().map(|(k, p)| { let wk = wr.map_or(1.0, |w| w[k]); (wk * b.basis[i].dot(&(p - c))).powi(2) }).sum::<f64>() / pts.len() as f64;
            r.check((b.basis_variances()[i] - along).abs() <= E * (1.0 + along), &nm("principal axes 2D: sv^2 / n equals the variance of the (weighted) centred points along each axis", *rank < 2), || format!("{} axis {}", d(), i));
        }
        r.check(b.rank(1e-9 * (1.0 + b.sv[0])) == *rank, "principal axes 2D: the rank reflects the dimension of the point set", d);
        for q in [p2(1.0, 2.0), p2(-0.5, 0.25)].iter().chain(pts.iter()) {
            r.check(cp2(&b.point_from_basis(&b.point_to_basis(q)), q) && cp2(&b.point_to_basis(&b.point_from_basis(q)), q), "principal axes 2D: to-basis / from-basis round trip", || format!("{} point {:?}", d(), q.coords.as_slice()));
        }
        for k in [2.0, 0.5, 8.0, 1e-6, 1e-18, 1e18] {
            let w2: Vec<f64> = (0..pts.len()).map(|i| k * wr.map_or(1.0, |w| w[i])).collect();
            let b2 = SvdBasis2::from_points(pts, Some(&w2));
            let dk = || format!("{} all weights x {}", d(), k);
            r.check(cp2(&b2.center, &b.center), "principal axes 2D: the centre is unchanged by uniformly scaling all weights", dk);
            for i in 0..2 { if sv_separated(&b.sv, i) { r.check(same_up_to_sign2(&b2.basis[i], &b.basis[i]), "principal axes 2D: the basis is unchanged (up to sign) by uniformly scaling all weights", dk); } }
        }
        for it in super::c03::isos2().iter() { let t = &it.t;
            let moved: Vec<Point2> = pts.iter().map(|p| t * p).collect();
            let bm = SvdBasis2::from_points(&moved, wr);
            let dt = || format!("{} {}", d(), it.name);
            r.check(cp2(&bm.center, &(t * b.center)), "principal axes 2D: the centre moves with a rigid motion of the points", dt);
            let cm = t * c;
            for i in 0..2 {
                r.check((bm.sv[i] - b.sv[i]).abs() <= E * (1.0 + b.sv[0]), &nm("principal axes 2D: singular values are invariant under a rigid motion of the points", *rank < 2), dt);
                let along: f64 = moved.iter().enumerate().map(|(k, p)| { let wk = wr.map_or(1.0, |w| w[k]); (wk * bm.basis[i].dot(&(p - cm))).powi(2) }).sum::<f64>() / moved.len() as f64;
                r.check((bm.sv[i].powi(2) / moved.len() as f64 - along).abs() <= E * (1.0 + along), &nm("principal axes 2D: sv^2 / n equals the variance of the (weighted) centred points along each axis", *rank < 2), dt);
                if sv_separated(&b.sv, i) { r.check(same_up_to_sign2(&bm.basis[i], &(t * b.basis[i])), "principal axes 2D: the basis vectors rotate (up to sign) with a rigid motion of the points", dt); }
            }
        }
        if *rank == 2 {
            let f: Iso2 = Iso2::from(&b);
            r.check((f * b.center).coords.norm() <= E * (1.0 + b.center.coords.norm()) && cp2(&(f * (b.center + b.basis[0])), &p2(1.0, 0.0)), "Iso2::from(&SvdBasis2) takes the centre to the origin and the first axis to x", d);
            let f2 = iso2_from_basis(&b.basis, &b.center);
            r.check(cp2(&(f2 * (b.center + Vector2::new(-b.basis[0].y, b.basis[0].x))), &p2(0.0, 1.0)), "iso2_from_basis is right-handed (the first axis turned by +90 degrees goes to y)", d);
        }
    }
}

// ------------------------------------------------------------------------------------------------ frame constructors
// the frame the statement asks for: primary axis = normalised first argument, secondary axis = the part of the second
// argument orthogonal to it (normalised), third axis completing a right-handed frame; columns in x, y, z order
fn expected_frame(a: &Vector3, b: &Vector3, pi: usize, si: usize) -> Matrix3<f64> {
    let prim = a.normalize();
    let sec = (b - prim * b.dot(&prim)).normalize();
    let ti = 3 - pi - si;
    let sign = if (pi + 1) % 3 == si { 1.0 } else { -1.0 };
    let third = prim.cross(&sec) * sign;
    let mut cols = [Vector3::zeros(); 3];
    cols[pi] = prim; cols[si] = sec; cols[ti] = third;
    Matrix3::from_columns(&cols)
}
fn is_half_turn(m: &Matrix3<f64>) -> bool { (m.trace() + 1.0).abs() < 1e-6 }
const HALF_TURN3: &str = "frame constructor, requested frame exactly a half turn away from the world axes: returns that frame (proper rotation, primary and secondary axis as requested)";
const HALF_TURN_B3: &str = "iso3_from_basis / Iso3::from(&SvdBasis3), basis exactly a half turn away from the world axes: takes origin, first and second axis to 0, x, y";
const HALF_TURN_B2: &str = "iso2_from_basis / Iso2::from(&SvdBasis2), first axis exactly (-1, 0): takes the origin to 0 and the first axis to x";
fn frames(r: &mut Report) {
    type Ctor = fn(&Vector3, &Vector3, Option<Point3>) -> crate::Result<Iso3>;
    let ctors: [(&str, Ctor, usize, usize); 6] = [
        ("try_from_basis_xy", Iso3::try_from_basis_xy, 0, 1), ("try_from_basis_xz", Iso3::try_from_basis_xz, 0, 2), ("try_from_basis_yz", Iso3::try_from_basis_yz, 1, 2),
        ("try_from_basis_yx", Iso3::try_from_basis_yx, 1, 0), ("try_from_basis_zx", Iso3::try_from_basis_zx, 2, 0), ("try_from_basis_zy", Iso3::try_from_basis_zy, 2, 1),
    ];
    let firsts = [v3(1.0, 0.0, 0.0), v3(-2.0, 0.0, 0.0), v3(0.0, 1.0, 0.0), v3(0.0, -1.0, 0.0), v3(0.0, 0.0, 0.5), v3(0.0, 0.0, -3.0),
        v3(1.0, 1.0, 0.0), v3(1.0, 2.0, 2.0), v3(0.5, -0.25, 2.0), v3(-1.0, 0.0, 1.0)];
    let seconds = [v3(1.0, 0.0, 0.0), v3(-1.0, 0.0, 0.0), v3(0.0, 4.0, 0.0), v3(0.0, -1.0, 0.0), v3(0.0, 0.0, 1.0), v3(0.0, 0.0, -0.5),
        v3(0.0, 1.0, 1.0), v3(2.0, -1.0, 0.5), v3(1.0, 1.0, 1.0), v3(-1.0, -1.0, 0.25), v3(0.0, 0.0, 0.0)];
    let origins = [None, Some(p3(1.0, 2.0, 3.0)), Some(p3(-100.0, 0.5, 0.0))];
    let axes = [v3(1.0, 0.0, 0.0), v3(0.0, 1.0, 0.0), v3(0.0, 0.0, 1.0)];
    for (cname, ctor, pi, si) in ctors.iter() {
        for a in firsts.iter() { for (k, b0) in seconds.iter().enumerate() {
            // the last "second" is a nearly parallel companion of the first argument: a + 1e-3 * (a x (1, 2, 3))
            let b = if k + 1 == seconds.len() { a + a.cross(&v3(1.0, 2.0, 3.0)) * 1e-3 } else { *b0 };
            let cr = a.cross(&b);
            if cr.norm() < 1e-6 { continue; } // parallel pairs are exercised below
            let want = expected_frame(a, &b, *pi, *si);
            for o in origins.iter() {
                r.case();
                let d = || format!("Iso3::{}({:?}, {:?}, {:?})", cname, a.as_slice(), b.as_slice(), o.map(|p| (p.x, p.y, p.z)));
                match ctor(a, &b, *o) {
                    Err(_) => r.check(false, "frame constructor succeeds for non-parallel, non-zero vectors", d),
                    Ok(f) => {
                        let m: Matrix3<f64> = f.rotation.to_rotation_matrix().into_inner();
                        let og = o.unwrap_or(p3(0.0, 0.0, 0.0));
                        r.check(cp3(&(f * Point3::origin()), &og), "frame constructor maps the origin to the given point", d);
                        if is_half_turn(&want) {
                            r.check((m - want).norm() <= E, HALF_TURN3, d);
                            continue;
                        }
                        r.check(((m.transpose() * m) - Matrix3::identity()).norm() <= E, "frame constructor returns an orthonormal frame", d);
                        r.check(close(m.determinant(), 1.0), "frame constructor returns a proper (right-handed) rotation", d);
                        let prim = f * axes[*pi]; let sec = f * axes[*si];
                        r.check(cv3(&prim, &a.normalize()), "frame constructor: the primary axis is exactly the normalised first argument", d);
                        r.check(sec.dot(&b) > 0.0, "frame constructor: the secondary axis lies on the side of the second argument", d);
                        r.check(sec.dot(&cr.normalize()).abs() <= E && sec.dot(&a.normalize()).abs() <= E, "frame constructor: the secondary axis lies in the plane of the two arguments, orthogonal to the primary axis", d);
                        let third = 3 - pi - si;
                        let sign = if (pi + 1) % 3 == *si { 1.0 } else { -1.0 };
                        r.check(cv3(&(f * axes[third]), &(prim.cross(&sec) * sign)), "frame constructor: the third axis completes a right-handed frame", d);
                        r.check((m - want).norm() <= 10.0 * E, "frame constructor returns the frame (normalised first argument, orthogonalised second argument, right-handed third axis)", d);
                    }
                }
            }
        } }
        // parallel or zero inputs fail rather than returning garbage
        let bad: Vec<(Vector3, Vector3)> = vec![(v3(1.0, 2.0, 2.0), v3(2.0, 4.0, 4.0)), (v3(1.0, 2.0, 2.0), v3(-1.0, -2.0, -2.0)), (v3(0.0, 0.0, 3.0), v3(0.0, 0.0, 0.5)),
            (v3(0.0, 0.0, 0.0), v3(0.0, 1.0, 0.0)), (v3(1.0, 0.0, 0.0), v3(0.0, 0.0, 0.0)), (v3(0.0, 0.0, 0.0), v3(0.0, 0.0, 0.0)),
            // parallel along directions that are not exactly representable: the cross product is rounding noise, not 0
            (v3(0.3, -1.7, 2.9), v3(0.3, -1.7, 2.9) * 7.0), (v3(0.3, -1.7, 2.9), v3(0.3, -1.7, 2.9) * -0.1), (v3(0.1, 0.2, 0.3), v3(0.3, 0.6, 0.9)),
            (v3(1.1, 2.3, -0.7) * 3.0, v3(1.1, 2.3, -0.7) / 3.0), (v3(0.1, 0.7, 0.0), v3(-0.3, -2.1, 0.0)), (v3(1e-3, 2e-3, 5e-3), v3(0.7, 1.4, 3.5))];
        for (a, b) in bad.iter() {
            r.case();
            r.check(ctor(a, b, Some(p3(1.0, 2.0, 3.0))).is_err(), "frame constructor fails for parallel or zero inputs", || format!("Iso3::{}({:?}, {:?}, ..)", cname, a.as_slice(), b.as_slice()));
        }
    }
    // iso3_from_xyo / iso3_from_basis: the world-to-frame isometry of (x, y-ish, origin)
    for a in firsts.iter() { for b in seconds.iter().take(10) {
        if a.cross(b).norm() < 1e-6 { continue; }
        r.case();
        let o = p3(1.0, 2.0, 3.0);
        let d = || format!("x = normalize {:?}, y = normalize {:?}, origin (1, 2, 3)", a.as_slice(), b.as_slice());
        let x = UnitVec3::new_normalize(*a); let y = UnitVec3::new_normalize(*b);
        let yo = UnitVec3::new_normalize(y.into_inner() - x.into_inner() * x.dot(&y));
        let half = is_half_turn(&expected_frame(a, b, 0, 1));
        let f = iso3_from_xyo(&x, &y, &o);
        let m: Matrix3<f64> = f.rotation.to_rotation_matrix().into_inner();
        let fy = f * y.into_inner();
        let ok_xyo = ((m.transpose() * m) - Matrix3::identity()).norm() <= E && close(m.determinant(), 1.0)
            && (f * o).coords.norm() <= E * 10.0 && cp3(&(f * (o + x.into_inner())), &p3(1.0, 0.0, 0.0)) && fy.y > 0.0 && fy.z.abs() <= E;
        r.check(ok_xyo, if half { HALF_TURN_B3 } else { "iso3_from_xyo: proper rotation taking the origin point to 0, the x direction to x and the y argument into the upper xy half-plane" }, || format!("iso3_from_xyo: {}", d()));
        // orthonormal input basis (lengths are irrelevant, the third vector is ignored)
        let g = iso3_from_basis(&[x.into_inner() * 2.0, yo.into_inner() * 0.5, Vector3::zeros()], &o);
        let ok_basis = (g * o).coords.norm() <= E * 10.0 && cp3(&(g * (o + x.into_inner())), &p3(1.0, 0.0, 0.0)) && cp3(&(g * (o + yo.into_inner())), &p3(0.0, 1.0, 0.0)) && cp3(&(g * (o + x.cross(&yo))), &p3(0.0, 0.0, 1.0));
        r.check(ok_basis, if half { HALF_TURN_B3 } else { "iso3_from_basis takes origin, first and second axis to 0, x, y and is right-handed" }, || format!("iso3_from_basis: {}", d()));
    } }
    // iso2_from_basis: first axis in 12 directions
    for (bx, by) in [(1.0, 0.0), (-1.0, 0.0), (0.0, 1.0), (0.0, -2.0), (3.0, 4.0), (-3.0, 4.0), (-1.0, -1.0), (1.0, -1e-3), (-1.0, 1e-3), (-1.0, -1e-9), (-0.6, 0.8), (0.28, -0.96)] {
        r.case();
        let o = Point2::new(1.0, 2.0);
        let b0 = Vector2::new(bx, by);
        let f = iso2_from_basis(&[b0, Vector2::zeros()], &o);
        let n = b0.normalize();
        let ok = (f * o).coords.norm() <= E * 10.0 && cp2(&(f * (o + n)), &Point2::new(1.0, 0.0)) && cp2(&(f * (o + Vector2::new(-n.y, n.x))), &Point2::new(0.0, 1.0));
        r.check(ok, if bx < 0.0 && by == 0.0 { HALF_TURN_B2 } else { "iso2_from_basis takes the origin to 0, the first axis to x and is right-handed" }, || format!("iso2_from_basis([{:?}, ..], (1, 2))", (bx, by)));
    }
}

// ------------------------------------------------------------------------------------------------ wave 4 additions
fn ulp_up(x: f64) -> f64 { if x > 0.0 { f64::from_bits(x.to_bits() + 1) } else if x < 0.0 { -f64::from_bits((-x).to_bits() - 1) } else { f64::from_bits(1) } }
fn ulp_down(x: f64) -> f64 { -ulp_up(-x) }

/// rank(tol) counts the singular values STRICTLY greater than tol ("tol is the largest value a singular value can
/// have and still be considered zero"): bases with hand-set singular values, tolerances exactly on a singular value
/// and one ulp to either side; computed bases queried at their own singular values; coincident points at tol 0.
fn rank_exact(r: &mut Report) {
    let pool = [0.0, 5e-324, 1e-12, 0.5, 1.0, ulp_up(1.0), 2.0, 1e300];
    let mut tols: Vec<f64> = vec![-1.0, -0.0, f64::INFINITY, f64::MAX];
    for &s in pool.iter() { tols.push(s); tols.push(ulp_up(s)); if s > 0.0 { tols.push(ulp_down(s)); } }
    let count = |sv: &[f64], tol: f64| sv.iter().filter(|s| **s > tol).count();
    for (i, &a) in pool.iter().enumerate() { for (j, &b) in pool.iter().enumerate() { for (k, &c) in pool.iter().enumerate() {
        if !(i >= j && j >= k) { continue; } // non-increasing triples
        r.case();
        let b3 = SvdBasis3 { basis: [v3(1.0, 0.0, 0.0), v3(0.0, 1.0, 0.0), v3(0.0, 0.0, 1.0)], sv: [a, b, c], center: p3(0.0, 0.0, 0.0), n: 4 };
        for &t in tols.iter() {
            r.check(b3.rank(t) == count(&b3.sv, t), "rank: the number of singular values strictly greater than the tolerance (a singular value equal to the tolerance counts as zero)", || format!("SvdBasis3 with sv = {:?}, rank({:?})", b3.sv, t));
        }
        if k == 0 {
            let b2 = SvdBasis2 { basis: [Vector2::new(1.0, 0.0), Vector2::new(0.0, 1.0)], sv: [a, b], center: Point2::new(0.0, 0.0), n: 3 };
            for &t in tols.iter() {
                r.check(b2.rank(t) == count(&b2.sv, t), "rank: the number of singular values strictly greater than the tolerance (a singular value equal to the tolerance counts as zero)", || format!("SvdBasis2 with sv = {:?}, rank({:?})", b2.sv, t));
            }
        }
    } } }
    // computed decompositions queried exactly at their own singular values
    for s in sets3().iter() {
        r.case();
        let b = SvdBasis3::from_points(&s.pts, s.w.as_deref());
        for i in 0..3 { for t in [b.sv[i], ulp_up(b.sv[i])] {
            r.check(b.rank(t) == count(&b.sv, t), "rank: the number of singular values strictly greater than the tolerance (a singular value equal to the tolerance counts as zero)", || format!("SvdBasis3::from_points [{}] sv = {:?}, rank({:?})", s.name, b.sv, t));
        } }
        if s.rank == 0 {
            r.check(b.rank(0.0) == 0, "rank: coincident points have rank 0 at tolerance 0 (all singular values are exactly 0)", || format!("SvdBasis3::from_points [{}] sv = {:?}, rank(0.0) = {}", s.name, b.sv, b.rank(0.0)));
        }
    }
    // dyadic coordinates: n * q and its division by n are exact, so every centred vector is exactly zero
    for n in [3usize, 4, 7] { for q in [Point2::new(1.0, 2.0), Point2::new(-0.5, 0.25), Point2::new(0.0, 0.0)] {
        r.case();
        let b = SvdBasis2::from_points(&vec![q; n], None);
        r.check(b.rank(0.0) == 0, "rank: coincident points have rank 0 at tolerance 0 (all singular values are exactly 0)", || format!("SvdBasis2::from_points({} x {:?}) sv = {:?}, rank(0.0) = {}", n, (q.x, q.y), b.sv, b.rank(0.0)));
        let q3 = p3(q.x, q.y, 0.75);
        let b = SvdBasis3::from_points(&vec![q3; n + 1], None);
        r.check(b.rank(0.0) == 0, "rank: coincident points have rank 0 at tolerance 0 (all singular values are exactly 0)", || format!("SvdBasis3::from_points({} x {:?}) sv = {:?}, rank(0.0) = {}", n + 1, (q3.x, q3.y, q3.z), b.sv, b.rank(0.0)));
    } }
}

/// iso3_from_basis / Iso3::from(&SvdBasis3) on full basis TRIPLES of either handedness (an SVD returns right- and
/// left-handed triples alike): the frame is a proper rotation, its x axis is basis[0], its y axis is basis[1]
/// (never basis[2] or a vector derived from it), its z axis is basis[0] x basis[1].
fn handed_frames(r: &mut Report) {
    let firsts = [v3(1.0, 0.0, 0.0), v3(0.0, -1.0, 0.0), v3(0.0, 0.0, 1.0), v3(1.0, 1.0, 0.0), v3(1.0, 2.0, 2.0), v3(0.5, -0.25, 2.0), v3(-1.0, 0.0, 1.0), v3(-3.0, 4.0, 12.0)];
    let seconds = [v3(0.0, 1.0, 0.0), v3(0.0, 0.0, -1.0), v3(1.0, 0.0, 0.0), v3(2.0, -1.0, 0.5), v3(1.0, 1.0, 1.0), v3(-1.0, -1.0, 0.25)];
    let origins = [p3(0.0, 0.0, 0.0), p3(1.0, 2.0, 3.0), p3(-100.0, 0.5, 0.0)];
    for a in firsts.iter() { for b in seconds.iter() {
        if a.cross(b).norm() < 1e-6 { continue; }
        let x = a.normalize();
        let y = (b - x * b.dot(&x)).normalize();
        let z = x.cross(&y);
        if is_half_turn(&Matrix3::from_columns(&[x, y, z])) { continue; } // has its own clause in frames()
        for (hname, third) in [("right-handed", z), ("left-handed", -z)] { for o in origins.iter() {
            r.case();
            let basis = [x, y, third];
            let d = || format!("{} orthonormal triple [{:?}, {:?}, {:?}], origin {:?}", hname, x.as_slice(), y.as_slice(), third.as_slice(), (o.x, o.y, o.z));
            let sb = SvdBasis3 { basis, sv: [3.0, 2.0, 1.0], center: *o, n: 5 };
            for (fname, f) in [("iso3_from_basis", iso3_from_basis(&basis, o)), ("Iso3::from(&SvdBasis3)", Iso3::from(&sb))] {
                let dd = || format!("{}: {}", fname, d());
                let m: Matrix3<f64> = f.rotation.to_rotation_matrix().into_inner();
                r.check(((m.transpose() * m) - Matrix3::identity()).norm() <= E && close(m.determinant(), 1.0), "frame of a basis triple (either handedness) is a proper rotation", dd);
                r.check((f * o).coords.norm() <= E * (1.0 + o.coords.norm()), "frame of a basis triple (either handedness) takes the origin point to 0", dd);
                r.check(cp3(&(f * (o + x)), &p3(1.0, 0.0, 0.0)), "frame of a basis triple (either handedness): the first basis vector goes to x", dd);
                r.check(cp3(&(f * (o + y)), &p3(0.0, 1.0, 0.0)), "frame of a basis triple (either handedness): the SECOND basis vector goes to y", dd);
                r.check(cp3(&(f * (o + z)), &p3(0.0, 0.0, 1.0)), "frame of a basis triple (either handedness): basis[0] x basis[1] goes to z", dd);
            }
        } }
    } }
    // computed bases: whatever handedness the decomposition returns, the frame is proper and keeps the first two axes
    for s in sets3().iter().filter(|s| s.rank == 3) { for it in isos3().iter().step_by(3) {
        r.case();
        let moved: Vec<Point3> = s.pts.iter().map(|p| it.t * p).collect();
        let b = SvdBasis3::from_points(&moved, s.w.as_deref());
        let m0 = Matrix3::from_columns(&[b.basis[0], b.basis[1], b.basis[0].cross(&b.basis[1])]);
        if is_half_turn(&m0) { continue; }
        let d = || format!("SvdBasis3::from_points [{}] moved by {}: basis {:?} (det {:?})", s.name, it.name, b.basis, Matrix3::from_columns(&b.basis).determinant());
        let f = Iso3::from(&b);
        let m: Matrix3<f64> = f.rotation.to_rotation_matrix().into_inner();
        r.check(((m.transpose() * m) - Matrix3::identity()).norm() <= E && close(m.determinant(), 1.0), "frame of a basis triple (either handedness) is a proper rotation", d);
        r.check(cp3(&(f * (b.center + b.basis[0])), &p3(1.0, 0.0, 0.0)), "frame of a basis triple (either handedness): the first basis vector goes to x", d);
        r.check(cp3(&(f * (b.center + b.basis[1])), &p3(0.0, 1.0, 0.0)), "frame of a basis triple (either handedness): the SECOND basis vector goes to y", d);
    } }
}

/// iso3_from_xyo with a second vector that is nearly but not exactly perpendicular to the first
/// (0 < |x . y| < 1e-3): the result is orthonormal to 1e-12 (not merely to the size of x . y) and x goes exactly to x.
fn near_perpendicular_xyo(r: &mut Report) {
    const T: f64 = 1e-12;
    let firsts = [v3(1.0, 0.0, 0.0), v3(0.0, 1.0, 0.0), v3(0.0, 0.0, -1.0), v3(1.0, 1.0, 0.0), v3(1.0, 2.0, 2.0), v3(0.5, -0.25, 2.0), v3(-1.0, 0.0, 1.0), v3(-3.0, 4.0, 12.0)];
    let helpers = [v3(0.0, 1.0, 0.0), v3(0.0, 0.0, 1.0), v3(1.0, 0.0, 0.0), v3(2.0, -1.0, 0.5), v3(1.0, 1.0, 1.0)];
    let tilts = [9e-4, 5e-4, 1e-4, 1e-5, 1e-6, 1e-7, 1e-8, 1e-9, 1e-10, 1e-11];
    let origins = [p3(0.0, 0.0, 0.0), p3(1.0, 2.0, 3.0)];
    for a in firsts.iter() { for h in helpers.iter() {
        if a.cross(h).norm() < 1e-6 { continue; }
        let xv = a.normalize();
        let perp = (h - xv * h.dot(&xv)).normalize();
        for &t in tilts.iter() { for sg in [1.0, -1.0] { for o in origins.iter() {
            let x = UnitVec3::new_normalize(xv);
            let y = UnitVec3::new_normalize(perp + xv * (sg * t));
            let along = x.dot(&y);
            if !(along.abs() > 0.0 && along.abs() < 1e-3) { continue; }
            if is_half_turn(&Matrix3::from_columns(&[xv, perp, xv.cross(&perp)])) { continue; }
            r.case();
            let d = || format!("iso3_from_xyo(x = {:?}, y = {:?} (x . y = {:e}), origin {:?})", x.as_slice(), y.as_slice(), along, (o.x, o.y, o.z));
            let f = iso3_from_xyo(&x, &y, o);
            let m: Matrix3<f64> = f.rotation.to_rotation_matrix().into_inner();
            r.check(((m.transpose() * m) - Matrix3::identity()).norm() <= T && (m.determinant() - 1.0).abs() <= T, "iso3_from_xyo, y nearly perpendicular to x (0 < |x . y| < 1e-3): proper rotation, orthonormal to 1e-12", d);
            let fx = f * x.into_inner();
            r.check((fx - v3(1.0, 0.0, 0.0)).norm() <= T, "iso3_from_xyo, y nearly perpendicular to x: the x direction goes exactly to x (1e-12)", d);
            let fy = f * y.into_inner();
            r.check(fy.y > 0.0 && fy.z.abs() <= T && (fy.x - along).abs() <= T, "iso3_from_xyo, y nearly perpendicular to x: the y argument goes into the upper xy half-plane keeping its component along x (1e-12)", d);
            r.check((f * o).coords.norm() <= T * (1.0 + o.coords.norm()), "iso3_from_xyo, y nearly perpendicular to x: the origin point goes to 0", d);
        } } }
    } }
}

/// point sets FAR from the origin relative to their own extent (offset / extent from 1e5 to 3e7): translating the
/// set must not change the singular values (relative 1e-9), the axes (up to sign) or the centre relative to the set.
/// All coordinates are dyadic and all offsets integers below 2^26, point counts and weight totals are powers of two:
/// the translated points, their mean and the centred vectors are exact in f64, so a decomposition of the centred
/// points sees bit-identical input.
fn far_sets(r: &mut Report) {
    const G: f64 = 1.0 / 1048576.0; // 2^-20
    let corners = |e1: Vector3, e2: Vector3, e3: Vector3, base: Point3| -> Vec<Point3> {
        let mut v = vec![];
        for a in [0.0, 1.0] { for b in [0.0, 1.0] { for c in [0.0, 1.0] { v.push(base + e1 * a + e2 * b + e3 * c); } } }
        v
    };
    // slabs 6 x 3 x 0.125 (axis-aligned; skew edges; thin direction first), and a 16-point set with interior points
    let mut slab16 = corners(v3(6.0, 0.0, 0.0), v3(0.0, 3.0, 0.0), v3(0.0, 0.0, 0.125), p3(-3.0, -1.5, 0.0));
    slab16.extend(corners(v3(2.0, 0.5, 0.0), v3(-0.5, 1.0, 0.0), v3(0.0, 0.0, 0.0625), p3(0.25, -0.75, 0.03125)));
    let sets: Vec<(&str, Vec<Point3>)> = vec![
        ("slab 6 x 3 x 0.125, axis-aligned", corners(v3(6.0, 0.0, 0.0), v3(0.0, 3.0, 0.0), v3(0.0, 0.0, 0.125), p3(-3.0, -1.5, 0.0))),
        ("slab 0.125 x 3 x 6 (thin direction first)", corners(v3(0.125, 0.0, 0.0), v3(0.0, 3.0, 0.0), v3(0.0, 0.0, 6.0), p3(0.0, 1.0, -2.0))),
        ("skew slab, edges (4,2,0) (-1.5,3,0.5) (0.0625,-0.03125,0.125)", corners(v3(4.0, 2.0, 0.0), v3(-1.5, 3.0, 0.5), v3(0.0625, -0.03125, 0.125), p3(1.0, 0.0, -1.0))),
        ("16 points in a 6 x 3 x 0.125 slab", slab16),
        // coordinates on a 2^-20 grid: still exact after the translation (46 bits), but products of two coordinates are not
        ("slab 6 x 3 x 0.125 on a 2^-20 grid", corners(v3(6.0 - 2.0 * G, G, 0.0), v3(-3.0 * G, 3.0 + G, 5.0 * G), v3(7.0 * G, -G, 0.125 + 3.0 * G), p3(-3.0 + G, -1.5 + 3.0 * G, 5.0 * G))),
        ("small skew slab 2 x 1 x 0.0625 on a 2^-20 grid", corners(v3(2.0 - G, 3.0 * G, 0.0), v3(-0.25, 1.0 + G, 5.0 * G), v3(G, -G, 0.0625), p3(-1.0 + 3.0 * G, -0.5, G))),
        ("skew slab on a 2^-20 grid", corners(v3(4.0 + G, 2.0 - 3.0 * G, 0.0), v3(-1.5 + 5.0 * G, 3.0, 0.5 + G), v3(0.0625, -0.03125 + G, 0.125 - G), p3(1.0 + 7.0 * G, 0.0, -1.0 - G))),
    ];
    let w8 = [1.0, 2.0, 1.0, 4.0, 2.0, 2.0, 1.0, 3.0];
    let offsets = [v3(600000.0, 0.0, 0.0), v3(0.0, -1048576.0, 524288.0), v3(2e6, -3e6, 1e6), v3(4e7, 1e7, -2e7), v3(-33554432.0, 33554432.0, 16777216.0), v3(0.0, 0.0, 6e7)];
    for (name, pts) in sets.iter() { for weighted in [false, true] {
        let wv: Vec<f64> = (0..pts.len()).map(|i| w8[i % 8]).collect();
        let w: Option<&[f64]> = if weighted { Some(&wv) } else { None };
        let b = SvdBasis3::from_points(pts, w);
        for off in offsets.iter() {
            r.case();
            let moved: Vec<Point3> = pts.iter().map(|p| p + off).collect();
            let d = || format!("SvdBasis3::from_points([{}] translated by {:?}, {})", name, off.as_slice(), if weighted { "weights 1,2,1,4,2,2,1,3 repeating" } else { "no weights" });
            if !pts.iter().zip(moved.iter()).all(|(p, q)| (q - off - p.coords).coords.norm() == 0.0) { r.check(false, "far point sets: the translated test points are exact (oracle self-check)", d); continue; }
            let bm = SvdBasis3::from_points(&moved, w);
            basis_checks3(r, &bm, &d);
            r.check(((bm.center - off) - b.center).norm() <= 1e-9 * (1.0 + b.sv[0]), "principal axes far from the origin: the centre moves with the translation (relative to the extent of the set)", || format!("{}: centre {:?} vs {:?} + offset", d(), bm.center.coords.as_slice(), b.center.coords.as_slice()));
            for i in 0..3 {
                r.check((bm.sv[i] - b.sv[i]).abs() <= 1e-9 * b.sv[i], "principal axes far from the origin (offset / extent 1e5 .. 3e7): singular values are invariant under translation to relative 1e-9", || format!("{}: sv {:?} vs {:?} at the origin", d(), bm.sv, b.sv));
                if sv_separated(&b.sv, i) { r.check(same_up_to_sign3(&bm.basis[i], &b.basis[i]), "principal axes far from the origin (offset / extent 1e5 .. 3e7): the axes are unchanged (up to sign) by a translation", || format!("{} axis {}: {:?} vs {:?}", d(), i, bm.basis[i].as_slice(), b.basis[i].as_slice())); }
                let c = bm.center;
                let along: f64 = moved.iter().enumerate().map(|(k, p)| { let wk = w.map_or(1.0, |w| w[k]); (wk * bm.basis[i].dot(&(p - c))).powi(2) }).sum::<f64>() / moved.len() as f64;
                r.check((bm.sv[i].powi(2) / moved.len() as f64 - along).abs() <= E * (1e-6 + along), "principal axes far from the origin: sv^2 / n equals the variance of the (weighted) centred points along each axis", || format!("{} axis {}", d(), i));
            }
            r.check(bm.rank(1e-9 * (1.0 + bm.sv[0])) == 3, "principal axes far from the origin: the rank reflects the dimension of the point set", d);
        }
    } }
    // 2D: rectangles 6 x 0.125 (axis-aligned and skew), 4 and 8 points
    let rect = |e1: Vector2, e2: Vector2, base: Point2| -> Vec<Point2> { let mut v = vec![]; for a in [0.0, 1.0] { for b in [0.0, 1.0] { v.push(base + e1 * a + e2 * b); } } v };
    let mut r8 = rect(Vector2::new(6.0, 0.0), Vector2::new(0.0, 0.125), Point2::new(-3.0, 0.0));
    r8.extend(rect(Vector2::new(2.0, 0.0625), Vector2::new(-0.5, 0.03125), Point2::new(0.25, 0.03125)));
    let sets2: Vec<(&str, Vec<Point2>)> = vec![
        ("rectangle 6 x 0.125", rect(Vector2::new(6.0, 0.0), Vector2::new(0.0, 0.125), Point2::new(-3.0, 0.0))),
        ("skew rectangle, edges (4,2) (-0.0625,0.125)", rect(Vector2::new(4.0, 2.0), Vector2::new(-0.0625, 0.125), Point2::new(1.0, -1.0))),
        ("8 points in a 6 x 0.125 strip", r8),
        ("rectangle 6 x 0.125 on a 2^-20 grid", rect(Vector2::new(6.0 - 2.0 * G, 3.0 * G), Vector2::new(-G, 0.125 + 5.0 * G), Point2::new(-3.0 + G, 7.0 * G))),
    ];
    let offsets2 = [Vector2::new(600000.0, 0.0), Vector2::new(2e6, -3e6), Vector2::new(4e7, 1e7), Vector2::new(-33554432.0, 16777216.0)];
    for (name, pts) in sets2.iter() { for weighted in [false, true] {
        let wv: Vec<f64> = (0..pts.len()).map(|i| [1.0, 2.0, 1.0, 4.0][i % 4]).collect();
        let w: Option<&[f64]> = if weighted { Some(&wv) } else { None };
        let b = SvdBasis2::from_points(pts, w);
        for off in offsets2.iter() {
            r.case();
            let moved: Vec<Point2> = pts.iter().map(|p| p + off).collect();
            let d = || format!("SvdBasis2::from_points([{}] translated by {:?}, {})", name, off.as_slice(), if weighted { "weights 1,2,1,4 repeating" } else { "no weights" });
            let bm = SvdBasis2::from_points(&moved, w);
            r.check((bm.basis[0].dot(&bm.basis[0]) - 1.0).abs() <= E && (bm.basis[1].dot(&bm.basis[1]) - 1.0).abs() <= E && bm.basis[0].dot(&bm.basis[1]).abs() <= E, "principal axes 2D: the basis vectors are orthonormal", d);
            r.check(((bm.center - off) - b.center).norm() <= 1e-9 * (1.0 + b.sv[0]), "principal axes far from the origin: the centre moves with the translation (relative to the extent of the set)", d);
            for i in 0..2 {
                r.check((bm.sv[i] - b.sv[i]).abs() <= 1e-9 * b.sv[i], "principal axes far from the origin (offset / extent 1e5 .. 3e7): singular values are invariant under translation to relative 1e-9", || format!("{}: sv {:?} vs {:?} at the origin", d(), bm.sv, b.sv));
                if sv_separated(&b.sv, i) { r.check(same_up_to_sign2(&bm.basis[i], &b.basis[i]), "principal axes far from the origin (offset / extent 1e5 .. 3e7): the axes are unchanged (up to sign) by a translation", || format!("{} axis {}", d(), i)); }
            }
        }
    } }
}

// ------------------------------------------------------------------------------------------------ wave 5 additions
/// EXACTLY rank-deficient point sets of every rank (3D: coincident, collinear, planar; 2D: coincident, collinear) in
/// GENERAL orientations with IRREGULAR coordinates: points o + a_k u + b_k v with (a_k, b_k) from four irregular
/// tables (5, 7, 9 decimal pairs; 8 dyadic pairs), (u, v) from 12 skew decimal pairs, 3 dyadic pairs and one
/// axis-aligned pair (thin direction first), 3 origins, scales 1e-4, 1, 1e4, unweighted and with irregular weights.
/// Oracles, all independent of the singular values the decomposition reports:
///  * sv_i^2 == sum of the squared projections of the (weighted) centred points on the returned axis i;
///  * sum of sv_i^2 == total scatter; the elementary symmetric functions of the sv_i^2 are those of the eigenvalues
///    of the 3x3 (2x2) scatter matrix (sum of principal 2x2 minors, determinant) -- closed forms from the points;
///  * singular values invariant under rigid motions; the number of non-negligible singular values is the dimension.
fn e2_3(s: &Matrix3<f64>) -> f64 { s[(0, 0)] * s[(1, 1)] - s[(0, 1)] * s[(1, 0)] + s[(0, 0)] * s[(2, 2)] - s[(0, 2)] * s[(2, 0)] + s[(1, 1)] * s[(2, 2)] - s[(1, 2)] * s[(2, 1)] }
const RD_VAR: &str = "principal axes, exactly rank-deficient point set in a general orientation: sv_i^2 equals the sum of squared projections of the (weighted) centred points on axis i (relative 1e-9 of the total scatter)";
const RD_TOTAL: &str = "principal axes, exactly rank-deficient point set in a general orientation: the squared singular values add up to the total scatter of the (weighted) centred points (relative 1e-9)";
const RD_EIG: &str = "principal axes, exactly rank-deficient point set in a general orientation: the squared singular values have the eigen-structure invariants of the scatter matrix (sum of principal 2x2 minors, determinant; relative 1e-9)";
const RD_RANK: &str = "principal axes, exactly rank-deficient point set in a general orientation: the rank reflects the dimension of the point set (singular values beyond the dimension are <= 1e-6 of the largest, the others are not)";
const RD_MOTION: &str = "principal axes, exactly rank-deficient point set in a general orientation: singular values are invariant under a rigid motion of the points (relative 1e-9)";
fn rank_deficient(r: &mut Report) {
    let tables: [&[(f64, f64)]; 4] = [
        &[(0.9, -0.35), (-0.65, 0.8), (0.15, 0.4), (-0.3, -0.95), (0.55, 0.1)],
        &[(1.3, 0.2), (-0.45, 0.95), (0.25, -0.6), (-1.1, -0.15), (0.7, 0.85), (-0.05, -1.2), (0.35, 0.05)],
        &[(0.12, 0.77), (-0.93, 0.41), (0.58, -0.29), (1.41, 1.07), (-0.36, -0.88), (0.04, 0.19), (-1.22, 0.63), (0.81, -1.15), (0.27, 0.52)],
        &[(0.5625, -0.1875), (-0.4375, 0.8125), (0.125, 0.4375), (-0.3125, -0.9375), (0.6875, 0.0625), (-0.0625, -0.5625), (0.75, 0.9375), (-1.0, 0.3125)],
    ];
    let wtab = [1.0, 2.5, 0.75, 3.2, 1.6, 0.5, 2.1, 1.25, 3.75];
    let mut pairs: Vec<(Vector3, Vector3)> = (0..12).map(|k| { let k = k as f64; (v3(0.55 - 0.09 * k, 0.4 + 0.03 * k, -0.65 + 0.11 * k), v3(-0.3 + 0.02 * k, 0.8 - 0.07 * k, 0.35 + 0.04 * k)) }).collect();
    pairs.extend([(v3(1.0, 0.5, -0.25), v3(-0.5, 1.0, 0.75)), (v3(0.25, -1.0, 0.5), v3(1.0, 0.25, 0.125)), (v3(0.375, 0.375, 1.0), v3(1.0, -0.625, 0.125)), (v3(0.0, 0.0, 2.0), v3(0.0, 1.0, 0.0))]);
    let origins = [p3(0.0, 0.0, 0.0), p3(3.1, -7.4, 2.2), p3(-120.5, 64.25, 1000.0)];
    let isos = isos3();
    for (ti, tab) in tables.iter().enumerate() { for (pi, (u, v)) in pairs.iter().enumerate() { for o in origins.iter() { for scale in [1.0, 1e-4, 1e4] { for weighted in [false, true] { for dim in [2usize, 1, 0] {
        r.case();
        let pts: Vec<Point3> = tab.iter().map(|(a, b)| o + u * (scale * *a * if dim >= 1 { 1.0 } else { 0.0 }) + v * (scale * *b * if dim >= 2 { 1.0 } else { 0.0 })).collect();
        let n = pts.len();
        let wv: Vec<f64> = (0..n).map(|i| wtab[i]).collect();
        let w: Option<&[f64]> = if weighted { Some(&wv) } else { None };
        let d = || format!("SvdBasis3::from_points(o + a_k u + b_k v: table {} ({} points), u = {:?}, v = {:?}, o = {:?}, scale {:e}, dimension {}, {}) = {:?}", ti, n, u.as_slice(), v.as_slice(), (o.x, o.y, o.z), scale, dim, if weighted { "weights 1, 2.5, 0.75, 3.2, 1.6, 0.5, 2.1, 1.25, 3.75" } else { "no weights" }, pts.iter().map(|p| (p.x, p.y, p.z)).collect::<Vec<_>>());
        let b = SvdBasis3::from_points(&pts, w);
        let c = wmean3(&pts, w);
        let rows: Vec<Vector3> = pts.iter().enumerate().map(|(k, p)| (p - c) * w.map_or(1.0, |w| w[k])).collect();
        let total: f64 = rows.iter().map(|x| x.norm_squared()).sum();
        let mut s = Matrix3::zeros(); for x in rows.iter() { s += x * x.transpose(); }
        // absolute floor: the centred vectors themselves carry rounding noise of 1e-16 of the coordinates
        let floor = (1e-13 * (1.0 + c.coords.norm())).powi(2) * n as f64 * 16.0;
        r.check(cp3(&b.center, &c) && b.n == n, "principal axes: the centre is the (weighted) mean", d);
        basis_checks3(r, &b, &d);
        let sq = [b.sv[0] * b.sv[0], b.sv[1] * b.sv[1], b.sv[2] * b.sv[2]];
        for i in 0..3 {
            let along: f64 = rows.iter().map(|x| b.basis[i].dot(x).powi(2)).sum();
            r.check((sq[i] - along).abs() <= E * total + floor, RD_VAR, || format!("{} axis {}: sv^2 = {:e}, projections {:e}", d(), i, sq[i], along));
        }
        r.check((sq[0] + sq[1] + sq[2] - total).abs() <= E * total + floor, RD_TOTAL, || format!("{}: sv = {:?}, total scatter {:e}", d(), b.sv, total));
        r.check((sq[0] * sq[1] + sq[0] * sq[2] + sq[1] * sq[2] - e2_3(&s)).abs() <= E * total * total + floor * total && (sq[0] * sq[1] * sq[2] - s.determinant()).abs() <= E * total * total * total + floor * total * total, RD_EIG, || format!("{}: sv = {:?}, e2 = {:e}, det = {:e}", d(), b.sv, e2_3(&s), s.determinant()));
        if dim == 0 { r.check(b.sv[0] * b.sv[0] <= floor, RD_RANK, || format!("{}: sv = {:?}", d(), b.sv)); }
        else { r.check(b.rank(1e-6 * b.sv[0]) == dim && (0..3).all(|i| (b.sv[i] > 1e-6 * b.sv[0]) == (i < dim)), RD_RANK, || format!("{}: sv = {:?}", d(), b.sv)); }
        // rigid motions: one general rotation per set plus every 9th of the family
        for it in isos.iter().skip((ti + pi) % 9).step_by(9) {
            let moved: Vec<Point3> = pts.iter().map(|p| it.t * p).collect();
            let bm = SvdBasis3::from_points(&moved, w);
            let dt = || format!("{} {}: sv {:?} vs {:?}", d(), it.name, bm.sv, b.sv);
            // the moved coordinates are rounded: their centred vectors differ from the rotated ones by 1e-16 of the moved coordinates
            let fl = 2e-14 * (1.0 + (it.t * c).coords.norm() + c.coords.norm());
            for i in 0..3 { r.check((bm.sv[i] - b.sv[i]).abs() <= E * b.sv[0] + fl, RD_MOTION, dt); }
            let cm = wmean3(&moved, w);
            for i in 0..3 {
                let along: f64 = moved.iter().enumerate().map(|(k, p)| (bm.basis[i].dot(&(p - cm)) * w.map_or(1.0, |w| w[k])).powi(2)).sum();
                r.check((bm.sv[i] * bm.sv[i] - along).abs() <= E * total + floor + fl * fl * 16.0 * n as f64, RD_VAR, || format!("{} axis {}", dt(), i));
            }
        }
    } } } } } }
    // the same with many points (in-plane coordinates from the 64-bit LCG, irregular by construction): sizes across 16 .. 4097
    for n in [17usize, 33, 64, 65, 100, 257, 1000, 2049, 4097] { for (pi, (u, v)) in pairs.iter().enumerate().step_by(3) { for weighted in [false, true] { for dim in [2usize, 1] {
        r.case();
        let o = origins[(pi / 3) % 3];
        let cloud = lcg_cloud(n);
        let pts: Vec<Point3> = cloud.iter().map(|q| o + u * (q.y * 0.4) + v * (q.z * 0.1 * if dim >= 2 { 1.0 } else { 0.0 })).collect();
        let wv: Vec<f64> = (0..n).map(|i| wtab[i % 9]).collect();
        let w: Option<&[f64]> = if weighted { Some(&wv) } else { None };
        let d = || format!("SvdBasis3::from_points(o + a_k u + b_k v: {} LCG coordinate pairs, u = {:?}, v = {:?}, o = {:?}, dimension {}, {})", n, u.as_slice(), v.as_slice(), (o.x, o.y, o.z), dim, if weighted { "weights 1, 2.5, 0.75, 3.2, 1.6, 0.5, 2.1, 1.25, 3.75 repeating" } else { "no weights" });
        let b = SvdBasis3::from_points(&pts, w);
        let c = wmean3(&pts, w);
        let rows: Vec<Vector3> = pts.iter().enumerate().map(|(k, p)| (p - c) * w.map_or(1.0, |w| w[k])).collect();
        let total: f64 = rows.iter().map(|x| x.norm_squared()).sum();
        let mut s = Matrix3::zeros(); for x in rows.iter() { s += x * x.transpose(); }
        r.check(cp3(&b.center, &c) && b.n == n, "principal axes: the centre is the (weighted) mean", d);
        basis_checks3(r, &b, &d);
        let sq = [b.sv[0] * b.sv[0], b.sv[1] * b.sv[1], b.sv[2] * b.sv[2]];
        for i in 0..3 {
            let along: f64 = rows.iter().map(|x| b.basis[i].dot(x).powi(2)).sum();
            r.check((sq[i] - along).abs() <= E * total, RD_VAR, || format!("{} axis {}: sv^2 = {:e}, projections {:e}", d(), i, sq[i], along));
        }
        r.check((sq[0] + sq[1] + sq[2] - total).abs() <= E * total, RD_TOTAL, || format!("{}: sv = {:?}, total scatter {:e}", d(), b.sv, total));
        r.check((sq[0] * sq[1] + sq[0] * sq[2] + sq[1] * sq[2] - e2_3(&s)).abs() <= E * total * total && (sq[0] * sq[1] * sq[2] - s.determinant()).abs() <= E * total * total * total, RD_EIG, || format!("{}: sv = {:?}", d(), b.sv));
        r.check(b.rank(1e-6 * b.sv[0]) == dim, RD_RANK, || format!("{}: sv = {:?}", d(), b.sv));
        let it = &isos[(n + pi) % isos.len()];
        let moved: Vec<Point3> = pts.iter().map(|p| it.t * p).collect();
        let bm = SvdBasis3::from_points(&moved, w);
        let fl = 2e-14 * (1.0 + (it.t * c).coords.norm() + c.coords.norm()) * (n as f64).sqrt();
        for i in 0..3 { r.check((bm.sv[i] - b.sv[i]).abs() <= E * b.sv[0] + fl, RD_MOTION, || format!("{} {}: sv {:?} vs {:?}", d(), it.name, bm.sv, b.sv)); }
    } } } }
    // 2D: collinear and coincident sets
    let dirs = [Vector2::new(0.83, -0.41), Vector2::new(-0.37, 0.92), Vector2::new(0.11, 0.29), Vector2::new(1.7, 1.3), Vector2::new(-0.62, -0.05), Vector2::new(0.02, -1.9), Vector2::new(0.75, 0.5), Vector2::new(0.0, 1.0), Vector2::new(-2.0, 0.0)];
    let origins2 = [Point2::new(0.0, 0.0), Point2::new(1.2, 3.4), Point2::new(-250.5, 1000.0)];
    let isos2 = super::c03::isos2();
    for (ti, tab) in tables.iter().enumerate() { for (di, u) in dirs.iter().enumerate() { for o in origins2.iter() { for scale in [1.0, 1e-4, 1e4] { for weighted in [false, true] { for dim in [1usize, 0] {
        r.case();
        let pts: Vec<Point2> = tab.iter().map(|(a, _)| o + u * (scale * *a * dim as f64)).collect();
        let n = pts.len();
        let wv: Vec<f64> = (0..n).map(|i| wtab[i]).collect();
        let w: Option<&[f64]> = if weighted { Some(&wv) } else { None };
        let d = || format!("SvdBasis2::from_points(o + a_k u: table {} ({} points), u = {:?}, o = {:?}, scale {:e}, dimension {}, {}) = {:?}", ti, n, u.as_slice(), (o.x, o.y), scale, dim, if weighted { "weights 1, 2.5, 0.75, 3.2, .." } else { "no weights" }, pts.iter().map(|p| (p.x, p.y)).collect::<Vec<_>>());
        let b = SvdBasis2::from_points(&pts, w);
        let mut sum = Vector2::zeros(); let mut tw = 0.0;
        for (i, p) in pts.iter().enumerate() { let wi = w.map_or(1.0, |w| w[i]); sum += p.coords * wi; tw += wi; }
        let c = Point2::from(sum / tw);
        let rows: Vec<Vector2> = pts.iter().enumerate().map(|(k, p)| (p - c) * w.map_or(1.0, |w| w[k])).collect();
        let total: f64 = rows.iter().map(|x| x.norm_squared()).sum();
        let (mut sxx, mut sxy, mut syy) = (0.0, 0.0, 0.0); for x in rows.iter() { sxx += x.x * x.x; sxy += x.x * x.y; syy += x.y * x.y; }
        let floor = (1e-13 * (1.0 + c.coords.norm())).powi(2) * n as f64 * 16.0;
        r.check(cp2(&b.center, &c) && b.n == n, "principal axes 2D: the centre is the (weighted) mean", d);
        r.check((b.basis[0].dot(&b.basis[0]) - 1.0).abs() <= E && (b.basis[1].dot(&b.basis[1]) - 1.0).abs() <= E && b.basis[0].dot(&b.basis[1]).abs() <= E, "principal axes 2D: the basis vectors are orthonormal", d);
        r.check(b.sv[0] >= b.sv[1] && b.sv[1] >= 0.0, "principal axes 2D: singular values are non-negative and non-increasing", d);
        let sq = [b.sv[0] * b.sv[0], b.sv[1] * b.sv[1]];
        for i in 0..2 {
            let along: f64 = rows.iter().map(|x| b.basis[i].dot(x).powi(2)).sum();
            r.check((sq[i] - along).abs() <= E * total + floor, RD_VAR, || format!("{} axis {}: sv^2 = {:e}, projections {:e}", d(), i, sq[i], along));
        }
        r.check((sq[0] + sq[1] - total).abs() <= E * total + floor, RD_TOTAL, || format!("{}: sv = {:?}, total scatter {:e}", d(), b.sv, total));
        r.check((sq[0] * sq[1] - (sxx * syy - sxy * sxy)).abs() <= E * total * total + floor * total, RD_EIG, || format!("{}: sv = {:?}, det = {:e}", d(), b.sv, sxx * syy - sxy * sxy));
        if dim == 0 { r.check(sq[0] <= floor, RD_RANK, || format!("{}: sv = {:?}", d(), b.sv)); }
        else { r.check(b.rank(1e-6 * b.sv[0]) == 1 && b.sv[1] <= 1e-6 * b.sv[0], RD_RANK, || format!("{}: sv = {:?}", d(), b.sv)); }
        for it in isos2.iter().skip((ti + di) % 5).step_by(5) {
            let moved: Vec<Point2> = pts.iter().map(|p| it.t * p).collect();
            let bm = SvdBasis2::from_points(&moved, w);
            let fl = 2e-14 * (1.0 + (it.t * c).coords.norm() + c.coords.norm());
            for i in 0..2 { r.check((bm.sv[i] - b.sv[i]).abs() <= E * b.sv[0] + fl, RD_MOTION, || format!("{} {}: sv {:?} vs {:?}", d(), it.name, bm.sv, b.sv)); }
        }
    } } } } } }
}

/// wave 5, parameter-space audit of the principal-axis functions: hand-set singular values with n across the internal
/// size thresholds; basis coordinates on hand-set rotated bases of either handedness; LCG clouds of small and medium
/// sizes in 3D and 2D; exact power-of-two rescalings; weights of mixed magnitude and all-ones weights against no
/// weights; isotropic sets (exactly tied singular values) and duplicated points.
fn lcg_cloud2(n: usize) -> Vec<Point2> { lcg_cloud(n).iter().map(|p| Point2::new(p.y + 0.25 * p.x, 0.125 * p.z - p.x)).collect() }
fn svd_params(r: &mut Report) {
    let axes = [v3(1.0, 0.0, 0.0), v3(0.0, 1.0, 0.0), v3(0.0, 0.0, 1.0)];
    let isos = isos3();
    // 1. basis_variances / basis_stdevs: sv^2 / n and sv / sqrt(n)
    for n in [1usize, 2, 3, 31, 32, 33, 64, 65, 100, 1000, 1001, 4096, 65536, 16777217] { for sv in [[3.0, 2.0, 1.0], [1e-6, 1e-9, 0.0], [1e8, 5.0, 1e-3], [2.0, 2.0, 2.0]] {
        r.case();
        let b = SvdBasis3 { basis: axes, sv, center: p3(1.0, 2.0, 3.0), n };
        let b2 = SvdBasis2 { basis: [Vector2::new(0.6, 0.8), Vector2::new(-0.8, 0.6)], sv: [sv[0], sv[1]], center: Point2::new(1.0, 2.0), n };
        let (var, sd, var2, sd2) = (b.basis_variances(), b.basis_stdevs(), b2.basis_variances(), b2.basis_stdevs());
        for i in 0..3 {
            let want = sv[i] * sv[i] / n as f64;
            let d = || format!("SvdBasis with hand-set sv = {:?}, n = {}: variances {:?} / {:?}, stdevs {:?} / {:?}", sv, n, var, var2, sd, sd2);
            r.check((var[i] - want).abs() <= 1e-12 * want && (i == 2 || (var2[i] - want).abs() <= 1e-12 * want), "basis_variances: the squared singular value over the number of points (hand-set values, n across 1 .. 2^24 + 1)", d);
            r.check((sd[i] - want.sqrt()).abs() <= 1e-12 * want.sqrt() && (i == 2 || (sd2[i] - want.sqrt()).abs() <= 1e-12 * want.sqrt()), "basis_stdevs: the singular value over the square root of the number of points (hand-set values, n across 1 .. 2^24 + 1)", d);
        }
    } }
    // 2. basis coordinates on hand-set bases: p = c + t0 b0 + t1 b1 + t2 b2  <=>  coordinates (t0, t1, t2)
    let ts = [v3(1.0, 0.0, 0.0), v3(0.0, 1.0, 0.0), v3(0.0, 0.0, 1.0), v3(0.5, -2.0, 3.25), v3(-7.0, 0.125, 0.0), v3(1e-6, 1e3, -4.0)];
    for it in isos.iter().step_by(4) { for hand in [1.0, -1.0] { for c in [p3(0.0, 0.0, 0.0), p3(1.0, -2.0, 3.0), p3(-4096.0, 512.5, 10000.0)] {
        r.case();
        let basis = [it.t * axes[0], it.t * axes[1], (it.t * axes[2]) * hand];
        let b = SvdBasis3 { basis, sv: [3.0, 2.0, 1.0], center: c, n: 5 };
        for t in ts.iter() {
            let v = basis[0] * t.x + basis[1] * t.y + basis[2] * t.z;
            let p = c + v;
            let d = || format!("SvdBasis3 with basis = world axes rotated by {} ({}-handed), centre {:?}; coordinates {:?}, point {:?}", it.name, if hand > 0.0 { "right" } else { "left" }, (c.x, c.y, c.z), t.as_slice(), p.coords.as_slice());
            let tol = 1e-9 * (1.0 + t.norm()) + 1e-15 * c.coords.norm();
            r.check((b.point_to_basis(&p).coords - t).norm() <= tol, "point_to_basis: the coordinates of c + t0 b0 + t1 b1 + t2 b2 are (t0, t1, t2)", d);
            r.check((b.point_from_basis(&Point3::from(*t)) - p).norm() <= tol, "point_from_basis: the point with coordinates (t0, t1, t2) is c + t0 b0 + t1 b1 + t2 b2", d);
            r.check((b.vec_to_basis(&v) - t).norm() <= tol, "vec_to_basis: the coordinates of t0 b0 + t1 b1 + t2 b2 are (t0, t1, t2)", d);
        }
    } } }
    for (bx, by) in [(1.0, 0.0), (0.0, -1.0), (0.6, 0.8), (-0.28, 0.96)] { for hand in [1.0, -1.0] { for c in [Point2::new(0.0, 0.0), Point2::new(-4096.0, 512.5)] {
        r.case();
        let basis = [Vector2::new(bx, by), Vector2::new(-by, bx) * hand];
        let b = SvdBasis2 { basis, sv: [2.0, 1.0], center: c, n: 4 };
        for t in [Vector2::new(1.0, 0.0), Vector2::new(0.0, 1.0), Vector2::new(0.5, -2.0), Vector2::new(1e-6, 1e3)] {
            let v = basis[0] * t.x + basis[1] * t.y; let p = c + v;
            let d = || format!("SvdBasis2 with basis {:?}, centre {:?}; coordinates {:?}", basis, (c.x, c.y), t.as_slice());
            let tol = 1e-9 * (1.0 + t.norm()) + 1e-15 * c.coords.norm();
            r.check((b.point_to_basis(&p).coords - t).norm() <= tol && (b.vec_to_basis(&v) - t).norm() <= tol, "point_to_basis: the coordinates of c + t0 b0 + t1 b1 + t2 b2 are (t0, t1, t2)", d);
            r.check((b.point_from_basis(&Point2::from(t)) - p).norm() <= tol, "point_from_basis: the point with coordinates (t0, t1, t2) is c + t0 b0 + t1 b1 + t2 b2", d);
        }
    } } }
    // 3. clouds of small and medium sizes (the minimum D + 1 included)
    for n in [4usize, 5, 7, 16, 31, 32, 33, 64, 65, 100, 255, 256, 257, 1000, 1001] { for weighted in [false, true] {
        r.case();
        let pts = lcg_cloud(n);
        let wv: Vec<f64> = (0..n).map(|i| [1.0, 2.0, 0.5, 4.0, 1.5][i % 5]).collect();
        let w: Option<&[f64]> = if weighted { Some(&wv) } else { None };
        let d = || format!("SvdBasis3::from_points(LCG box cloud 1 x 5 x 20, n = {}, {})", n, if weighted { "weights 1, 2, 0.5, 4, 1.5 repeating" } else { "no weights" });
        let b = SvdBasis3::from_points(&pts, w);
        let c = wmean3(&pts, w);
        r.check(cp3(&b.center, &c) && b.n == n, "principal axes: the centre is the (weighted) mean", d);
        basis_checks3(r, &b, &d);
        let rows: Vec<Vector3> = pts.iter().enumerate().map(|(k, p)| (p - c) * w.map_or(1.0, |w| w[k])).collect();
        let total: f64 = rows.iter().map(|x| x.norm_squared()).sum();
        let mut s = Matrix3::zeros(); for x in rows.iter() { s += x * x.transpose(); }
        let sq = [b.sv[0] * b.sv[0], b.sv[1] * b.sv[1], b.sv[2] * b.sv[2]];
        let var = b.basis_variances();
        for i in 0..3 {
            let along: f64 = rows.iter().map(|x| b.basis[i].dot(x).powi(2)).sum();
            r.check((sq[i] - along).abs() <= E * total && (var[i] - along / n as f64).abs() <= E * total / n as f64, "principal axes: sv^2 / n equals the variance of the (weighted) centred points along each axis", || format!("{} axis {}: sv^2 = {:e}, projections {:e}", d(), i, sq[i], along));
        }
        r.check((sq[0] + sq[1] + sq[2] - total).abs() <= E * total && (sq[0] * sq[1] + sq[0] * sq[2] + sq[1] * sq[2] - e2_3(&s)).abs() <= E * total * total && (sq[0] * sq[1] * sq[2] - s.determinant()).abs() <= E * total * total * total,
            "principal axes: the squared singular values have the eigen-structure invariants of the scatter matrix (trace, sum of principal 2x2 minors, determinant; relative 1e-9)", || format!("{}: sv = {:?}", d(), b.sv));
        r.check(b.rank(1e-9 * (1.0 + b.sv[0])) == 3, "principal axes: the rank reflects the dimension of the point set", d);
        let it = &isos[(n * 7 + 17) % isos.len()];
        let moved: Vec<Point3> = pts.iter().map(|p| it.t * p).collect();
        let bm = SvdBasis3::from_points(&moved, w);
        for i in 0..3 {
            r.check((bm.sv[i] - b.sv[i]).abs() <= E * (1.0 + b.sv[0]), "principal axes: singular values are invariant under a rigid motion of the points", || format!("{} {}: {:?} vs {:?}", d(), it.name, bm.sv, b.sv));
            if sv_separated(&b.sv, i) { r.check(same_up_to_sign3(&bm.basis[i], &(it.t * b.basis[i])), "principal axes: the basis vectors rotate (up to sign) with a rigid motion of the points", || format!("{} {} axis {}", d(), it.name, i)); }
        }
        r.check(cp3(&bm.center, &(it.t * b.center)), "principal axes: the centre moves with a rigid motion of the points", || format!("{} {}", d(), it.name));
        // 2D
        let n2 = n - 1; // 3 is the minimum in 2D
        let pts2 = lcg_cloud2(n2);
        let w2: Option<&[f64]> = if weighted { Some(&wv[..n2]) } else { None };
        let d2 = || format!("SvdBasis2::from_points(LCG cloud, n = {}, {})", n2, if weighted { "weights 1, 2, 0.5, 4, 1.5 repeating" } else { "no weights" });
        let b2 = SvdBasis2::from_points(&pts2, w2);
        let mut sum = Vector2::zeros(); let mut tw = 0.0;
        for (i, p) in pts2.iter().enumerate() { let wi = w2.map_or(1.0, |w| w[i]); sum += p.coords * wi; tw += wi; }
        let c2 = Point2::from(sum / tw);
        let rows2: Vec<Vector2> = pts2.iter().enumerate().map(|(k, p)| (p - c2) * w2.map_or(1.0, |w| w[k])).collect();
        let total2: f64 = rows2.iter().map(|x| x.norm_squared()).sum();
        let (mut sxx, mut sxy, mut syy) = (0.0, 0.0, 0.0); for x in rows2.iter() { sxx += x.x * x.x; sxy += x.x * x.y; syy += x.y * x.y; }
        r.check(cp2(&b2.center, &c2) && b2.n == n2, "principal axes 2D: the centre is the (weighted) mean", d2);
        r.check((b2.basis[0].dot(&b2.basis[0]) - 1.0).abs() <= E && (b2.basis[1].dot(&b2.basis[1]) - 1.0).abs() <= E && b2.basis[0].dot(&b2.basis[1]).abs() <= E, "principal axes 2D: the basis vectors are orthonormal", d2);
        r.check(b2.sv[0] >= b2.sv[1] && b2.sv[1] >= 0.0, "principal axes 2D: singular values are non-negative and non-increasing", d2);
        for i in 0..2 {
            let along: f64 = rows2.iter().map(|x| b2.basis[i].dot(x).powi(2)).sum();
            r.check((b2.sv[i] * b2.sv[i] - along).abs() <= E * total2, "principal axes 2D: sv^2 / n equals the variance of the (weighted) centred points along each axis", || format!("{} axis {}", d2(), i));
        }
        r.check((b2.sv[0].powi(2) + b2.sv[1].powi(2) - total2).abs() <= E * total2 && (b2.sv[0].powi(2) * b2.sv[1].powi(2) - (sxx * syy - sxy * sxy)).abs() <= E * total2 * total2, "principal axes 2D: the squared singular values have the eigen-structure invariants of the scatter matrix (trace, determinant; relative 1e-9)", || format!("{}: sv = {:?}", d2(), b2.sv));
        r.check(b2.rank(1e-9 * (1.0 + b2.sv[0])) == 2, "principal axes 2D: the rank reflects the dimension of the point set", d2);
    } }
    // 4. exact rescaling by powers of two (tiny and huge extents): singular values and centre scale, axes stay
    for s in sets3().iter() { for e in [-40i32, -30, -20, -10, 10, 20, 27, 40] {
        r.case();
        let k = 2f64.powi(e);
        let w = s.w.as_deref();
        let b = SvdBasis3::from_points(&s.pts, w);
        let scaled: Vec<Point3> = s.pts.iter().map(|p| Point3::from(p.coords * k)).collect();
        let bk = SvdBasis3::from_points(&scaled, w);
        let d = || format!("SvdBasis3::from_points([{}] with all coordinates x 2^{}, weights {:?}): sv {:?}, unscaled {:?}", s.name, e, s.w, bk.sv, b.sv);
        basis_checks3(r, &bk, &d);
        r.check((bk.center.coords - b.center.coords * k).norm() <= E * k * (1.0 + b.center.coords.norm()), "principal axes: scaling all coordinates by a power of two scales the centre", d);
        for i in 0..3 {
            r.check((bk.sv[i] - k * b.sv[i]).abs() <= E * k * b.sv[0] + if s.rank == 0 { 0.0 } else { 0.0 }, &nm("principal axes: scaling all coordinates by a power of two (2^-40 .. 2^40) scales the singular values by the same factor", s.rank < 3), d);
            if sv_separated(&b.sv, i) { r.check(same_up_to_sign3(&bk.basis[i], &b.basis[i]), "principal axes: scaling all coordinates by a power of two (2^-40 .. 2^40) keeps the axes (up to sign)", || format!("{} axis {}", d(), i)); }
        }
        r.check(bk.rank(1e-9 * bk.sv[0]) == s.rank || s.rank == 0, "principal axes: the rank (tolerance relative to the largest singular value) does not depend on the unit of length", d);
        if s.rank == 0 { r.check(bk.rank(0.0) == 0, "rank: coincident points have rank 0 at tolerance 0 (all singular values are exactly 0)", d); }
    } }
    // 5. weights: all ones against no weights; weights of mixed magnitude and with ties
    for s in sets3().iter().filter(|s| s.w.is_none()) {
        r.case();
        let n = s.pts.len();
        let b = SvdBasis3::from_points(&s.pts, None);
        let ones = vec![1.0; n];
        let b1 = SvdBasis3::from_points(&s.pts, Some(&ones));
        let d = || format!("SvdBasis3::from_points([{}], Some(all ones)) vs None: sv {:?} vs {:?}", s.name, b1.sv, b.sv);
        r.check(cp3(&b1.center, &b.center) && b1.n == b.n, "principal axes: weights that are all 1 give the centre of the unweighted decomposition", d);
        for i in 0..3 {
            r.check((b1.sv[i] - b.sv[i]).abs() <= E * (1.0 + b.sv[0]), &nm("principal axes: weights that are all 1 give the singular values of the unweighted decomposition", s.rank < 3), d);
            if sv_separated(&b.sv, i) { r.check(same_up_to_sign3(&b1.basis[i], &b.basis[i]), "principal axes: weights that are all 1 give the axes of the unweighted decomposition (up to sign)", d); }
        }
        for wsrc in [[1e-3, 1e3, 1.0, 250.0, 0.02, 7.0], [5.0, 5.0, 1e-2, 5.0, 40.0, 40.0], [1e3, 1e-3, 1e-3, 1e3, 1e-3, 1e3],
            // nearly equal weights (within 1%, 1e-4, 1e-6), and all equal but one
            [1.0, 1.004, 0.997, 1.002, 0.999, 1.001], [2.0, 2.0001, 1.9999, 2.0002, 2.0, 1.9998], [0.5, 0.5000004, 0.4999997, 0.5, 0.5000002, 0.5], [3.0, 3.0, 3.0, 3.0, 3.03, 3.0]] {
            if s.rank < 3 { continue; }
            let wv: Vec<f64> = wsrc[..n].to_vec();
            let bw = SvdBasis3::from_points(&s.pts, Some(&wv));
            let c = wmean3(&s.pts, Some(&wv));
            let dw = || format!("SvdBasis3::from_points([{}], weights {:?})", s.name, wv);
            r.check(cp3(&bw.center, &c), "principal axes: the centre is the (weighted) mean", dw);
            basis_checks3(r, &bw, &dw);
            let rows: Vec<Vector3> = s.pts.iter().enumerate().map(|(k, p)| (p - c) * wv[k]).collect();
            let total: f64 = rows.iter().map(|x| x.norm_squared()).sum();
            let mut tot_sv = 0.0;
            for i in 0..3 {
                let along: f64 = rows.iter().map(|x| bw.basis[i].dot(x).powi(2)).sum();
                tot_sv += bw.sv[i] * bw.sv[i];
                r.check((bw.sv[i] * bw.sv[i] - along).abs() <= E * total, "principal axes: sv^2 / n equals the variance of the (weighted) centred points along each axis", || format!("{} axis {}", dw(), i));
            }
            r.check((tot_sv - total).abs() <= E * total, "principal axes: the squared singular values add up to the total scatter of the (weighted) centred points", dw);
            let w2: Vec<f64> = wv.iter().map(|x| x * 2.0).collect();
            let b2 = SvdBasis3::from_points(&s.pts, Some(&w2));
            r.check(cp3(&b2.center, &bw.center), "principal axes: the centre is unchanged by uniformly scaling all weights", dw);
            for i in 0..3 {
                r.check((b2.sv[i] - 2.0 * bw.sv[i]).abs() <= E * (1.0 + 2.0 * bw.sv[0]), "principal axes: scaling all weights by k scales the singular values by k", dw);
                if sv_separated(&bw.sv, i) { r.check(same_up_to_sign3(&b2.basis[i], &bw.basis[i]), "principal axes: the basis is unchanged (up to sign) by uniformly scaling all weights", dw); }
            }
        }
    }
    // 6. exactly tied singular values (isotropic sets) and duplicated points
    let mut cube = vec![]; for a in [-1.0, 1.0] { for b in [-1.0, 1.0] { for c in [-1.0, 1.0] { cube.push(p3(a, b, c)); } } }
    let disc = vec![p3(1.0, 1.0, 0.0), p3(-1.0, 1.0, 0.0), p3(-1.0, -1.0, 0.0), p3(1.0, -1.0, 0.0), p3(0.0, 0.0, 0.5), p3(0.0, 0.0, -0.5)];
    let spindle = vec![p3(0.5, 0.5, 0.0), p3(-0.5, 0.5, 0.0), p3(-0.5, -0.5, 0.0), p3(0.5, -0.5, 0.0), p3(0.0, 0.0, 3.0), p3(0.0, 0.0, -3.0)];
    for (name, pts, want) in [("cube corners", &cube, [8f64.sqrt(); 3]), ("square with a short axis", &disc, [2.0, 2.0, 0.5f64.sqrt()]), ("square with a long axis", &spindle, [18f64.sqrt(), 1.0, 1.0])] {
        for it in isos.iter().step_by(3) {
            r.case();
            let moved: Vec<Point3> = pts.iter().map(|p| it.t * p).collect();
            let b = SvdBasis3::from_points(&moved, None);
            let d = || format!("SvdBasis3::from_points({} moved by {}): sv = {:?}", name, it.name, b.sv);
            basis_checks3(r, &b, &d);
            let c = wmean3(&moved, None);
            for i in 0..3 {
                r.check(close(b.sv[i], want[i]), "principal axes, exactly tied singular values (cube, square with a short / long axis): the singular values are those of the set", d);
                let along: f64 = moved.iter().map(|p| b.basis[i].dot(&(p - c)).powi(2)).sum();
                r.check((b.sv[i] * b.sv[i] - along).abs() <= E * (1.0 + along), "principal axes: sv^2 / n equals the variance of the (weighted) centred points along each axis", || format!("{} axis {}", d(), i));
            }
            if want[0] != want[1] { r.check(same_up_to_sign3(&b.basis[0], &(it.t * axes[2])), "principal axes, exactly tied singular values: the separated axis is the axis of the set", d); }
            if want[1] != want[2] { r.check(same_up_to_sign3(&b.basis[2], &(it.t * axes[2])), "principal axes, exactly tied singular values: the separated axis is the axis of the set", d); }
            r.check(b.rank(1e-9) == 3 && cp3(&b.center, &(it.t * p3(0.0, 0.0, 0.0))), "principal axes: the rank reflects the dimension of the point set", d);
        }
    }
    for s in sets3().iter().filter(|s| s.w.is_none()) {
        r.case();
        let b = SvdBasis3::from_points(&s.pts, None);
        let mut twice = s.pts.clone(); twice.extend(s.pts.iter().rev().cloned());
        let b2 = SvdBasis3::from_points(&twice, None);
        let d = || format!("SvdBasis3::from_points([{}] with every point listed twice): sv {:?} vs {:?} once", s.name, b2.sv, b.sv);
        r.check(cp3(&b2.center, &b.center) && b2.n == 2 * b.n, "principal axes, every point listed twice: same centre, n doubled", d);
        basis_checks3(r, &b2, &d);
        for i in 0..3 {
            r.check((b2.sv[i] - 2f64.sqrt() * b.sv[i]).abs() <= E * (1.0 + b.sv[0]), &nm("principal axes, every point listed twice: singular values grow by sqrt 2 (the variances stay)", s.rank < 3), d);
            if sv_separated(&b.sv, i) { r.check(same_up_to_sign3(&b2.basis[i], &b.basis[i]), "principal axes, every point listed twice: same axes (up to sign)", d); }
        }
    }
}

/// wave 5, frame constructors: tiny / huge / very unequal argument lengths, second arguments nearly parallel and nearly
/// anti-parallel to the first (angles 1e-5, 1e-7), far origins; iso3_from_basis with skew, unnormalised second vectors
/// and far origins; the by-value From impls; iso2_from_basis over origins and lengths.
fn frames_params(r: &mut Report) {
    type Ctor = fn(&Vector3, &Vector3, Option<Point3>) -> crate::Result<Iso3>;
    let ctors: [(&str, Ctor, usize, usize); 6] = [
        ("try_from_basis_xy", Iso3::try_from_basis_xy, 0, 1), ("try_from_basis_xz", Iso3::try_from_basis_xz, 0, 2), ("try_from_basis_yz", Iso3::try_from_basis_yz, 1, 2),
        ("try_from_basis_yx", Iso3::try_from_basis_yx, 1, 0), ("try_from_basis_zx", Iso3::try_from_basis_zx, 2, 0), ("try_from_basis_zy", Iso3::try_from_basis_zy, 2, 1),
    ];
    let axes = [v3(1.0, 0.0, 0.0), v3(0.0, 1.0, 0.0), v3(0.0, 0.0, 1.0)];
    // exactly orthogonal integer pairs (a, p): the second argument is  s a + t p
    let ortho = [(v3(1.0, 2.0, 2.0), v3(2.0, 1.0, -2.0)), (v3(0.0, 0.0, 1.0), v3(1.0, 0.0, 0.0)), (v3(3.0, 4.0, 0.0), v3(-4.0, 3.0, 0.0)), (v3(2.0, -1.0, 2.0), v3(1.0, 2.0, 0.0)), (v3(-1.0, 1.0, 0.5), v3(1.0, 1.0, 0.0)), (v3(0.0, -2.0, 0.0), v3(0.0, 0.0, 1.0))];
    let lens = [(1.0, 1.0), (1e-6, 1.0), (1.0, 1e-6), (1e6, 1e-3), (1e-3, 1e8), (1e-6, 1e-6), (1e9, 1e9)];
    let mixes = [(0.0, 1.0), (1.0, 1.0), (-2.0, 0.5), (1.0, 1e-5), (-1.0, 1e-5), (3.0, 1e-7), (-1.0, 1e-7), (1.0, -1e-5)];
    let origins = [None, Some(p3(1e6, -2.5e6, 3e6)), Some(p3(1e8, 0.0, -1e8)), Some(p3(-0.0, 0.0, 1e-9))];
    for (cname, ctor, pi, si) in ctors.iter() { for (a0, p0) in ortho.iter() { for (la, lb) in lens.iter() { for (sa, tp) in mixes.iter() { for o in origins.iter() {
        let a = a0 * *la;
        let b = (a0 * *sa + p0 * *tp) * *lb;
        let prim = a0.normalize();
        let sec = p0.normalize() * if *tp > 0.0 { 1.0 } else { -1.0 };
        let mut cols = [Vector3::zeros(); 3];
        let sign = if (pi + 1) % 3 == *si { 1.0 } else { -1.0 };
        cols[*pi] = prim; cols[*si] = sec; cols[3 - pi - si] = prim.cross(&sec) * sign;
        let want = Matrix3::from_columns(&cols);
        if is_half_turn(&want) { continue; }
        // the constructors reject a second argument whose part orthogonal to the first is shorter than 1e-10: stay clear of it
        if lb * tp.abs() * p0.norm() < 1e-8 { continue; }
        r.case();
        let d = || format!("Iso3::{}({:?}, {:?}, {:?})  [a = {:e} * {:?}, b = {:e} * ({} a + {:e} p), p = {:?} orthogonal to a]", cname, a.as_slice(), b.as_slice(), o.map(|p| (p.x, p.y, p.z)), la, a0.as_slice(), lb, sa, tp, p0.as_slice());
        match ctor(&a, &b, *o) {
            Err(_) => r.check(false, "frame constructor succeeds for non-parallel, non-zero vectors", d),
            Ok(f) => {
                let m: Matrix3<f64> = f.rotation.to_rotation_matrix().into_inner();
                let og = o.unwrap_or(p3(0.0, 0.0, 0.0));
                r.check((f * Point3::origin() - og).norm() <= E * og.coords.norm(), "frame constructor maps the origin to the given point", d);
                r.check(((m.transpose() * m) - Matrix3::identity()).norm() <= E, "frame constructor returns an orthonormal frame", d);
                r.check(close(m.determinant(), 1.0), "frame constructor returns a proper (right-handed) rotation", d);
                let fp = f.rotation * axes[*pi]; let fs = f.rotation * axes[*si];
                r.check(cv3(&fp, &prim), "frame constructor: the primary axis is exactly the normalised first argument", d);
                r.check(fs.dot(&b) > 0.0, "frame constructor: the secondary axis lies on the side of the second argument", d);
                // the direction of the secondary axis is conditioned by the angle between the arguments
                let tol = 1e-9 + 1e-13 * (sa.abs() / tp.abs());
                r.check((fs - sec).norm() <= tol && (m - want).norm() <= 3.0 * tol, "frame constructor returns the frame (normalised first argument, orthogonalised second argument, right-handed third axis)", d);
            }
        }
    } } } } }
    // requested frame within 1e-12 .. 1e-3 rad of the world axes (and of the other 23 axis-aligned frames): first = e_i + eps e_j,
    // second = e_j - eps e_i (exactly orthogonal), compared to 1e-12
    let signed_axes = [v3(1.0, 0.0, 0.0), v3(0.0, 1.0, 0.0), v3(0.0, 0.0, 1.0), v3(-1.0, 0.0, 0.0), v3(0.0, -1.0, 0.0), v3(0.0, 0.0, -1.0)];
    for (cname, ctor, pi, si) in ctors.iter() { for ea in signed_axes.iter() { for eb in signed_axes.iter() { for eps in [1e-3, 1e-5, 1e-7, 1e-9, 1e-11, -1e-6, -1e-10] { for o in [None, Some(p3(1.0, 2.0, 3.0))] {
        if ea.cross(eb).norm() < 0.5 { continue; }
        let a = ea + eb * eps; let b = eb - ea * eps;
        let prim = a.normalize(); let sec = b.normalize();
        let mut cols = [Vector3::zeros(); 3];
        let sign = if (pi + 1) % 3 == *si { 1.0 } else { -1.0 };
        cols[*pi] = prim; cols[*si] = sec; cols[3 - pi - si] = prim.cross(&sec) * sign;
        let want = Matrix3::from_columns(&cols);
        if (want.trace() + 1.0).abs() < 1e-2 { continue; } // half turns have their own clause
        r.case();
        let d = || format!("Iso3::{}({:?}, {:?}, {:?}) (an axis-aligned frame turned by {:e} rad)", cname, a.as_slice(), b.as_slice(), o.map(|p| (p.x, p.y, p.z)), eps);
        match ctor(&a, &b, o) {
            Err(_) => r.check(false, "frame constructor succeeds for non-parallel, non-zero vectors", d),
            Ok(f) => {
                let m: Matrix3<f64> = f.rotation.to_rotation_matrix().into_inner();
                r.check((m - want).norm() <= 1e-12 && ((m.transpose() * m) - Matrix3::identity()).norm() <= 1e-12, "frame constructor, requested frame within 1e-11 .. 1e-3 rad of an axis-aligned frame: returns that frame to 1e-12 (primary = normalised first argument, secondary = normalised second argument)", d);
                r.check(cp3(&(f * Point3::origin()), &o.unwrap_or(p3(0.0, 0.0, 0.0))), "frame constructor maps the origin to the given point", d);
            }
        }
    } } } } }
    for (a0, p0) in ortho.iter() { for (la, lb) in lens.iter().take(5) { for (sa, tp) in [(0.0, 1.0), (1.0, 1.0), (-2.0, 0.5), (0.5, -1.0)] { for o in [p3(0.0, 0.0, 0.0), p3(1.0, 2.0, 3.0), p3(1e6, -2.5e6, 3e6)] {
        let x = a0.normalize(); let y = p0.normalize() * if tp > 0.0 { 1.0 } else { -1.0 }; let z = x.cross(&y);
        if is_half_turn(&Matrix3::from_columns(&[x, y, z])) { continue; }
        r.case();
        let basis = [a0 * *la, (a0 * sa + p0 * tp) * *lb, v3(7.0, -7.0, 7.0)];
        let d = || format!("basis [{:?}, {:?}, (ignored) {:?}], origin {:?}", basis[0].as_slice(), basis[1].as_slice(), basis[2].as_slice(), (o.x, o.y, o.z));
        let by_ref = Iso3::from(&SvdBasis3 { basis, sv: [3.0, 2.0, 1.0], center: o, n: 5 });
        let by_val = Iso3::from(SvdBasis3 { basis, sv: [3.0, 2.0, 1.0], center: o, n: 5 });
        for (fname, f) in [("iso3_from_basis", iso3_from_basis(&basis, &o)), ("Iso3::from(&SvdBasis3)", by_ref), ("Iso3::from(SvdBasis3)", by_val)] {
            let dd = || format!("{}: {}", fname, d());
            let m: Matrix3<f64> = f.rotation.to_rotation_matrix().into_inner();
            r.check(((m.transpose() * m) - Matrix3::identity()).norm() <= E && close(m.determinant(), 1.0), "frame of a basis (skew / unnormalised second vector, far origin) is a proper rotation", dd);
            r.check((f * o).coords.norm() <= E * (1.0 + o.coords.norm()), "frame of a basis (skew / unnormalised second vector, far origin) takes the origin point to 0", dd);
            r.check(cv3(&(f.rotation * x), &v3(1.0, 0.0, 0.0)), "frame of a basis (skew / unnormalised second vector, far origin): the normalised first vector goes to x", dd);
            let fy = f.rotation * basis[1].normalize();
            r.check(fy.y > 0.0 && fy.z.abs() <= E, "frame of a basis (skew / unnormalised second vector, far origin): the second vector goes into the upper xy half-plane", dd);
            r.check(cv3(&(f.rotation * y), &v3(0.0, 1.0, 0.0)) && cv3(&(f.rotation * z), &v3(0.0, 0.0, 1.0)), "frame of a basis (skew / unnormalised second vector, far origin): the orthogonalised second vector goes to y, first x second to z", dd);
        }
        let (ux, uy) = (UnitVec3::new_normalize(basis[0]), UnitVec3::new_normalize(basis[1]));
        let f = iso3_from_xyo(&ux, &uy, &o);
        let m: Matrix3<f64> = f.rotation.to_rotation_matrix().into_inner();
        let fy = f.rotation * uy.into_inner();
        r.check(((m.transpose() * m) - Matrix3::identity()).norm() <= E && close(m.determinant(), 1.0) && (f * o).coords.norm() <= E * (1.0 + o.coords.norm()) && cv3(&(f.rotation * x), &v3(1.0, 0.0, 0.0)) && fy.y > 0.0 && fy.z.abs() <= E && cv3(&(f.rotation * y), &v3(0.0, 1.0, 0.0)),
            "iso3_from_xyo: proper rotation taking the origin point to 0, the x direction to x and the y argument into the upper xy half-plane", || format!("iso3_from_xyo(normalised {})", d()));
    } } } }
    // iso2_from_basis / From impls: directions x lengths x origins (the second vector is ignored)
    for (bx, by) in [(1.0, 0.0), (0.0, 1.0), (0.0, -2.0), (3.0, 4.0), (-3.0, 4.0), (-1.0, -1.0), (1.0, -1e-3), (-1.0, 1e-3), (-0.6, 0.8), (0.28, -0.96), (1e-9, 1.0), (-1.0, 1e-7)] { for l in [1.0, 1e-8, 1e8] { for o in [Point2::new(0.0, 0.0), Point2::new(1.0, 2.0), Point2::new(1e6, -2.5e6)] { for second in [Vector2::zeros(), Vector2::new(5.0, 5.0)] {
        r.case();
        let b0 = Vector2::new(bx, by) * l;
        let n = Vector2::new(bx, by).normalize();
        let d = || format!("basis [{:?}, (ignored) {:?}], origin {:?}", b0.as_slice(), second.as_slice(), (o.x, o.y));
        let by_ref = Iso2::from(&SvdBasis2 { basis: [b0, second], sv: [2.0, 1.0], center: o, n: 4 });
        let by_val = Iso2::from(SvdBasis2 { basis: [b0, second], sv: [2.0, 1.0], center: o, n: 4 });
        for (fname, f) in [("iso2_from_basis", iso2_from_basis(&[b0, second], &o)), ("Iso2::from(&SvdBasis2)", by_ref), ("Iso2::from(SvdBasis2)", by_val)] {
            let ok = (f * o).coords.norm() <= E * (1.0 + o.coords.norm()) && cv2(&(f.rotation * n), &Vector2::new(1.0, 0.0)) && cv2(&(f.rotation * Vector2::new(-n.y, n.x)), &Vector2::new(0.0, 1.0));
            r.check(ok, "iso2_from_basis takes the origin to 0, the first axis to x and is right-handed", || format!("{}: {}", fname, d()));
        }
    } } } }
}

/// wave 5, planes: every order of the three defining points; triangles with exact dyadic coordinates of edge 2^-27 ..
/// 2^20 at the origin and of edge 1 .. 64 far from it (2^20); point-and-normal planes through far points; inversion
/// twice; queries exactly on the plane.
fn planes_params(r: &mut Report) {
    let shapes = [(v3(1.0, 0.0, 0.5), v3(0.0, 1.0, 0.25)), (v3(3.0, -2.0, 2.0), v3(-6.0, -1.0, 4.0)), (v3(0.0, 2.0, 0.0), v3(0.0, 0.0, -1.5)), (v3(0.0, 5.0, 4.0), v3(-4.0, 0.0, 0.0)), (v3(1.0, 0.0, 0.0), v3(0.5, 0.0078125, 0.0)), (v3(1.0, 8.0, -3.0), v3(1.0, 8.0, -2.5))];
    let cases: [(f64, Point3); 9] = [(2f64.powi(-27), p3(0.0, 0.0, 0.0)), (2f64.powi(-20), p3(0.0, 0.0, 0.0)), (2f64.powi(-10), p3(0.0, 0.0, 0.0)), (1.0, p3(0.0, 0.0, 0.0)), (1024.0, p3(0.0, 0.0, 0.0)), (1048576.0, p3(0.0, 0.0, 0.0)),
        (1.0, p3(1048576.0, -2097152.0, 524288.0)), (64.0, p3(-1048576.0, 0.0, 1048576.0)), (0.125, p3(1024.0, 2048.0, -512.0))];
    for (e1, e2) in shapes.iter() { for (k, a) in cases.iter() {
        let b = a + e1 * *k; let c = a + e2 * *k;
        let size = (b - a).norm().max((c - a).norm());
        let n0 = e1.cross(e2).normalize();
        let perms: [(&Point3, &Point3, &Point3, f64); 6] = [(a, &b, &c, 1.0), (&b, &c, a, 1.0), (&c, a, &b, 1.0), (a, &c, &b, -1.0), (&c, &b, a, -1.0), (&b, a, &c, -1.0)];
        for (p1, p2, p3_, sgn) in perms.iter() {
            r.case();
            let pl = Plane3::from((*p1, *p2, *p3_));
            let d = || format!("Plane3::from(({:?}, {:?}, {:?})) (edge {:e}): normal {:?}, d {:e}", p1.coords.as_slice(), p2.coords.as_slice(), p3_.coords.as_slice(), size, pl.normal.as_slice(), pl.d);
            // the coordinates are exact; the rounding of n.p - d is relative to the distance from the origin
            let tol = E * size + 4e-16 * a.coords.norm();
            r.check(close(pl.normal.norm(), 1.0), "plane from three points: the normal is a unit vector", d);
            for p in [a, &b, &c] {
                r.check(pl.signed_distance_to_point(p).abs() <= tol, "plane from three points (any order, edge 2^-27 .. 2^20, up to 2^21 from the origin) contains its defining points within 1e-9 of the edge length", d);
                r.check((pl.project_point(p) - p).norm() <= tol, "plane from three points (any order, edge 2^-27 .. 2^20, up to 2^21 from the origin) projects its defining points onto themselves within 1e-9 of the edge length", d);
            }
            r.check((pl.normal.into_inner() - n0 * *sgn).norm() <= 1e-9, "plane from three points: the normal is along (p2 - p1) x (p3 - p1): cyclic orders give the same plane, a swap gives the inverted one", d);
            let q = a + (e1 + e2) * (*k / 3.0) + n0 * (0.5 * size);
            r.check((pl.signed_distance_to_point(&q) - sgn * 0.5 * size).abs() <= 1e-8 * size + tol, "plane from three points: a point half an edge above the centroid has signed distance half an edge (below for a swapped order)", d);
            let inv = pl.inverted_normal(); let back = inv.inverted_normal();
            r.check(back.normal == pl.normal && back.d == pl.d, "inverted_normal twice returns the plane itself (bit for bit)", d);
            r.check(inv.signed_distance_to_point(&q) == -pl.signed_distance_to_point(&q), "inverted_normal flips the signed distance", d);
        }
    } }
    // point and normal through far points; queries exactly on the plane
    for nv in [v3(0.0, 0.0, 1.0), v3(1.0, 2.0, 2.0), v3(2.0, -1.0, 2.0), v3(-3.0, 0.0, 4.0), v3(0.0, -1.0, 0.0)] { for p in [p3(0.0, 0.0, 0.0), p3(-0.0, 0.0, -0.0), p3(1e-9, -1e-9, 1e-9), p3(3.0, -6.0, 9.0), p3(1048576.0, -2097152.0, 524288.0), p3(3e8, 6e8, -9e8)] {
        r.case();
        let u = UnitVec3::new_normalize(nv);
        let d = || format!("Plane3::from((normalize {:?}, {:?}))", nv.as_slice(), p.coords.as_slice());
        let sp = SurfacePoint3::new(p, u);
        for (kind, pl) in [("point and normal", Plane3::from((&u, &p))), ("surface point", Plane3::from(&sp)), ("new(normal, normal . point)", Plane3::new(u, u.dot(&p.coords)))] {
            let dd = || format!("{} [{}]", d(), kind);
            let tol = 4e-16 * p.coords.norm();
            r.check(pl.signed_distance_to_point(&p).abs() <= tol && (pl.project_point(&p) - p).norm() <= tol && cv3(&pl.normal, &u), "plane from point and normal / surface point (points up to 1e9 from the origin) contains its defining point, projects it onto itself and has the given normal", dd);
            for l in [-2.0, 0.5, 1e-6, 1e6] {
                let q = p + u.into_inner() * l;
                r.check((pl.signed_distance_to_point(&q) - l).abs() <= E * l.abs() + 4.0 * tol && (pl.project_point(&q) - p).norm() <= E * l.abs() + 4.0 * tol, "plane from point and normal / surface point: point + l * normal has signed distance l and projects to the point", || format!("{} l = {}", dd(), l));
                r.check(close(pl.inverted_normal().signed_distance_to_point(&q), -pl.signed_distance_to_point(&q)) && (pl.inverted_normal().project_point(&q) - pl.project_point(&q)).norm() <= E * l.abs() + 4.0 * tol, "inverted_normal flips the signed distance", || format!("{} l = {}", dd(), l));
            }
        }
    } }
}

pub fn run() -> Option<Report> {
    let mut r = Report::new("planes: 6 non-collinear point triples, 4 (normal, point) pairs / surface points, 4 queries, and 7 tilted triangle shapes scaled to edge lengths 1e-3 and 1e-4 at 4 anchor points (containment within 1e-9 of the edge); principal axes: box clouds of n in {2047, 2048, 2049, 4096} LCG points with extents 1:5:20 (unweighted and with weights 1,2,0.5,4 repeating; every 5th / 15th isometry of the family); 8 point sets in 3D (generic, skew, planar, collinear, coincident; weights from {0.5..4}) and 4 in 2D, weight scale factors {2, 0.5, 8, 1e-6, 1e-18, 1e18}, 76 (3D) / 24 (2D) isometries (quarter turns, 30/45 degrees, general axis, translations up to 1000); singular vectors compared up to sign and only where singular values are separated by > 1e-3 of the largest; frame constructors: six try_from_basis_* x 10 first x 11 second arguments (all signed axis pairs, skew, unequal lengths, one nearly parallel pair at 1e-3) x 3 origins, 12 parallel / zero pairs each (6 of them parallel along directions that are not exactly representable); iso3_from_xyo / iso3_from_basis / iso2_from_basis / Iso3::from(&SvdBasis3); all comparisons to 1e-9; wave 4: rank(tol) on hand-set singular values over {0, 5e-324, 1e-12, 0.5, 1, 1+2^-52, 2, 1e300} with tol exactly on a value and one ulp to either side, coincident dyadic points at tol 0; iso3_from_basis / Iso3::from(&SvdBasis3) on right- and left-handed orthonormal triples from 8 x 6 vector pairs x 3 origins; iso3_from_xyo with y tilted towards +-x by 1e-11 .. 9e-4 (0 < |x.y| < 1e-3) for 8 x 5 direction pairs, tolerance 1e-12; from_points on 7 slabs (3D) / 4 rectangles (2D) with exact dyadic coordinates translated by integer offsets with offset / extent 1e5 .. 3e7 (|offset| <= 6e7), weighted and not, singular values to relative 1e-9; wave 5: exactly rank-deficient point sets of every rank (3D: planar, collinear, coincident; 2D: collinear, coincident) o + a_k u + b_k v from 4 irregular coordinate tables (5, 7, 9 decimal and 8 dyadic pairs) x 16 (u, v) pairs in general orientations (12 skew decimal, 3 dyadic, 1 axis-aligned) x 3 origins x scales {1e-4, 1, 1e4} x {unweighted, irregular weights}, and LCG tables of n in {17, 33, 64, 65, 100, 257, 1000, 2049, 4097} points: sv_i^2 == sum of squared projections on the returned axis, sum sv^2 == total scatter, elementary symmetric functions of sv^2 == those of the scatter matrix (principal 2x2 minors, determinant), singular values beyond the dimension <= 1e-6 of the largest, invariance under every 9th isometry (all relative 1e-9 of the total scatter); hand-set singular values with n in {1 .. 2^24 + 1} for basis_variances / basis_stdevs; basis coordinates on hand-set rotated bases of either handedness (3D: every 4th isometry x 3 centres x 6 coordinate triples; 2D: 4 directions); LCG clouds of n in {4, 5, 7, 16, 31, 32, 33, 64, 65, 100, 255, 256, 257, 1000, 1001} (3D) and n - 1 (2D), weighted and not; rescaling of all coordinates by 2^e, e in {-40, -30, -20, -10, 10, 20, 27, 40}; all-ones weights against no weights, weights of mixed magnitude (1e-3 .. 1e3), nearly equal weights (1%, 1e-4, 1e-6) and all equal but one; exactly tied singular values (cube, square with a short / long axis) under every 3rd isometry; every point listed twice; frame constructors: 6 exactly orthogonal integer pairs (a, p) with second argument lb (s a + t p), lengths (la, lb) in {(1,1), (1e-6,1), (1,1e-6), (1e6,1e-3), (1e-3,1e8), (1e-6,1e-6), (1e9,1e9)}, (s, t) in {(0,1), (1,1), (-2,0.5), (+-1,1e-5), (3,1e-7), (-1,1e-7), (1,-1e-5)} (second argument within 1e-5 / 1e-7 rad of parallel and anti-parallel; orthogonal part kept above 1e-8), origins None, 1e6, 1e8, (-0, 0, 1e-9); requested frames within {1e-3, 1e-5, 1e-7, 1e-9, 1e-11, -1e-6, -1e-10} rad of the 15 axis-aligned frames that are not half turns, compared to 1e-12; iso3_from_basis / Iso3::from by reference and BY VALUE / iso3_from_xyo with skew, unnormalised second vectors and origins up to 3e6; iso2_from_basis / Iso2::from by reference and by value over 12 directions x lengths {1e-8, 1, 1e8} x 3 origins x 2 ignored second vectors; planes: every order of the three points for 6 triangle shapes (one with a 0.9 degree corner, one needle) with exact dyadic coordinates, edge 2^-27 .. 2^20 at the origin and 0.125 .. 64 at up to 2^21 from it (normal along (p2-p1) x (p3-p1): cyclic orders the same plane, swaps the inverted one; containment 1e-9 of the edge), inverted_normal twice bit for bit, point-and-normal / surface-point / new() planes through points up to 1e9 from the origin with offsets l in {-2, 0.5, 1e-6, 1e6}");
    planes(&mut r);
    small_planes(&mut r);
    svd3(&mut r);
    svd_large(&mut r);
    svd2(&mut r);
    frames(&mut r);
    rank_exact(&mut r);
    handed_frames(&mut r);
    near_perpendicular_xyo(&mut r);
    far_sets(&mut r);
    rank_deficient(&mut r);
    svd_params(&mut r);
    frames_params(&mut r);
    planes_params(&mut r);
    Some(r)
}
