//! C19 bounded: "basis, frame and plane constructions are orthonormal and right-handed", evaluated on the REAL code.
//! Planes: 6 non-collinear integer point triples, 4 (normal, point) pairs, 4 query points; 7 tilted triangle shapes
//! scaled to edge lengths 1e-3 and 1e-4 at 4 anchors (containment relative to the edge length).  Large clouds:
//! SvdBasis3::from_points on deterministic box clouds (extents 1:5:20) of 2047, 2048, 2049, 4096 points.  Principal axes: 8 point sets
//! in 3D (generic, skew, planar, collinear, coincident; weighted and not) and 4 in 2D, weights from {0.5, 1, 2, 3, 4},
//! weight scale factors {2, 0.5, 8, 1e-6, 1e-18, 1e18}, the 76 (3D) / 24 (2D) isometries of the C03 bounded check for the
//! equivariance clause.  Frame constructors: the six try_from_basis_* on 10 x 11 vector pairs (all signed axis pairs,
//! skew pairs of different lengths, one nearly parallel pair at 1e-3), 3 origins, 12 parallel / zero pairs (6 of them
//! parallel along directions that are not exactly representable, so that the cross product is rounding noise);
//! iso3_from_xyo / iso3_from_basis / iso2_from_basis / Iso3::from(&SvdBasis3) / Iso2::from(&SvdBasis2).
//! Wave 4: rank(tol) with tol exactly on a singular value (hand-set and computed), frames of left- and right-handed basis
//! triples, iso3_from_xyo with a nearly perpendicular second vector (tolerance 1e-12), from_points on point sets far from
//! the origin relative to their extent (exact dyadic coordinates, offset / extent 1e5 .. 3e7).
//! Singular vectors are compared up to sign, and only where the singular values are separated (the SVD does not
//! determine them otherwise).  All float comparisons: 1e-9 relative (`close`).
use super::c03::isos3;
use super::{close, Report};
use crate::common::svd_basis::{iso2_from_basis, iso3_from_basis, iso3_from_xyo};
use crate::geom2::{Iso2, Point2, SvdBasis2, Vector2};
use crate::geom3::{Iso3, IsoExtensions3, Plane3, Point3, SurfacePoint3, SvdBasis3, UnitVec3, Vector3};
use parry3d_f64::na::Matrix3;

const E: f64 = 1e-9;
fn p3(x: f64, y: f64, z: f64) -> Point3 { Point3::new(x, y, z) }
fn v3(x: f64, y: f64, z: f64) -> Vector3 { Vector3::new(x, y, z) }
fn cp3(a: &Point3, b: &Point3) -> bool { close(a.x, b.x) && close(a.y, b.y) && close(a.z, b.z) }
fn cv3(a: &Vector3, b: &Vector3) -> bool { close(a.x, b.x) && close(a.y, b.y) && close(a.z, b.z) }
fn cp2(a: &Point2, b: &Point2) -> bool { close(a.x, b.x) && close(a.y, b.y) }
fn cv2(a: &Vector2, b: &Vector2) -> bool { close(a.x, b.x) && close(a.y, b.y) }
fn same_up_to_sign3(a: &Vector3, b: &Vector3) -> bool { cv3(a, b) || cv3(a, &(-b)) }
// clauses about singular VALUES of rank-deficient point sets (collinear, coincident, planar in 3D) carry their own name:
// nalgebra's SVD is inaccurate there (see the known finding), and a failure must not mask the full-rank clauses
fn nm(base: &str, deficient: bool) -> String { if deficient { format!("{} [rank-deficient point set]", base) } else { base.to_string() } }
fn same_up_to_sign2(a: &Vector2, b: &Vector2) -> bool { cv2(a, b) || cv2(a, &(-b)) }

// ------------------------------------------------------------------------------------------------ planes
fn planes(r: &mut Report) {
    let qs = [p3(1.0, 2.0, 3.0), p3(-0.5, 0.25, 4.0), p3(2.0, -3.0, 0.5), p3(0.0, 0.0, 0.0)];
    let scale = |p: &Point3| 1.0 + p.coords.norm();
    let triples = [
        (p3(0.0, 0.0, 0.0), p3(1.0, 0.0, 0.0), p3(0.0, 1.0, 0.0)), (p3(1.0, 2.0, 3.0), p3(4.0, 0.0, 1.0), p3(-2.0, 1.0, 5.0)),
        (p3(0.5, 0.5, 0.5), p3(0.5, 2.5, 0.5), p3(0.5, 0.5, -1.0)), (p3(3.0, -1.0, 2.0), p3(3.0, 4.0, 6.0), p3(-1.0, -1.0, 2.0)),
        (p3(0.0, 0.0, 1.0), p3(0.0, 1.0, 0.0), p3(1.0, 0.0, 0.0)), (p3(10.0, 10.0, 10.0), p3(11.0, 10.0, 10.5), p3(10.0, 12.0, 10.25)),
    ];
    let mut pls: Vec<(String, Plane3)> = vec![];
    for (a, b, c) in triples.iter() {
        r.case();
        let pl = Plane3::from((a, b, c));
        let d = || format!("Plane3::from(({:?}, {:?}, {:?}))", a.coords.as_slice(), b.coords.as_slice(), c.coords.as_slice());
        r.check(close(pl.normal.norm(), 1.0), "plane from three points: the normal is a unit vector", d);
        for p in [a, b, c] { r.check(pl.signed_distance_to_point(p).abs() <= E * scale(p), "plane from three points contains its defining points", d); }
        for p in [a, b, c] { r.check(cp3(&pl.project_point(p), p), "plane from three points projects its defining points onto themselves", d); }
        pls.push((d(), pl));
    }
    let nps = [(v3(0.0, 0.0, 1.0), p3(1.0, 2.0, 3.0)), (v3(1.0, 2.0, 2.0), p3(0.5, -1.0, 2.0)), (v3(2.0, -1.0, 2.0), p3(0.0, 0.0, 0.0)), (v3(1.0, 1.0, 0.0), p3(-3.0, 4.0, 0.25))];
    for (n, p) in nps.iter() {
        r.case();
        let u = UnitVec3::new_normalize(*n);
        let pl = Plane3::from((&u, p));
        let d = || format!("Plane3::from((normalize {:?}, {:?}))", n.as_slice(), p.coords.as_slice());
        r.check(pl.signed_distance_to_point(p).abs() <= E * scale(p), "plane from point and normal contains its defining point", d);
        r.check(cv3(&pl.normal, &u), "plane from point and normal has the given normal", d);
        r.check(cp3(&pl.project_point(p), p), "plane from point and normal projects its defining point onto itself", d);
        let sp = SurfacePoint3::new(*p, u);
        let ps = Plane3::from(&sp);
        r.check(ps.signed_distance_to_point(p).abs() <= E * scale(p) && cv3(&ps.normal, &u), "plane from a surface point contains the point and has its normal", d);
        r.check(cp3(&ps.project_point(p), p), "plane from a surface point projects its defining point onto itself", d);
        for l in [-2.0, 0.5, 3.0] { r.check(close(ps.signed_distance_to_point(&sp.at_distance(l)), l), "plane from a surface point: signed distance of point + l * normal is l", || format!("{} l = {}", d(), l)); }
        pls.push((d(), pl));
    }
    for (name, pl) in pls.iter() {
        let inv = pl.inverted_normal();
        for q in qs.iter() {
            r.case();
            let d = || format!("{} query {:?}", name, q.coords.as_slice());
            let pr = pl.project_point(q);
            r.check(pl.signed_distance_to_point(&pr).abs() <= E * scale(q), "project_point lands on the plane", d);
            r.check(cp3(&pl.project_point(&pr), &pr), "project_point is idempotent", d);
            r.check(close((q - pr).norm(), pl.distance_to_point(q)), "project_point moves the point by exactly its distance to the plane", d);
            r.check(close(pl.distance_to_point(q), pl.signed_distance_to_point(q).abs()), "distance_to_point is the absolute signed distance", d);
            r.check(close(inv.signed_distance_to_point(q), -pl.signed_distance_to_point(q)), "inverted_normal flips the signed distance", d);
            r.check(cp3(&inv.project_point(q), &pr), "inverted_normal keeps the plane in the same position", d);
        }
    }
}

/// small triangles (edge lengths 1e-3, 1e-4; tilted, far from collinear): the plane contains its defining points
/// relative to the size of the triangle -- |signed distance| <= 1e-9 * edge (the cross product of two such edges has
/// norm 1e-6 .. 1e-8: a valid plane, not a degenerate one)
fn small_planes(r: &mut Report) {
    let anchors = [p3(0.0, 0.0, 0.0), p3(1.0, 2.0, 3.0), p3(10.0, 10.0, 10.0), p3(-4.0, 0.5, 2.0)];
    let shapes = [(v3(1.0, 0.0, 0.5), v3(0.0, 1.0, 0.25)), (v3(3.0, -2.0, 2.0), v3(-6.0, -1.0, 4.0)), (v3(0.0, 2.0, 0.0), v3(0.0, 0.0, -1.5)),
        (v3(0.0, 5.0, 4.0), v3(-4.0, 0.0, 0.0)), (v3(0.0, 1.0, -1.0), v3(1.0, 0.0, -1.0)), (v3(1.0, 0.0, 0.5), v3(0.0, 2.0, 0.25)), (v3(0.6, 0.0, 0.8), v3(0.0, 1.0, 0.0))];
    for a in anchors.iter() { for (e1, e2) in shapes.iter() { for edge in [1e-3, 1e-4] {
        r.case();
        let k = edge / e1.norm().max(e2.norm());
        let b = a + e1 * k; let c = a + e2 * k;
        let size = (b - a).norm().max((c - a).norm()).max((c - b).norm());
        let pl = Plane3::from((a, &b, &c));
        let d = || format!("Plane3::from(({:?}, {:?}, {:?})) (edge {:e}, |ab x ac| = {:e}): normal {:?}, d {:e}", a.coords.as_slice(), b.coords.as_slice(), c.coords.as_slice(), size, (b - a).cross(&(c - a)).norm(), pl.normal.as_slice(), pl.d);
        r.check(close(pl.normal.norm(), 1.0), "plane from three points: the normal is a unit vector", d);
        for p in [a, &b, &c] {
            r.check(pl.signed_distance_to_point(p).abs() <= E * size, "plane from three points (small triangle) contains its defining points within 1e-9 of the edge length", d);
            r.check((pl.project_point(p) - p).norm() <= E * size, "plane from three points (small triangle) projects its defining points onto themselves within 1e-9 of the edge length", d);
        }
        let n = (b - a).cross(&(c - a)).normalize();
        r.check((pl.normal.into_inner() - n).norm() <= 1e-6, "plane from three points (small triangle): the normal is along (p2 - p1) x (p3 - p1)", d);
        let q = a + (e1 + e2) * (k / 3.0) + n * (0.5 * edge);
        r.check((pl.signed_distance_to_point(&q) - 0.5 * edge).abs() <= 1e-6 * edge, "plane from three points (small triangle): a point half an edge above the centroid has signed distance half an edge", d);
    } } }
}

// ------------------------------------------------------------------------------------------------ principal axes
struct Set3 { name: &'static str, pts: Vec<Point3>, w: Option<Vec<f64>>, rank: usize }
fn sets3() -> Vec<Set3> {
    let generic = vec![p3(0.0, 0.0, 0.0), p3(4.0, 0.0, 0.0), p3(4.0, 2.0, 0.0), p3(0.0, 2.0, 1.0), p3(1.0, 1.0, 3.0), p3(3.0, -1.0, 0.5)];
    let skew = vec![p3(1.0, 2.0, 3.0), p3(5.0, 4.0, 3.5), p3(-3.0, 0.5, 2.0), p3(2.0, 6.0, 4.0), p3(0.0, -2.0, 1.0)];
    let planar = vec![p3(0.0, 0.0, 0.0), p3(4.0, 0.0, 0.0), p3(4.0, 2.0, 0.0), p3(0.0, 2.0, 0.0), p3(1.0, 1.0, 0.0)];
    let collinear = vec![p3(0.0, 0.0, 0.0), p3(1.0, 2.0, 2.0), p3(2.0, 4.0, 4.0), p3(4.0, 8.0, 8.0)];
    let coincident = vec![p3(1.0, 2.0, 3.0); 4];
    vec![
        Set3 { name: "generic", pts: generic.clone(), w: None, rank: 3 },
        Set3 { name: "generic weighted", pts: generic.clone(), w: Some(vec![1.0, 2.0, 0.5, 4.0, 1.0, 3.0]), rank: 3 },
        Set3 { name: "skew", pts: skew.clone(), w: None, rank: 3 },
        Set3 { name: "skew weighted", pts: skew, w: Some(vec![2.0, 1.0, 1.0, 0.5, 3.0]), rank: 3 },
        Set3 { name: "planar", pts: planar.clone(), w: None, rank: 2 },
        Set3 { name: "planar weighted", pts: planar, w: Some(vec![1.0, 2.0, 3.0, 4.0, 0.5]), rank: 2 },
        Set3 { name: "collinear", pts: collinear, w: None, rank: 1 },
        Set3 { name: "coincident", pts: coincident, w: None, rank: 0 },
    ]
}
fn wmean3(pts: &[Point3], w: Option<&[f64]>) -> Point3 {
    let mut s = Vector3::zeros(); let mut t = 0.0;
    for (i, p) in pts.iter().enumerate() { let wi = w.map_or(1.0, |w| w[i]); s += p.coords * wi; t += wi; }
    Point3::from(s / t)
}
fn sv_separated(sv: &[f64], i: usize) -> bool {
    let top = sv[0].max(1e-300);
    sv[i] > 1e-3 * top && (0..sv.len()).all(|j| j == i || (sv[i] - sv[j]).abs() > 1e-3 * top)
}
fn basis_checks3(r: &mut Report, b: &SvdBasis3, d: &dyn Fn() -> String) {
    for i in 0..3 { for j in i..3 {
        let e = if i == j { 1.0 } else { 0.0 };
        r.check((b.basis[i].dot(&b.basis[j]) - e).abs() <= E, "principal axes: the basis vectors are orthonormal", || format!("{} (b{}.b{} = {})", d(), i, j, b.basis[i].dot(&b.basis[j])));
    } }
    let slack = E * (1.0 + b.sv[0]);
    r.check(b.sv[0] + slack >= b.sv[1] && b.sv[1] + slack >= b.sv[2] && b.sv[2] >= 0.0, "principal axes: singular values are non-negative and non-increasing", || format!("{} sv = {:?}", d(), b.sv));
}
fn svd3(r: &mut Report) {
    let qs = [p3(1.0, 2.0, 3.0), p3(-0.5, 0.25, 4.0), p3(2.0, -3.0, 0.5)];
    let isos = isos3();
    for s in sets3().iter() {
        r.case();
        let w = s.w.as_deref();
        let d = || format!("SvdBasis3::from_points({:?}, weights = {:?}) [{}]", s.pts.iter().map(|p| (p.x, p.y, p.z)).collect::<Vec<_>>(), s.w, s.name);
        let b = SvdBasis3::from_points(&s.pts, w);
        let c = wmean3(&s.pts, w);
        r.check(cp3(&b.center, &c), "principal axes: the centre is the (weighted) mean", d);
        r.check(b.n == s.pts.len(), "principal axes: n is the number of points", d);
        basis_checks3(r, &b, &d);
        // sv_i^2 / n == variance of the points along axis i (unweighted sets; for weighted sets the decomposed rows are w_i (p_i - c))
        let var = b.basis_variances(); let sd = b.basis_stdevs();
        for i in 0..3 {
            let along: f64 = s.pts.iter().enumerate().map(|(k, p)| { let wk = w.map_or(1.0, |w| w[k]); (wk * b.basis[i].dot(&(p - c))).powi(2) }).sum::<f64>() / s.pts.len() as f64;
            r.check((b.sv[i].powi(2) / s.pts.len() as f64 - along).abs() <= E * (1.0 + along) && (var[i] - along).abs() <= E * (1.0 + along), &nm("principal axes: sv^2 / n equals the variance of the (weighted) centred points along each axis", s.rank < 3), || format!("{} axis {}", d(), i));
            r.check((sd[i] - along.sqrt()).abs() <= 1e-7 * (1.0 + along.sqrt()), "principal axes: basis_stdevs is the square root of the variance", || format!("{} axis {}", d(), i));
        }
        r.check(b.rank(1e-9 * (1.0 + b.sv[0])) == s.rank, "principal axes: the rank reflects the dimension of the point set", d);
        // round trip through the basis
        for q in qs.iter().chain(s.pts.iter()) {
            let dq = || format!("{} point {:?}", d(), q.coords.as_slice());
            r.check(cp3(&b.point_from_basis(&b.point_to_basis(q)), q), "principal axes: point_from_basis(point_to_basis(p)) == p", dq);
            r.check(cp3(&b.point_to_basis(&b.point_from_basis(q)), q), "principal axes: point_to_basis(point_from_basis(p)) == p", dq);
            r.check(close(b.point_to_basis(q).coords.norm(), (q - b.center).norm()), "principal axes: point_to_basis keeps the distance to the centre", dq);
            r.check(close(b.vec_to_basis(&q.coords).norm(), q.coords.norm()), "principal axes: vec_to_basis keeps the length", dq);
        }
        r.check(b.point_to_basis(&b.center).coords.norm() <= E, "principal axes: the centre has basis coordinates 0", d);
        if s.rank >= 1 { r.check(cv3(&b.largest().into_inner(), &b.basis[0]) && cv3(&b.smallest().into_inner(), &b.basis[2]), "principal axes: largest / smallest are the first / last basis vector", d); }
        // the frame of the basis: a proper rotation taking the centre to the origin and the first two axes to x and y
        if s.rank == 3 {
            let f = Iso3::from(&b);
            let m: Matrix3<f64> = f.rotation.to_rotation_matrix().into_inner();
            r.check(((m.transpose() * m) - Matrix3::identity()).norm() <= E && close(m.determinant(), 1.0), "Iso3::from(&SvdBasis3) is a proper rotation", d);
            r.check((f * b.center).coords.norm() <= E * (1.0 + b.center.coords.norm()), "Iso3::from(&SvdBasis3) takes the centre to the origin", d);
            r.check(cp3(&(f * (b.center + b.basis[0])), &p3(1.0, 0.0, 0.0)) && cp3(&(f * (b.center + b.basis[1])), &p3(0.0, 1.0, 0.0)), "Iso3::from(&SvdBasis3) takes the first two principal axes to x and y", d);
            r.check(cp3(&(f * (b.center + b.basis[0].cross(&b.basis[1]))), &p3(0.0, 0.0, 1.0)), "Iso3::from(&SvdBasis3) is right-handed (b0 x b1 goes to z)", d);
        }
        // unchanged by uniformly scaling all weights
        for k in [2.0, 0.5, 8.0, 1e-6, 1e-18, 1e18] {
            let w2: Vec<f64> = (0..s.pts.len()).map(|i| k * w.map_or(1.0, |w| w[i])).collect();
            let b2 = SvdBasis3::from_points(&s.pts, Some(&w2));
            let dk = || format!("{} all weights x {}", d(), k);
            r.check(cp3(&b2.center, &b.center), "principal axes: the centre is unchanged by uniformly scaling all weights", dk);
            basis_checks3(r, &b2, &dk);
            for i in 0..3 {
                r.check((b2.sv[i] - k * b.sv[i]).abs() <= E * (1.0 + k * b.sv[0]), "principal axes: scaling all weights by k scales the singular values by k", dk);
                if sv_separated(&b.sv, i) { r.check(same_up_to_sign3(&b2.basis[i], &b.basis[i]), "principal axes: the basis is unchanged (up to sign) by uniformly scaling all weights", || format!("{} axis {}", dk(), i)); }
            }
        }
        // equivariance under rigid motion
        for it in isos.iter() { let t = &it.t;
            let moved: Vec<Point3> = s.pts.iter().map(|p| t * p).collect();
            let bm = SvdBasis3::from_points(&moved, w);
            let dt = || format!("{} {}", d(), it.name);
            r.check(cp3(&bm.center, &(t * b.center)), "principal axes: the centre moves with a rigid motion of the points", dt);
            basis_checks3(r, &bm, &dt);
            let cm = t * c;
            for i in 0..3 {
                r.check((bm.sv[i] - b.sv[i]).abs() <= E * (1.0 + b.sv[0]), &nm("principal axes: singular values are invariant under a rigid motion of the points", s.rank < 3), dt);
                let along: f64 = moved.iter().enumerate().map(|(k, p)| { let wk = w.map_or(1.0, |w| w[k]); (wk * bm.basis[i].dot(&(p - cm))).powi(2) }).sum::<f64>() / moved.len() as f64;
                r.check((bm.sv[i].powi(2) / moved.len() as f64 - along).abs() <= E * (1.0 + along), &nm("principal axes: sv^2 / n equals the variance of the (weighted) centred points along each axis", s.rank < 3), || format!("{} axis {}", dt(), i));
                if sv_separated(&b.sv, i) { r.check(same_up_to_sign3(&bm.basis[i], &(t * b.basis[i])), "principal axes: the basis vectors rotate (up to sign) with a rigid motion of the points", || format!("{} axis {}", dt(), i)); }
            }
            r.check(bm.rank(1e-9 * (1.0 + bm.sv[0])) == s.rank, "principal axes: the rank is invariant under a rigid motion of the points", dt);
        }
    }
}
/// deterministic box clouds: n points uniform (64-bit LCG, top 53 bits) in a box with extents 1 : 5 : 20 along x, y, z
/// (smallest extent FIRST, so that an unsorted decomposition shows) around (3, -2, 7)
fn lcg_cloud(n: usize) -> Vec<Point3> {
    let mut state: u64 = 0x9E37_79B9_7F4A_7C15;
    let mut next = move || { state = state.wrapping_mul(6364136223846793005).wrapping_add(1442695040888963407); (state >> 11) as f64 / (1u64 << 53) as f64 - 0.5 };
    (0..n).map(|_| { let (u, v, w) = (next(), next(), next()); p3(3.0 + u, -2.0 + 5.0 * v, 7.0 + 20.0 * w) }).collect()
}
fn svd_large(r: &mut Report) {
    let isos = isos3();
    for n in [2047usize, 2048, 2049, 4096] {
        let pts = lcg_cloud(n);
        for weighted in [false, true] {
            r.case();
            let wv: Vec<f64> = (0..n).map(|i| [1.0, 2.0, 0.5, 4.0][i % 4]).collect();
            let w: Option<&[f64]> = if weighted { Some(&wv) } else { None };
            let d = || format!("SvdBasis3::from_points(box cloud 1 x 5 x 20, n = {}, {})", n, if weighted { "weights 1, 2, 0.5, 4 repeating" } else { "no weights" });
            let b = SvdBasis3::from_points(&pts, w);
            let c = wmean3(&pts, w);
            r.check(cp3(&b.center, &c), "principal axes: the centre is the (weighted) mean", d);
            r.check(b.n == n, "principal axes: n is the number of points", d);
            basis_checks3(r, &b, &d);
            r.check(b.sv[0] > b.sv[1] && b.sv[1] > b.sv[2], "principal axes (box cloud 1:5:20): singular values strictly decreasing", || format!("{} sv = {:?}", d(), b.sv));
            r.check(same_up_to_sign3(&b.basis[0], &v3(0.0, 0.0, 1.0)) || b.basis[0].z.abs() > 0.99, "principal axes (box cloud 1:5:20): the first axis is the long direction of the box", || format!("{} basis = {:?}", d(), b.basis));
            r.check(b.basis[2].x.abs() > 0.99, "principal axes (box cloud 1:5:20): the last axis is the short direction of the box", || format!("{} basis = {:?}", d(), b.basis));
            let var = b.basis_variances();
            for i in 0..3 {
                let along: f64 = pts.iter().enumerate().map(|(k, p)| { let wk = w.map_or(1.0, |w| w[k]); (wk * b.basis[i].dot(&(p - c))).powi(2) }).sum::<f64>() / n as f64;
                r.check((b.sv[i].powi(2) / n as f64 - along).abs() <= E * (1.0 + along) && (var[i] - along).abs() <= E * (1.0 + along), "principal axes: sv^2 / n equals the variance of the (weighted) centred points along each axis", || format!("{} axis {}: sv^2/n = {}, variance {}", d(), i, b.sv[i].powi(2) / n as f64, along));
            }
            r.check(b.rank(1e-9 * (1.0 + b.sv[0])) == 3, "principal axes: the rank reflects the dimension of the point set", d);
            r.check(cv3(&b.largest().into_inner(), &b.basis[0]) && cv3(&b.smallest().into_inner(), &b.basis[2]), "principal axes: largest / smallest are the first / last basis vector", d);
            for q in [p3(1.0, 2.0, 3.0), pts[0], pts[n - 1]].iter() {
                r.check(cp3(&b.point_from_basis(&b.point_to_basis(q)), q) && cp3(&b.point_to_basis(&b.point_from_basis(q)), q), "principal axes: point_from_basis(point_to_basis(p)) == p", || format!("{} point {:?}", d(), q.coords.as_slice()));
            }
            // equivariance: every 5th isometry of the family (identity, quarter turns, general rotations, translations)
            for it in isos.iter().step_by(if weighted { 15 } else { 5 }) { let t = &it.t;
                let moved: Vec<Point3> = pts.iter().map(|p| t * p).collect();
                let bm = SvdBasis3::from_points(&moved, w);
                let dt = || format!("{} {}", d(), it.name);
                r.check(cp3(&bm.center, &(t * b.center)), "principal axes: the centre moves with a rigid motion of the points", dt);
                basis_checks3(r, &bm, &dt);
                for i in 0..3 {
                    r.check((bm.sv[i] - b.sv[i]).abs() <= E * (1.0 + b.sv[0]), "principal axes: singular values are invariant under a rigid motion of the points", || format!("{}: {:?} vs {:?}", dt(), bm.sv, b.sv));
                    r.check(same_up_to_sign3(&bm.basis[i], &(t * b.basis[i])), "principal axes: the basis vectors rotate (up to sign) with a rigid motion of the points", || format!("{} axis {}", dt(), i));
                }
            }
        }
    }
}
fn svd2(r: &mut Report) {
    let p2 = |x: f64, y: f64| Point2::new(x, y);
    let sets: Vec<(&str, Vec<Point2>, Option<Vec<f64>>, usize)> = vec![
        ("generic", vec![p2(0.0, 0.0), p2(4.0, 0.0), p2(4.0, 2.0), p2(1.0, 3.0)], None, 2),
        ("generic weighted", vec![p2(0.0, 0.0), p2(4.0, 0.0), p2(4.0, 2.0), p2(1.0, 3.0)], Some(vec![1.0, 2.0, 0.5, 4.0]), 2),
        ("collinear", vec![p2(0.0, 0.0), p2(3.0, 4.0), p2(6.0, 8.0)], None, 1),
        ("coincident", vec![p2(1.0, 2.0); 3], None, 0),
    ];
    for (name, pts, w, rank) in sets.iter() {
        r.case();
        let wr = w.as_deref();
        let d = || format!("SvdBasis2::from_points({:?}, weights = {:?}) [{}]", pts.iter().map(|p| (p.x, p.y)).collect::<Vec<_>>(), w, name);
        let b = SvdBasis2::from_points(pts, wr);
        let mut s = Vector2::zeros(); let mut tw = 0.0;
        for (i, p) in pts.iter().enumerate() { let wi = wr.map_or(1.0, |w| w[i]); s += p.coords * wi; tw += wi; }
        let c = Point2::from(s / tw);
        r.check(cp2(&b.center, &c), "principal axes 2D: the centre is the (weighted) mean", d);
        r.check((b.basis[0].dot(&b.basis[0]) - 1.0).abs() <= E && (b.basis[1].dot(&b.basis[1]) - 1.0).abs() <= E && b.basis[0].dot(&b.basis[1]).abs() <= E, "principal axes 2D: the basis vectors are orthonormal", d);
        r.check(b.sv[0] + E * (1.0 + b.sv[0]) >= b.sv[1] && b.sv[1] >= 0.0, "principal axes 2D: singular values are non-negative and non-increasing", d);
        for i in 0..2 {
            let along: f64 = pts.iter().enumerate().map(|(k, p)| { let wk = wr.map_or(1.0, |w| w[k]); (wk * b.basis[i].dot(&(p - c))).powi(2) }).sum::<f64>() / pts.len() as f64;
            r.check((b.basis_variances()[i] - along).abs() <= E * (1.0 + along), &nm("principal axes 2D: sv^2 / n equals the variance of the (weighted) centred points along each axis", *rank < 2), || format!("{} axis {}", d(), i));
        }
        r.check(b.rank(1e-9 * (1.0 + b.sv[0])) == *rank, "principal axes 2D: the rank reflects the dimension of the point set", d);
        for q in [p2(1.0, 2.0), p2(-0.5, 0.25)].iter().chain(pts.iter()) {
            r.check(cp2(&b.point_from_basis(&b.point_to_basis(q)), q) && cp2(&b.point_to_basis(&b.point_from_basis(q)), q), "principal axes 2D: to-basis / from-basis round trip", || format!("{} point {:?}", d(), q.coords.as_slice()));
        }
        for k in [2.0, 0.5, 8.0, 1e-6, 1e-18, 1e18] {
            let w2: Vec<f64> = (0..pts.len()).map(|i| k * wr.map_or(1.0, |w| w[i])).collect();
            let b2 = SvdBasis2::from_points(pts, Some(&w2));
            let dk = || format!("{} all weights x {}", d(), k);
            r.check(cp2(&b2.center, &b.center), "principal axes 2D: the centre is unchanged by uniformly scaling all weights", dk);
            for i in 0..2 { if sv_separated(&b.sv, i) { r.check(same_up_to_sign2(&b2.basis[i], &b.basis[i]), "principal axes 2D: the basis is unchanged (up to sign) by uniformly scaling all weights", dk); } }
        }
        for it in super::c03::isos2().iter() { let t = &it.t;
            let moved: Vec<Point2> = pts.iter().map(|p| t * p).collect();
            let bm = SvdBasis2::from_points(&moved, wr);
            let dt = || format!("{} {}", d(), it.name);
            r.check(cp2(&bm.center, &(t * b.center)), "principal axes 2D: the centre moves with a rigid motion of the points", dt);
            let cm = t * c;
            for i in 0..2 {
                r.check((bm.sv[i] - b.sv[i]).abs() <= E * (1.0 + b.sv[0]), &nm("principal axes 2D: singular values are invariant under a rigid motion of the points", *rank < 2), dt);
                let along: f64 = moved.iter().enumerate().map(|(k, p)| { let wk = wr.map_or(1.0, |w| w[k]); (wk * bm.basis[i].dot(&(p - cm))).powi(2) }).sum::<f64>() / moved.len() as f64;
                r.check((bm.sv[i].powi(2) / moved.len() as f64 - along).abs() <= E * (1.0 + along), &nm("principal axes 2D: sv^2 / n equals the variance of the (weighted) centred points along each axis", *rank < 2), dt);
                if sv_separated(&b.sv, i) { r.check(same_up_to_sign2(&bm.basis[i], &(t * b.basis[i])), "principal axes 2D: the basis vectors rotate (up to sign) with a rigid motion of the points", dt); }
            }
        }
        if *rank == 2 {
            let f: Iso2 = Iso2::from(&b);
            r.check((f * b.center).coords.norm() <= E * (1.0 + b.center.coords.norm()) && cp2(&(f * (b.center + b.basis[0])), &p2(1.0, 0.0)), "Iso2::from(&SvdBasis2) takes the centre to the origin and the first axis to x", d);
            let f2 = iso2_from_basis(&b.basis, &b.center);
            r.check(cp2(&(f2 * (b.center + Vector2::new(-b.basis[0].y, b.basis[0].x))), &p2(0.0, 1.0)), "iso2_from_basis is right-handed (the first axis turned by +90 degrees goes to y)", d);
        }
    }
}

// ------------------------------------------------------------------------------------------------ frame constructors
// the frame the statement asks for: primary axis = normalised first argument, secondary axis = the part of the second
// argument orthogonal to it (normalised), third axis completing a right-handed frame; columns in x, y, z order
fn expected_frame(a: &Vector3, b: &Vector3, pi: usize, si: usize) -> Matrix3<f64> {
    let prim = a.normalize();
    let sec = (b - prim * b.dot(&prim)).normalize();
    let ti = 3 - pi - si;
    let sign = if (pi + 1) % 3 == si { 1.0 } else { -1.0 };
    let third = prim.cross(&sec) * sign;
    let mut cols = [Vector3::zeros(); 3];
    cols[pi] = prim; cols[si] = sec; cols[ti] = third;
    Matrix3::from_columns(&cols)
}
fn is_half_turn(m: &Matrix3<f64>) -> bool { (m.trace() + 1.0).abs() < 1e-6 }
const HALF_TURN3: &str = "frame constructor, requested frame exactly a half turn away from the world axes: returns that frame (proper rotation, primary and secondary axis as requested)";
const HALF_TURN_B3: &str = "iso3_from_basis / Iso3::from(&SvdBasis3), basis exactly a half turn away from the world axes: takes origin, first and second axis to 0, x, y";
const HALF_TURN_B2: &str = "iso2_from_basis / Iso2::from(&SvdBasis2), first axis exactly (-1, 0): takes the origin to 0 and the first axis to x";
fn frames(r: &mut Report) {
    type Ctor = fn(&Vector3, &Vector3, Option<Point3>) -> crate::Result<Iso3>;
    let ctors: [(&str, Ctor, usize, usize); 6] = [
        ("try_from_basis_xy", Iso3::try_from_basis_xy, 0, 1), ("try_from_basis_xz", Iso3::try_from_basis_xz, 0, 2), ("try_from_basis_yz", Iso3::try_from_basis_yz, 1, 2),
        ("try_from_basis_yx", Iso3::try_from_basis_yx, 1, 0), ("try_from_basis_zx", Iso3::try_from_basis_zx, 2, 0), ("try_from_basis_zy", Iso3::try_from_basis_zy, 2, 1),
    ];
    let firsts = [v3(1.0, 0.0, 0.0), v3(-2.0, 0.0, 0.0), v3(0.0, 1.0, 0.0), v3(0.0, -1.0, 0.0), v3(0.0, 0.0, 0.5), v3(0.0, 0.0, -3.0),
        v3(1.0, 1.0, 0.0), v3(1.0, 2.0, 2.0), v3(0.5, -0.25, 2.0), v3(-1.0, 0.0, 1.0)];
    let seconds = [v3(1.0, 0.0, 0.0), v3(-1.0, 0.0, 0.0), v3(0.0, 4.0, 0.0), v3(0.0, -1.0, 0.0), v3(0.0, 0.0, 1.0), v3(0.0, 0.0, -0.5),
        v3(0.0, 1.0, 1.0), v3(2.0, -1.0, 0.5), v3(1.0, 1.0, 1.0), v3(-1.0, -1.0, 0.25), v3(0.0, 0.0, 0.0)];
    let origins = [None, Some(p3(1.0, 2.0, 3.0)), Some(p3(-100.0, 0.5, 0.0))];
    let axes = [v3(1.0, 0.0, 0.0), v3(0.0, 1.0, 0.0), v3(0.0, 0.0, 1.0)];
    for (cname, ctor, pi, si) in ctors.iter() {
        for a in firsts.iter() { for (k, b0) in seconds.iter().enumerate() {
            // the last "second" is a nearly parallel companion of the first argument: a + 1e-3 * (a x (1, 2, 3))
            let b = if k + 1 == seconds.len() { a + a.cross(&v3(1.0, 2.0, 3.0)) * 1e-3 } else { *b0 };
            let cr = a.cross(&b);
            if cr.norm() < 1e-6 { continue; } // parallel pairs are exercised below
            let want = expected_frame(a, &b, *pi, *si);
            for o in origins.iter() {
                r.case();
                let d = || format!("Iso3::{}({:?}, {:?}, {:?})", cname, a.as_slice(), b.as_slice(), o.map(|p| (p.x, p.y, p.z)));
                match ctor(a, &b, *o) {
                    Err(_) => r.check(false, "frame constructor succeeds for non-parallel, non-zero vectors", d),
                    Ok(f) => {
                        let m: Matrix3<f64> = f.rotation.to_rotation_matrix().into_inner();
                        let og = o.unwrap_or(p3(0.0, 0.0, 0.0));
                        r.check(cp3(&(f * Point3::origin()), &og), "frame constructor maps the origin to the given point", d);
                        if is_half_turn(&want) {
                            r.check((m - want).norm() <= E, HALF_TURN3, d);
                            continue;
                        }
                        r.check(((m.transpose() * m) - Matrix3::identity()).norm() <= E, "frame constructor returns an orthonormal frame", d);
                        r.check(close(m.determinant(), 1.0), "frame constructor returns a proper (right-handed) rotation", d);
                        let prim = f * axes[*pi]; let sec = f * axes[*si];
                        r.check(cv3(&prim, &a.normalize()), "frame constructor: the primary axis is exactly the normalised first argument", d);
                        r.check(sec.dot(&b) > 0.0, "frame constructor: the secondary axis lies on the side of the second argument", d);
                        r.check(sec.dot(&cr.normalize()).abs() <= E && sec.dot(&a.normalize()).abs() <= E, "frame constructor: the secondary axis lies in the plane of the two arguments, orthogonal to the primary axis", d);
                        let third = 3 - pi - si;
                        let sign = if (pi + 1) % 3 == *si { 1.0 } else { -1.0 };
                        r.check(cv3(&(f * axes[third]), &(prim.cross(&sec) * sign)), "frame constructor: the third axis completes a right-handed frame", d);
                        r.check((m - want).norm() <= 10.0 * E, "frame constructor returns the frame (normalised first argument, orthogonalised second argument, right-handed third axis)", d);
                    }
                }
            }
        } }
        // parallel or zero inputs fail rather than returning garbage
        let bad: Vec<(Vector3, Vector3)> = vec![(v3(1.0, 2.0, 2.0), v3(2.0, 4.0, 4.0)), (v3(1.0, 2.0, 2.0), v3(-1.0, -2.0, -2.0)), (v3(0.0, 0.0, 3.0), v3(0.0, 0.0, 0.5)),
            (v3(0.0, 0.0, 0.0), v3(0.0, 1.0, 0.0)), (v3(1.0, 0.0, 0.0), v3(0.0, 0.0, 0.0)), (v3(0.0, 0.0, 0.0), v3(0.0, 0.0, 0.0)),
            // parallel along directions that are not exactly representable: the cross product is rounding noise, not 0
            (v3(0.3, -1.7, 2.9), v3(0.3, -1.7, 2.9) * 7.0), (v3(0.3, -1.7, 2.9), v3(0.3, -1.7, 2.9) * -0.1), (v3(0.1, 0.2, 0.3), v3(0.3, 0.6, 0.9)),
            (v3(1.1, 2.3, -0.7) * 3.0, v3(1.1, 2.3, -0.7) / 3.0), (v3(0.1, 0.7, 0.0), v3(-0.3, -2.1, 0.0)), (v3(1e-3, 2e-3, 5e-3), v3(0.7, 1.4, 3.5))];
        for (a, b) in bad.iter() {
            r.case();
            r.check(ctor(a, b, Some(p3(1.0, 2.0, 3.0))).is_err(), "frame constructor fails for parallel or zero inputs", || format!("Iso3::{}({:?}, {:?}, ..)", cname, a.as_slice(), b.as_slice()));
        }
    }
    // iso3_from_xyo / iso3_from_basis: the world-to-frame isometry of (x, y-ish, origin)
    for a in firsts.iter() { for b in seconds.iter().take(10) {
        if a.cross(b).norm() < 1e-6 { continue; }
        r.case();
        let o = p3(1.0, 2.0, 3.0);
        let d = || format!("x = normalize {:?}, y = normalize {:?}, origin (1, 2, 3)", a.as_slice(), b.as_slice());
        let x = UnitVec3::new_normalize(*a); let y = UnitVec3::new_normalize(*b);
        let yo = UnitVec3::new_normalize(y.into_inner() - x.into_inner() * x.dot(&y));
        let half = is_half_turn(&expected_frame(a, b, 0, 1));
        let f = iso3_from_xyo(&x, &y, &o);
        let m: Matrix3<f64> = f.rotation.to_rotation_matrix().into_inner();
        let fy = f * y.into_inner();
        let ok_xyo = ((m.transpose() * m) - Matrix3::identity()).norm() <= E && close(m.determinant(), 1.0)
            && (f * o).coords.norm() <= E * 10.0 && cp3(&(f * (o + x.into_inner())), &p3(1.0, 0.0, 0.0)) && fy.y > 0.0 && fy.z.abs() <= E;
        r.check(ok_xyo, if half { HALF_TURN_B3 } else { "iso3_from_xyo: proper rotation taking the origin point to 0, the x direction to x and the y argument into the upper xy half-plane" }, || format!("iso3_from_xyo: {}", d()));
        // orthonormal input basis (lengths are irrelevant, the third vector is ignored)
        let g = iso3_from_basis(&[x.into_inner() * 2.0, yo.into_inner() * 0.5, Vector3::zeros()], &o);
        let ok_basis = (g * o).coords.norm() <= E * 10.0 && cp3(&(g * (o + x.into_inner())), &p3(1.0, 0.0, 0.0)) && cp3(&(g * (o + yo.into_inner())), &p3(0.0, 1.0, 0.0)) && cp3(&(g * (o + x.cross(&yo))), &p3(0.0, 0.0, 1.0));
        r.check(ok_basis, if half { HALF_TURN_B3 } else { "iso3_from_basis takes origin, first and second axis to 0, x, y and is right-handed" }, || format!("iso3_from_basis: {}", d()));
    } }
    // iso2_from_basis: first axis in 12 directions
    for (bx, by) in [(1.0, 0.0), (-1.0, 0.0), (0.0, 1.0), (0.0, -2.0), (3.0, 4.0), (-3.0, 4.0), (-1.0, -1.0), (1.0, -1e-3), (-1.0, 1e-3), (-1.0, -1e-9), (-0.6, 0.8), (0.28, -0.96)] {
        r.case();
        let o = Point2::new(1.0, 2.0);
        let b0 = Vector2::new(bx, by);
        let f = iso2_from_basis(&[b0, Vector2::zeros()], &o);
        let n = b0.normalize();
        let ok = (f * o).coords.norm() <= E * 10.0 && cp2(&(f * (o + n)), &Point2::new(1.0, 0.0)) && cp2(&(f * (o + Vector2::new(-n.y, n.x))), &Point2::new(0.0, 1.0));
        r.check(ok, if bx < 0.0 && by == 0.0 { HALF_TURN_B2 } else { "iso2_from_basis takes the origin to 0, the first axis to x and is right-handed" }, || format!("iso2_from_basis([{:?}, ..], (1, 2))", (bx, by)));
    }
}

// ------------------------------------------------------------------------------------------------ wave 4 additions
fn ulp_up(x: f64) -> f64 { if x > 0.0 { f64::from_bits(x.to_bits() + 1) } else if x < 0.0 { -f64::from_bits((-x).to_bits() - 1) } else { f64::from_bits(1) } }
fn ulp_down(x: f64) -> f64 { -ulp_up(-x) }

/// rank(tol) counts the singular values STRICTLY greater than tol ("tol is the largest value a singular value can
/// have and still be considered zero"): bases with hand-set singular values, tolerances exactly on a singular value
/// and one ulp to either side; computed bases queried at their own singular values; coincident points at tol 0.
fn rank_exact(r: &mut Report) {
    let pool = [0.0, 5e-324, 1e-12, 0.5, 1.0, ulp_up(1.0), 2.0, 1e300];
    let mut tols: Vec<f64> = vec![-1.0, -0.0, f64::INFINITY, f64::MAX];
    for &s in pool.iter() { tols.push(s); tols.push(ulp_up(s)); if s > 0.0 { tols.push(ulp_down(s)); } }
    let count = |sv: &[f64], tol: f64| sv.iter().filter(|s| **s > tol).count();
    for (i, &a) in pool.iter().enumerate() { for (j, &b) in pool.iter().enumerate() { for (k, &c) in pool.iter().enumerate() {
        if !(i >= j && j >= k) { continue; } // non-increasing triples
        r.case();
        let b3 = SvdBasis3 { basis: [v3(1.0, 0.0, 0.0), v3(0.0, 1.0, 0.0), v3(0.0, 0.0, 1.0)], sv: [a, b, c], center: p3(0.0, 0.0, 0.0), n: 4 };
        for &t in tols.iter() {
            r.check(b3.rank(t) == count(&b3.sv, t), "rank: the number of singular values strictly greater than the tolerance (a singular value equal to the tolerance counts as zero)", || format!("SvdBasis3 with sv = {:?}, rank({:?})", b3.sv, t));
        }
        if k == 0 {
            let b2 = SvdBasis2 { basis: [Vector2::new(1.0, 0.0), Vector2::new(0.0, 1.0)], sv: [a, b], center: Point2::new(0.0, 0.0), n: 3 };
            for &t in tols.iter() {
                r.check(b2.rank(t) == count(&b2.sv, t), "rank: the number of singular values strictly greater than the tolerance (a singular value equal to the tolerance counts as zero)", || format!("SvdBasis2 with sv = {:?}, rank({:?})", b2.sv, t));
            }
        }
    } } }
    // computed decompositions queried exactly at their own singular values
    for s in sets3().iter() {
        r.case();
        let b = SvdBasis3::from_points(&s.pts, s.w.as_deref());
        for i in 0..3 { for t in [b.sv[i], ulp_up(b.sv[i])] {
            r.check(b.rank(t) == count(&b.sv, t), "rank: the number of singular values strictly greater than the tolerance (a singular value equal to the tolerance counts as zero)", || format!("SvdBasis3::from_points [{}] sv = {:?}, rank({:?})", s.name, b.sv, t));
        } }
        if s.rank == 0 {
            r.check(b.rank(0.0) == 0, "rank: coincident points have rank 0 at tolerance 0 (all singular values are exactly 0)", || format!("SvdBasis3::from_points [{}] sv = {:?}, rank(0.0) = {}", s.name, b.sv, b.rank(0.0)));
        }
    }
    // dyadic coordinates: n * q and its division by n are exact, so every centred vector is exactly zero
    for n in [3usize, 4, 7] { for q in [Point2::new(1.0, 2.0), Point2::new(-0.5, 0.25), Point2::new(0.0, 0.0)] {
        r.case();
        let b = SvdBasis2::from_points(&vec![q; n], None);
        r.check(b.rank(0.0) == 0, "rank: coincident points have rank 0 at tolerance 0 (all singular values are exactly 0)", || format!("SvdBasis2::from_points({} x {:?}) sv = {:?}, rank(0.0) = {}", n, (q.x, q.y), b.sv, b.rank(0.0)));
        let q3 = p3(q.x, q.y, 0.75);
        let b = SvdBasis3::from_points(&vec![q3; n + 1], None);
        r.check(b.rank(0.0) == 0, "rank: coincident points have rank 0 at tolerance 0 (all singular values are exactly 0)", || format!("SvdBasis3::from_points({} x {:?}) sv = {:?}, rank(0.0) = {}", n + 1, (q3.x, q3.y, q3.z), b.sv, b.rank(0.0)));
    } }
}

/// iso3_from_basis / Iso3::from(&SvdBasis3) on full basis TRIPLES of either handedness (an SVD returns right- and
/// left-handed triples alike): the frame is a proper rotation, its x axis is basis[0], its y axis is basis[1]
/// (never basis[2] or a vector derived from it), its z axis is basis[0] x basis[1].
fn handed_frames(r: &mut Report) {
    let firsts = [v3(1.0, 0.0, 0.0), v3(0.0, -1.0, 0.0), v3(0.0, 0.0, 1.0), v3(1.0, 1.0, 0.0), v3(1.0, 2.0, 2.0), v3(0.5, -0.25, 2.0), v3(-1.0, 0.0, 1.0), v3(-3.0, 4.0, 12.0)];
    let seconds = [v3(0.0, 1.0, 0.0), v3(0.0, 0.0, -1.0), v3(1.0, 0.0, 0.0), v3(2.0, -1.0, 0.5), v3(1.0, 1.0, 1.0), v3(-1.0, -1.0, 0.25)];
    let origins = [p3(0.0, 0.0, 0.0), p3(1.0, 2.0, 3.0), p3(-100.0, 0.5, 0.0)];
    for a in firsts.iter() { for b in seconds.iter() {
        if a.cross(b).norm() < 1e-6 { continue; }
        let x = a.normalize();
        let y = (b - x * b.dot(&x)).normalize();
        let z = x.cross(&y);
        if is_half_turn(&Matrix3::from_columns(&[x, y, z])) { continue; } // has its own clause in frames()
        for (hname, third) in [("right-handed", z), ("left-handed", -z)] { for o in origins.iter() {
            r.case();
            let basis = [x, y, third];
            let d = || format!("{} orthonormal triple [{:?}, {:?}, {:?}], origin {:?}", hname, x.as_slice(), y.as_slice(), third.as_slice(), (o.x, o.y, o.z));
            let sb = SvdBasis3 { basis, sv: [3.0, 2.0, 1.0], center: *o, n: 5 };
            for (fname, f) in [("iso3_from_basis", iso3_from_basis(&basis, o)), ("Iso3::from(&SvdBasis3)", Iso3::from(&sb))] {
                let dd = || format!("{}: {}", fname, d());
                let m: Matrix3<f64> = f.rotation.to_rotation_matrix().into_inner();
                r.check(((m.transpose() * m) - Matrix3::identity()).norm() <= E && close(m.determinant(), 1.0), "frame of a basis triple (either handedness) is a proper rotation", dd);
                r.check((f * o).coords.norm() <= E * (1.0 + o.coords.norm()), "frame of a basis triple (either handedness) takes the origin point to 0", dd);
                r.check(cp3(&(f * (o + x)), &p3(1.0, 0.0, 0.0)), "frame of a basis triple (either handedness): the first basis vector goes to x", dd);
                r.check(cp3(&(f * (o + y)), &p3(0.0, 1.0, 0.0)), "frame of a basis triple (either handedness): the SECOND basis vector goes to y", dd);
                r.check(cp3(&(f * (o + z)), &p3(0.0, 0.0, 1.0)), "frame of a basis triple (either handedness): basis[0] x basis[1] goes to z", dd);
            }
        } }
    } }
    // computed bases: whatever handedness the decomposition returns, the frame is proper and keeps the first two axes
    for s in sets3().iter().filter(|s| s.rank == 3) { for it in isos3().iter().step_by(3) {
        r.case();
        let moved: Vec<Point3> = s.pts.iter().map(|p| it.t * p).collect();
        let b = SvdBasis3::from_points(&moved, s.w.as_deref());
        let m0 = Matrix3::from_columns(&[b.basis[0], b.basis[1], b.basis[0].cross(&b.basis[1])]);
        if is_half_turn(&m0) { continue; }
        let d = || format!("SvdBasis3::from_points [{}] moved by {}: basis {:?} (det {:?})", s.name, it.name, b.basis, Matrix3::from_columns(&b.basis).determinant());
        let f = Iso3::from(&b);
        let m: Matrix3<f64> = f.rotation.to_rotation_matrix().into_inner();
        r.check(((m.transpose() * m) - Matrix3::identity()).norm() <= E && close(m.determinant(), 1.0), "frame of a basis triple (either handedness) is a proper rotation", d);
        r.check(cp3(&(f * (b.center + b.basis[0])), &p3(1.0, 0.0, 0.0)), "frame of a basis triple (either handedness): the first basis vector goes to x", d);
        r.check(cp3(&(f * (b.center + b.basis[1])), &p3(0.0, 1.0, 0.0)), "frame of a basis triple (either handedness): the SECOND basis vector goes to y", d);
    } }
}

/// iso3_from_xyo with a second vector that is nearly but not exactly perpendicular to the first
/// (0 < |x . y| < 1e-3): the result is orthonormal to 1e-12 (not merely to the size of x . y) and x goes exactly to x.
fn near_perpendicular_xyo(r: &mut Report) {
    const T: f64 = 1e-12;
    let firsts = [v3(1.0, 0.0, 0.0), v3(0.0, 1.0, 0.0), v3(0.0, 0.0, -1.0), v3(1.0, 1.0, 0.0), v3(1.0, 2.0, 2.0), v3(0.5, -0.25, 2.0), v3(-1.0, 0.0, 1.0), v3(-3.0, 4.0, 12.0)];
    let helpers = [v3(0.0, 1.0, 0.0), v3(0.0, 0.0, 1.0), v3(1.0, 0.0, 0.0), v3(2.0, -1.0, 0.5), v3(1.0, 1.0, 1.0)];
    let tilts = [9e-4, 5e-4, 1e-4, 1e-5, 1e-6, 1e-7, 1e-8, 1e-9, 1e-10, 1e-11];
    let origins = [p3(0.0, 0.0, 0.0), p3(1.0, 2.0, 3.0)];
    for a in firsts.iter() { for h in helpers.iter() {
        if a.cross(h).norm() < 1e-6 { continue; }
        let xv = a.normalize();
        let perp = (h - xv * h.dot(&xv)).normalize();
        for &t in tilts.iter() { for sg in [1.0, -1.0] { for o in origins.iter() {
            let x = UnitVec3::new_normalize(xv);
            let y = UnitVec3::new_normalize(perp + xv * (sg * t));
            let along = x.dot(&y);
            if !(along.abs() > 0.0 && along.abs() < 1e-3) { continue; }
            if is_half_turn(&Matrix3::from_columns(&[xv, perp, xv.cross(&perp)])) { continue; }
            r.case();
            let d = || format!("iso3_from_xyo(x = {:?}, y = {:?} (x . y = {:e}), origin {:?})", x.as_slice(), y.as_slice(), along, (o.x, o.y, o.z));
            let f = iso3_from_xyo(&x, &y, o);
            let m: Matrix3<f64> = f.rotation.to_rotation_matrix().into_inner();
            r.check(((m.transpose() * m) - Matrix3::identity()).norm() <= T && (m.determinant() - 1.0).abs() <= T, "iso3_from_xyo, y nearly perpendicular to x (0 < |x . y| < 1e-3): proper rotation, orthonormal to 1e-12", d);
            let fx = f * x.into_inner();
            r.check((fx - v3(1.0, 0.0, 0.0)).norm() <= T, "iso3_from_xyo, y nearly perpendicular to x: the x direction goes exactly to x (1e-12)", d);
            let fy = f * y.into_inner();
            r.check(fy.y > 0.0 && fy.z.abs() <= T && (fy.x - along).abs() <= T, "iso3_from_xyo, y nearly perpendicular to x: the y argument goes into the upper xy half-plane keeping its component along x (1e-12)", d);
            r.check((f * o).coords.norm() <= T * (1.0 + o.coords.norm()), "iso3_from_xyo, y nearly perpendicular to x: the origin point goes to 0", d);
        } } }
    } }
}

/// point sets FAR from the origin relative to their own extent (offset / extent from 1e5 to 3e7): translating the
/// set must not change the singular values (relative 1e-9), the axes (up to sign) or the centre relative to the set.
/// All coordinates are dyadic and all offsets integers below 2^26, point counts and weight totals are powers of two:
/// the translated points, their mean and the centred vectors are exact in f64, so a decomposition of the centred
/// points sees bit-identical input.
fn far_sets(r: &mut Report) {
    const G: f64 = 1.0 / 1048576.0; // 2^-20
    let corners = |e1: Vector3, e2: Vector3, e3: Vector3, base: Point3| -> Vec<Point3> {
        let mut v = vec![];
        for a in [0.0, 1.0] { for b in [0.0, 1.0] { for c in [0.0, 1.0] { v.push(base + e1 * a + e2 * b + e3 * c); } } }
        v
    };
    // slabs 6 x 3 x 0.125 (axis-aligned; skew edges; thin direction first), and a 16-point set with interior points
    let mut slab16 = corners(v3(6.0, 0.0, 0.0), v3(0.0, 3.0, 0.0), v3(0.0, 0.0, 0.125), p3(-3.0, -1.5, 0.0));
    slab16.extend(corners(v3(2.0, 0.5, 0.0), v3(-0.5, 1.0, 0.0), v3(0.0, 0.0, 0.0625), p3(0.25, -0.75, 0.03125)));
    let sets: Vec<(&str, Vec<Point3>)> = vec![
        ("slab 6 x 3 x 0.125, axis-aligned", corners(v3(6.0, 0.0, 0.0), v3(0.0, 3.0, 0.0), v3(0.0, 0.0, 0.125), p3(-3.0, -1.5, 0.0))),
        ("slab 0.125 x 3 x 6 (thin direction first)", corners(v3(0.125, 0.0, 0.0), v3(0.0, 3.0, 0.0), v3(0.0, 0.0, 6.0), p3(0.0, 1.0, -2.0))),
        ("skew slab, edges (4,2,0) (-1.5,3,0.5) (0.0625,-0.03125,0.125)", corners(v3(4.0, 2.0, 0.0), v3(-1.5, 3.0, 0.5), v3(0.0625, -0.03125, 0.125), p3(1.0, 0.0, -1.0))),
        ("16 points in a 6 x 3 x 0.125 slab", slab16),
        // coordinates on a 2^-20 grid: still exact after the translation (46 bits), but products of two coordinates are not
        ("slab 6 x 3 x 0.125 on a 2^-20 grid", corners(v3(6.0 - 2.0 * G, G, 0.0), v3(-3.0 * G, 3.0 + G, 5.0 * G), v3(7.0 * G, -G, 0.125 + 3.0 * G), p3(-3.0 + G, -1.5 + 3.0 * G, 5.0 * G))),
        ("small skew slab 2 x 1 x 0.0625 on a 2^-20 grid", corners(v3(2.0 - G, 3.0 * G, 0.0), v3(-0.25, 1.0 + G, 5.0 * G), v3(G, -G, 0.0625), p3(-1.0 + 3.0 * G, -0.5, G))),
        ("skew slab on a 2^-20 grid", corners(v3(4.0 + G, 2.0 - 3.0 * G, 0.0), v3(-1.5 + 5.0 * G, 3.0, 0.5 + G), v3(0.0625, -0.03125 + G, 0.125 - G), p3(1.0 + 7.0 * G, 0.0, -1.0 - G))),
    ];
    let w8 = [1.0, 2.0, 1.0, 4.0, 2.0, 2.0, 1.0, 3.0];
    let offsets = [v3(600000.0, 0.0, 0.0), v3(0.0, -1048576.0, 524288.0), v3(2e6, -3e6, 1e6), v3(4e7, 1e7, -2e7), v3(-33554432.0, 33554432.0, 16777216.0), v3(0.0, 0.0, 6e7)];
    for (name, pts) in sets.iter() { for weighted in [false, true] {
        let wv: Vec<f64> = (0..pts.len()).map(|i| w8[i % 8]).collect();
        let w: Option<&[f64]> = if weighted { Some(&wv) } else { None };
        let b = SvdBasis3::from_points(pts, w);
        for off in offsets.iter() {
            r.case();
            let moved: Vec<Point3> = pts.iter().map(|p| p + off).collect();
            let d = || format!("SvdBasis3::from_points([{}] translated by {:?}, {})", name, off.as_slice(), if weighted { "weights 1,2,1,4,2,2,1,3 repeating" } else { "no weights" });
            if !pts.iter().zip(moved.iter()).all(|(p, q)| (q - off - p.coords).coords.norm() == 0.0) { r.check(false, "far point sets: the translated test points are exact (oracle self-check)", d); continue; }
            let bm = SvdBasis3::from_points(&moved, w);
            basis_checks3(r, &bm, &d);
            r.check(((bm.center - off) - b.center).norm() <= 1e-9 * (1.0 + b.sv[0]), "principal axes far from the origin: the centre moves with the translation (relative to the extent of the set)", || format!("{}: centre {:?} vs {:?} + offset", d(), bm.center.coords.as_slice(), b.center.coords.as_slice()));
            for i in 0..3 {
                r.check((bm.sv[i] - b.sv[i]).abs() <= 1e-9 * b.sv[i], "principal axes far from the origin (offset / extent 1e5 .. 3e7): singular values are invariant under translation to relative 1e-9", || format!("{}: sv {:?} vs {:?} at the origin", d(), bm.sv, b.sv));
                if sv_separated(&b.sv, i) { r.check(same_up_to_sign3(&bm.basis[i], &b.basis[i]), "principal axes far from the origin (offset / extent 1e5 .. 3e7): the axes are unchanged (up to sign) by a translation", || format!("{} axis {}: {:?} vs {:?}", d(), i, bm.basis[i].as_slice(), b.basis[i].as_slice())); }
                let c = bm.center;
                let along: f64 = moved.iter().enumerate().map(|(k, p)| { let wk = w.map_or(1.0, |w| w[k]); (wk * bm.basis[i].dot(&(p - c))).powi(2) }).sum::<f64>() / moved.len() as f64;
                r.check((bm.sv[i].powi(2) / moved.len() as f64 - along).abs() <= E * (1e-6 + along), "principal axes far from the origin: sv^2 / n equals the variance of the (weighted) centred points along each axis", || format!("{} axis {}", d(), i));
            }
            r.check(bm.rank(1e-9 * (1.0 + bm.sv[0])) == 3, "principal axes far from the origin: the rank reflects the dimension of the point set", d);
        }
    } }
    // 2D: rectangles 6 x 0.125 (axis-aligned and skew), 4 and 8 points
    let rect = |e1: Vector2, e2: Vector2, base: Point2| -> Vec<Point2> { let mut v = vec![]; for a in [0.0, 1.0] { for b in [0.0, 1.0] { v.push(base + e1 * a + e2 * b); } } v };
    let mut r8 = rect(Vector2::new(6.0, 0.0), Vector2::new(0.0, 0.125), Point2::new(-3.0, 0.0));
    r8.extend(rect(Vector2::new(2.0, 0.0625), Vector2::new(-0.5, 0.03125), Point2::new(0.25, 0.03125)));
    let sets2: Vec<(&str, Vec<Point2>)> = vec![
        ("rectangle 6 x 0.125", rect(Vector2::new(6.0, 0.0), Vector2::new(0.0, 0.125), Point2::new(-3.0, 0.0))),
        ("skew rectangle, edges (4,2) (-0.0625,0.125)", rect(Vector2::new(4.0, 2.0), Vector2::new(-0.0625, 0.125), Point2::new(1.0, -1.0))),
        ("8 points in a 6 x 0.125 strip", r8),
        ("rectangle 6 x 0.125 on a 2^-20 grid", rect(Vector2::new(6.0 - 2.0 * G, 3.0 * G), Vector2::new(-G, 0.125 + 5.0 * G), Point2::new(-3.0 + G, 7.0 * G))),
    ];
    let offsets2 = [Vector2::new(600000.0, 0.0), Vector2::new(2e6, -3e6), Vector2::new(4e7, 1e7), Vector2::new(-33554432.0, 16777216.0)];
    for (name, pts) in sets2.iter() { for weighted in [false, true] {
        let wv: Vec<f64> = (0..pts.len()).map(|i| [1.0, 2.0, 1.0, 4.0][i % 4]).collect();
        let w: Option<&[f64]> = if weighted { Some(&wv) } else { None };
        let b = SvdBasis2::from_points(pts, w);
        for off in offsets2.iter() {
            r.case();
            let moved: Vec<Point2> = pts.iter().map(|p| p + off).collect();
            let d = || format!("SvdBasis2::from_points([{}] translated by {:?}, {})", name, off.as_slice(), if weighted { "weights 1,2,1,4 repeating" } else { "no weights" });
            let bm = SvdBasis2::from_points(&moved, w);
            r.check((bm.basis[0].dot(&bm.basis[0]) - 1.0).abs() <= E && (bm.basis[1].dot(&bm.basis[1]) - 1.0).abs() <= E && bm.basis[0].dot(&bm.basis[1]).abs() <= E, "principal axes 2D: the basis vectors are orthonormal", d);
            r.check(((bm.center - off) - b.center).norm() <= 1e-9 * (1.0 + b.sv[0]), "principal axes far from the origin: the centre moves with the translation (relative to the extent of the set)", d);
            for i in 0..2 {
                r.check((bm.sv[i] - b.sv[i]).abs() <= 1e-9 * b.sv[i], "principal axes far from the origin (offset / extent 1e5 .. 3e7): singular values are invariant under translation to relative 1e-9", || format!("{}: sv {:?} vs {:?} at the origin", d(), bm.sv, b.sv));
                if sv_separated(&b.sv, i) { r.check(same_up_to_sign2(&bm.basis[i], &b.basis[i]), "principal axes far from the origin (offset / extent 1e5 .. 3e7): the axes are unchanged (up to sign) by a translation", || format!("{} axis {}", d(), i)); }
            }
        }
    } }
}

pub fn run() -> Option<Report> {
    let mut r = Report::new("planes: 6 non-collinear point triples, 4 (normal, point) pairs / surface points, 4 queries, and 7 tilted triangle shapes scaled to edge lengths 1e-3 and 1e-4 at 4 anchor points (containment within 1e-9 of the edge); principal axes: box clouds of n in {2047, 2048, 2049, 4096} LCG points with extents 1:5:20 (unweighted and with weights 1,2,0.5,4 repeating; every 5th / 15th isometry of the family); 8 point sets in 3D (generic, skew, planar, collinear, coincident; weights from {0.5..4}) and 4 in 2D, weight scale factors {2, 0.5, 8, 1e-6, 1e-18, 1e18}, 76 (3D) / 24 (2D) isometries (quarter turns, 30/45 degrees, general axis, translations up to 1000); singular vectors compared up to sign and only where singular values are separated by > 1e-3 of the largest; frame constructors: six try_from_basis_* x 10 first x 11 second arguments (all signed axis pairs, skew, unequal lengths, one nearly parallel pair at 1e-3) x 3 origins, 12 parallel / zero pairs each (6 of them parallel along directions that are not exactly representable); iso3_from_xyo / iso3_from_basis / iso2_from_basis / Iso3::from(&SvdBasis3); all comparisons to 1e-9; wave 4: rank(tol) on hand-set singular values over {0, 5e-324, 1e-12, 0.5, 1, 1+2^-52, 2, 1e300} with tol exactly on a value and one ulp to either side, coincident dyadic points at tol 0; iso3_from_basis / Iso3::from(&SvdBasis3) on right- and left-handed orthonormal triples from 8 x 6 vector pairs x 3 origins; iso3_from_xyo with y tilted towards +-x by 1e-11 .. 9e-4 (0 < |x.y| < 1e-3) for 8 x 5 direction pairs, tolerance 1e-12; from_points on 7 slabs (3D) / 4 rectangles (2D) with exact dyadic coordinates translated by integer offsets with offset / extent 1e5 .. 3e7 (|offset| <= 6e7), weighted and not, singular values to relative 1e-9");
    planes(&mut r);
    small_planes(&mut r);
    svd3(&mut r);
    svd_large(&mut r);
    svd2(&mut r);
    frames(&mut r);
    rank_exact(&mut r);
    handed_frames(&mut r);
    near_perpendicular_xyo(&mut r);
    far_sets(&mut r);
    Some(r)
}
