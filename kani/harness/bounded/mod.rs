//! BOUNDED native checks (engine B) -- the stated-bound stand-in of DESIGN.md section 3b.
//! Executable forms of contract clauses evaluated on the REAL code over a small, explicitly enumerated input space.
//! They are NOT proofs and are never counted as discharged obligations; they exist so that a change which rewrites a
//! function beyond the verifier's reach (Verus: "undecided") is still decided on a stated bound, with a concrete
//! failing input. Inputs use small integer / dyadic coordinates so that the arithmetic is exact or nearly so; every
//! comparison of computed lengths uses the tolerance TOL below.
#![allow(dead_code)]

pub const TOL: f64 = 1e-9;

pub struct Report {
    pub cases: u64,
    pub checks: u64,
    pub failures: Vec<String>,
    pub bound: &'static str,
}
impl Report {
    pub fn new(bound: &'static str) -> Self { Report { cases: 0, checks: 0, failures: vec![], bound } }
    pub fn case(&mut self) { self.cases += 1; }
    /// record one evaluated clause; `input` is only rendered on failure
    pub fn check<F: FnOnce() -> String>(&mut self, cond: bool, what: &str, input: F) {
        self.checks += 1;
        // keep at most 2 failing inputs per distinct clause (and 40 in total) so that one failing clause cannot hide another
        if !cond && self.failures.len() < 40 {
            let prefix = format!("{} | input: ", what);
            if self.failures.iter().filter(|f| f.starts_with(&prefix)).count() < 2 {
                self.failures.push(format!("{}{}", prefix, input()));
            }
        }
    }
}
/// true when the check runs in the thorough tier (`./check CNN thorough`): modules may enlarge their input space
pub fn thorough() -> bool { std::env::var("VERIF_TIER").map(|v| v == "thorough").unwrap_or(false) }
pub fn close(a: f64, b: f64) -> bool { (a - b).abs() <= TOL * (1.0 + a.abs().max(b.abs())) }

pub mod c01;
pub mod c02;
pub mod c03;
pub mod c04;
pub mod c05;
pub mod c06;
pub mod c07;
pub mod c08;
pub mod c09;
pub mod c10;
pub mod c11;
pub mod c12;
pub mod c13;
pub mod c14;
pub mod c15;
pub mod c16;
pub mod c17;
pub mod c18;
pub mod c19;
pub mod c20;

pub fn run(prop: &str) -> Option<Report> {
    match prop {
        "C01" => Some(c01::run()),
        "C02" => c02::run(),
        "C03" => c03::run(),
        "C04" => c04::run(),
        "C05" => c05::run(),
        "C06" => c06::run(),
        "C07" => c07::run(),
        "C08" => c08::run(),
        "C09" => c09::run(),
        "C10" => c10::run(),
        "C11" => c11::run(),
        "C12" => c12::run(),
        "C13" => c13::run(),
        "C14" => c14::run(),
        "C15" => c15::run(),
        "C16" => c16::run(),
        "C17" => c17::run(),
        "C18" => c18::run(),
        "C19" => c19::run(),
        "C20" => c20::run(),
        _ => None,
    }
}
