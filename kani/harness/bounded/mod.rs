//! BOUNDED native checks (engine B) -- the stated-bound stand-in of DESIGN.md section 3b.
//! Executable forms of contract clauses evaluated on the REAL code over a small, explicitly enumerated input space.
//! They are NOT proofs and are never counted as discharged obligations; they exist so that a change which rewrites a
//! function beyond the verifier's reach (Verus: "undecided") is still decided on a stated bound, with a concrete
//! failing input. Inputs use small integer / dyadic coordinates so that the arithmetic is exact or nearly so; every
//! comparison of computed lengths uses the tolerance TOL below.
#![allow(dead_code)]

pub const TOL: f64 = 1e-9;

pub struct Report {
    pub cases: u64,
    pub checks: u64,
    pub failures: Vec<String>,
    pub bound: &'static str,
}
impl Report {
    pub fn new(bound: &'static str) -> Self { Report { cases: 0, checks: 0, failures: vec![], bound } }
    pub fn case(&mut self) { self.cases += 1; }
    /// record one evaluated clause; `input` is only rendered on failure
    pub fn check<F: FnOnce() -> String>(&mut self, cond: bool, what: &str, input: F) {
        self.checks += 1;
        // keep at most 2 failing inputs per distinct clause (and 40 in total) so that one failing clause cannot hide another
        if !cond && self.failures.len() < 40 {
            let prefix = format!("{} | input: ", what);
            if self.failures.iter().filter(|f| f.starts_with(&prefix)).count() < 2 {
                self.failures.push(format!("{}{}", prefix, input()));
            }
        }
    }
}
pub fn close(a: f64, b: f64) -> bool { (a - b).abs() <= TOL * (1.0 + a.abs().max(b.abs())) }

pub mod c01;

pub fn run(prop: &str) -> Option<Report> {
    match prop {
        "C01" => Some(c01::run()),
        _ => None,
    }
}
